// scratch experiment (deleted afterwards)
package main

import (
	"context"
	"fmt"
	"time"

	configapi "github.com/onosproject/onos-api/go/onos/config/v2"
	"github.com/openconfig/gnmi/proto/gnmi"
	"github.com/openconfig/gnmi/proto/gnmi_ext"
	"google.golang.org/grpc/status"

	"verifharness/env"
	"verifharness/fakes"
)

func guard(name string, f func() (interface{}, error)) {
	defer func() {
		if r := recover(); r != nil {
			fmt.Printf("%s: PANIC %v\n", name, r)
		}
	}()
	resp, err := f()
	if err != nil {
		fmt.Printf("%s: err %v %v\n", name, status.Code(err), err)
	} else {
		fmt.Printf("%s: ok %.100v\n", name, resp)
	}
}

func main() {
	env.Quiet()
	plugin := &fakes.PluginClient{Name: "devicesim", Version: "1.0.0"}
	plugin.RW = append(plugin.RW, fakes.RWPath("/dec", configapi.ValueType_DECIMAL, false, ""),
		fakes.RWPath("/list[k=*]/k", configapi.ValueType_STRING, true, "k"))
	e := env.New(0, plugin)
	e.Topo.AddTarget("t1", "devicesim", "1.0.0", false, false)
	e.StartControllers(false)
	ctx := func() context.Context { c, _ := context.WithTimeout(context.Background(), 2*time.Second); return c }
	b, _ := (&configapi.TransactionStrategy{Synchronicity: configapi.TransactionStrategy_ASYNCHRONOUS}).Marshal()
	ext := []*gnmi_ext.Extension{{Ext: &gnmi_ext.Extension_RegisteredExt{RegisteredExt: &gnmi_ext.RegisteredExtension{Id: configapi.TransactionStrategyExtensionID, Msg: b}}}}
	dec := &gnmi.TypedValue{Value: &gnmi.TypedValue_DecimalVal{DecimalVal: &gnmi.Decimal64{Digits: 15, Precision: 64}}}
	guard("set key leaf with decimal precision 64", func() (interface{}, error) {
		return e.Gnmi.Set(ctx(), &gnmi.SetRequest{Update: []*gnmi.Update{{Path: &gnmi.Path{Target: "t1", Elem: []*gnmi.PathElem{{Name: "list", Key: map[string]string{"k": "a"}}, {Name: "k"}}}, Val: dec}}, Extension: ext})
	})
	guard("set /dec precision 64", func() (interface{}, error) {
		return e.Gnmi.Set(ctx(), &gnmi.SetRequest{Update: []*gnmi.Update{{Path: &gnmi.Path{Target: "t1", Elem: []*gnmi.PathElem{{Name: "dec"}}}, Val: dec}}, Extension: ext})
	})
	time.Sleep(300 * time.Millisecond)
	guard("get json", func() (interface{}, error) {
		return e.Gnmi.Get(ctx(), &gnmi.GetRequest{Path: []*gnmi.Path{{Target: "t1"}}, Encoding: gnmi.Encoding_JSON})
	})
}

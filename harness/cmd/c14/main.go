// c14: observations for property C14 (RBAC on Set, filtering of the all-targets listing)
package main

import (
	"bufio"
	"context"
	"flag"
	"fmt"
	"math/rand"
	"os"
	"sort"
	"strings"
	"sync"
	"time"

	"github.com/grpc-ecosystem/go-grpc-middleware/util/metautils"
	configapi "github.com/onosproject/onos-api/go/onos/config/v2"
	"github.com/onosproject/onos-config/pkg/utils"
	"github.com/openconfig/gnmi/proto/gnmi"
	"github.com/openconfig/gnmi/proto/gnmi_ext"
	"google.golang.org/grpc/metadata"
	"google.golang.org/grpc/status"

	"verifharness/env"
	"verifharness/fakes"
)

var words = []string{"AetherROCAdmin", "EnterpriseAdmin", "Admin", "ROC", "users", "", "a", "Aether", "charlie",
	"EnterpriseAdmin2", "aetherrocadmin", "AetherROCAdmin,EnterpriseAdmin", "t1", "t2", "t3", "AetherROC", "dmin", ",", ";", " ", "Enterprise", "mixedGroup", "é",
	// group names with blanks inside: one group each, never the words they contain
	"Friends of AetherROCAdmin", "retired AetherROCAdmin", "operators of t3", "t1 t2", "t2\tt3", "AetherROCAdmin ", " t1", "RocBoss staff", "EnterpriseAdmin team"}

func genGroupList(r *rand.Rand, sep string) string {
	n := r.Intn(4)
	if r.Intn(8) == 0 {
		return ""
	}
	parts := []string{}
	for i := 0; i <= n; i++ {
		w := env.Pick(r, words)
		if r.Intn(10) == 0 { // a random substring / superstring of a word
			if len(w) > 1 {
				a := r.Intn(len(w))
				b := a + r.Intn(len(w)-a)
				w = w[a : b+1]
			} else {
				w += "x"
			}
		}
		parts = append(parts, w)
	}
	return strings.Join(parts, sep)
}

func asyncExt() *gnmi_ext.Extension {
	b, _ := (&configapi.TransactionStrategy{Synchronicity: configapi.TransactionStrategy_ASYNCHRONOUS}).Marshal()
	return &gnmi_ext.Extension{Ext: &gnmi_ext.Extension_RegisteredExt{RegisteredExt: &gnmi_ext.RegisteredExtension{
		Id: configapi.TransactionStrategyExtensionID, Msg: b}}}
}

func main() {
	seed := flag.Int64("seed", 1, "")
	nEval := flag.Int("eval", 5000, "")
	nSet := flag.Int("set", 150, "")
	nList := flag.Int("list", 400, "")
	nOverlap := flag.Int("overlap", 120, "")
	corpus := flag.String("corpus", "", "file with extra admin<TAB>groups lines (hex) evaluated first")
	flag.Parse()
	env.Quiet()
	r := rand.New(rand.NewSource(*seed))
	out := bufio.NewWriter(os.Stdout)
	defer out.Flush()

	evalOne := func(id string, admin, groups string) {
		os.Setenv("ADMINGROUPS", admin)
		md := metautils.NiceMD(metadata.Pairs("groups", groups))
		res := 0
		if utils.TemporaryEvaluate(md) == nil {
			res = 1
		}
		fmt.Fprintf(out, "rbac.eval\t%s\t%s\t%s\t%d\n", id, env.Hx(admin), env.Hx(groups), res)
	}
	if *corpus != "" {
		if b, err := os.ReadFile(*corpus); err == nil {
			for i, ln := range strings.Split(string(b), "\n") {
				f := strings.Split(ln, "\t")
				if len(f) == 2 {
					evalOne(fmt.Sprintf("corpus:%d", i), f[0], f[1])
				}
			}
		}
	}
	for i := 0; i < *nEval; i++ {
		evalOne(fmt.Sprintf("%d:e%d", *seed, i), genGroupList(r, ","), genGroupList(r, ";"))
	}

	// the real Set and Get handlers over real stores and controllers
	plugin := &fakes.PluginClient{Name: "devicesim", Version: "1.0.0"}
	for _, p := range []string{"/foo", "/bar"} {
		plugin.RW = append(plugin.RW, fakes.RWPath(p, configapi.ValueType_STRING, false, ""))
	}
	e := env.New(0, plugin)
	targets := []string{"t1", "t2", "t3", "EnterpriseAdmin"}
	for _, t := range targets {
		e.Topo.AddTarget(t, "devicesim", "1.0.0", false, false)
	}
	e.StartControllers(false)
	defer e.StopControllers()

	for i := 0; i < *nSet; i++ {
		admin := genGroupList(r, ",")
		if r.Intn(3) == 0 {
			admin = "AetherROCAdmin,EnterpriseAdmin"
		}
		groups := genGroupList(r, ";")
		name, pref := "", ""
		if r.Intn(4) != 0 {
			name = env.Pick(r, []string{"alice", "bob"})
		}
		if r.Intn(3) == 0 {
			pref = "user1"
		}
		pairs := []string{}
		if name != "" {
			pairs = append(pairs, "name", name)
		}
		if pref != "" {
			pairs = append(pairs, "preferred_username", pref)
		}
		if groups != "" || r.Intn(2) == 0 {
			pairs = append(pairs, "groups", groups)
		}
		os.Setenv("ADMINGROUPS", admin)
		ctx, cancel := context.WithTimeout(context.Background(), 20*time.Second)
		if len(pairs) > 0 || r.Intn(2) == 0 {
			ctx = metadata.NewIncomingContext(ctx, metadata.Pairs(pairs...))
		}
		before := e.NumTx()
		_, err := e.Gnmi.Set(ctx, &gnmi.SetRequest{
			Update: []*gnmi.Update{{Path: &gnmi.Path{Target: "t1", Elem: []*gnmi.PathElem{{Name: "foo"}}},
				Val: &gnmi.TypedValue{Value: &gnmi.TypedValue_StringVal{StringVal: fmt.Sprintf("v%d", i)}}}},
			Extension: []*gnmi_ext.Extension{asyncExt()},
		})
		cancel()
		code := "OK"
		if err != nil {
			code = status.Code(err).String()
		}
		fmt.Fprintf(out, "rbac.set\t%d:s%d\t%s\t%s\t%s\t%s\t%s\t%d\n", *seed, i, env.Hx(admin), env.Hx(name), env.Hx(pref), env.Hx(groups), code, e.NumTx()-before)
	}

	for i := 0; i < *nList; i++ {
		oidc := r.Intn(4) != 0
		if oidc {
			os.Setenv("OIDC_SERVER_URL", "http://dex:5556")
		} else {
			os.Unsetenv("OIDC_SERVER_URL")
		}
		ovr := ""
		if r.Intn(4) == 0 {
			ovr = env.Pick(r, []string{"RocBoss", "users", "t2"})
		}
		if ovr != "" {
			os.Setenv("AetherROCAdmin", ovr)
		} else if r.Intn(3) == 0 {
			os.Setenv("AetherROCAdmin", "") // present but empty: the default ROC admin group still applies
		} else {
			os.Unsetenv("AetherROCAdmin")
		}
		groups := genGroupList(r, ";")
		if r.Intn(5) == 0 {
			groups += ";RocBoss"
		}
		name := ""
		if r.Intn(5) != 0 {
			name = "alice"
		}
		pairs := []string{"groups", groups}
		if name != "" {
			pairs = append(pairs, "name", name)
		}
		ctx := metadata.NewIncomingContext(context.Background(), metadata.Pairs(pairs...))
		enc := gnmi.Encoding_PROTO
		resp, err := e.Gnmi.Get(ctx, &gnmi.GetRequest{Path: []*gnmi.Path{{Target: "*"}}, Encoding: enc})
		reported := []string{}
		if err != nil {
			reported = []string{"ERROR:" + status.Code(err).String()}
		} else {
			for _, n := range resp.Notification {
				for _, u := range n.Update {
					for _, el := range u.Val.GetLeaflistVal().GetElement() {
						reported = append(reported, el.GetStringVal())
					}
				}
			}
		}
		sort.Strings(reported)
		o := "0"
		if oidc {
			o = "1"
		}
		fmt.Fprintf(out, "rbac.list\t%d:l%d\t%s\t%s\t%s\t%s\t%s\t%s\n", *seed, i, o, env.Hx(ovr), env.Hx(name), env.Hx(groups), env.HxList(targets), env.HxList(reported))
	}

	// overlapping listings: the first caller is held inside the topology List call until a second, complete listing by
	// another caller has been served; each must still see exactly what its OWN groups name
	os.Setenv("OIDC_SERVER_URL", "http://dex:5556")
	os.Unsetenv("AetherROCAdmin")
	listOnce := func(groups, name string) []string {
		pairs := []string{"groups", groups}
		if name != "" {
			pairs = append(pairs, "name", name)
		}
		ctx := metadata.NewIncomingContext(context.Background(), metadata.Pairs(pairs...))
		resp, err := e.Gnmi.Get(ctx, &gnmi.GetRequest{Path: []*gnmi.Path{{Target: "*"}}, Encoding: gnmi.Encoding_PROTO})
		reported := []string{}
		if err != nil {
			reported = []string{"ERROR:" + status.Code(err).String()}
		} else {
			for _, n := range resp.Notification {
				for _, u := range n.Update {
					for _, el := range u.Val.GetLeaflistVal().GetElement() {
						reported = append(reported, el.GetStringVal())
					}
				}
			}
		}
		sort.Strings(reported)
		return reported
	}
	for i := 0; i < *nOverlap; i++ {
		gA := genGroupList(r, ";")
		if r.Intn(2) == 0 {
			gA = env.Pick(r, []string{"t1", "t2", "users", "t3;users", "charlie"})
		}
		gB := genGroupList(r, ";")
		if r.Intn(2) == 0 {
			gB = env.Pick(r, []string{"AetherROCAdmin", "AetherROCAdmin;t1", "t2;t3;AetherROCAdmin", "t3"})
		}
		var mu sync.Mutex
		first := true
		entered := make(chan struct{})
		release := make(chan struct{})
		e.Topo.SetOnList(func() {
			mu.Lock()
			f := first
			first = false
			mu.Unlock()
			if f {
				close(entered)
				<-release
			}
		})
		doneA := make(chan []string, 1)
		go func() { doneA <- listOnce(gA, "alice") }()
		var repA, repB []string
		select {
		case <-entered:
			repB = listOnce(gB, "bob")
			close(release)
			repA = <-doneA
		case repA = <-doneA: // the listing never asked the topology: nothing to overlap with
			repB = listOnce(gB, "bob")
		case <-time.After(20 * time.Second):
			repA = []string{"ERROR:stalled"}
			close(release)
		}
		e.Topo.SetOnList(nil)
		fmt.Fprintf(out, "rbac.list\t%d:oa%d\t1\t-\t%s\t%s\t%s\t%s\n", *seed, i, env.Hx("alice"), env.Hx(gA), env.HxList(targets), env.HxList(repA))
		fmt.Fprintf(out, "rbac.list\t%d:ob%d\t1\t-\t%s\t%s\t%s\t%s\n", *seed, i, env.Hx("bob"), env.Hx(gB), env.HxList(targets), env.HxList(repB))
	}
}

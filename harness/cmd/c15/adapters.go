// adapters: one uniform face over the five real stores of /repo (v2 transaction, proposal, configuration;
// v3 transaction, configuration).  Every method calls the repository's exported store API and nothing else.
package main

import (
	"context"
	"strconv"
	"sync"
	"time"

	"github.com/atomix/go-sdk/pkg/test"
	api2 "github.com/onosproject/onos-api/go/onos/config/v2"
	api3 "github.com/onosproject/onos-api/go/onos/config/v3"
	cfg2 "github.com/onosproject/onos-config/pkg/store/v2/configuration"
	prop2 "github.com/onosproject/onos-config/pkg/store/v2/proposal"
	tx2 "github.com/onosproject/onos-config/pkg/store/v2/transaction"
	cfg3 "github.com/onosproject/onos-config/pkg/store/v3/configuration"
	tx3 "github.com/onosproject/onos-config/pkg/store/v3/transaction"
	"github.com/onosproject/onos-lib-go/pkg/errors"
)

// pvv is a path value (flat, pairwise unrelated paths only)
type pvv struct {
	val uint64
	idx uint64
	del bool
}

// rec is the client's copy of a record, store-kind independent
type rec struct {
	key      string
	idok     bool // ID / Key present
	tgtok    bool // target id (v2) / target id+type+version (v3) present
	txok     bool // proposal: TransactionIndex != 0
	version  uint64
	revision uint64
	index    uint64
	payload  uint64
	vals     map[string]pvv // nil = no values passed; in a Get answer: the committed values
	avals    map[string]pvv // in a Get answer: the applied values
}

type event struct {
	typ     string // R C U D, X = channel closed
	key     string
	version uint64
}

type adapter interface {
	create(r *rec) error
	update(r *rec) error
	updateStatus(r *rec) error
	get(key string) (*rec, error)
	list() ([]*rec, error)
	// watch forwards the store's events to out (unbuffered hand-over, one event read ahead); a closed store channel yields X
	watch(ctx context.Context, replay bool, idkey string, out chan<- event) error
	canIDWatch(key string) bool
}

func code(err error) string {
	switch {
	case err == nil:
		return "ok"
	case errors.IsInvalid(err):
		return "invalid"
	case errors.IsNotFound(err):
		return "notfound"
	case errors.IsAlreadyExists(err):
		return "exists"
	case errors.IsConflict(err):
		return "conflict"
	}
	return "other"
}

func bg() context.Context { return context.Background() }

const tgtName = "tgt"

func pstr(p uint64) string { return strconv.FormatUint(p, 10) }
func pnum(s string) uint64 { n, _ := strconv.ParseUint(s, 10, 64); return n }

func v2vals(m map[string]pvv) map[string]*api2.PathValue {
	if m == nil {
		return nil
	}
	r := map[string]*api2.PathValue{}
	for p, v := range m {
		r[p] = &api2.PathValue{Path: p, Value: api2.TypedValue{Bytes: []byte(pstr(v.val)), Type: api2.ValueType_STRING}, Deleted: v.del, Index: api2.Index(v.idx)}
	}
	return r
}

func v2valsBack(m map[string]*api2.PathValue) map[string]pvv {
	r := map[string]pvv{}
	for p, v := range m {
		r[p] = pvv{val: pnum(string(v.Value.Bytes)), idx: uint64(v.Index), del: v.Deleted}
	}
	return r
}

func v3vals(m map[string]pvv) map[string]api3.PathValue {
	if m == nil {
		return nil
	}
	r := map[string]api3.PathValue{}
	for p, v := range m {
		r[p] = api3.PathValue{Path: p, Value: api3.TypedValue{Bytes: []byte(pstr(v.val)), Type: api3.ValueType_STRING}, Deleted: v.del, Index: api3.Index(v.idx)}
	}
	return r
}

func v3valsBack(m map[string]api3.PathValue) map[string]pvv {
	r := map[string]pvv{}
	for p, v := range m {
		r[p] = pvv{val: pnum(string(v.Value.Bytes)), idx: uint64(v.Index), del: v.Deleted}
	}
	return r
}

// ------------------------------------------------------------------ v2 transactions
type tx2A struct{ s tx2.Store }

func (a *tx2A) obj(r *rec) *api2.Transaction {
	t := &api2.Transaction{ID: api2.TransactionID(r.key), Username: pstr(r.payload), Index: api2.Index(r.index)}
	t.Version, t.Revision = r.version, api2.Revision(r.revision)
	return t
}
func (a *tx2A) back(r *rec, t *api2.Transaction) {
	r.version, r.revision, r.index = t.Version, uint64(t.Revision), uint64(t.Index)
}
func (a *tx2A) create(r *rec) error {
	t := a.obj(r)
	err := a.s.Create(bg(), t)
	a.back(r, t)
	return err
}
func (a *tx2A) update(r *rec) error {
	t := a.obj(r)
	err := a.s.Update(bg(), t)
	a.back(r, t)
	return err
}
func (a *tx2A) updateStatus(r *rec) error {
	t := a.obj(r)
	err := a.s.UpdateStatus(bg(), t)
	a.back(r, t)
	return err
}
func (a *tx2A) conv(t *api2.Transaction) *rec {
	return &rec{key: string(t.ID), idok: true, tgtok: true, txok: true, version: t.Version, revision: uint64(t.Revision), index: uint64(t.Index), payload: pnum(t.Username)}
}
func (a *tx2A) get(key string) (*rec, error) {
	t, err := a.s.Get(bg(), api2.TransactionID(key))
	if err != nil {
		return nil, err
	}
	return a.conv(t), nil
}
func (a *tx2A) list() ([]*rec, error) {
	l, err := a.s.List(bg())
	if err != nil {
		return nil, err
	}
	var r []*rec
	for _, t := range l {
		r = append(r, a.conv(t))
	}
	return r, nil
}
func (a *tx2A) canIDWatch(string) bool { return true }
func (a *tx2A) watch(ctx context.Context, replay bool, idkey string, out chan<- event) error {
	ch := make(chan api2.TransactionEvent)
	var opts []tx2.WatchOption
	if replay {
		opts = append(opts, tx2.WithReplay())
	}
	if idkey != "" {
		opts = append(opts, tx2.WithTransactionID(api2.TransactionID(idkey)))
	}
	if err := a.s.Watch(ctx, ch, opts...); err != nil {
		return err
	}
	go func() {
		for e := range ch {
			out <- event{typ: e.Type.String()[:1], key: string(e.Transaction.ID), version: e.Transaction.Version}
		}
		out <- event{typ: "X"}
	}()
	return nil
}

// ------------------------------------------------------------------ v2 proposals
type prop2A struct{ s prop2.Store }

func (a *prop2A) obj(r *rec) *api2.Proposal {
	p := &api2.Proposal{}
	if r.idok {
		p.ID = api2.ProposalID(r.key)
	}
	if r.tgtok {
		p.TargetID = tgtName
	}
	if r.txok {
		p.TransactionIndex = 1
	}
	p.TargetType = api2.TargetType(pstr(r.payload))
	p.Version, p.Revision = r.version, api2.Revision(r.revision)
	return p
}
func (a *prop2A) back(r *rec, p *api2.Proposal) {
	r.version, r.revision = p.Version, uint64(p.Revision)
}
func (a *prop2A) create(r *rec) error {
	p := a.obj(r)
	err := a.s.Create(bg(), p)
	a.back(r, p)
	return err
}
func (a *prop2A) update(r *rec) error {
	p := a.obj(r)
	err := a.s.Update(bg(), p)
	a.back(r, p)
	return err
}
func (a *prop2A) updateStatus(r *rec) error {
	p := a.obj(r)
	err := a.s.UpdateStatus(bg(), p)
	a.back(r, p)
	return err
}
func (a *prop2A) conv(p *api2.Proposal) *rec {
	return &rec{key: string(p.ID), idok: true, tgtok: true, txok: true, version: p.Version, revision: uint64(p.Revision), payload: pnum(string(p.TargetType))}
}
func (a *prop2A) get(key string) (*rec, error) {
	p, err := a.s.Get(bg(), api2.ProposalID(key))
	if err != nil {
		return nil, err
	}
	return a.conv(p), nil
}
func (a *prop2A) list() ([]*rec, error) {
	l, err := a.s.List(bg())
	if err != nil {
		return nil, err
	}
	var r []*rec
	for _, p := range l {
		r = append(r, a.conv(p))
	}
	return r, nil
}
func (a *prop2A) canIDWatch(string) bool { return true }
func (a *prop2A) watch(ctx context.Context, replay bool, idkey string, out chan<- event) error {
	ch := make(chan api2.ProposalEvent)
	var opts []prop2.WatchOption
	if replay {
		opts = append(opts, prop2.WithReplay())
	}
	if idkey != "" {
		opts = append(opts, prop2.WithProposalID(api2.ProposalID(idkey)))
	}
	if err := a.s.Watch(ctx, ch, opts...); err != nil {
		return err
	}
	go func() {
		// the proposal store never closes ch: stop forwarding when the watch context ends
		for {
			select {
			case e := <-ch:
				out <- event{typ: e.Type.String()[:1], key: string(e.Proposal.ID), version: e.Proposal.Version}
			case <-ctx.Done():
				// keep reading for a grace period so that a late sender is never blocked by the harness
				t := time.After(300 * time.Millisecond)
				for {
					select {
					case <-ch:
					case <-t:
						out <- event{typ: "X"}
						go func() {
							for range ch {
							}
						}()
						return
					}
				}
			}
		}
	}()
	return nil
}

// ------------------------------------------------------------------ v2 configurations
type cfg2A struct{ s cfg2.Store }

func (a *cfg2A) obj(r *rec, status bool) *api2.Configuration {
	c := &api2.Configuration{}
	if r.idok {
		c.ID = api2.ConfigurationID(r.key)
	}
	if r.tgtok {
		c.TargetID = tgtName
	}
	c.Index = api2.Index(r.payload)
	c.Version, c.Revision = r.version, api2.Revision(r.revision)
	if status {
		c.Status.Applied.Values = v2vals(r.vals)
	} else {
		c.Values = v2vals(r.vals)
	}
	return c
}
func (a *cfg2A) back(r *rec, c *api2.Configuration) {
	r.version, r.revision = c.Version, uint64(c.Revision)
}
func (a *cfg2A) create(r *rec) error {
	c := a.obj(r, false)
	err := a.s.Create(bg(), c)
	a.back(r, c)
	return err
}
func (a *cfg2A) update(r *rec) error {
	c := a.obj(r, false)
	err := a.s.Update(bg(), c)
	a.back(r, c)
	return err
}
func (a *cfg2A) updateStatus(r *rec) error {
	c := a.obj(r, true)
	err := a.s.UpdateStatus(bg(), c)
	a.back(r, c)
	return err
}
func (a *cfg2A) conv(c *api2.Configuration) *rec {
	return &rec{key: string(c.ID), idok: true, tgtok: true, txok: true, version: c.Version, revision: uint64(c.Revision), payload: uint64(c.Index), vals: v2valsBack(c.Values), avals: v2valsBack(c.Status.Applied.Values)}
}
func (a *cfg2A) get(key string) (*rec, error) {
	c, err := a.s.Get(bg(), api2.ConfigurationID(key))
	if err != nil {
		return nil, err
	}
	return a.conv(c), nil
}
func (a *cfg2A) list() ([]*rec, error) {
	l, err := a.s.List(bg())
	if err != nil {
		return nil, err
	}
	var r []*rec
	for _, c := range l {
		r = append(r, a.conv(c))
	}
	return r, nil
}
func (a *cfg2A) canIDWatch(string) bool { return true }
func (a *cfg2A) watch(ctx context.Context, replay bool, idkey string, out chan<- event) error {
	ch := make(chan api2.ConfigurationEvent)
	var opts []cfg2.WatchOption
	if replay {
		opts = append(opts, cfg2.WithReplay())
	}
	if idkey != "" {
		opts = append(opts, cfg2.WithConfigurationID(api2.ConfigurationID(idkey)))
	}
	if err := a.s.Watch(ctx, ch, opts...); err != nil {
		return err
	}
	go func() {
		for e := range ch {
			out <- event{typ: e.Type.String()[:1], key: string(e.Configuration.ID), version: e.Configuration.Version}
		}
		out <- event{typ: "X"}
	}()
	return nil
}

// ------------------------------------------------------------------ v3 transactions
type tx3A struct {
	s   tx3.Store
	mu  sync.Mutex
	idx map[string]uint64 // key -> log index (learned from successful creates / gets)
	// predict (scripted histories only): a watch for a record that does not exist yet names the index the next
	// Create in that target's log will receive (highest index seen + 1)
	predict bool
	top     map[string]uint64
}

func (a *tx3A) setIdx(k string, i uint64) {
	a.mu.Lock()
	a.idx[k] = i
	if t := string(tx3Target(k).ID); a.top[t] < i {
		a.top[t] = i
	}
	a.mu.Unlock()
}
func (a *tx3A) getIdx(k string) uint64 { a.mu.Lock(); defer a.mu.Unlock(); return a.idx[k] }

// keys k0,k1 live in the log of target ta, the others in tb
func tx3Target(key string) api3.Target {
	id := "tb"
	if key == "k0" || key == "k1" {
		id = "ta"
	}
	return api3.Target{ID: api3.TargetID(id), Type: "ty", Version: "1"}
}

func (a *tx3A) obj(r *rec) *api3.Transaction {
	t := &api3.Transaction{}
	if r.idok {
		t.Key = r.key
	}
	if r.tgtok {
		t.ID.Target = tx3Target(r.key)
	} else {
		t.ID.Target = api3.Target{ID: tx3Target(r.key).ID} // type and version missing
	}
	t.ID.Index = api3.Index(r.index)
	t.Values = map[string]api3.PathValue{"p": {Path: "p", Index: api3.Index(r.payload)}}
	t.Version, t.Revision = r.version, api3.Revision(r.revision)
	return t
}
func (a *tx3A) back(r *rec, t *api3.Transaction, err error) {
	r.version, r.revision, r.index = t.Version, uint64(t.Revision), uint64(t.ID.Index)
	if err == nil && r.index != 0 {
		a.setIdx(r.key, r.index)
	}
}
func (a *tx3A) create(r *rec) error {
	t := a.obj(r)
	err := a.s.Create(bg(), t)
	a.back(r, t, err)
	return err
}
func (a *tx3A) update(r *rec) error {
	t := a.obj(r)
	err := a.s.Update(bg(), t)
	a.back(r, t, err)
	return err
}
func (a *tx3A) updateStatus(r *rec) error {
	t := a.obj(r)
	err := a.s.UpdateStatus(bg(), t)
	a.back(r, t, err)
	return err
}
func (a *tx3A) conv(t *api3.Transaction) *rec {
	return &rec{key: t.Key, idok: true, tgtok: true, txok: true, version: t.Version, revision: uint64(t.Revision), index: uint64(t.ID.Index), payload: uint64(t.Values["p"].Index)}
}
func (a *tx3A) get(key string) (*rec, error) {
	t, err := a.s.GetKey(bg(), tx3Target(key), key)
	if err != nil {
		return nil, err
	}
	// cross-check the by-index read path against the by-key one
	if t2, err2 := a.s.Get(bg(), api3.TransactionID{Target: tx3Target(key), Index: t.ID.Index}); err2 != nil || t2.Key != t.Key || t2.Version != t.Version {
		return nil, errors.NewInternal("Get by index disagrees with GetKey")
	}
	a.setIdx(key, uint64(t.ID.Index))
	return a.conv(t), nil
}
func (a *tx3A) list() ([]*rec, error) {
	l, err := a.s.List(bg())
	if err != nil {
		return nil, err
	}
	var r []*rec
	for i := range l {
		r = append(r, a.conv(&l[i]))
	}
	return r, nil
}
func (a *tx3A) canIDWatch(key string) bool {
	if a.getIdx(key) != 0 {
		return true
	}
	if !a.predict {
		return false
	}
	a.mu.Lock()
	a.idx[key] = a.top[string(tx3Target(key).ID)] + 1
	a.mu.Unlock()
	return true
}
func (a *tx3A) watch(ctx context.Context, replay bool, idkey string, out chan<- event) error {
	ch := make(chan api3.TransactionEvent)
	var opts []tx3.WatchOption
	if replay {
		opts = append(opts, tx3.WithReplay())
	}
	if idkey != "" {
		opts = append(opts, tx3.WithTransactionID(api3.TransactionID{Target: tx3Target(idkey), Index: api3.Index(a.getIdx(idkey))}))
	}
	if err := a.s.Watch(ctx, ch, opts...); err != nil {
		return err
	}
	go func() {
		for e := range ch {
			out <- event{typ: e.Type.String()[:1], key: e.Transaction.Key, version: e.Transaction.Version}
		}
		out <- event{typ: "X"}
	}()
	return nil
}

// ------------------------------------------------------------------ v3 configurations
type cfg3A struct{ s cfg3.Store }

func cfg3ID(key string, ok bool) api3.ConfigurationID {
	if !ok {
		return api3.ConfigurationID{Target: api3.Target{ID: api3.TargetID(key)}}
	}
	return api3.ConfigurationID{Target: api3.Target{ID: api3.TargetID(key), Type: "ty", Version: "1"}}
}
func (a *cfg3A) obj(r *rec, status bool) *api3.Configuration {
	c := &api3.Configuration{ID: cfg3ID(r.key, r.tgtok)}
	c.Key = r.key + "-ty-1" // what Create stores and Get returns (getKey)
	c.Committed.Index = api3.Index(r.payload)
	c.Version, c.Revision = r.version, api3.Revision(r.revision)
	if status {
		c.Applied.Values = v3vals(r.vals)
	} else {
		c.Committed.Values = v3vals(r.vals)
	}
	return c
}
func (a *cfg3A) back(r *rec, c *api3.Configuration) {
	r.version, r.revision = c.Version, uint64(c.Revision)
}
func (a *cfg3A) create(r *rec) error {
	c := a.obj(r, false)
	err := a.s.Create(bg(), c)
	a.back(r, c)
	return err
}
func (a *cfg3A) update(r *rec) error {
	c := a.obj(r, false)
	err := a.s.Update(bg(), c)
	a.back(r, c)
	return err
}
func (a *cfg3A) updateStatus(r *rec) error {
	c := a.obj(r, true)
	err := a.s.UpdateStatus(bg(), c)
	a.back(r, c)
	return err
}
func (a *cfg3A) conv(c *api3.Configuration) *rec {
	return &rec{key: string(c.ID.Target.ID), idok: true, tgtok: true, txok: true, version: c.Version, revision: uint64(c.Revision), payload: uint64(c.Committed.Index), vals: v3valsBack(c.Committed.Values), avals: v3valsBack(c.Applied.Values)}
}
func (a *cfg3A) get(key string) (*rec, error) {
	c, err := a.s.Get(bg(), cfg3ID(key, true))
	if err != nil {
		return nil, err
	}
	return a.conv(c), nil
}
func (a *cfg3A) list() ([]*rec, error) {
	l, err := a.s.List(bg())
	if err != nil {
		return nil, err
	}
	var r []*rec
	for _, c := range l {
		r = append(r, a.conv(c))
	}
	return r, nil
}
func (a *cfg3A) canIDWatch(string) bool { return true }
func (a *cfg3A) watch(ctx context.Context, replay bool, idkey string, out chan<- event) error {
	ch := make(chan api3.ConfigurationEvent)
	var opts []cfg3.WatchOption
	if replay {
		opts = append(opts, cfg3.WithReplay())
	}
	if idkey != "" {
		opts = append(opts, cfg3.WithConfigurationID(cfg3ID(idkey, true)))
	}
	if err := a.s.Watch(ctx, ch, opts...); err != nil {
		return err
	}
	go func() {
		for e := range ch {
			out <- event{typ: e.Type.String()[:1], key: string(e.Configuration.ID.Target.ID), version: e.Configuration.Version}
		}
		out <- event{typ: "X"}
	}()
	return nil
}

var kinds = []string{"tx2", "prop2", "cfg2", "tx3", "cfg3"}

// open builds the real store of the given kind on a (fresh or shared) in-memory Atomix client
func open(kind string, cl *test.Client) adapter {
	var err error
	switch kind {
	case "tx2":
		a := &tx2A{}
		a.s, err = tx2.NewAtomixStore(cl)
		must(err)
		return a
	case "prop2":
		a := &prop2A{}
		a.s, err = prop2.NewAtomixStore(cl)
		must(err)
		return a
	case "cfg2":
		a := &cfg2A{}
		a.s, err = cfg2.NewAtomixStore(cl)
		must(err)
		return a
	case "tx3":
		a := &tx3A{idx: map[string]uint64{}, top: map[string]uint64{}}
		a.s, err = tx3.NewAtomixStore(cl)
		must(err)
		return a
	case "cfg3":
		a := &cfg3A{}
		a.s, err = cfg3.NewAtomixStore(cl)
		must(err)
		return a
	}
	panic("kind " + kind)
}

func must(err error) {
	if err != nil {
		panic(err)
	}
}

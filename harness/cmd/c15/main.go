// c15: observations for property C15 (stores never lose an update; watchers never miss the latest state).
// Histories of create / update / update-status / get / list / watch / cancel by three clients against the REAL
// v2 and v3 stores of /repo over the in-memory Atomix test client; forced schedules for watch cancellation;
// a concurrent stress.  One tab-separated line per step on stdout, nothing else.
package main

import (
	"bufio"
	"bytes"
	"context"
	"flag"
	"fmt"
	"math/rand"
	"os"
	"os/exec"
	"sort"
	"strconv"
	"strings"
	"sync"
	"sync/atomic"
	"time"

	"github.com/atomix/go-sdk/pkg/test"

	"verifharness/env"
)

var out *bufio.Writer
var keys = []string{"k0", "k1", "k2", "k3"}

// dumpKeys: the records of the histories plus the warm-up record
var dumpKeys = []string{"k0", "k1", "k2", "k3", "kw"}
var paths = []string{"/a", "/b", "/c"}

type watcher struct {
	id        int
	replay    bool
	idkey     string
	cancel    context.CancelFunc
	mu        sync.Mutex
	evs       []event
	closed    bool
	cancelled bool
	since     map[string]bool // keys written since the watch was opened
}

func (w *watcher) snapshot() ([]event, bool) {
	w.mu.Lock()
	defer w.mu.Unlock()
	return append([]event(nil), w.evs...), w.closed
}

type hist struct {
	kind     string
	id       string
	step     int
	a        adapter
	copies   [3]map[string]*rec
	watchers []*watcher
	v3cancel bool // cancelling a v3 transaction watch is survivable (probe)
}

func newHist(kind, id string, v3cancel bool) *hist {
	h := &hist{kind: kind, id: id, a: open(kind, test.NewClient()), v3cancel: v3cancel}
	for i := range h.copies {
		h.copies[i] = map[string]*rec{}
	}
	fmt.Fprintf(out, "c15.begin\t%s\t%s\n", id, kind)
	// Atomix map.Events returns once the FIRST of the three partitions has acknowledged the subscription; the
	// others may lag by a moment and events written meanwhile are lost (substrate behaviour, outside /repo).
	time.Sleep(40 * time.Millisecond)
	h.warmup()
	return h
}

// warmup: the Atomix event subscription of a freshly opened store is not guaranteed to be in place when
// NewAtomixStore returns (test runtime); write the warm-up record until a listener has seen it, so that the
// histories start on a store whose event loop is live.  The writes are ordinary, reported operations.
func (h *hist) warmup() {
	ch := make(chan event, 64)
	if err := h.a.watch(context.Background(), false, "", ch); err != nil {
		return
	}
	seen := func(v uint64, d time.Duration) bool {
		t := time.After(d)
		for {
			select {
			case e := <-ch:
				if e.version == v {
					return true
				}
			case <-t:
				return false
			}
		}
	}
	h.exec("c0:create:kw:0:-")
	ok := seen(h.copies[0]["kw"].version, 200*time.Millisecond)
	for i := 1; !ok && i < 20; i++ {
		h.exec(fmt.Sprintf("c0:update:kw:%d:-", i))
		ok = seen(h.copies[0]["kw"].version, 200*time.Millisecond)
	}
	go func() {
		for range ch {
		}
	}()
}

func (h *hist) sid() string {
	h.step++
	id := fmt.Sprintf("%s.%d", h.id, h.step)
	tick(h.kind + " " + id)
	return id
}

// ---------------------------------------------------------------------------------------------------
// watchdog: every step of a history, every probe and every round of a stress writer ticks.  When nothing has ticked for
// stallLimit the main goroutine is blocked inside a call of the store under test (a deadlock in the store is a violation of
// the property, not a failure of the tool): the lines written so far are flushed, one c15.stall line names the step that
// never returned, and the process ends normally so that the driver can judge the run.
var (
	progress  int64
	curStep   atomic.Value
	stallLimt = 75 * time.Second
)

func tick(label string) {
	atomic.AddInt64(&progress, 1)
	curStep.Store(label)
}

func watchdog() {
	last, since := int64(-1), time.Now()
	for {
		time.Sleep(time.Second)
		p := atomic.LoadInt64(&progress)
		if p != last {
			last, since = p, time.Now()
			continue
		}
		if time.Since(since) > stallLimt {
			l, _ := curStep.Load().(string)
			out.Flush() // the main goroutine is blocked in a store call: nobody else writes
			fmt.Fprintf(os.Stdout, "c15.stall\t%s\t%d\n", strings.ReplaceAll(l, "\t", " "), int(stallLimt.Seconds()))
			os.Exit(0)
		}
	}
}

func valsStr(m map[string]pvv) string {
	if len(m) == 0 {
		return "-"
	}
	var ps []string
	for p := range m {
		ps = append(ps, p)
	}
	sort.Strings(ps)
	var s []string
	for _, p := range ps {
		d := 0
		if m[p].del {
			d = 1
		}
		s = append(s, fmt.Sprintf("%s=%d/%d/%d", p, m[p].val, m[p].idx, d))
	}
	return strings.Join(s, "+")
}

func recStr(r *rec) string {
	return fmt.Sprintf("%s:%d:%d:%d:%d:%s:%s", r.key, r.version, r.revision, r.index, r.payload, valsStr(r.vals), valsStr(r.avals))
}

func (h *hist) dump() (string, map[string]uint64) {
	var s []string
	cur := map[string]uint64{}
	for _, k := range dumpKeys {
		r, err := h.a.get(k)
		if err != nil {
			if code(err) != "notfound" {
				s = append(s, k+":ERR-"+code(err))
			}
			continue
		}
		cur[k] = r.version
		s = append(s, recStr(r))
	}
	if len(s) == 0 {
		return "-", cur
	}
	return strings.Join(s, ";"), cur
}

func flagsStr(r *rec) string {
	b := func(x bool) string {
		if x {
			return "1"
		}
		return "0"
	}
	return b(r.idok) + b(r.tgtok) + b(r.txok)
}

func parseVals(s string) map[string]pvv {
	if s == "-" || s == "" {
		return nil
	}
	m := map[string]pvv{}
	for _, e := range strings.Split(s, "+") {
		kv := strings.SplitN(e, "=", 2)
		f := strings.Split(kv[1], "/")
		v, _ := strconv.ParseUint(f[0], 10, 64)
		i, _ := strconv.ParseUint(f[1], 10, 64)
		m[kv[0]] = pvv{val: v, idx: i, del: f[2] == "1"}
	}
	return m
}

// exec runs one token of a script; tokens:
//
//	c<i>:create:<key>:<payload>:<vals>[:<mut>]   c<i>:update:...   c<i>:status:...   c<i>:get:<key>   c<i>:list
//	w:<replay>:<idkey|->    x:<watcher>    d
func (h *hist) exec(tok string) {
	f := strings.Split(tok, ":")
	switch {
	case f[0] == "d":
		h.drain()
	case f[0] == "w":
		h.watch(f[1] == "1", strings.TrimPrefix(f[2], "-"))
	case f[0] == "x":
		i, _ := strconv.Atoi(f[1])
		if i < len(h.watchers) {
			h.cancelW(h.watchers[i])
		}
	case f[1] == "list":
		c, _ := strconv.Atoi(f[0][1:])
		l, err := h.a.list()
		var s []string
		for _, r := range l {
			s = append(s, fmt.Sprintf("%s:%d:%d:%d:%d", r.key, r.version, r.revision, r.index, r.payload))
		}
		sort.Strings(s)
		res := strings.Join(s, ";")
		if res == "" {
			res = "."
		}
		d, _ := h.dump()
		fmt.Fprintf(out, "c15.op\t%s\t%s\tlist\t%d\t-\t111\t0\t0\t0\t0\t-\t%s\t0\t0\t0\t%s\t%s\n", h.sid(), h.kind, c, code(err), res, d)
	case f[1] == "get":
		c, _ := strconv.Atoi(f[0][1:])
		r, err := h.a.get(f[2])
		res := "-"
		var ov, or, oi uint64
		if err == nil {
			h.copies[c][f[2]] = r
			res = recStr(r)
			ov, or, oi = r.version, r.revision, r.index
		}
		d, _ := h.dump()
		fmt.Fprintf(out, "c15.op\t%s\t%s\tget\t%d\t%s\t111\t0\t0\t0\t0\t-\t%s\t%d\t%d\t%d\t%s\t%s\n", h.sid(), h.kind, c, f[2], code(err), ov, or, oi, res, d)
	default:
		c, _ := strconv.Atoi(f[0][1:])
		op, key := f[1], f[2]
		payload, _ := strconv.ParseUint(f[3], 10, 64)
		var r *rec
		if op == "create" {
			r = &rec{key: key, idok: true, tgtok: true, txok: true}
		} else if cp, ok := h.copies[c][key]; ok {
			cc := *cp
			r = &cc
		} else {
			// a client that never read the record: fabricated optimistic lock
			r = &rec{key: key, idok: true, tgtok: true, txok: true, version: 1 << 40, revision: 1}
		}
		r.payload = payload
		r.vals = parseVals(f[4])
		if len(f) > 5 {
			switch f[5] {
			case "v0":
				r.version = 0
			case "r0":
				r.revision = 0
			case "noid":
				r.idok = false
			case "notgt":
				r.tgtok = false
			case "notx":
				r.txok = false
			case "vfab":
				r.version = 1 << 40
			case "vset":
				r.version = 7
			case "rset":
				r.revision = 3
			}
		}
		in := *r
		var err error
		switch op {
		case "create":
			err = h.a.create(r)
		case "update":
			err = h.a.update(r)
		case "status":
			err = h.a.updateStatus(r)
		}
		if err == nil {
			h.copies[c][key] = r // the caller keeps working with the object the store filled in
			for _, w := range h.watchers {
				w.since[key] = true
			}
		}
		d, _ := h.dump()
		fmt.Fprintf(out, "c15.op\t%s\t%s\t%s\t%d\t%s\t%s\t%d\t%d\t%d\t%d\t%s\t%s\t%d\t%d\t%d\t-\t%s\n", h.sid(), h.kind, op, c, key, flagsStr(&in),
			in.version, in.revision, in.index, in.payload, valsStr(in.vals), code(err), r.version, r.revision, r.index, d)
	}
}

func (h *hist) watch(replay bool, idkey string) {
	if idkey != "" && !h.a.canIDWatch(idkey) {
		return
	}
	ctx, cancel := context.WithCancel(context.Background())
	w := &watcher{id: len(h.watchers), replay: replay, idkey: idkey, cancel: cancel, since: map[string]bool{}}
	ch := make(chan event)
	if err := h.a.watch(ctx, replay, idkey, ch); err != nil {
		cancel()
		fmt.Fprintf(out, "c15.watcherr\t%s\t%s\t%s\n", h.sid(), h.kind, code(err))
		return
	}
	go func() {
		for e := range ch {
			w.mu.Lock()
			if e.typ == "X" {
				w.closed = true
			} else {
				w.evs = append(w.evs, e)
			}
			w.mu.Unlock()
			if e.typ == "X" {
				return
			}
		}
	}()
	h.watchers = append(h.watchers, w)
	if h.kind == "prop2" {
		time.Sleep(50 * time.Millisecond) // per-watch Atomix subscription: see newHist
	}
	r := 0
	if replay {
		r = 1
	}
	ik := idkey
	if ik == "" {
		ik = "-"
	}
	fmt.Fprintf(out, "c15.watch\t%s\t%s\t%d\t%d\t%s\n", h.sid(), h.kind, w.id, r, ik)
}

func (h *hist) cancelW(w *watcher) {
	if w.cancelled || (h.kind == "tx3" && !h.v3cancel) {
		return
	}
	w.cancelled = true
	w.cancel()
	fmt.Fprintf(out, "c15.cancel\t%s\t%s\t%d\n", h.sid(), h.kind, w.id)
}

func lastFor(evs []event, k string) (uint64, bool) {
	for i := len(evs) - 1; i >= 0; i-- {
		if evs[i].key == k {
			return evs[i].version, true
		}
	}
	return 0, false
}

// drain waits (bounded) until every open watcher has been shown the latest version of every record it is
// entitled to, and every cancelled one has been closed; then reports what each consumer received
func (h *hist) drain() {
	_, cur := h.dump()
	deadline := time.Now().Add(3 * time.Second)
	for {
		ok := true
		for _, w := range h.watchers {
			evs, closed := w.snapshot()
			if w.cancelled {
				if !closed {
					ok = false
				}
				continue
			}
			for k, v := range cur {
				if w.idkey != "" && w.idkey != k {
					continue
				}
				if !w.replay && !w.since[k] {
					continue
				}
				if lv, has := lastFor(evs, k); !has || lv != v {
					ok = false
				}
			}
		}
		if ok || time.Now().After(deadline) {
			break
		}
		time.Sleep(500 * time.Microsecond)
	}
	time.Sleep(2 * time.Millisecond)
	var ws []string
	for _, w := range h.watchers {
		evs, closed := w.snapshot()
		var es []string
		for _, e := range evs {
			es = append(es, fmt.Sprintf("%s.%s.%d", e.typ, e.key, e.version))
		}
		if closed {
			es = append(es, "X")
		}
		s := strings.Join(es, ",")
		if s == "" {
			s = "."
		}
		ws = append(ws, fmt.Sprintf("%d=%s", w.id, s))
	}
	s := strings.Join(ws, "|")
	if s == "" {
		s = "."
	}
	d, _ := h.dump()
	fmt.Fprintf(out, "c15.drain\t%s\t%s\t%s\t%s\n", h.sid(), h.kind, s, d)
}

func (h *hist) close() {
	for _, w := range h.watchers {
		if !(h.kind == "tx3" && !h.v3cancel) {
			w.cancel()
		}
	}
}

func genVals(r *rand.Rand, maxn int) string {
	if r.Intn(2) == 0 {
		return "-"
	}
	n := 1 + r.Intn(maxn)
	m := map[string]pvv{}
	for i := 0; i < n; i++ {
		m[env.Pick(r, paths)] = pvv{val: uint64(r.Intn(50)), idx: uint64(1 + r.Intn(4)), del: r.Intn(10) == 0}
	}
	return valsStr(m)
}

// mutations that the store of this kind validates for this operation (others are not generated)
func mutsFor(kind, op string) []string {
	m := []string{}
	if op == "create" {
		m = append(m, "vset", "rset")
	} else {
		m = append(m, "v0", "r0", "vfab")
	}
	switch kind {
	case "prop2":
		m = append(m, "noid", "notgt")
		if op != "create" {
			m = append(m, "notx")
		}
	case "cfg2":
		m = append(m, "noid", "notgt")
	case "tx3":
		if op == "create" {
			m = append(m, "notgt")
		} else if op == "update" {
			m = append(m, "noid", "notgt")
		}
	case "cfg3":
		m = append(m, "notgt")
	}
	return m
}

func genHistory(r *rand.Rand, kind, id string, steps int, v3cancel bool) {
	h := newHist(kind, id, v3cancel)
	nkeys := 1 + r.Intn(len(keys))
	cfg := kind == "cfg2" || kind == "cfg3"
	for i := 0; i < steps; i++ {
		c := r.Intn(3)
		k := keys[r.Intn(nkeys)]
		vals := "-"
		x := r.Intn(100)
		_, hasCopy := h.copies[c][k]
		if !hasCopy && x >= 38 && x < 78 && r.Intn(3) != 0 {
			x = 20 // a client normally reads before it writes
		}
		if cfg {
			// v3 configurations: which path a multi-path write visits last is read off the stored values, so the
			// record must be visible afterwards (it is not after a write to a missing record)
			if kind == "cfg3" && !hasCopy && x >= 38 {
				vals = genVals(r, 1)
			} else {
				vals = genVals(r, 2)
			}
		}
		var tok string
		switch {
		case x < 14:
			tok = fmt.Sprintf("c%d:create:%s:%d:%s", c, k, r.Intn(90), vals)
		case x < 38:
			tok = fmt.Sprintf("c%d:get:%s", c, k)
		case x < 62:
			tok = fmt.Sprintf("c%d:update:%s:%d:%s", c, k, r.Intn(90), vals)
		case x < 78:
			tok = fmt.Sprintf("c%d:status:%s:%d:%s", c, k, r.Intn(90), vals)
		case x < 82:
			tok = fmt.Sprintf("c%d:list", c)
		case x < 89:
			ik := "-"
			if r.Intn(2) == 0 {
				ik = k
			}
			if len(h.watchers) >= 5 {
				continue
			}
			tok = fmt.Sprintf("w:%d:%s", r.Intn(2), ik)
		case x < 93:
			if len(h.watchers) == 0 {
				continue
			}
			tok = fmt.Sprintf("x:%d", r.Intn(len(h.watchers)))
		default:
			tok = "d"
		}
		if f := strings.Split(tok, ":"); len(f) == 5 && r.Intn(9) == 0 {
			tok += ":" + env.Pick(r, mutsFor(kind, f[1]))
		}
		h.exec(tok)
	}
	h.exec("d")
	h.close()
}

// ---------------------------------------------------------------------------------------------------
// probes: forced schedules around watch cancellation.  They may crash or wedge the store, so each runs in
// a child process (this binary with -probe) and the parent reports the child's verdict.

// probeCancelIdle: cancel an idle watch (no replay in progress); an innocent watcher must still be served
func probeCancelIdle(kind string) string {
	a := open(kind, test.NewClient())
	time.Sleep(100 * time.Millisecond)
	r0 := &rec{key: "k0", idok: true, tgtok: true, txok: true, payload: 1}
	must(a.create(r0))
	inn := make(chan event, 1000)
	must(a.watch(context.Background(), false, "", inn))
	ctx, cancel := context.WithCancel(context.Background())
	vic := make(chan event, 1000)
	must(a.watch(ctx, true, "", vic))
	// the victim has finished its replay (it showed k0) and sits in its select when it is cancelled
	select {
	case <-vic:
	case <-time.After(3 * time.Second):
		return "no-replay"
	}
	time.Sleep(50 * time.Millisecond)
	cancel()
	closed := time.After(2 * time.Second)
wait:
	for {
		select {
		case e := <-vic:
			if e.typ == "X" {
				break wait
			}
		case <-closed:
			break wait
		}
	}
	time.Sleep(50 * time.Millisecond)
	r0.payload = 2
	must(a.update(r0))
	deadline := time.After(2 * time.Second)
	for {
		select {
		case e := <-inn:
			if e.version == r0.version {
				return "served"
			}
		case <-deadline:
			return "blocked"
		}
	}
}

// probeCancelInReplay: the consumer of a replaying watch (three records, unbuffered hand-over) takes the first
// replayed event, a write happens (the store's event loop now holds an event for this watcher), the consumer
// cancels and takes the second event; the watcher goroutine sees the cancelled context before the third.
// An innocent watcher must still be shown that write and the next one.
func probeCancelInReplay(kind string) string {
	a := open(kind, test.NewClient())
	time.Sleep(100 * time.Millisecond)
	var rs []*rec
	for _, k := range []string{"k0", "k1", "k2"} {
		r := &rec{key: k, idok: true, tgtok: true, txok: true, payload: 1}
		must(a.create(r))
		rs = append(rs, r)
	}
	inn := make(chan event, 1000)
	must(a.watch(context.Background(), false, "", inn))
	ctx, cancel := context.WithCancel(context.Background())
	vic := make(chan event) // unbuffered: the consumer decides when the replay advances
	must(a.watch(ctx, true, "", vic))
	time.Sleep(50 * time.Millisecond) // replay is now parked on its first/second event
	rs[0].payload = 2
	must(a.update(rs[0]))
	time.Sleep(50 * time.Millisecond) // the event loop has taken the event and snapshotted the listeners
	cancel()
	go func() {
		for range vic {
		}
	}()
	time.Sleep(100 * time.Millisecond)
	rs[1].payload = 3
	must(a.update(rs[1]))
	want := map[uint64]bool{rs[0].version: true, rs[1].version: true}
	deadline := time.After(2 * time.Second)
	for len(want) > 0 {
		select {
		case e := <-inn:
			delete(want, e.version)
		case <-deadline:
			return "blocked"
		}
	}
	return "served"
}

// probeWriteDuringReplay: the listener must be in place BEFORE the replay snapshot is taken.  Forced schedule,
// consumer side only: the consumer of a replaying watch (unbuffered hand-over) does not read, so the replay is
// parked on its first events; a record is updated meanwhile; then the consumer reads everything.  The update
// falls after the snapshot, so it can only reach the consumer as a live event.  Also the no-replay variant:
// an update issued right after Watch returned must be shown.
func probeWriteDuringReplay(kind string) string {
	a := open(kind, test.NewClient())
	time.Sleep(100 * time.Millisecond)
	var rs []*rec
	for _, k := range []string{"k0", "k1", "k2"} {
		r := &rec{key: k, idok: true, tgtok: true, txok: true, payload: 1}
		must(a.create(r))
		rs = append(rs, r)
	}
	time.Sleep(100 * time.Millisecond)
	res := ""
	for _, variant := range []struct {
		replay bool
		idkey  string
	}{{true, ""}, {true, "k1"}, {false, ""}, {false, "k1"}} {
		if variant.idkey != "" && !a.canIDWatch(variant.idkey) {
			a.get(variant.idkey)
		}
		vic := make(chan event)
		must(a.watch(context.Background(), variant.replay, variant.idkey, vic))
		if variant.replay {
			time.Sleep(60 * time.Millisecond) // snapshot taken, replay parked on the silent consumer
		} else if kind == "prop2" {
			// the proposal store's Watch is an Atomix map.Events call, which returns once the FIRST partition has
			// acknowledged; the partition of k1 may lag (substrate, outside /repo): let the subscription settle
			time.Sleep(150 * time.Millisecond)
		}
		rs[1].payload++
		must(a.update(rs[1]))
		want := rs[1].version
		got := false
		deadline := time.After(2 * time.Second)
	loop:
		for {
			select {
			case e := <-vic:
				if e.key == "k1" && e.version == want {
					got = true
					break loop
				}
			case <-deadline:
				break loop
			}
		}
		go func() {
			for range vic {
			}
		}()
		if !got {
			res += fmt.Sprintf("missed(replay=%v,id=%s);", variant.replay, variant.idkey)
		}
		if kind == "prop2" {
			time.Sleep(30 * time.Millisecond)
		}
	}
	if res == "" {
		return "served"
	}
	return res
}

// probeCancelPendingEvent: the event loop has snapshotted the listeners of an event - all-record listeners first,
// then the listeners of that record - and is held up on an all-record listener whose consumer is slow; meanwhile a
// one-record watcher further down the snapshot is cancelled and leaves.  When the slow consumer catches up, the
// loop reaches the departed listener: it must not block there.  An innocent watcher has to see the next update.
func probeCancelPendingEvent(kind string) string {
	a := open(kind, test.NewClient())
	time.Sleep(100 * time.Millisecond)
	r0 := &rec{key: "k0", idok: true, tgtok: true, txok: true, payload: 1}
	must(a.create(r0))
	time.Sleep(50 * time.Millisecond)
	inn := make(chan event, 1000)
	must(a.watch(context.Background(), false, "", inn))
	slow := make(chan event) // nobody reads yet
	must(a.watch(context.Background(), false, "", slow))
	ctx, cancel := context.WithCancel(context.Background())
	vic := make(chan event, 1000)
	must(a.watch(ctx, false, "k0", vic))
	for i := 0; i < 3; i++ { // the third event finds the slow listener's goroutine still busy with the second
		r0.payload++
		must(a.update(r0))
		time.Sleep(40 * time.Millisecond)
	}
	cancel()
	time.Sleep(80 * time.Millisecond)
	go func() {
		for range slow {
		}
	}()
	time.Sleep(80 * time.Millisecond)
	r0.payload++
	must(a.update(r0))
	deadline := time.After(2 * time.Second)
	for {
		select {
		case e := <-inn:
			if e.version == r0.version {
				return "served"
			}
		case <-deadline:
			return "blocked"
		}
	}
}

func runProbeChild(name, kind string) {
	res := "?"
	switch name {
	case "cancel-idle":
		res = probeCancelIdle(kind)
	case "cancel-in-replay":
		res = probeCancelInReplay(kind)
	case "write-during-replay":
		res = probeWriteDuringReplay(kind)
	case "cancel-pending-event":
		res = probeCancelPendingEvent(kind)
	}
	fmt.Println("PROBE-RESULT " + res)
	os.Exit(0)
}

func probe(id, name, kind string) string {
	tick(kind + " probe " + name)
	ctx, cancel := context.WithTimeout(context.Background(), 20*time.Second)
	defer cancel()
	cmd := exec.CommandContext(ctx, os.Args[0], "-probe", name, "-kind", kind)
	var so, se bytes.Buffer
	cmd.Stdout, cmd.Stderr = &so, &se
	err := cmd.Run()
	res := "crashed"
	if i := strings.Index(so.String(), "PROBE-RESULT "); i >= 0 {
		res = strings.TrimSpace(so.String()[i+len("PROBE-RESULT "):])
	} else if strings.Contains(se.String(), "close of closed channel") {
		res = "panic-close-of-closed-channel"
	} else if ctx.Err() != nil {
		res = "timeout"
	} else if err != nil {
		res = "crashed"
	}
	fmt.Fprintf(out, "c15.probe\t%s\t%s\t%s\t%s\n", id, kind, name, res)
	return res
}

// ---------------------------------------------------------------------------------------------------
// stress: goroutines, no schedule.  Each writer loops get -> update on shared keys; every success is logged
// with the version it read and the version it obtained; watchers run throughout.
func stress(r *rand.Rand, kind, id string, writers, rounds int) {
	a := open(kind, test.NewClient())
	time.Sleep(100 * time.Millisecond)
	nk := 2
	for i := 0; i < nk; i++ {
		must(a.create(&rec{key: keys[i], idok: true, tgtok: true, txok: true, payload: 0}))
	}
	type wt struct {
		mu  sync.Mutex
		evs []event
	}
	var ws []*wt
	for i := 0; i < 3; i++ {
		w := &wt{}
		ch := make(chan event)
		idk := ""
		if i == 2 {
			idk = keys[0]
		}
		if idk != "" && !a.canIDWatch(idk) {
			a.get(idk)
		}
		must(a.watch(context.Background(), i != 1, idk, ch))
		go func() {
			for e := range ch {
				w.mu.Lock()
				w.evs = append(w.evs, e)
				w.mu.Unlock()
			}
		}()
		ws = append(ws, w)
	}
	var mu sync.Mutex
	var log []string
	var wg sync.WaitGroup
	for wi := 0; wi < writers; wi++ {
		wg.Add(1)
		seed := r.Int63()
		go func(wi int) {
			defer wg.Done()
			rr := rand.New(rand.NewSource(seed))
			for n := 0; n < rounds; n++ {
				tick(kind + " stress " + id)
				k := keys[rr.Intn(nk)]
				cur, err := a.get(k)
				if err != nil {
					continue
				}
				rd := cur.version
				cur.payload = uint64(wi*100000 + n)
				cur.vals = nil
				if rr.Intn(3) == 0 {
					err = a.updateStatus(cur)
				} else {
					err = a.update(cur)
				}
				mu.Lock()
				log = append(log, fmt.Sprintf("%s.%d.%d.%s.%d", k, rd, cur.version, code(err), cur.payload))
				mu.Unlock()
			}
		}(wi)
	}
	wg.Wait()
	final := map[string]*rec{}
	for i := 0; i < nk; i++ {
		f, err := a.get(keys[i])
		must(err)
		final[keys[i]] = f
	}
	deadline := time.Now().Add(5 * time.Second)
	for time.Now().Before(deadline) {
		ok := true
		for i, w := range ws {
			w.mu.Lock()
			for j := 0; j < nk; j++ {
				if i == 2 && j != 0 {
					continue
				}
				if v, has := lastFor(w.evs, keys[j]); !has || v != final[keys[j]].version {
					ok = false
				}
			}
			w.mu.Unlock()
		}
		if ok {
			break
		}
		time.Sleep(time.Millisecond)
	}
	var fs, wss []string
	for i := 0; i < nk; i++ {
		fs = append(fs, fmt.Sprintf("%s.%d.%d", keys[i], final[keys[i]].version, final[keys[i]].payload))
	}
	for i, w := range ws {
		w.mu.Lock()
		var es []string
		for _, e := range w.evs {
			es = append(es, fmt.Sprintf("%s.%s.%d", e.typ, e.key, e.version))
		}
		w.mu.Unlock()
		idk := "-"
		if i == 2 {
			idk = keys[0]
		}
		rp := 1
		if i == 1 {
			rp = 0
		}
		wss = append(wss, fmt.Sprintf("%d:%s=%s", rp, idk, strings.Join(es, ",")))
	}
	fmt.Fprintf(out, "c15.stress\t%s\t%s\t%s\t%s\t%s\n", id, kind, strings.Join(log, ","), strings.Join(fs, ","), strings.Join(wss, "|"))
}

func main() {
	seed := flag.Int64("seed", 1, "")
	nHist := flag.Int("hist", 20, "histories per store kind")
	steps := flag.Int("steps", 30, "steps per history")
	nStress := flag.Int("stress", 0, "stress runs per store kind")
	corpus := flag.String("corpus", "", "scripted histories: kind<TAB>space separated tokens")
	probeName := flag.String("probe", "", "(child) run one probe")
	kind := flag.String("kind", "", "(child) store kind")
	flag.Parse()
	env.Quiet()
	if *probeName != "" {
		runProbeChild(*probeName, *kind)
		return
	}
	r := rand.New(rand.NewSource(*seed))
	out = bufio.NewWriterSize(os.Stdout, 1<<20)
	defer out.Flush()
	tick("start")
	go watchdog()

	v3cancel := true
	for _, k := range kinds {
		res := probe(fmt.Sprintf("%d:p-idle-%s", *seed, k), "cancel-idle", k)
		if k == "tx3" && res != "served" {
			v3cancel = false
		}
		if k != "prop2" {
			probe(fmt.Sprintf("%d:p-replay-%s", *seed, k), "cancel-in-replay", k)
			if k != "tx3" || v3cancel {
				probe(fmt.Sprintf("%d:p-pending-%s", *seed, k), "cancel-pending-event", k)
			}
		}
		probe(fmt.Sprintf("%d:p-order-%s", *seed, k), "write-during-replay", k)
	}
	if *corpus != "" {
		if b, err := os.ReadFile(*corpus); err == nil {
			for i, ln := range strings.Split(string(b), "\n") {
				f := strings.Split(ln, "\t")
				if len(f) != 2 || strings.HasPrefix(ln, "#") {
					continue
				}
				h := newHist(f[0], fmt.Sprintf("corpus:%d", i), v3cancel)
				if t3, ok := h.a.(*tx3A); ok {
					t3.predict = true
				}
				for _, tok := range strings.Fields(f[1]) {
					h.exec(tok)
				}
				h.exec("d")
				h.close()
			}
		}
	}
	for i := 0; i < *nHist; i++ {
		for _, k := range kinds {
			genHistory(r, k, fmt.Sprintf("%d:h%d%s", *seed, i, k), *steps, v3cancel)
		}
	}
	for i := 0; i < *nStress; i++ {
		for _, k := range kinds {
			stress(r, k, fmt.Sprintf("%d:s%d%s", *seed, i, k), 4, 40)
		}
	}
}

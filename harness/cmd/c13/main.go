// c13: observations for property C13 (a refused Set changes nothing; targets and paths resolve as documented).
// Every case is a real gNMI Set through the repository's Server.Set over real stores (+ real controllers for
// the main stream) with a fake topology and fake model plugins.  One line per case, see encode* below.
package main

import (
	"bufio"
	"context"
	"encoding/hex"
	"encoding/json"
	"flag"
	"fmt"
	"math"
	"math/rand"
	"os"
	"reflect"
	"sort"
	"strings"
	"time"

	adminapi "github.com/onosproject/onos-api/go/onos/config/admin"
	configapi "github.com/onosproject/onos-api/go/onos/config/v2"
	topoapi "github.com/onosproject/onos-api/go/onos/topo"
	nbgnmi "github.com/onosproject/onos-config/pkg/northbound/gnmi/v2"
	"github.com/onosproject/onos-config/pkg/utils"
	pathutils "github.com/onosproject/onos-config/pkg/utils/path"
	valueutils "github.com/onosproject/onos-config/pkg/utils/v2/values"
	"github.com/openconfig/gnmi/proto/gnmi"
	"github.com/openconfig/gnmi/proto/gnmi_ext"
	"github.com/onosproject/onos-lib-go/pkg/logging"
	"google.golang.org/grpc"
	"google.golang.org/grpc/status"

	"verifharness/env"
	"verifharness/fakes"
)

// ------------------------------------------------------------------ request description

type elem struct {
	name string
	keys [][2]string // distinct key names
}

type gpath struct {
	target  string
	elems   []elem
	element []string
	isNil   bool
}

type val struct {
	kind     byte // s i u b o j x
	s        string
	i        int64
	u        uint64
	b        bool
	gv       *gnmi.TypedValue
	pairs    [][2]string // json: key -> value (sorted by key)
	jsonErr  bool
	otherTy  int
	rendered string
}

type upd struct {
	path gpath
	v    val
}

type ext struct {
	kind    byte // O S X
	decodes bool
	ov      [][3]string
	wk      byte // kind X: 0 = a registered extension with an unknown id, 1 = gNMI master arbitration, 2 = gNMI history (well-known, not registered)
}

type request struct {
	prefix   gpath
	deletes  []gpath
	replaces []upd
	updates  []upd
	exts     []ext
}

func hx(s string) string { return env.Hx(s) }

func (p gpath) gnmi() *gnmi.Path {
	if p.isNil {
		return nil
	}
	g := &gnmi.Path{Target: p.target}
	for _, e := range p.elems {
		ge := &gnmi.PathElem{Name: e.name}
		if len(e.keys) > 0 {
			ge.Key = map[string]string{}
			for _, kv := range e.keys {
				ge.Key[kv[0]] = kv[1]
			}
		}
		g.Elem = append(g.Elem, ge)
	}
	g.Element = append(g.Element, p.element...)
	return g
}

func (p gpath) enc() string {
	es := "."
	if len(p.elems) > 0 {
		parts := []string{}
		for _, e := range p.elems {
			s := hx(e.name)
			for _, kv := range e.keys {
				s += ":" + hx(kv[0]) + "=" + hx(kv[1])
			}
			parts = append(parts, s)
		}
		es = strings.Join(parts, "/")
	}
	el := "."
	if len(p.element) > 0 {
		parts := []string{}
		for _, e := range p.element {
			parts = append(parts, hx(e))
		}
		el = strings.Join(parts, "/")
	}
	return hx(p.target) + "~" + es + "~" + el
}

func encPaths(l []gpath) string {
	if len(l) == 0 {
		return "."
	}
	parts := []string{}
	for _, p := range l {
		parts = append(parts, p.enc())
	}
	return strings.Join(parts, ";")
}

func (v val) enc() string {
	switch v.kind {
	case 's':
		return "s" + hx(v.s)
	case 'i':
		return fmt.Sprintf("i%d", v.i)
	case 'u':
		return fmt.Sprintf("u%d", v.u)
	case 'b':
		if v.b {
			return "b1"
		}
		return "b0"
	case 'o':
		return fmt.Sprintf("o%d,%s", v.otherTy, hx(v.rendered))
	case 'j':
		if v.jsonErr {
			return "j" + hx(v.s) + ",E"
		}
		parts := []string{}
		for _, kv := range v.pairs {
			parts = append(parts, hx(kv[0])+"="+hx(kv[1]))
		}
		if len(parts) == 0 {
			return "j" + hx(v.s) + ",."
		}
		return "j" + hx(v.s) + "," + strings.Join(parts, "&")
	}
	return "x"
}

func encUpds(l []upd) string {
	if len(l) == 0 {
		return "."
	}
	parts := []string{}
	for _, u := range l {
		parts = append(parts, u.path.enc()+"!"+u.v.enc())
	}
	return strings.Join(parts, ";")
}

func encExts(l []ext) string {
	if len(l) == 0 {
		return "."
	}
	parts := []string{}
	for _, e := range l {
		switch e.kind {
		case 'O':
			s := "O0"
			if e.decodes {
				s = "O1"
			}
			for _, o := range e.ov {
				s += ":" + hx(o[0]) + "," + hx(o[1]) + "," + hx(o[2])
			}
			parts = append(parts, s)
		case 'S':
			if e.decodes {
				parts = append(parts, "S1")
			} else {
				parts = append(parts, "S0")
			}
		default:
			parts = append(parts, "X")
		}
	}
	return strings.Join(parts, ";")
}

func (v val) gnmi() *gnmi.TypedValue { return v.gv }

func (r request) gnmi() *gnmi.SetRequest {
	req := &gnmi.SetRequest{Prefix: r.prefix.gnmi()}
	for _, d := range r.deletes {
		req.Delete = append(req.Delete, d.gnmi())
	}
	for _, u := range r.replaces {
		req.Replace = append(req.Replace, &gnmi.Update{Path: u.path.gnmi(), Val: u.v.gnmi()})
	}
	for _, u := range r.updates {
		req.Update = append(req.Update, &gnmi.Update{Path: u.path.gnmi(), Val: u.v.gnmi()})
	}
	hasStrategy := false
	for _, e := range r.exts {
		switch e.kind {
		case 'O':
			var b []byte
			if e.decodes {
				o := &configapi.TargetVersionOverrides{Overrides: map[string]*configapi.TargetTypeVersion{}}
				for _, x := range e.ov {
					o.Overrides[x[0]] = &configapi.TargetTypeVersion{TargetType: configapi.TargetType(x[1]), TargetVersion: configapi.TargetVersion(x[2])}
				}
				b, _ = o.Marshal()
			} else {
				b = []byte{0x0a, 0xff, 0xff} // length-delimited field running past the end
			}
			req.Extension = append(req.Extension, regExt(configapi.TargetVersionOverridesID, b))
		case 'S':
			hasStrategy = true
			var b []byte
			if e.decodes {
				b, _ = (&configapi.TransactionStrategy{Synchronicity: configapi.TransactionStrategy_ASYNCHRONOUS}).Marshal()
			} else {
				b = []byte{0x08} // varint field without a value
			}
			req.Extension = append(req.Extension, regExt(configapi.TransactionStrategyExtensionID, b))
		default:
			switch e.wk {
			case 1:
				req.Extension = append(req.Extension, &gnmi_ext.Extension{Ext: &gnmi_ext.Extension_MasterArbitration{
					MasterArbitration: &gnmi_ext.MasterArbitration{ElectionId: &gnmi_ext.Uint128{Low: 1}}}})
			case 2:
				req.Extension = append(req.Extension, &gnmi_ext.Extension{Ext: &gnmi_ext.Extension_History{History: &gnmi_ext.History{}}})
			default:
				req.Extension = append(req.Extension, regExt(999, []byte("zz")))
			}
		}
	}
	_ = hasStrategy
	return req
}

func regExt(id configapi.ExtensionID, b []byte) *gnmi_ext.Extension {
	return &gnmi_ext.Extension{Ext: &gnmi_ext.Extension_RegisteredExt{RegisteredExt: &gnmi_ext.RegisteredExtension{Id: gnmi_ext.ExtensionID(id), Msg: b}}}
}

// ------------------------------------------------------------------ server configuration

type rwp struct {
	path  string
	vt    configapi.ValueType
	isKey bool
	attr  string
}

type plug struct {
	name, version string
	rw            []rwp
}

var pluginsDef = []plug{
	{"devicesim", "1.0.0", []rwp{
		{"/sys/name", configapi.ValueType_STRING, false, "name"},
		{"/sys/mtu", configapi.ValueType_UINT, false, "mtu"},
		{"/sys/enabled", configapi.ValueType_BOOL, false, "enabled"},
		{"/sys/offset", configapi.ValueType_INT, false, "offset"},
		{"/sys/sub/leaf", configapi.ValueType_STRING, false, "leaf"},
		{"/sys/subx", configapi.ValueType_STRING, false, "subx"},
		{"/ifs/if[name=*]/name", configapi.ValueType_STRING, true, "name"},
		{"/ifs/if[name=*]/descr", configapi.ValueType_STRING, false, "descr"},
		{"/ifs/if[name=*]/mtu", configapi.ValueType_UINT, false, "mtu"},
		{"/ifs/if[name=*]/units/unit[idx=*]/idx", configapi.ValueType_UINT, true, "idx"},
		{"/ifs/if[name=*]/units/unit[idx=*]/vlan", configapi.ValueType_UINT, false, "vlan"},
		{"/acl/rule[dir=*][id=*]/id", configapi.ValueType_STRING, true, "id"},
		{"/acl/rule[dir=*][id=*]/dir", configapi.ValueType_STRING, true, "dir"},
		{"/acl/rule[dir=*][id=*]/action", configapi.ValueType_STRING, false, "action"},
		// a list nested in a list, both keyed by a leaf of the same name: a key leaf belongs to its OWN entry
		{"/cont/outer[id=*]/id", configapi.ValueType_STRING, true, "id"},
		{"/cont/outer[id=*]/inner[id=*]/id", configapi.ValueType_STRING, true, "id"},
		{"/cont/outer[id=*]/inner[id=*]/val", configapi.ValueType_STRING, false, "val"},
		{"/q/w[z=*][a=*]/v", configapi.ValueType_STRING, false, "v"}, // keys not in StrPath's sorted order: never matched exactly
	}},
	{"devicesim", "2.0.0", []rwp{
		{"/sys/name", configapi.ValueType_STRING, false, "name"},
		{"/v2only", configapi.ValueType_STRING, false, "v2only"},
		{"/ifs/if[name=*]/name", configapi.ValueType_STRING, true, "name"},
	}},
	{"Stratum", "1.0", []rwp{
		{"/sys/name", configapi.ValueType_STRING, false, "name"},
		{"/st/leaf", configapi.ValueType_STRING, false, "leaf"},
	}},
}

type tent struct {
	id            string
	hasCfg        bool
	ttype, tversn string
}

var topoDef = []tent{
	{"t1", true, "devicesim", "1.0.0"},
	{"t2", true, "devicesim", "1.0.0"},
	{"t3", true, "devicesim", "2.0.0"},
	{"t4", true, "stratum", "1.0"},
	{"t5", true, "nomodel", "9"},
	{"t6", false, "", ""},
}

func encCfg() (string, string) {
	ts := []string{}
	for _, t := range topoDef {
		c := "0"
		if t.hasCfg {
			c = "1"
		}
		ts = append(ts, hx(t.id)+","+c+","+hx(t.ttype)+","+hx(t.tversn))
	}
	ps := []string{}
	for _, p := range pluginsDef {
		rws := []string{}
		for _, r := range p.rw {
			k := "0"
			if r.isKey {
				k = "1"
			}
			rws = append(rws, fmt.Sprintf("%s:%d:%s:%s", hx(r.path), int(r.vt), k, hx(r.attr)))
		}
		ps = append(ps, hx(p.name)+","+hx(p.version)+","+strings.Join(rws, "|"))
	}
	return strings.Join(ts, ";"), strings.Join(ps, ";")
}

// the fake plugin's GetPathValues: a flat JSON object of strings; every member k becomes the path
// <prefix>/<k> (the prefix itself when k is empty); a member "!err" makes the call fail
func fakePathValues(prefix string, doc []byte) ([]*configapi.PathValue, error) {
	m := map[string]string{}
	if err := json.Unmarshal(doc, &m); err != nil {
		return nil, err
	}
	if _, bad := m["!err"]; bad {
		return nil, fmt.Errorf("plugin refuses the document")
	}
	ks := []string{}
	for k := range m {
		ks = append(ks, k)
	}
	sort.Strings(ks)
	res := []*configapi.PathValue{}
	for _, k := range ks {
		p := prefix
		if k != "" {
			if prefix == "/" {
				p = "/" + k
			} else {
				p = prefix + "/" + k
			}
		}
		res = append(res, &configapi.PathValue{Path: p, Value: *configapi.NewTypedValueString(m[k])})
	}
	return res, nil
}

// ------------------------------------------------------------------ generators

type tmpl struct {
	elems []string // "name" or "name[k1,k2]"
	leaf  byte     // value type of the leaf: s u b i, 0 for containers / invalid
	key   string   // for key leaves: the key name of the parent entry it mirrors
}

var leafTmpls = []tmpl{
	{[]string{"sys", "name"}, 's', ""}, {[]string{"sys", "mtu"}, 'u', ""}, {[]string{"sys", "enabled"}, 'b', ""},
	{[]string{"sys", "offset"}, 'i', ""}, {[]string{"sys", "sub", "leaf"}, 's', ""}, {[]string{"sys", "subx"}, 's', ""},
	{[]string{"ifs", "if[name]", "name"}, 's', "name"}, {[]string{"ifs", "if[name]", "descr"}, 's', ""},
	{[]string{"ifs", "if[name]", "mtu"}, 'u', ""},
	{[]string{"ifs", "if[name]", "units", "unit[idx]", "idx"}, 'u', "idx"},
	{[]string{"ifs", "if[name]", "units", "unit[idx]", "vlan"}, 'u', ""},
	{[]string{"acl", "rule[dir,id]", "id"}, 's', "id"}, {[]string{"acl", "rule[dir,id]", "dir"}, 's', "dir"},
	{[]string{"acl", "rule[dir,id]", "action"}, 's', ""},
	{[]string{"cont", "outer[id]", "id"}, 's', "id"}, {[]string{"cont", "outer[id]", "inner[id]", "id"}, 's', "id"},
	{[]string{"cont", "outer[id]", "inner[id]", "id"}, 's', "id"}, {[]string{"cont", "outer[id]", "inner[id]", "val"}, 's', ""},
}

var contTmpls = []tmpl{
	{[]string{"sys"}, 0, ""}, {[]string{"sys", "sub"}, 0, ""}, {[]string{"ifs"}, 0, ""}, {[]string{"ifs", "if[name]"}, 0, ""},
	{[]string{"acl"}, 0, ""}, {[]string{"acl", "rule[dir,id]"}, 0, ""}, {[]string{"ifs", "if[name]", "units"}, 0, ""},
	{[]string{"ifs", "if[name]", "units", "unit[idx]"}, 0, ""}, {[]string{}, 0, ""},
	{[]string{"cont", "outer[id]"}, 0, ""}, {[]string{"cont", "outer[id]", "inner[id]"}, 0, ""},
}

var badTmpls = []tmpl{
	{[]string{"sys", "nam"}, 's', ""}, {[]string{"sys", "nope"}, 's', ""}, {[]string{"zzz"}, 's', ""}, {[]string{"sy"}, 0, ""},
	{[]string{"ifs", "if", "descr"}, 's', ""}, {[]string{"ifs", "if[nme]", "descr"}, 's', ""}, {[]string{"sys", "name", "extra"}, 's', ""},
	{[]string{"acl", "rule[id]", "action"}, 's', ""}, {[]string{"acl", "rule[dir,id,zz]", "action"}, 's', ""},
	{[]string{"q", "w[a,z]", "v"}, 's', ""}, {[]string{"v2only"}, 's', ""}, {[]string{"st", "leaf"}, 's', ""},
	{[]string{"sys", "sub"}, 's', ""}, {[]string{"ifs", "if[name]"}, 's', ""}, {[]string{"i"}, 0, ""}, {[]string{"sys", "su"}, 0, ""},
	{[]string{"ifs", "if[name]", "unit"}, 0, ""},
}

var plainKeyVals = []string{"eth0", "eth1", "1", "2", "in", "out", "a.b", "x_y", "e-1", "7"}
var oddKeyVals = []string{"a b", "a/b", "a]b", "a=b", "*", "", "é", "a\nb", "[x]", "a[b", "x=y=z", "a\\b", "@", "a:b"}
var oddNames = []string{"a/b", "a[b", "a]b", "[k=v]", "", "sys ", "süs", "a=b", "sys\n", "sys]", "if[name=x]", "x\\y", "*", "..."}

func keyVal(r *rand.Rand, odd int) string {
	if odd > 0 && r.Intn(odd) == 0 {
		return env.Pick(r, oddKeyVals)
	}
	return env.Pick(r, plainKeyVals)
}

// instantiate a template; odd = 0: plain key values only
func inst(r *rand.Rand, t tmpl, odd int) []elem {
	es := []elem{}
	for _, s := range t.elems {
		e := elem{name: s}
		if i := strings.Index(s, "["); i >= 0 {
			e.name = s[:i]
			for _, k := range strings.Split(s[i+1:len(s)-1], ",") {
				e.keys = append(e.keys, [2]string{k, keyVal(r, odd)})
			}
			r.Shuffle(len(e.keys), func(a, b int) { e.keys[a], e.keys[b] = e.keys[b], e.keys[a] })
		}
		es = append(es, e)
	}
	return es
}

func mkVal(kind byte, r *rand.Rand) val {
	switch kind {
	case 's':
		s := env.Pick(r, []string{"alpha", "beta", "", "eth0", "x y", "in", "1", "été", "a/b"})
		return val{kind: 's', s: s, gv: &gnmi.TypedValue{Value: &gnmi.TypedValue_StringVal{StringVal: s}}}
	case 'u':
		u := env.Pick(r, []uint64{0, 1, 2, 7, 1500, 65535, 4294967295, 18446744073709551615, 9223372036854775808})
		return val{kind: 'u', u: u, gv: &gnmi.TypedValue{Value: &gnmi.TypedValue_UintVal{UintVal: u}}}
	case 'i':
		i := env.Pick(r, []int64{0, 1, -1, 7, -1500, 2147483647, -2147483648, 9223372036854775807, -9223372036854775808})
		return val{kind: 'i', i: i, gv: &gnmi.TypedValue{Value: &gnmi.TypedValue_IntVal{IntVal: i}}}
	case 'b':
		b := r.Intn(2) == 0
		return val{kind: 'b', b: b, gv: &gnmi.TypedValue{Value: &gnmi.TypedValue_BoolVal{BoolVal: b}}}
	}
	return val{kind: 'x'}
}

func otherVal(r *rand.Rand) val {
	var gv *gnmi.TypedValue
	switch r.Intn(5) {
	case 0:
		gv = &gnmi.TypedValue{Value: &gnmi.TypedValue_BytesVal{BytesVal: []byte{1, 2, 250}}}
	case 1:
		gv = &gnmi.TypedValue{Value: &gnmi.TypedValue_DecimalVal{DecimalVal: &gnmi.Decimal64{Digits: 12345, Precision: 2}}}
	case 2:
		gv = &gnmi.TypedValue{Value: &gnmi.TypedValue_FloatVal{FloatVal: 1.5}}
	case 3:
		gv = &gnmi.TypedValue{Value: &gnmi.TypedValue_LeaflistVal{LeaflistVal: &gnmi.ScalarArray{Element: []*gnmi.TypedValue{
			{Value: &gnmi.TypedValue_StringVal{StringVal: "a"}}, {Value: &gnmi.TypedValue_StringVal{StringVal: "b"}}}}}}
	default:
		gv = &gnmi.TypedValue{Value: &gnmi.TypedValue_AsciiVal{AsciiVal: "ascii"}}
	}
	tv, err := valueutils.GnmiTypedValueToNativeType(gv, nil)
	if err != nil {
		panic(err)
	}
	return val{kind: 'o', otherTy: int(tv.Type), rendered: tv.ValueToString(), gv: gv}
}

func badVal(r *rand.Rand) val {
	var gv *gnmi.TypedValue
	switch r.Intn(5) {
	case 0:
		gv = nil
	case 1:
		gv = &gnmi.TypedValue{Value: &gnmi.TypedValue_JsonIetfVal{JsonIetfVal: []byte(`{"a":"b"}`)}}
	case 2:
		gv = &gnmi.TypedValue{Value: &gnmi.TypedValue_FloatVal{FloatVal: float32(math.NaN())}}
	case 3:
		gv = &gnmi.TypedValue{Value: &gnmi.TypedValue_LeaflistVal{LeaflistVal: &gnmi.ScalarArray{}}}
	default:
		gv = &gnmi.TypedValue{}
	}
	return val{kind: 'x', gv: gv}
}

func jsonVal(r *rand.Rand) val {
	m := map[string]string{}
	n := r.Intn(4)
	for i := 0; i < n; i++ {
		k := env.Pick(r, []string{"name", "descr", "mtu", "sub/leaf", "", "x y", "leaf", "a/b/c", "if[name=eth0]/descr", "zz"})
		m[k] = env.Pick(r, []string{"v1", "v2", "", "eth0"})
	}
	bad := r.Intn(12) == 0
	if bad {
		m["!err"] = "1"
	}
	doc, _ := json.Marshal(m)
	ks := []string{}
	for k := range m {
		ks = append(ks, k)
	}
	sort.Strings(ks)
	v := val{kind: 'j', s: string(doc), jsonErr: bad, gv: &gnmi.TypedValue{Value: &gnmi.TypedValue_JsonVal{JsonVal: doc}}}
	for _, k := range ks {
		v.pairs = append(v.pairs, [2]string{k, m[k]})
	}
	return v
}

var targetsKnown = []string{"t1", "t2", "t3", "t4"}
var targetsBad = []string{"t5", "t6", "ghost", "", "T1", "t1 "}

type genOpts struct {
	odd      int  // 0: only plain key values, else 1/odd of the key values is odd
	badPaths int  // 1/badPaths of the operations uses a path that is not in the model (0: never)
	badTgt   int  // 1/badTgt of the operations names a target that cannot be resolved (0: never)
	oddNames bool // malformed stream: odd element names, v0.3 elements, nil paths, bad values
}

// a complete (target, elems, value) operation, later split into prefix + path
type rawOp struct {
	del    bool
	target string
	elems  []elem
	v      val
}

func genRawOp(r *rand.Rand, o genOpts, del bool) rawOp {
	op := rawOp{del: del}
	op.target = env.Pick(r, targetsKnown[:2+r.Intn(3)])
	if o.badPaths == 0 {
		op.target = env.Pick(r, targetsKnown[:2]) // the two targets whose model has every template
	}
	if o.badTgt > 0 && r.Intn(o.badTgt) == 0 {
		op.target = env.Pick(r, targetsBad)
	}
	var t tmpl
	switch {
	case o.badPaths > 0 && r.Intn(o.badPaths) == 0:
		t = env.Pick(r, badTmpls)
	case del && r.Intn(2) == 0:
		t = env.Pick(r, contTmpls)
	default:
		t = env.Pick(r, leafTmpls)
	}
	op.elems = inst(r, t, o.odd)
	if o.oddNames && r.Intn(4) == 0 && len(op.elems) > 0 {
		op.elems[r.Intn(len(op.elems))].name = env.Pick(r, oddNames)
	}
	if !del {
		kind := t.leaf
		if kind == 0 {
			kind = 's'
		}
		if r.Intn(8) == 0 { // the code does not check the value type against the model
			kind = env.Pick(r, []byte{'s', 'u', 'i', 'b'})
		}
		op.v = mkVal(kind, r)
		if t.key != "" && (r.Intn(4) != 0 || (o.badPaths == 0 && r.Intn(3) != 0)) {
			// a key leaf: mostly the value of its own list entry's key; when an enclosing list has a key of the
			// same name, sometimes THAT value (which contradicts the leaf's own entry unless both are equal)
			same := []string{}
			for _, e := range op.elems {
				for _, kv := range e.keys {
					if kv[0] == t.key {
						same = append(same, kv[1])
					}
				}
			}
			if len(same) > 0 {
				s := same[len(same)-1]
				if len(same) > 1 && r.Intn(3) == 0 {
					s = same[0]
				}
				op.v = val{kind: 's', s: s, gv: &gnmi.TypedValue{Value: &gnmi.TypedValue_StringVal{StringVal: s}}}
			}
		}
		switch {
		case r.Intn(12) == 0:
			op.v = otherVal(r)
		case r.Intn(9) == 0:
			op.v = jsonVal(r)
			if r.Intn(2) == 0 && len(op.elems) > 0 {
				op.elems = op.elems[:len(op.elems)-1]
			}
		case o.oddNames && r.Intn(6) == 0:
			op.v = badVal(r)
		}
	}
	return op
}

// genRequest builds a request: a few raw operations, a prefix chosen as a common leading part (or none)
func genRequest(r *rand.Rand, o genOpts) request {
	n := 1 + r.Intn(4)
	if r.Intn(6) == 0 {
		n += r.Intn(4)
	}
	if r.Intn(40) == 0 {
		n = 0
	}
	ops := []rawOp{}
	for i := 0; i < n; i++ {
		op := genRawOp(r, o, r.Intn(3) == 0)
		if i > 0 && r.Intn(3) == 0 { // same path again (duplicates, delete-vs-update overlap)
			prev := ops[r.Intn(len(ops))]
			op.elems = prev.elems
			if r.Intn(2) == 0 {
				op.target = prev.target
			}
			if !op.del && op.v.kind == 'j' {
				op.v = mkVal('s', r)
			}
		}
		ops = append(ops, op)
	}
	req := request{}
	// prefix: none / target only / leading elements of the first op (the other ops are re-rooted when they share them)
	mode := r.Intn(5)
	var pre []elem
	if mode >= 2 && len(ops) > 0 && len(ops[0].elems) > 0 {
		pre = ops[0].elems[:r.Intn(len(ops[0].elems)+1)]
		if o.badPaths == 0 { // clean stream: a prefix every operation shares
			for len(pre) > 0 {
				all := true
				for _, op := range ops {
					if !hasPrefixElems(op.elems, pre) || (len(op.elems) == len(pre) && !op.del) {
						all = false
					}
				}
				if all {
					break
				}
				pre = pre[:len(pre)-1]
			}
		}
	}
	if mode == 1 || mode == 3 || (mode == 4 && r.Intn(2) == 0) {
		req.prefix.target = env.Pick(r, targetsKnown[:3])
		if o.badPaths == 0 {
			req.prefix.target = env.Pick(r, targetsKnown[:2])
		}
		if o.badTgt > 0 && r.Intn(o.badTgt*2) == 0 {
			req.prefix.target = env.Pick(r, targetsBad)
		}
	}
	req.prefix.elems = pre
	// one request in six carries its prefix in the deprecated gNMI 0.3 `element` field (a string list; list keys as
	// text "[k=v]" in StrPath's sorted order) - utils.StrPath gives the same text, so the request is as valid or
	// invalid as with `elem`
	if len(pre) > 0 && r.Intn(6) == 0 {
		req.prefix.elems = nil
		req.prefix.element = elemsToElement(pre)
	}
	if len(pre) == 0 && req.prefix.target == "" && r.Intn(2) == 0 {
		req.prefix.isNil = true
	}
	for _, op := range ops {
		es := op.elems
		if len(pre) > 0 {
			if hasPrefixElems(es, pre) {
				es = es[len(pre):]
			}
			// otherwise the operation simply lands under the prefix (usually not a model path)
		}
		p := gpath{target: op.target, elems: es}
		if r.Intn(5) == 0 && (req.prefix.target != "" || o.badTgt > 0) {
			p.target = ""
		}
		if o.oddNames && len(es) > 0 && r.Intn(10) == 0 { // gNMI 0.3 form, names only
			p.elems = nil
			for _, e := range es {
				p.element = append(p.element, e.name)
			}
		} else if len(es) > 0 && r.Intn(8) == 0 { // gNMI 0.3 form with the keys as text
			p.elems = nil
			p.element = elemsToElement(es)
		}
		if op.del {
			req.deletes = append(req.deletes, p)
		} else {
			if o.oddNames && len(es) == 0 && r.Intn(2) == 0 {
				p = gpath{isNil: true}
			}
			if r.Intn(3) == 0 {
				req.replaces = append(req.replaces, upd{p, op.v})
			} else {
				req.updates = append(req.updates, upd{p, op.v})
			}
		}
	}
	// extensions: the asynchronous strategy always (so that accepted Sets return at COMMITTED)
	if r.Intn(25) == 0 {
		req.exts = append(req.exts, ext{kind: 'S', decodes: false})
	}
	if r.Intn(4) == 0 {
		// an extension the server has no use for, AHEAD of the ones it reads: a registered one with an unknown id or one of
		// gNMI's well-known extensions (legal in any Set; every extension behind it must still be found and judged)
		req.exts = append([]ext{{kind: 'X', wk: byte(r.Intn(3))}}, req.exts...)
	}
	// the targets the request names (operation targets and the prefix target), resolvable or not
	named := []string{}
	unresolvable := []string{}
	addNamed := func(t string) {
		named = append(named, t)
		for _, b := range targetsBad {
			if b == t {
				unresolvable = append(unresolvable, t)
			}
		}
	}
	if req.prefix.target != "" {
		addNamed(req.prefix.target)
	}
	for _, op := range ops {
		addNamed(op.target)
	}
	// type/version overrides: absent / present; entries for a named target (known, absent from the topology, without
	// the Configurable aspect) or for another one; model plugin existing or not.  A request naming a target that
	// cannot be resolved gets, every other time, a well-formed entry for exactly that target.
	if r.Intn(6) == 0 || (len(unresolvable) > 0 && r.Intn(2) == 0) {
		e := ext{kind: 'O', decodes: r.Intn(8) != 0}
		if e.decodes {
			tvs := [][2]string{{"devicesim", "2.0.0"}, {"devicesim", "1.0.0"}, {"DeviceSim", "1.0.0"}, {"stratum", "1.0"}, {"unknown", "1"}, {"devicesim", ""}}
			if len(unresolvable) > 0 && r.Intn(4) != 0 {
				e.ov = append(e.ov, [3]string{env.Pick(r, unresolvable), "devicesim", "1.0.0"})
				if r.Intn(4) == 0 {
					tv := env.Pick(r, tvs)
					e.ov[0][1], e.ov[0][2] = tv[0], tv[1]
				}
			}
			for i := r.Intn(3); i > 0; i-- {
				tv := env.Pick(r, tvs)
				t := env.Pick(r, []string{"t1", "t2", "t3", "t5", "t6", "ghost"})
				if len(named) > 0 && r.Intn(2) == 0 {
					t = env.Pick(r, named)
				}
				e.ov = append(e.ov, [3]string{t, tv[0], tv[1]})
			}
			// distinct keys (it is a map)
			seen := map[string]bool{}
			ov := [][3]string{}
			for _, x := range e.ov {
				if !seen[x[0]] {
					seen[x[0]] = true
					ov = append(ov, x)
				}
			}
			e.ov = ov
		}
		req.exts = append(req.exts, e)
	}
	req.exts = append(req.exts, ext{kind: 'S', decodes: true})
	if r.Intn(10) == 0 {
		req.exts = append(req.exts, ext{kind: 'O', decodes: false}) // a second one is never looked at... unless it is the first with that id
	}
	return req
}

// elemsToElement renders path elements as gNMI 0.3 `element` strings: name followed by [k=v] in sorted key order
func elemsToElement(es []elem) []string {
	out := []string{}
	for _, e := range es {
		ks := append([][2]string{}, e.keys...)
		sort.Slice(ks, func(i, j int) bool { return ks[i][0] < ks[j][0] })
		s := e.name
		for _, kv := range ks {
			s += "[" + kv[0] + "=" + kv[1] + "]"
		}
		out = append(out, s)
	}
	return out
}

func sval(x string) val {
	return val{kind: 's', s: x, gv: &gnmi.TypedValue{Value: &gnmi.TypedValue_StringVal{StringVal: x}}}
}

func pe(names ...string) []elem {
	es := []elem{}
	for _, n := range names {
		es = append(es, elem{name: n})
	}
	return es
}

// directed returns fixed requests: each is valid except for the one thing its comment names
func directed() []request {
	async := []ext{{kind: 'S', decodes: true}}
	ok := upd{gpath{target: "t1", elems: pe("sys", "name")}, sval("ok")}
	nested := func(v string) request {
		p := []elem{{name: "cont"}, {name: "outer", keys: [][2]string{{"id", "a"}}}, {name: "inner", keys: [][2]string{{"id", "b"}}}, {name: "id"}}
		return request{updates: []upd{ok, {gpath{target: "t1", elems: p}, sval(v)}}, exts: async}
	}
	over := func(t string, prefixTarget bool) request {
		r := request{updates: []upd{ok, {gpath{target: t, elems: pe("sys", "subx")}, sval("y")}},
			exts: []ext{{kind: 'O', decodes: true, ov: [][3]string{{t, "devicesim", "1.0.0"}}}, {kind: 'S', decodes: true}}}
		if prefixTarget {
			r.prefix.target = t
			r.updates[1].path.target = ""
		}
		return r
	}
	element := func(del bool) request {
		r := request{prefix: gpath{target: "t2", element: []string{"ifs", "if[name=eth0]"}}, exts: async,
			updates: []upd{{gpath{elems: pe("descr")}, sval("d")}, {gpath{element: []string{"mtu"}}, sval("m")}}}
		if del {
			r.deletes = []gpath{{elems: pe("units")}}
		}
		return r
	}
	return []request{
		nested("b"),         // key leaf of the inner entry = its own key: accepted
		nested("a"),         // = the same-named key of the enclosing entry: refused
		nested("c"),         // neither: refused
		over("ghost", false), // override entry for a target absent from the topology: refused
		over("ghost", true),
		over("t6", false), // ... for an entity without the Configurable aspect: refused
		over("t5", false), // ... for a Configurable target whose own model is unknown: the override's plugin is used
		element(false),    // prefix and a path in the gNMI 0.3 element form: land below the prefix
		element(true),
		{deletes: []gpath{{target: "t1", elems: pe("sys", "su")}}, updates: []upd{ok}, exts: async},                       // partial element name: refused
		{deletes: []gpath{{target: "t1", elems: pe("sys", "sub")}}, updates: []upd{ok}, exts: async},                      // a real ancestor: accepted
		{prefix: gpath{elems: pe("sys")}, deletes: []gpath{{target: "t1"}}, exts: async},                                  // delete of "<prefix>/": refused
		{deletes: []gpath{{target: "t1"}}, exts: async},                                                                   // delete of "/": refused
		{prefix: gpath{target: "t2"}, updates: []upd{ok, {gpath{target: "ghost", elems: pe("sys", "subx")}, sval("z")}}, exts: async}, // prefix target overrides both
	}
}

func hasPrefixElems(es, pre []elem) bool {
	if len(es) < len(pre) {
		return false
	}
	for i := range pre {
		if !reflect.DeepEqual(es[i], pre[i]) {
			return false
		}
	}
	return true
}

// ------------------------------------------------------------------ observation

type world struct {
	e       *env.Env
	plugins []*fakes.PluginClient
	servers map[int]*nbgnmi.Server
	ctl     bool
	dirty   bool // a transaction did not complete: start over with a fresh world
}

func newWorld(withControllers bool, limits []int) *world {
	w := &world{servers: map[int]*nbgnmi.Server{}, ctl: withControllers}
	for _, p := range pluginsDef {
		pc := &fakes.PluginClient{Name: p.name, Version: p.version, PathValues: fakePathValues}
		for _, r := range p.rw {
			pc.RW = append(pc.RW, fakes.RWPath(r.path, r.vt, r.isKey, r.attr))
		}
		w.plugins = append(w.plugins, pc)
	}
	w.e = env.New(0, w.plugins...)
	for _, t := range topoDef {
		if t.hasCfg {
			w.e.Topo.AddTarget(t.id, t.ttype, t.tversn, false, false)
		} else {
			_ = w.e.Topo.Create(context.Background(), &topoapi.Object{ID: topoapi.ID(t.id), Type: topoapi.Object_ENTITY,
				Obj: &topoapi.Object_Entity{Entity: &topoapi.Entity{}}})
		}
	}
	for _, l := range limits {
		w.servers[l] = nbgnmi.NewServerForVerif(w.e.Topo, w.e.Txs, w.e.Props, w.e.Cfgs, w.e.Registry, w.e.Conns, l)
	}
	if withControllers {
		w.e.StartControllers(false)
	}
	return w
}

func renderGnmi(v *gnmi.TypedValue) string {
	if v == nil {
		return "nil"
	}
	tv, err := valueutils.GnmiTypedValueToNativeType(v, nil)
	if err != nil {
		return "err"
	}
	return fmt.Sprintf("%d:%s", int(tv.Type), hx(tv.ValueToString()))
}

// snapshot: Get (PROTO) of every target's whole configuration + the raw configuration store
func (w *world) snapshot() (map[string]map[string]string, string) {
	res := map[string]map[string]string{}
	all := ""
	for _, t := range append(append([]string{}, targetsKnown...), "t5", "t6", "ghost") {
		m := map[string]string{}
		resp, err := w.e.Gnmi.Get(context.Background(), &gnmi.GetRequest{Path: []*gnmi.Path{{Target: t}}, Encoding: gnmi.Encoding_PROTO})
		if err != nil {
			m["!"] = status.Code(err).String()
		} else {
			for _, n := range resp.Notification {
				for _, u := range n.Update {
					if u.Val == nil {
						continue
					}
					m[utils.StrPath(u.Path)] = renderGnmi(u.Val)
				}
			}
		}
		res[t] = m
		ks := []string{}
		for k := range m {
			ks = append(ks, k)
		}
		sort.Strings(ks)
		for _, k := range ks {
			all += t + "|" + k + "|" + m[k] + "\n"
		}
	}
	cfgs, err := w.e.Cfgs.List(context.Background())
	if err != nil {
		panic(err)
	}
	cs := []string{}
	for _, c := range cfgs {
		ks := []string{}
		for k, v := range c.Values {
			ks = append(ks, fmt.Sprintf("%s=%v/%d:%s", k, v.Deleted, int(v.Value.Type), hx(v.Value.ValueToString())))
		}
		sort.Strings(ks)
		cs = append(cs, string(c.ID)+"{"+strings.Join(ks, ",")+"}")
	}
	sort.Strings(cs)
	return res, all + strings.Join(cs, "\n")
}

func encChange(key string, pv *configapi.PathValue) string {
	switch {
	case pv == nil || (pv.Path == "" && !pv.Deleted && pv.Value.Type == configapi.ValueType_EMPTY && len(pv.Value.Bytes) == 0):
		return "N"
	case pv.Path != key:
		return "P" + hx(pv.Path)
	case pv.Deleted:
		return "D"
	}
	return fmt.Sprintf("U%d,%s", int(pv.Value.Type), hx(pv.Value.ValueToString()))
}

func (w *world) lastTx() *configapi.Transaction {
	l, err := w.e.Txs.List(context.Background())
	if err != nil {
		panic(err)
	}
	var best *configapi.Transaction
	for _, t := range l {
		if best == nil || t.Index > best.Index {
			best = t
		}
	}
	return best
}

func encTx(t *configapi.Transaction) (string, string) {
	if t == nil || t.GetChange() == nil {
		return "?", "?"
	}
	ts := []string{}
	for tid, pvs := range t.GetChange().Values {
		es := []string{}
		if pvs != nil {
			for k, pv := range pvs.Values {
				es = append(es, hx(k)+"="+encChange(k, pv))
			}
		}
		sort.Strings(es)
		s := "."
		if len(es) > 0 {
			s = strings.Join(es, "|")
		}
		ts = append(ts, hx(string(tid))+">"+s)
	}
	sort.Strings(ts)
	chs := "."
	if len(ts) > 0 {
		chs = strings.Join(ts, ";")
	}
	os := []string{}
	if t.TargetVersionOverrides != nil {
		for k, v := range t.TargetVersionOverrides.Overrides {
			if v == nil {
				os = append(os, hx(k)+",nil,nil")
			} else {
				os = append(os, hx(k)+","+hx(string(v.TargetType))+","+hx(string(v.TargetVersion)))
			}
		}
	}
	sort.Strings(os)
	ovs := "."
	if len(os) > 0 {
		ovs = strings.Join(os, ";")
	}
	return chs, ovs
}

func diffSnap(a, b map[string]map[string]string) string {
	out := []string{}
	for t, ma := range a {
		mb := b[t]
		for k, va := range ma {
			if vb, ok := mb[k]; !ok {
				out = append(out, hx(t)+","+hx(k)+","+va+",~")
			} else if vb != va {
				out = append(out, hx(t)+","+hx(k)+","+va+","+vb)
			}
		}
		for k, vb := range mb {
			if _, ok := ma[k]; !ok {
				out = append(out, hx(t)+","+hx(k)+",~,"+vb)
			}
		}
	}
	sort.Strings(out)
	if len(out) == 0 {
		return "."
	}
	return strings.Join(out, ";")
}

// runCase performs one Set and prints the observation line
func (w *world) runCase(out *bufio.Writer, id string, limit int, req request) {
	srv := w.servers[limit]
	before := w.e.NumTx()
	snapA, rawA := w.snapshot()
	pvBefore := make([]int, len(w.plugins))
	for i, p := range w.plugins {
		pvBefore[i] = len(p.PVCalls)
	}
	greq := req.gnmi()
	code := "OK"
	var ctx context.Context
	var cancel context.CancelFunc
	if w.ctl {
		ctx, cancel = context.WithTimeout(context.Background(), 1200*time.Millisecond)
	} else {
		// no controllers: the handler would wait for ever once the transaction is logged; release it
		// as soon as the transaction is in the store (or after a short while)
		ctx, cancel = context.WithCancel(context.Background())
		go func() {
			for i := 0; i < 100; i++ {
				time.Sleep(2 * time.Millisecond)
				if w.e.NumTx() != before {
					break
				}
			}
			cancel()
		}()
	}
	func() {
		defer func() {
			if rec := recover(); rec != nil {
				code = "PANIC"
			}
		}()
		_, err := srv.Set(ctx, greq)
		if err != nil {
			code = status.Code(err).String()
			if w.e.NumTx() != before {
				w.dirty = true
				// the transaction was created: what the controllers make of it afterwards (validation by the
				// plugin failing it, a wedged target, the harness cutting the wait short) is not this property's
				// concern; any other error after the Create is reported as it is (refused, yet logged)
				failed := ctx.Err() != nil
				if lt := w.lastTx(); lt != nil && (lt.Status.State == configapi.TransactionStatus_COMMITTED || lt.Status.State == configapi.TransactionStatus_APPLIED) {
					failed = true // the error comes from building the response of a committed transaction (property C08's business)
				}
				for i := 0; i < 60 && !failed; i++ { // the store's List may lag behind the event the handler saw
					if lt := w.lastTx(); lt != nil && lt.Status.State == configapi.TransactionStatus_FAILED {
						failed = true
					} else {
						time.Sleep(5 * time.Millisecond)
					}
				}
				if failed {
					code = "LOGGED"
				}
			}
		}
	}()
	cancel()
	delta := w.e.NumTx() - before
	chs, ovs := ".", "."
	snapB, rawB := w.snapshot()
	after := "."
	if delta == 1 {
		lt := w.lastTx()
		chs, ovs = encTx(lt)
		as := []string{}
		if lt.GetChange() != nil {
			for tid, pvs := range lt.GetChange().Values {
				if pvs == nil {
					continue
				}
				for k := range pvs.Values {
					v, ok := snapB[string(tid)][k]
					if _, bad := snapB[string(tid)]["!"]; bad {
						v = "!"
					} else if !ok {
						v = "~"
					}
					as = append(as, hx(string(tid))+","+hx(k)+","+v)
				}
			}
		}
		sort.Strings(as)
		if len(as) > 0 {
			after = strings.Join(as, ";")
		}
	}
	same := "1"
	if rawA != rawB {
		same = "0"
	}
	calls := []string{}
	for i, p := range w.plugins {
		for _, c := range p.PVCalls[pvBefore[i]:] {
			calls = append(calls, hx(c[0])+","+hx(c[1]))
		}
	}
	cs := "."
	if len(calls) > 0 {
		cs = strings.Join(calls, ";")
	}
	ctl := "0"
	if w.ctl {
		ctl = "1"
	}
	fmt.Fprintf(out, "c13.set\t%s\t%d\t%s\t%s\t%s\t%s\t%s\t%s\t%s\t%d\t%s\t%s\t%s\t%s\t%s\t%s\n", id, limit, ctl, req.prefix.enc(), encPaths(req.deletes),
		encUpds(req.replaces), encUpds(req.updates), encExts(req.exts), code, delta, chs, ovs, same, diffSnap(snapA, snapB), cs, after)
}

// every effective delete path is a valid path for IsPathValid (routing only: requests with an invalid one
// leave a nil change in the transaction, which the running controllers must not be fed with)
func deletesValid(req request) bool {
	pp := utils.StrPath(req.prefix.gnmi())
	for _, d := range req.deletes {
		p := utils.StrPath(d.gnmi())
		if pp != "/" {
			p = pp + p
		}
		if pathutils.IsPathValid(p) != nil {
			return false
		}
	}
	return true
}

// the size limit as the real Service.Register parses it from the environment
func observedLimit(s string) int64 {
	os.Setenv("GNMI_SET_SIZE_LIMIT", s)
	defer os.Unsetenv("GNMI_SET_SIZE_LIMIT")
	g := grpc.NewServer()
	nbgnmi.NewService(nil, nil, nil, nil, nil, nil).Register(g)
	services := reflect.ValueOf(g).Elem().FieldByName("services")
	for _, k := range services.MapKeys() {
		impl := services.MapIndex(k).Elem().FieldByName("serviceImpl")
		srv := impl.Elem()
		if srv.Kind() == reflect.Ptr {
			srv = srv.Elem()
		}
		f := srv.FieldByName("gnmiSetSizeLimit")
		if f.IsValid() {
			return f.Int()
		}
	}
	panic("gnmiSetSizeLimit not found in the registered service")
}

func main() {
	seed := flag.Int64("seed", 1, "")
	nMain := flag.Int("main", 300, "cases of the mostly-valid stream (controllers running)")
	nMal := flag.Int("malformed", 150, "cases of the malformed stream")
	nNil := flag.Int("nilchange", 40, "cases routed to the world without controllers")
	nLimit := flag.Int("limit", 200, "GNMI_SET_SIZE_LIMIT strings")
	corpus := flag.String("corpus", "", "corpus file of c13.limit inputs (hex, one per line) run first")
	probe := flag.Bool("probe", false, "replay the nil-change request against a world WITH controllers (may crash the process)")
	flag.Parse()
	env.Quiet()
	logging.GetLogger("jwt").SetLevel(logging.FatalLevel)
	if *probe {
		probeNilChange()
		return
	}
	r := rand.New(rand.NewSource(*seed))
	out := bufio.NewWriter(os.Stdout)
	defer out.Flush()

	// -------- GNMI_SET_SIZE_LIMIT parsing
	limitOne := func(id, s string) {
		fmt.Fprintf(out, "c13.limit\t%s\t%s\t%d\n", id, hx(s), observedLimit(s))
	}
	fixed := []string{"", "0", "1", "5", "-1", "+3", "007", "abc", "1a", " 1", "1 ", "9223372036854775807", "9223372036854775808",
		"-9223372036854775808", "-9223372036854775809", "99999999999999999999999", "1_000", "0x10", "+", "-", "--1", "1.0", "1e3", "+0", "-0"}
	if *corpus != "" {
		if b, err := os.ReadFile(*corpus); err == nil {
			for i, ln := range strings.Split(string(b), "\n") {
				ln = strings.TrimSpace(ln)
				if ln == "" || strings.HasPrefix(ln, "#") {
					continue
				}
				s := ""
				if ln != "-" {
					bs, err := hex.DecodeString(ln)
					if err != nil {
						continue
					}
					s = string(bs)
				}
				limitOne(fmt.Sprintf("corpus:%d", i), s)
			}
		}
	}
	for i, s := range fixed {
		limitOne(fmt.Sprintf("%d:f%d", *seed, i), s)
	}
	for i := 0; i < *nLimit; i++ {
		n := r.Intn(22)
		s := ""
		if r.Intn(3) == 0 {
			s = env.Pick(r, []string{"-", "+", " ", ""})
		}
		for j := 0; j < n; j++ {
			if r.Intn(15) == 0 {
				s += env.Pick(r, []string{"a", "_", " ", "-", ".", "١"})
			} else {
				s += string(rune('0' + r.Intn(10)))
			}
		}
		limitOne(fmt.Sprintf("%d:l%d", *seed, i), s)
	}

	topo, plugins := encCfg()
	fmt.Fprintf(out, "c13.cfg\t%d:cfg\t%s\t%s\n", *seed, topo, plugins)

	limits := []int{0, 1, 2, 3, 4, 5, -1}
	main := newWorld(true, limits)
	defer func() { main.e.StopControllers() }()
	side := newWorld(false, limits)

	pickLimit := func() int {
		if r.Intn(3) != 0 {
			return 0
		}
		return env.Pick(r, limits)
	}
	sideCount := 0
	mainCount := 0
	rebuilt := 0
	route := func(id string, req request) {
		l := pickLimit()
		if deletesValid(req) {
			main.runCase(out, id, l, req)
			mainCount++
			if main.dirty || mainCount%200 == 0 { // also bounds the stores: every case lists the transactions and snapshots all targets

				main.e.StopControllers()
				main = newWorld(true, limits)
				rebuilt++
				_ = rebuilt
			}
		} else if sideCount < *nNil {
			sideCount++
			side.runCase(out, id, l, req)
			if sideCount%100 == 0 {
				side = newWorld(false, limits)
			}
		}
	}
	// directed requests first: the witnesses of past findings and of changes that once went unnoticed (fixed shapes,
	// independent of the random streams)
	for i, req := range directed() {
		for _, l := range []int{0, 3} {
			id := fmt.Sprintf("%d:d%d.%d", *seed, i, l)
			if deletesValid(req) {
				main.runCase(out, id, l, req)
				if main.dirty {
					main.e.StopControllers()
					main = newWorld(true, limits)
				}
			} else {
				side.runCase(out, id, l, req)
			}
		}
	}
	// clean stream: valid paths, plain keys, known targets
	for i := 0; i < *nMain/2; i++ {
		route(fmt.Sprintf("%d:c%d", *seed, i), genRequest(r, genOpts{}))
	}
	// mixed stream: some invalid operations among valid ones
	for i := 0; i < *nMain-*nMain/2; i++ {
		route(fmt.Sprintf("%d:m%d", *seed, i), genRequest(r, genOpts{odd: 6, badPaths: 7, badTgt: 9}))
	}
	// malformed stream
	for i := 0; i < *nMal; i++ {
		route(fmt.Sprintf("%d:x%d", *seed, i), genRequest(r, genOpts{odd: 2, badPaths: 4, badTgt: 5, oddNames: true}))
	}
	// the delete-with-an-invalid-path shape, directly (prefix + empty path, odd key values)
	for i := 0; sideCount < *nNil && i < *nNil*4; i++ {
		req := genRequest(r, genOpts{odd: 2})
		if len(req.deletes) == 0 {
			req.deletes = append(req.deletes, gpath{target: "t1"})
			if len(req.prefix.elems) == 0 {
				req.prefix.elems = []elem{{name: "sys"}}
				req.prefix.isNil = false
			}
		}
		if !deletesValid(req) {
			sideCount++
			side.runCase(out, fmt.Sprintf("%d:n%d", *seed, i), pickLimit(), req)
		}
	}
}

// probeNilChange: delete of prefix /sys + empty path (effective path "/sys/") on t1 with the controllers running
func probeNilChange() {
	w := newWorld(true, []int{0})
	req := request{prefix: gpath{elems: []elem{{name: "sys"}}}, deletes: []gpath{{target: "t1"}}, exts: []ext{{kind: 'S', decodes: true}}}
	ctx, cancel := context.WithTimeout(context.Background(), 5*time.Second)
	defer cancel()
	func() {
		defer func() {
			if rec := recover(); rec != nil {
				fmt.Printf("PROBE handler panic: %v\n", rec)
			}
		}()
		resp, err := w.servers[0].Set(ctx, req.gnmi())
		fmt.Printf("PROBE resp=%v err=%v\n", resp, err)
	}()
	chs, _ := encTx(w.lastTx())
	fmt.Printf("PROBE transactions=%d change=%s state=%v\n", w.e.NumTx(), chs, w.lastTx().Status.State)
}

var _ = adminapi.ReadWritePath{}

// c17: observations for property C17 (values survive the journey unchanged)
//
//	value.rt    gNMI value -> GnmiTypedValueToNativeType -> NativeTypeToGnmiTypedValue (v2 and v3 copies)
//	value.json  the stored value (after a protobuf round trip, as the stores do) rendered by BuildTree on a single leaf
//	value.tv    arbitrary (also malformed) stored values -> NativeTypeToGnmiTypedValue and BuildTree, under recover()
//	value.str   utils.StrVal of decimal values
//	value.e2e   real Set -> configuration store -> Get PROTO / Get JSON / document given to the model plugin /
//	            device request built by PathValuesToGnmiChange
package main

import (
	"bufio"
	"context"
	"encoding/binary"
	"encoding/hex"
	"encoding/json"
	"flag"
	"fmt"
	"math"
	"math/rand"
	"os"
	"os/exec"
	"strconv"
	"strings"
	"time"

	adminapi "github.com/onosproject/onos-api/go/onos/config/admin"
	configapi "github.com/onosproject/onos-api/go/onos/config/v2"
	configv3 "github.com/onosproject/onos-api/go/onos/config/v3"
	"github.com/onosproject/onos-config/pkg/store/v2/configuration"
	"github.com/onosproject/onos-config/pkg/utils"
	treev2 "github.com/onosproject/onos-config/pkg/utils/v2/tree"
	valuesv2 "github.com/onosproject/onos-config/pkg/utils/v2/values"
	treev3 "github.com/onosproject/onos-config/pkg/utils/v3/tree"
	valuesv3 "github.com/onosproject/onos-config/pkg/utils/v3/values"
	"github.com/openconfig/gnmi/proto/gnmi"
	"github.com/openconfig/gnmi/proto/gnmi_ext"
	"google.golang.org/grpc/status"

	"verifharness/env"
	"verifharness/fakes"
)

// ---------------------------------------------------------------- encodings of the line protocol

func hx(b []byte) string {
	if len(b) == 0 {
		return "-"
	}
	return hex.EncodeToString(b)
}

// encG renders a gNMI typed value; elements of a leaf-list are separated by ';'
func encG(v *gnmi.TypedValue, nested bool) string {
	if v == nil {
		return "x"
	}
	switch x := v.Value.(type) {
	case *gnmi.TypedValue_StringVal:
		return "s:" + hx([]byte(x.StringVal))
	case *gnmi.TypedValue_AsciiVal:
		return "a:" + hx([]byte(x.AsciiVal))
	case *gnmi.TypedValue_IntVal:
		return fmt.Sprintf("i:%d", x.IntVal)
	case *gnmi.TypedValue_UintVal:
		return fmt.Sprintf("u:%d", x.UintVal)
	case *gnmi.TypedValue_BoolVal:
		if x.BoolVal {
			return "b:1"
		}
		return "b:0"
	case *gnmi.TypedValue_BytesVal:
		return "y:" + hx(x.BytesVal)
	case *gnmi.TypedValue_DecimalVal:
		return fmt.Sprintf("d:%d/%d", x.DecimalVal.Digits, x.DecimalVal.Precision)
	case *gnmi.TypedValue_FloatVal:
		return fmt.Sprintf("f:%08x", math.Float32bits(x.FloatVal))
	case *gnmi.TypedValue_AnyVal:
		return "n"
	case *gnmi.TypedValue_LeaflistVal:
		if nested {
			return "x"
		}
		parts := []string{}
		for _, e := range x.LeaflistVal.GetElement() {
			parts = append(parts, encG(e, true))
		}
		return "l:[" + strings.Join(parts, ";") + "]"
	}
	return "x"
}

func encOpts(nilPath bool, opts []uint64) string {
	if nilPath {
		return "nil"
	}
	if len(opts) == 0 {
		return "."
	}
	p := []string{}
	for _, o := range opts {
		p = append(p, strconv.FormatUint(o, 10))
	}
	return strings.Join(p, ",")
}

// ntv is the version independent picture of a configapi.TypedValue
type ntv struct {
	Bytes []byte
	Type  int32
	Opts  []int32
}

func fromV2(t *configapi.TypedValue) ntv {
	return ntv{t.Bytes, int32(t.Type), t.TypeOpts}
}
func fromV3(t *configv3.TypedValue) ntv {
	return ntv{t.Bytes, int32(t.Type), t.TypeOpts}
}
func (t ntv) v2() *configapi.TypedValue {
	return &configapi.TypedValue{Bytes: t.Bytes, Type: configapi.ValueType(t.Type), TypeOpts: t.Opts}
}
func (t ntv) v3() *configv3.TypedValue {
	return &configv3.TypedValue{Bytes: t.Bytes, Type: configv3.ValueType(t.Type), TypeOpts: t.Opts}
}

// canonical bytes: FLOAT and LEAFLIST_FLOAT values are shown as the float32 patterns they denote
func canonBytes(t ntv) []byte {
	switch configapi.ValueType(t.Type) {
	case configapi.ValueType_FLOAT:
		if len(t.Bytes) == 0 {
			return nil
		}
		f := (*configapi.TypedFloat)(t.v2()).Float32()
		b := make([]byte, 4)
		binary.BigEndian.PutUint32(b, math.Float32bits(f))
		return b
	case configapi.ValueType_LEAFLIST_FLOAT:
		out := []byte{}
		for i := 0; i+8 <= len(t.Bytes); i += 8 {
			f := float32(math.Float64frombits(binary.LittleEndian.Uint64(t.Bytes[i : i+8])))
			b := make([]byte, 4)
			binary.BigEndian.PutUint32(b, math.Float32bits(f))
			out = append(out, b...)
		}
		return out
	}
	return t.Bytes
}

func encTv(t ntv) string {
	o := "."
	if len(t.Opts) > 0 {
		p := []string{}
		for _, x := range t.Opts {
			p = append(p, strconv.FormatInt(int64(x), 10))
		}
		o = strings.Join(p, ",")
	}
	return fmt.Sprintf("%d|%s|%s", t.Type, hx(canonBytes(t)), o)
}

// the store boundary: every stored value has been marshalled and unmarshalled
func storeTrip(t ntv) ntv {
	b, err := t.v2().Marshal()
	if err != nil {
		panic(err)
	}
	var u configapi.TypedValue
	if err := u.Unmarshal(b); err != nil {
		panic(err)
	}
	return fromV2(&u)
}

// encJ renders a decoded JSON value canonically: S<hex> string, N<literal> number, T/F, Z null, A[..;..]
func encJ(v interface{}) string {
	switch x := v.(type) {
	case nil:
		return "Z"
	case string:
		return "S" + hx([]byte(x))
	case json.Number:
		return "N" + string(x)
	case bool:
		if x {
			return "T"
		}
		return "F"
	case []interface{}:
		p := []string{}
		for _, e := range x {
			p = append(p, encJ(e))
		}
		return "A[" + strings.Join(p, ";") + "]"
	case map[string]interface{}:
		return "O"
	}
	return "?"
}

// leafOf parses a document and walks to the leaf
func leafOf(doc []byte, elems ...string) string {
	d := json.NewDecoder(strings.NewReader(string(doc)))
	d.UseNumber()
	var root interface{}
	if err := d.Decode(&root); err != nil {
		return "badjson"
	}
	cur := root
	for _, e := range elems {
		m, ok := cur.(map[string]interface{})
		if !ok {
			return "absent"
		}
		cur, ok = m[e]
		if !ok {
			return "absent"
		}
	}
	return encJ(cur)
}

// ---------------------------------------------------------------- the functions under observation

type version struct {
	name     string
	toNative func(g *gnmi.TypedValue, nilPath bool, opts []uint64) (*ntv, error)
	toGnmi   func(t ntv) (*gnmi.TypedValue, error)
	tree     func(t ntv, rfc bool) ([]byte, error)
}

var versions = []version{
	{"v2",
		func(g *gnmi.TypedValue, nilPath bool, opts []uint64) (*ntv, error) {
			var mp *adminapi.ReadWritePath
			if !nilPath {
				mp = &adminapi.ReadWritePath{Path: "/x", TypeOpts: opts}
			}
			t, err := valuesv2.GnmiTypedValueToNativeType(g, mp)
			if err != nil {
				return nil, err
			}
			n := fromV2(t)
			return &n, nil
		},
		func(t ntv) (*gnmi.TypedValue, error) { return valuesv2.NativeTypeToGnmiTypedValue(t.v2()) },
		func(t ntv, rfc bool) ([]byte, error) {
			return treev2.BuildTree([]*configapi.PathValue{{Path: "/x", Value: *t.v2()}}, rfc)
		}},
	{"v3",
		func(g *gnmi.TypedValue, nilPath bool, opts []uint64) (*ntv, error) {
			var mp *configv3.ReadWritePath
			if !nilPath {
				mp = &configv3.ReadWritePath{Path: "/x", TypeOpts: opts}
			}
			t, err := valuesv3.GnmiTypedValueToNativeType(g, mp)
			if err != nil {
				return nil, err
			}
			n := fromV3(t)
			return &n, nil
		},
		func(t ntv) (*gnmi.TypedValue, error) { return valuesv3.NativeTypeToGnmiTypedValue(t.v3()) },
		func(t ntv, rfc bool) ([]byte, error) {
			return treev3.BuildTree([]configv3.PathValue{{Path: "/x", Value: *t.v3()}}, rfc)
		}},
}

func obsNative(v version, g *gnmi.TypedValue, nilPath bool, opts []uint64) (res string, t *ntv) {
	defer func() {
		if r := recover(); r != nil {
			res, t = "panic", nil
		}
	}()
	n, err := v.toNative(g, nilPath, opts)
	if err != nil {
		return "err", nil
	}
	return "ok:" + encTv(*n), n
}

func obsGnmi(v version, t ntv) (res string) {
	defer func() {
		if r := recover(); r != nil {
			res = "panic"
		}
	}()
	g, err := v.toGnmi(t)
	if err != nil {
		return "err"
	}
	return "ok:" + encG(g, false)
}

func obsJSON(v version, t ntv, rfc bool) (res string) {
	defer func() {
		if r := recover(); r != nil {
			res = "panic"
		}
	}()
	doc, err := v.tree(t, rfc)
	if err != nil {
		return "err"
	}
	return leafOf(doc, "x")
}

// ---------------------------------------------------------------- generators

func gS(x string) *gnmi.TypedValue {
	return &gnmi.TypedValue{Value: &gnmi.TypedValue_StringVal{StringVal: x}}
}
func gA(x string) *gnmi.TypedValue {
	return &gnmi.TypedValue{Value: &gnmi.TypedValue_AsciiVal{AsciiVal: x}}
}
func gI(x int64) *gnmi.TypedValue   { return &gnmi.TypedValue{Value: &gnmi.TypedValue_IntVal{IntVal: x}} }
func gU(x uint64) *gnmi.TypedValue  { return &gnmi.TypedValue{Value: &gnmi.TypedValue_UintVal{UintVal: x}} }
func gB(x bool) *gnmi.TypedValue    { return &gnmi.TypedValue{Value: &gnmi.TypedValue_BoolVal{BoolVal: x}} }
func gY(x []byte) *gnmi.TypedValue  { return &gnmi.TypedValue{Value: &gnmi.TypedValue_BytesVal{BytesVal: x}} }
func gF(x uint32) *gnmi.TypedValue {
	return &gnmi.TypedValue{Value: &gnmi.TypedValue_FloatVal{FloatVal: math.Float32frombits(x)}}
}
func gD(d int64, p uint32) *gnmi.TypedValue {
	return &gnmi.TypedValue{Value: &gnmi.TypedValue_DecimalVal{DecimalVal: &gnmi.Decimal64{Digits: d, Precision: p}}}
}
func gL(es ...*gnmi.TypedValue) *gnmi.TypedValue {
	return &gnmi.TypedValue{Value: &gnmi.TypedValue_LeaflistVal{LeaflistVal: &gnmi.ScalarArray{Element: es}}}
}

var widths = []uint64{8, 16, 32, 64}

func genInt(r *rand.Rand, w uint64) int64 {
	if w > 64 || w == 0 {
		w = 64
	}
	lo := -(int64(1) << (w - 1))
	hi := (int64(1) << (w - 1)) - 1
	if w == 64 {
		lo, hi = math.MinInt64, math.MaxInt64
	}
	switch r.Intn(12) {
	case 0:
		return lo
	case 1:
		return hi
	case 2:
		return lo + 1
	case 3:
		return hi - 1
	case 4:
		return 0
	case 5:
		return -1
	case 6:
		return 1
	case 7: // a power of two and its neighbours
		k := uint(r.Intn(int(w)))
		v := int64(1) << k
		v += int64(r.Intn(3) - 1)
		if r.Intn(2) == 0 {
			v = -v
		}
		return v
	case 8: // any int64, also outside the width
		return int64(r.Uint64())
	}
	v := int64(r.Uint64())
	if w < 64 {
		v = v >> (64 - w)
	}
	return v
}

func genUint(r *rand.Rand, w uint64) uint64 {
	if w > 64 || w == 0 {
		w = 64
	}
	hi := uint64(math.MaxUint64)
	if w < 64 {
		hi = (uint64(1) << w) - 1
	}
	switch r.Intn(10) {
	case 0:
		return 0
	case 1:
		return hi
	case 2:
		return hi - 1
	case 3:
		return 1
	case 4:
		k := uint(r.Intn(int(w)))
		return (uint64(1) << k) + uint64(r.Intn(3)) - 1
	case 5:
		return r.Uint64()
	case 6:
		return uint64(math.MaxInt64) + uint64(r.Intn(3)) // around the int64 limit
	}
	return r.Uint64() >> (64 - w)
}

var strPool = []string{"", "a", "abc", "hello world", "<a href=\"x\">&amp;</a>", "line1\nline2\ttab", "é", "日本語", "𝔘𝔫𝔦", "\\\"quoted\\\"",
	"true", "123", "-0.5", "null", "[1,2]", "a,b", "x/y[z=1]", " leading", "trailing ", "  ", "\x00", "\x7f"}

func genStr(r *rand.Rand, sep bool) string {
	s := env.Pick(r, strPool)
	switch r.Intn(8) {
	case 0:
		n := r.Intn(40)
		b := make([]byte, n)
		for i := range b {
			b[i] = byte(32 + r.Intn(95))
		}
		s = string(b)
	case 1:
		s = s + env.Pick(r, strPool)
	case 2:
		s = strings.Repeat(env.Pick(r, strPool), 1+r.Intn(20))
	}
	if sep { // the group separator the leaf-list encoding uses
		switch r.Intn(3) {
		case 0:
			s = "\x1d" + s
		case 1:
			s = s + "\x1d"
		default:
			i := r.Intn(len(s) + 1)
			for i < len(s) && i > 0 && s[i]&0xC0 == 0x80 { // stay on a rune boundary
				i++
			}
			s = s[:i] + "\x1d" + s[i:]
		}
	}
	return s
}

func genBytes(r *rand.Rand) []byte {
	switch r.Intn(8) {
	case 0:
		return []byte{}
	case 1:
		return []byte{0}
	case 2:
		return []byte{0x1d}
	case 3:
		return []byte{0xff, 0xfe, 0x00, 0x1d, 0x80}
	}
	n := 1 + r.Intn(24)
	b := make([]byte, n)
	r.Read(b)
	return b
}

func pow10(p int) int64 {
	v := int64(1)
	for i := 0; i < p && i < 18; i++ {
		v *= 10
	}
	return v
}

func genPrecision(r *rand.Rand) uint32 {
	switch r.Intn(20) {
	case 0:
		return 0
	case 1:
		return 18
	case 2: // outside decimal64
		return env.Pick(r, []uint32{19, 20, 25, 63, 64, 65, 100, 255, 256, 257, 300, 274, 1024 + 2})
	}
	return uint32(1 + r.Intn(18))
}

func genDigits(r *rand.Rand, p uint32) int64 {
	q := pow10(int(p))
	switch r.Intn(14) {
	case 0:
		return 0
	case 1:
		return math.MinInt64
	case 2:
		return math.MaxInt64
	case 3: // in (-1, 0)
		if q > 1 {
			return -(1 + r.Int63n(q-1))
		}
		return -1
	case 4: // in (0, 1)
		if q > 1 {
			return 1 + r.Int63n(q-1)
		}
		return 1
	case 5:
		return -q
	case 6:
		return q
	case 7:
		return q + int64(r.Intn(3)) - 1
	case 8:
		return -q - int64(r.Intn(3)) + 1
	case 9:
		return int64(r.Uint64())
	case 10: // fraction with leading zeros
		return int64(r.Intn(1000))*q + int64(r.Intn(9)+1)
	case 11:
		return -(int64(r.Intn(1000))*q + int64(r.Intn(9)+1))
	}
	return r.Int63n(2000001) - 1000000
}

var floatPool = []uint32{0, 0x80000000, 0x3f800000, 0xbf800000, 0x33d6bf95 /*1e-7*/, 0x00000001, 0x007fffff, 0x00800000, 0x7f7fffff, 0xff7fffff,
	0x7f800000, 0xff800000, 0x3dcccccd /*0.1*/, 0x4b800001 /*16777218*/, 0x3eaaaaab, 0x42f6e979 /*123.456*/, 0x3a83126f /*0.001*/, 0x358637bd /*1e-6*/, 0x49742400 /*1e6*/}
var nanPool = []uint32{0x7fc00000, 0x7f800001, 0xffc00001, 0x7fffffff, 0x7fa00000}

func genFloat(r *rand.Rand, nan bool) uint32 {
	if nan {
		return env.Pick(r, nanPool)
	}
	for {
		var b uint32
		switch r.Intn(4) {
		case 0:
			b = r.Uint32()
		case 1: // moderate magnitudes
			b = math.Float32bits(float32((r.Float64() - 0.5) * math.Pow(10, float64(r.Intn(12)-6))))
		default:
			b = env.Pick(r, floatPool)
		}
		if f := math.Float32frombits(b); f == f {
			return b
		}
	}
}

// genFiniteFloat: no infinities (encoding/json refuses them, so a change carrying one in a float leaf-list fails validation)
func genFiniteFloat(r *rand.Rand) uint32 {
	for {
		b := genFloat(r, false)
		if f := math.Float32frombits(b); !math.IsInf(float64(f), 0) {
			return b
		}
	}
}

type gcase struct {
	g       *gnmi.TypedValue
	nilPath bool
	opts    []uint64
}

func genOpts(r *rand.Rand, c *gcase, w uint64) {
	switch r.Intn(12) {
	case 0:
		c.nilPath = true
	case 1:
		c.opts = nil
	case 2:
		c.opts = []uint64{w, 7, 9}
	default:
		c.opts = []uint64{w}
	}
}

func genWidth(r *rand.Rand) uint64 {
	if r.Intn(12) == 0 {
		return env.Pick(r, []uint64{0, 1, 7, 31, 33, 63, 65, 128, 255, 256, 264, 300, 1 << 31, 1<<32 + 8, 1<<63 + 64, math.MaxUint64})
	}
	return env.Pick(r, widths)
}

// genCase: a scalar or leaf-list of one kind, boundary heavy; `rough` adds the shapes of the known findings
// and malformed compositions
func genCase(r *rand.Rand, rough bool) gcase {
	c := gcase{}
	kind := r.Intn(16)
	n := 1 + r.Intn(5)
	switch kind {
	case 0:
		c.g = gS(genStr(r, false))
		genOpts(r, &c, 0)
	case 1:
		w := genWidth(r)
		c.g = gI(genInt(r, w))
		genOpts(r, &c, w)
	case 2:
		w := genWidth(r)
		c.g = gU(genUint(r, w))
		genOpts(r, &c, w)
	case 3:
		c.g = gB(r.Intn(2) == 0)
		genOpts(r, &c, 0)
	case 4:
		c.g = gY(genBytes(r))
		genOpts(r, &c, 0)
	case 5:
		p := genPrecision(r)
		c.g = gD(genDigits(r, p), p)
		genOpts(r, &c, uint64(p))
	case 6:
		c.g = gF(genFloat(r, rough && r.Intn(6) == 0))
		genOpts(r, &c, 0)
	case 7:
		es := []*gnmi.TypedValue{}
		for i := 0; i < n; i++ {
			s := genStr(r, rough && r.Intn(4) == 0)
			if r.Intn(10) == 0 {
				es = append(es, gA(s))
			} else {
				es = append(es, gS(s))
			}
		}
		c.g = gL(es...)
		genOpts(r, &c, 0)
	case 8:
		w := genWidth(r)
		es := []*gnmi.TypedValue{}
		for i := 0; i < n; i++ {
			es = append(es, gI(genInt(r, w)))
		}
		c.g = gL(es...)
		genOpts(r, &c, w)
	case 9:
		w := genWidth(r)
		es := []*gnmi.TypedValue{}
		for i := 0; i < n; i++ {
			es = append(es, gU(genUint(r, w)))
		}
		c.g = gL(es...)
		genOpts(r, &c, w)
	case 10:
		es := []*gnmi.TypedValue{}
		for i := 0; i < n; i++ {
			es = append(es, gB(r.Intn(2) == 0))
		}
		c.g = gL(es...)
		genOpts(r, &c, 0)
	case 11:
		es := []*gnmi.TypedValue{}
		for i := 0; i < n; i++ {
			b := genBytes(r)
			if len(b) == 0 && !(rough || i == 0) {
				b = []byte{byte(i)}
			}
			es = append(es, gY(b))
		}
		c.g = gL(es...)
		genOpts(r, &c, 0)
	case 12:
		p := genPrecision(r)
		es := []*gnmi.TypedValue{}
		for i := 0; i < n; i++ {
			q := p
			if rough && r.Intn(6) == 0 {
				q = genPrecision(r)
			}
			es = append(es, gD(genDigits(r, q), q))
		}
		c.g = gL(es...)
		genOpts(r, &c, uint64(p))
	case 13:
		es := []*gnmi.TypedValue{}
		for i := 0; i < n; i++ {
			es = append(es, gF(genFloat(r, rough && r.Intn(8) == 0)))
		}
		c.g = gL(es...)
		genOpts(r, &c, 0)
	case 14:
		c.g = gA(genStr(r, false))
		genOpts(r, &c, 0)
	default: // compositions outside the property: unsupported members, mixed and empty leaf-lists
		if !rough {
			return genCase(r, rough)
		}
		switch r.Intn(7) {
		case 0:
			c.g = &gnmi.TypedValue{}
		case 1:
			c.g = &gnmi.TypedValue{Value: &gnmi.TypedValue_DoubleVal{DoubleVal: 1.5}}
		case 2:
			c.g = &gnmi.TypedValue{Value: &gnmi.TypedValue_JsonVal{JsonVal: []byte(`{"a":1}`)}}
		case 3:
			c.g = gL()
		case 4:
			c.g = gL(gI(genInt(r, 64)), gS("x"), gU(3), gD(5, 2), gB(true))
		case 5:
			c.g = gL(gU(genUint(r, 64)), gL(gS("nested")), gY([]byte{1}))
		default:
			c.g = gL(gD(genDigits(r, 2), 2), gF(genFloat(r, false)), gY(genBytes(r)), nil)
		}
		genOpts(r, &c, genWidth(r))
	}
	return c
}

// exactBytes returns a slice with cap == len so that out-of-range slice expressions panic deterministically
func exactBytes(b []byte) []byte {
	c := make([]byte, len(b))
	copy(c, b)
	return c[:len(c):len(c)]
}

// genTv: an arbitrary stored value: a well-formed one that is then damaged, or random fields
func genTv(r *rand.Rand) ntv {
	for {
		c := genCase(r, true)
		n, err := versions[0].toNative(c.g, c.nilPath, c.opts)
		if err != nil {
			continue
		}
		t := *n
		t.Bytes = append([]byte{}, t.Bytes...)
		t.Opts = append([]int32{}, t.Opts...)
		isFloat := t.Type == int32(configapi.ValueType_FLOAT)
		switch r.Intn(10) {
		case 0: // drop options
			if len(t.Opts) > 0 {
				t.Opts = t.Opts[:r.Intn(len(t.Opts))]
			}
		case 1: // drop bytes
			if len(t.Bytes) > 0 && !isFloat {
				t.Bytes = t.Bytes[:r.Intn(len(t.Bytes))]
			}
		case 2: // add bytes
			if !isFloat {
				t.Bytes = append(t.Bytes, genBytes(r)...)
			}
		case 3: // change one option
			if len(t.Opts) > 0 {
				t.Opts[r.Intn(len(t.Opts))] = env.Pick(r, []int32{0, 1, 2, -1, 8, 9, 64, 127, 255, 256, math.MaxInt32, math.MinInt32})
			}
		case 4: // another type over the same bytes
			if !isFloat {
				nt := int32(r.Intn(18))
				if nt != int32(configapi.ValueType_FLOAT) {
					t.Type = nt
				}
			}
		case 5:
			t.Opts = append(t.Opts, env.Pick(r, []int32{0, 1, 3, -2}))
		case 6:
			if isFloat {
				t.Bytes = nil
			}
		}
		t.Bytes = exactBytes(t.Bytes)
		if len(t.Bytes) == 0 {
			t.Bytes = nil // what a stored value with no bytes looks like after the store's protobuf round trip
		}
		return t
	}
}

func asyncExt() *gnmi_ext.Extension {
	b, _ := (&configapi.TransactionStrategy{Synchronicity: configapi.TransactionStrategy_ASYNCHRONOUS}).Marshal()
	return &gnmi_ext.Extension{Ext: &gnmi_ext.Extension_RegisteredExt{RegisteredExt: &gnmi_ext.RegisteredExtension{
		Id: configapi.TransactionStrategyExtensionID, Msg: b}}}
}

func main() {
	seed := flag.Int64("seed", 1, "")
	nRt := flag.Int("rt", 3000, "round trip cases (each also rendered as JSON with both flags)")
	nTv := flag.Int("tv", 800, "arbitrary stored values")
	nStr := flag.Int("str", 300, "StrVal cases")
	nE2e := flag.Int("e2e", 120, "end-to-end Set/Get cases")
	corpus := flag.String("corpus", "", "file with value.rt style inputs run first: <g>TAB<opts>")
	flag.Parse()
	env.Quiet()
	r := rand.New(rand.NewSource(*seed))
	out := bufio.NewWriter(os.Stdout)
	defer out.Flush()

	runCase := func(id string, c gcase) {
		for _, v := range versions {
			res, t := obsNative(v, c.g, c.nilPath, c.opts)
			back := "-"
			if t != nil {
				back = obsGnmi(v, storeTrip(*t))
			}
			fmt.Fprintf(out, "value.rt\t%s\t%s\t%s\t%s\t%s\t%s\n", id, v.name, encG(c.g, false), encOpts(c.nilPath, c.opts), res, back)
			if t != nil {
				st := storeTrip(*t)
				for _, rfc := range []bool{true, false} {
					f := "0"
					if rfc {
						f = "1"
					}
					fmt.Fprintf(out, "value.json\t%s\t%s\t%s\t%s\t%s\t%s\t%s\n", id, v.name, encG(c.g, false), encOpts(c.nilPath, c.opts), encTv(st), f, obsJSON(v, st, rfc))
				}
			}
		}
	}

	if *corpus != "" {
		if b, err := os.ReadFile(*corpus); err == nil {
			for i, ln := range strings.Split(string(b), "\n") {
				f := strings.Split(ln, "\t")
				if len(f) >= 2 && !strings.HasPrefix(ln, "#") {
					if c, ok := parseCase(f[0], f[1]); ok {
						runCase(fmt.Sprintf("corpus:%d", i), c)
					}
				}
			}
		}
	}
	for i := 0; i < *nRt; i++ {
		runCase(fmt.Sprintf("%d:r%d", *seed, i), genCase(r, i%3 == 2))
	}

	for i := 0; i < *nTv; i++ {
		t := genTv(r)
		for _, v := range versions {
			fmt.Fprintf(out, "value.tv\t%d:t%d\t%s\t%s\t%s\t%s\t%s\n", *seed, i, v.name, encTv(t), obsGnmi(v, t), obsJSON(v, t, true), obsJSON(v, t, false))
		}
	}

	for i := 0; i < *nStr; i++ {
		p := genPrecision(r)
		g := gD(genDigits(r, p), p)
		res := func() (s string) {
			defer func() {
				if r := recover(); r != nil {
					s = "panic"
				}
			}()
			return "ok:" + hx([]byte(utils.StrVal(g)))
		}()
		fmt.Fprintf(out, "value.str\t%d:d%d\t%s\t%s\n", *seed, i, encG(g, false), res)
	}

	// end to end: every instance of the system keeps memory until the process ends, so large runs are split over
	// child processes of at most e2eChunk cases (child k uses seed + 7919*k; the case ids carry that seed)
	const e2eChunk = 300
	if *nE2e > 0 && *nE2e <= e2eChunk {
		endToEnd(r, out, *seed, *nE2e)
	} else if *nE2e > 0 {
		out.Flush()
		for k, left := 1, *nE2e; left > 0; k, left = k+1, left-e2eChunk {
			n := left
			if n > e2eChunk {
				n = e2eChunk
			}
			cmd := exec.Command(os.Args[0], "-seed", strconv.FormatInt(*seed+7919*int64(k), 10), "-rt", "0", "-tv", "0", "-str", "0", "-e2e", strconv.Itoa(n))
			cmd.Stdout = os.Stdout
			cmd.Stderr = os.Stderr
			if err := cmd.Run(); err != nil {
				fmt.Fprintln(os.Stderr, "end-to-end child failed:", err)
				os.Exit(3)
			}
		}
	}
}

// ---------------------------------------------------------------- end to end

type leafDef struct {
	name string
	vt   configapi.ValueType
	opts []uint64
	gen  func(r *rand.Rand) *gnmi.TypedValue
}

func llOf(r *rand.Rand, f func() *gnmi.TypedValue) *gnmi.TypedValue {
	n := 1 + r.Intn(4)
	es := []*gnmi.TypedValue{}
	for i := 0; i < n; i++ {
		es = append(es, f())
	}
	return gL(es...)
}

func leafDefs() []leafDef {
	ds := []leafDef{
		{"s", configapi.ValueType_STRING, nil, func(r *rand.Rand) *gnmi.TypedValue { return gS(genStr(r, false)) }},
		{"b", configapi.ValueType_BOOL, nil, func(r *rand.Rand) *gnmi.TypedValue { return gB(r.Intn(2) == 0) }},
		{"y", configapi.ValueType_BYTES, nil, func(r *rand.Rand) *gnmi.TypedValue { return gY(genBytes(r)) }},
		{"f", configapi.ValueType_FLOAT, nil, func(r *rand.Rand) *gnmi.TypedValue { return gF(genFiniteFloat(r)) }},
		{"inoopt", configapi.ValueType_INT, nil, func(r *rand.Rand) *gnmi.TypedValue { return gI(genInt(r, 64)) }},
		{"ls", configapi.ValueType_LEAFLIST_STRING, nil, func(r *rand.Rand) *gnmi.TypedValue {
			return llOf(r, func() *gnmi.TypedValue { return gS(genStr(r, r.Intn(12) == 0)) })
		}},
		{"lb", configapi.ValueType_LEAFLIST_BOOL, nil, func(r *rand.Rand) *gnmi.TypedValue {
			return llOf(r, func() *gnmi.TypedValue { return gB(r.Intn(2) == 0) })
		}},
		{"ly", configapi.ValueType_LEAFLIST_BYTES, nil, func(r *rand.Rand) *gnmi.TypedValue {
			return llOf(r, func() *gnmi.TypedValue {
				b := genBytes(r)
				if len(b) == 0 && r.Intn(3) != 0 {
					b = []byte{7}
				}
				return gY(b)
			})
		}},
		{"lf", configapi.ValueType_LEAFLIST_FLOAT, nil, func(r *rand.Rand) *gnmi.TypedValue {
			return llOf(r, func() *gnmi.TypedValue { return gF(genFiniteFloat(r)) })
		}},
	}
	for _, w := range widths {
		w := w
		ds = append(ds,
			leafDef{fmt.Sprintf("i%d", w), configapi.ValueType_INT, []uint64{w}, func(r *rand.Rand) *gnmi.TypedValue { return gI(genInt(r, w)) }},
			leafDef{fmt.Sprintf("u%d", w), configapi.ValueType_UINT, []uint64{w}, func(r *rand.Rand) *gnmi.TypedValue { return gU(genUint(r, w)) }},
			leafDef{fmt.Sprintf("li%d", w), configapi.ValueType_LEAFLIST_INT, []uint64{w}, func(r *rand.Rand) *gnmi.TypedValue {
				return llOf(r, func() *gnmi.TypedValue { return gI(genInt(r, w)) })
			}},
			leafDef{fmt.Sprintf("lu%d", w), configapi.ValueType_LEAFLIST_UINT, []uint64{w}, func(r *rand.Rand) *gnmi.TypedValue {
				return llOf(r, func() *gnmi.TypedValue { return gU(genUint(r, w)) })
			}})
	}
	for _, p := range []uint32{1, 2, 6, 18} {
		p := p
		ds = append(ds,
			leafDef{fmt.Sprintf("d%d", p), configapi.ValueType_DECIMAL, []uint64{uint64(p)}, func(r *rand.Rand) *gnmi.TypedValue { return gD(genDigits(r, p), p) }},
			leafDef{fmt.Sprintf("ld%d", p), configapi.ValueType_LEAFLIST_DECIMAL, []uint64{uint64(p)}, func(r *rand.Rand) *gnmi.TypedValue {
				return llOf(r, func() *gnmi.TypedValue { return gD(genDigits(r, p), p) })
			}})
	}
	return ds
}

func endToEnd(r *rand.Rand, out *bufio.Writer, seed int64, n int) {
	defs := leafDefs()
	plugin := &fakes.PluginClient{Name: "devicesim", Version: "1.0.0"}
	for _, d := range defs {
		plugin.RW = append(plugin.RW, fakes.RWPath("/c/"+d.name, d.vt, false, "", d.opts...))
	}
	var e *env.Env
	defer func() {
		if e != nil {
			e.StopControllers()
			e.Atomix.Close()
		}
	}()
	cfgID := configuration.NewID("t1", "devicesim", "1.0.0")

	fresh := func() {
		if e != nil {
			e.StopControllers()
			e.Atomix.Close() // the in-memory Atomix node holds a listener and goroutines
		}
		e = env.New(0, plugin)
		e.Topo.AddTarget("t1", "devicesim", "1.0.0", false, false)
		e.StartControllers(false)
	}
	var d leafDef
	var g *gnmi.TypedValue
	retried := false
	for i := 0; i < n; i++ {
		if !retried {
			if i%10 == 0 { // a fresh instance now and then: the controllers' work grows with the length of the transaction log
				fresh()
			}
			d = defs[(i+int(seed))%len(defs)]
			if r.Intn(4) == 0 {
				d = env.Pick(r, defs)
			}
			g = d.gen(r)
		}
		path := &gnmi.Path{Target: "t1", Elem: []*gnmi.PathElem{{Name: "c"}, {Name: d.name}}}
		spath := "/c/" + d.name
		id := fmt.Sprintf("%d:e%d", seed, i)
		line := func(code, stored, proto, js, doc, dev string) {
			fmt.Fprintf(out, "value.e2e\t%s\t%s\t%s\t%s\t%s\t%s\t%s\t%s\t%s\n", id, encG(g, false), encOpts(false, d.opts), code, stored, proto, js, doc, dev)
		}
		docsBefore := plugin.NumDocs()
		ctx, cancel := context.WithTimeout(context.Background(), 12*time.Second)
		type setRes struct {
			resp *gnmi.SetResponse
			err  error
		}
		done := make(chan setRes, 1)
		go func(srv *env.Env) {
			resp, err := srv.Gnmi.Set(ctx, &gnmi.SetRequest{Update: []*gnmi.Update{{Path: path, Val: g}}, Extension: []*gnmi_ext.Extension{asyncExt()}})
			done <- setRes{resp, err}
		}(e)
		var resp *gnmi.SetResponse
		var err error
		select {
		case sr := <-done:
			resp, err = sr.resp, sr.err
		case <-time.After(15 * time.Second):
			// the handler does not answer (e.g. a transaction that failed validation is never reported)
			err = context.DeadlineExceeded
		}
		timedOut := ctx.Err() != nil || err == context.DeadlineExceeded
		cancel()
		if timedOut {
			// not answered in time: the same case is tried once more on a fresh instance (the controllers of a loaded
			// machine can stall); a second silence is reported
			fresh()
			if !retried {
				retried = true
				i--
				continue
			}
			retried = false
			line("Unanswered", "-", "-", "-", "-", "-")
			continue
		}
		retried = false
		if err != nil {
			line(status.Code(err).String(), "-", "-", "-", "-", "-")
			continue
		}
		var index configapi.Index
		for _, x := range resp.Extension {
			if x.GetRegisteredExt().GetId() == configapi.TransactionInfoExtensionID {
				var ti configapi.TransactionInfo
				if err := ti.Unmarshal(x.GetRegisteredExt().GetMsg()); err == nil {
					index = ti.Index
				}
			}
		}
		// wait until the change is part of the stored configuration
		var stored *configapi.PathValue
		deadline := time.Now().Add(15 * time.Second)
		for time.Now().Before(deadline) {
			cfg, err := e.Cfgs.Get(context.Background(), cfgID)
			if err == nil && cfg.Index >= index && index > 0 {
				stored = cfg.Values[spath]
				break
			}
			time.Sleep(2 * time.Millisecond)
		}
		if stored == nil {
			line("OK", "missing", "-", "-", "-", "-")
			continue
		}
		st := "ok:" + encTv(fromV2(&stored.Value))
		// Get, PROTO encoding
		proto := "-"
		func() {
			defer func() {
				if r := recover(); r != nil {
					proto = "panic"
				}
			}()
			gr, err := e.Gnmi.Get(context.Background(), &gnmi.GetRequest{Path: []*gnmi.Path{path}, Encoding: gnmi.Encoding_PROTO})
			if err != nil {
				proto = "err"
				return
			}
			proto = "absent"
			for _, nf := range gr.Notification {
				for _, u := range nf.Update {
					if utils.StrPathElem(u.Path.GetElem()) == spath && u.Val != nil {
						proto = "ok:" + encG(u.Val, false)
					}
				}
			}
		}()
		// Get, JSON encoding
		js := "-"
		func() {
			defer func() {
				if r := recover(); r != nil {
					js = "panic"
				}
			}()
			gr, err := e.Gnmi.Get(context.Background(), &gnmi.GetRequest{Path: []*gnmi.Path{path}, Encoding: gnmi.Encoding_JSON})
			if err != nil {
				js = "err"
				return
			}
			js = "absent"
			for _, nf := range gr.Notification {
				for _, u := range nf.Update {
					if jv := u.GetVal().GetJsonVal(); jv != nil {
						js = leafOf(jv, "c", d.name)
					}
				}
			}
		}()
		// the document the model plugin was given for this change
		doc := "none"
		if plugin.NumDocs() > docsBefore {
			doc = leafOf(plugin.LastDoc(), "c", d.name)
		}
		// the request the southbound side would send for this value
		dev := "-"
		func() {
			defer func() {
				if r := recover(); r != nil {
					dev = "panic"
				}
			}()
			sr, err := valuesv2.PathValuesToGnmiChange([]*configapi.PathValue{stored}, "t1")
			if err != nil {
				dev = "err"
				return
			}
			dev = "absent"
			for _, u := range sr.Update {
				if utils.StrPathElem(u.Path.GetElem()) == spath {
					dev = "ok:" + encG(u.Val, false)
				}
			}
		}()
		line("OK", st, proto, js, doc, dev)
	}
}

// ---------------------------------------------------------------- corpus decoding

func unhx(s string) []byte {
	if s == "-" || s == "" {
		return []byte{}
	}
	b, err := hex.DecodeString(s)
	if err != nil {
		return []byte{}
	}
	return b
}

func parseG(s string) (*gnmi.TypedValue, bool) {
	if s == "x" {
		return &gnmi.TypedValue{}, true
	}
	if len(s) < 2 || s[1] != ':' {
		return nil, false
	}
	body := s[2:]
	switch s[0] {
	case 's':
		return gS(string(unhx(body))), true
	case 'a':
		return gA(string(unhx(body))), true
	case 'i':
		v, err := strconv.ParseInt(body, 10, 64)
		return gI(v), err == nil
	case 'u':
		v, err := strconv.ParseUint(body, 10, 64)
		return gU(v), err == nil
	case 'b':
		return gB(body == "1"), true
	case 'y':
		return gY(unhx(body)), true
	case 'd':
		f := strings.Split(body, "/")
		if len(f) != 2 {
			return nil, false
		}
		d, err1 := strconv.ParseInt(f[0], 10, 64)
		p, err2 := strconv.ParseUint(f[1], 10, 32)
		return gD(d, uint32(p)), err1 == nil && err2 == nil
	case 'f':
		v, err := strconv.ParseUint(body, 16, 32)
		return gF(uint32(v)), err == nil
	case 'l':
		if len(body) < 2 {
			return nil, false
		}
		inner := body[1 : len(body)-1]
		es := []*gnmi.TypedValue{}
		if inner != "" {
			for _, p := range strings.Split(inner, ";") {
				e, ok := parseG(p)
				if !ok {
					return nil, false
				}
				es = append(es, e)
			}
		}
		return gL(es...), true
	}
	return nil, false
}

func parseCase(g, opts string) (gcase, bool) {
	c := gcase{}
	v, ok := parseG(g)
	if !ok {
		return c, false
	}
	c.g = v
	switch opts {
	case "nil":
		c.nilPath = true
	case ".":
	default:
		for _, o := range strings.Split(opts, ",") {
			x, err := strconv.ParseUint(o, 10, 64)
			if err != nil {
				return c, false
			}
			c.opts = append(c.opts, x)
		}
	}
	return c, true
}

// c03: observations for property C03 (stored configuration = gNMI-sequential effect of acknowledged Sets)
//
//	c03.set / c03.get / c03.raw   end-to-end histories: real gNMI Set (async) -> real controllers -> real Get
//	c03.store / c03.commit        real configuration store writes and the real proposal reconciler's commit step
//	c03.adc  c03.prune  c03.wild  AddDeleteChildren, PrunePathValues, MatchWildcardRegexp
package main

import (
	"bufio"
	"context"
	"encoding/hex"
	"encoding/json"
	"flag"
	"fmt"
	"math/rand"
	"os"
	"sort"
	"strings"
	"sync"
	"time"

	_map "github.com/atomix/go-sdk/pkg/primitive/map"
	"github.com/atomix/go-sdk/pkg/types"
	configapi "github.com/onosproject/onos-api/go/onos/config/v2"
	ctlutils "github.com/onosproject/onos-config/pkg/controller/utils"
	propctl "github.com/onosproject/onos-config/pkg/controller/v2/proposal"
	"github.com/onosproject/onos-config/pkg/store/v2/configuration"
	proposalstore "github.com/onosproject/onos-config/pkg/store/v2/proposal"
	"github.com/onosproject/onos-config/pkg/utils"
	"github.com/onosproject/onos-config/pkg/utils/v2/tree"
	"github.com/onosproject/onos-lib-go/pkg/controller"
	"github.com/onosproject/onos-lib-go/pkg/logging"
	"github.com/openconfig/gnmi/proto/gnmi"
	"github.com/openconfig/gnmi/proto/gnmi_ext"
	"google.golang.org/grpc/status"

	"verifharness/env"
	"verifharness/fakes"
)

const (
	modelName    = "c03model"
	modelVersion = "1.0.0"
)

// ---------------------------------------------------------------- schema --

// a schema node: element name, key names (lists), children; a node without children is a leaf
type node struct {
	name string
	keys []string
	kids []*node
}

func leaf(n string) *node                { return &node{name: n} }
func cont(n string, kids ...*node) *node { return &node{name: n, kids: kids} }
func list(n string, keys []string, kids ...*node) *node {
	return &node{name: n, keys: keys, kids: kids}
}

// containers, single- and two-key lists, sibling names that are string prefixes of each other
// (b / bc / b-c / b.d, c / cd / c-d / c.d, l / lx, x / xy)
var schema = []*node{
	cont("a",
		leaf("b"), leaf("bc"), leaf("b-c"), leaf("b.d"),
		cont("c", leaf("d"), leaf("e"), cont("f", leaf("g"))),
		cont("cd", leaf("x")),
		cont("c-d", leaf("y")),
		cont("c.d", leaf("y")),
		list("s", []string{"id"}, leaf("id"), leaf("t"), leaf("tt")),
	),
	leaf("x"), leaf("xy"),
	list("l", []string{"k"}, leaf("k"), leaf("v"), leaf("vv"), cont("w", leaf("z"))),
	list("lx", []string{"k"}, leaf("k"), leaf("v")),
	list("m", []string{"k1", "k2"}, leaf("k1"), leaf("k2"), leaf("v"), cont("n", leaf("p"), leaf("pp"))),
}

var keyVals = []string{"1", "2", "10", "1x", "a-b", "a"}

// a structured path: elements with sorted keys
type elem struct {
	name string
	keys [][2]string // sorted by key name
}
type spath []elem

func (p spath) text() string {
	b := strings.Builder{}
	for _, e := range p {
		b.WriteString("/" + e.name)
		for _, kv := range e.keys {
			b.WriteString("[" + kv[0] + "=" + kv[1] + "]")
		}
	}
	return b.String()
}

func (p spath) gnmi(target string) *gnmi.Path {
	r := &gnmi.Path{Target: target}
	for _, e := range p {
		pe := &gnmi.PathElem{Name: e.name}
		if len(e.keys) > 0 {
			pe.Key = map[string]string{}
			for _, kv := range e.keys {
				pe.Key[kv[0]] = kv[1]
			}
		}
		r.Elem = append(r.Elem, pe)
	}
	return r
}

func textOfGnmi(p *gnmi.Path) string {
	b := strings.Builder{}
	for _, e := range p.GetElem() {
		b.WriteString("/" + e.Name)
		ks := make([]string, 0, len(e.Key))
		for k := range e.Key {
			ks = append(ks, k)
		}
		sort.Strings(ks)
		for _, k := range ks {
			b.WriteString("[" + k + "=" + e.Key[k] + "]")
		}
	}
	return b.String()
}

func isPrefix(d, p spath) bool { // at step level; d == p included
	dt, pt := d.text(), p.text()
	if dt == pt {
		return true
	}
	return strings.HasPrefix(pt, dt) && (pt[len(dt)] == '/' || pt[len(dt)] == '[')
}

// model read-write paths of the plugin
func rwPaths() [][3]string { // path, isKey("1"/""), attr
	res := [][3]string{}
	var walk func(prefix string, n *node, parentKeys []string)
	walk = func(prefix string, n *node, parentKeys []string) {
		p := prefix + "/" + n.name
		for _, k := range n.keys {
			p += "[" + k + "=*]"
		}
		if len(n.kids) == 0 {
			isKey := ""
			for _, k := range parentKeys {
				if k == n.name {
					isKey = "1"
				}
			}
			res = append(res, [3]string{p, isKey, n.name})
			return
		}
		for _, c := range n.kids {
			walk(p, c, n.keys)
		}
	}
	for _, n := range schema {
		walk("", n, nil)
	}
	return res
}

type gen struct{ r *rand.Rand }

func (g *gen) keysFor(n *node, few bool) [][2]string {
	kv := [][2]string{}
	ks := append([]string{}, n.keys...)
	sort.Strings(ks)
	for _, k := range ks {
		vals := keyVals
		if few {
			vals = keyVals[:3]
		}
		kv = append(kv, [2]string{k, env.Pick(g.r, vals)})
	}
	return kv
}

// random leaf path (never a key leaf unless keyLeafOK)
func (g *gen) leafPath(keyLeafOK bool) spath {
	for {
		p := spath{}
		nodes := schema
		var parentKeys []string
		for {
			n := env.Pick(g.r, nodes)
			p = append(p, elem{name: n.name, keys: g.keysFor(n, true)})
			if len(n.kids) == 0 {
				isKey := false
				for _, k := range parentKeys {
					if k == n.name {
						isKey = true
					}
				}
				if isKey && !keyLeafOK {
					p = nil
				}
				break
			}
			parentKeys = n.keys
			nodes = n.kids
		}
		if p != nil {
			return p
		}
	}
}

// random interior path: container, list entry, key-less list, leading-key subset of a two-key list
func (g *gen) interiorPath() spath {
	for {
		p := spath{}
		nodes := schema
		for {
			n := env.Pick(g.r, nodes)
			if len(n.kids) == 0 {
				break
			}
			e := elem{name: n.name, keys: g.keysFor(n, true)}
			stop := g.r.Intn(3) == 0
			if stop && len(e.keys) > 0 {
				switch g.r.Intn(4) {
				case 0:
					e.keys = nil // the whole list
				case 1:
					e.keys = e.keys[:1] // leading subset of the keys (same as all keys for single-key lists)
				}
			}
			p = append(p, e)
			if stop {
				return p
			}
			nodes = n.kids
		}
		if len(p) > 0 {
			return p
		}
	}
}

// ---------------------------------------------------------------- e2e --

type setOp struct {
	dels []spath
	upds []spath
	vals []string
}

type query struct {
	text string // canonical text of the query (with wildcards)
	path *gnmi.Path
	pfx  *gnmi.Path
	enc  gnmi.Encoding
	form string
}

type history struct {
	name   string
	target string
	kind   string // clean | recreate | overlap
	sets   []setOp
	qs     [][]query
}

func asyncExt() *gnmi_ext.Extension {
	b, _ := (&configapi.TransactionStrategy{Synchronicity: configapi.TransactionStrategy_ASYNCHRONOUS}).Marshal()
	return &gnmi_ext.Extension{Ext: &gnmi_ext.Extension_RegisteredExt{RegisteredExt: &gnmi_ext.RegisteredExtension{
		Id: configapi.TransactionStrategyExtensionID, Msg: b}}}
}

func (g *gen) history(name, target, kind string, valCounter *int) *history {
	h := &history{name: name, target: target, kind: kind}
	n := 1 + g.r.Intn(8)
	deleted := []spath{} // every path deleted so far in this history (tombstones may exist for them)
	written := []spath{}
	for i := 0; i < n; i++ {
		op := setOp{}
		nops := 1 + g.r.Intn(4)
		for j := 0; j < nops; j++ {
			if g.r.Intn(3) == 0 && i > 0 { // a delete
				var d spath
				switch g.r.Intn(4) {
				case 0:
					d = g.interiorPath()
				case 1:
					if len(written) > 0 { // an ancestor (or the path itself) of something written before
						w := env.Pick(g.r, written)
						d = append(spath{}, w[:1+g.r.Intn(len(w))]...)
						last := &d[len(d)-1]
						if len(last.keys) > 1 && g.r.Intn(3) == 0 {
							last.keys = last.keys[:1]
						} else if len(last.keys) > 0 && g.r.Intn(4) == 0 {
							last.keys = nil
						}
					} else {
						d = g.interiorPath()
					}
				case 2:
					d = g.leafPath(false)
				default:
					if len(written) > 0 {
						d = env.Pick(g.r, written)
					} else {
						d = g.leafPath(false)
					}
				}
				// deleting a key leaf means deleting its list entry (doDelete strips the attribute): name the entry
				if len(d) > 1 {
					for _, kv := range d[len(d)-2].keys {
						if kv[0] == d[len(d)-1].name && len(d[len(d)-1].keys) == 0 {
							d = d[:len(d)-1]
							break
						}
					}
				}
				op.dels = append(op.dels, d)
			} else {
				var u spath
				if len(written) > 0 && g.r.Intn(4) == 0 {
					u = env.Pick(g.r, written) // overwrite / re-create the same leaf
				} else {
					u = g.leafPath(g.r.Intn(6) == 0)
				}
				dup := false
				for _, x := range op.upds {
					if x.text() == u.text() {
						dup = true
					}
				}
				if dup {
					continue
				}
				op.upds = append(op.upds, u)
				last := u[len(u)-1]
				v := ""
				// a key leaf must carry its entry's key value
				if len(u) > 1 {
					for _, kv := range u[len(u)-2].keys {
						if kv[0] == last.name {
							v = kv[1]
						}
					}
				}
				if v == "" {
					*valCounter++
					v = fmt.Sprintf("v%d", *valCounter)
				}
				op.vals = append(op.vals, v)
			}
		}
		// keep the request inside / outside the guards according to the stream
		keepU, keepV := []spath{}, []string{}
		for k, u := range op.upds {
			overlap, recreate := false, false
			for _, d := range op.dels {
				if isPrefix(d, u) {
					overlap = true
				}
			}
			for _, d := range deleted {
				if isPrefix(d, u) && d.text() != u.text() {
					recreate = true
				}
			}
			if (overlap && kind != "overlap") || (recreate && kind != "recreate") {
				continue
			}
			keepU, keepV = append(keepU, u), append(keepV, op.vals[k])
		}
		op.upds, op.vals = keepU, keepV
		if kind == "recreate" && len(deleted) > 0 && g.r.Intn(2) == 0 {
			// write a leaf below something deleted earlier
			for try := 0; try < 20; try++ {
				u := g.leafPath(false)
				ok := false
				for _, d := range deleted {
					if isPrefix(d, u) && d.text() != u.text() {
						ok = true
					}
				}
				for _, d := range op.dels {
					if isPrefix(d, u) {
						ok = false
					}
				}
				for _, x := range op.upds {
					if x.text() == u.text() {
						ok = false
					}
				}
				if ok {
					*valCounter++
					op.upds, op.vals = append(op.upds, u), append(op.vals, fmt.Sprintf("v%d", *valCounter))
					break
				}
			}
		}
		if kind == "overlap" && len(op.dels) > 0 && g.r.Intn(2) == 0 {
			d := op.dels[0]
			for try := 0; try < 30; try++ {
				u := g.leafPath(false)
				dupl := false
				for _, x := range op.upds {
					if x.text() == u.text() {
						dupl = true
					}
				}
				if isPrefix(d, u) && !dupl {
					*valCounter++
					op.upds, op.vals = append(op.upds, u), append(op.vals, fmt.Sprintf("v%d", *valCounter))
					break
				}
			}
		}
		if len(op.dels)+len(op.upds) == 0 {
			u := g.leafPath(false)
			rec := false
			for _, d := range deleted {
				if isPrefix(d, u) && d.text() != u.text() {
					rec = true
				}
			}
			if rec && kind != "recreate" {
				u = spath{{name: "x"}}
				for _, d := range deleted {
					if d.text() == "/x" {
						// fine: re-creating the very leaf that was deleted is inside the guard
						_ = d
					}
				}
			}
			*valCounter++
			op.upds, op.vals = append(op.upds, u), append(op.vals, fmt.Sprintf("v%d", *valCounter))
		}
		deleted = append(deleted, op.dels...)
		written = append(written, op.upds...)
		h.sets = append(h.sets, op)
		h.qs = append(h.qs, g.queries(target, written, op))
	}
	return h
}

func qelemsToGnmi(target string, parts []elem) *gnmi.Path { return spath(parts).gnmi(target) }

// queries after a Set: the whole target (PROTO and JSON), exact leaves, interior prefixes, sibling-prefix
// names, wildcards, prefix / path splits
func (g *gen) queries(target string, written []spath, op setOp) []query {
	qs := []query{}
	add := func(p spath, enc gnmi.Encoding, form string) {
		q := query{text: p.text(), enc: enc, form: form}
		switch form {
		case "path":
			q.path = p.gnmi(target)
		case "prefix":
			q.pfx = p.gnmi(target)
		case "split":
			k := 0
			if len(p) > 0 {
				k = g.r.Intn(len(p) + 1)
			}
			q.pfx = spath(p[:k]).gnmi(target)
			q.path = spath(p[k:]).gnmi("")
		}
		qs = append(qs, q)
	}
	add(spath{}, gnmi.Encoding_PROTO, "path")
	add(spath{}, gnmi.Encoding_JSON, "path")
	cands := []spath{}
	for _, d := range op.dels {
		cands = append(cands, d)
	}
	for _, u := range op.upds {
		cands = append(cands, u)
	}
	for i := 0; i < 3; i++ {
		switch g.r.Intn(4) {
		case 0:
			cands = append(cands, g.interiorPath())
		case 1:
			cands = append(cands, g.leafPath(true))
		default:
			if len(written) > 0 {
				w := env.Pick(g.r, written)
				cands = append(cands, append(spath{}, w[:1+g.r.Intn(len(w))]...))
			}
		}
	}
	for _, c := range cands {
		enc := gnmi.Encoding_PROTO
		if g.r.Intn(4) == 0 {
			enc = gnmi.Encoding_JSON
		}
		form := env.Pick(g.r, []string{"path", "path", "prefix", "split"})
		if len(c) == 0 {
			form = "path"
		}
		add(c, enc, form)
		// a wildcard variant of the same path
		if g.r.Intn(2) == 0 && len(c) > 0 {
			w := make(spath, len(c))
			for i := range c {
				w[i] = elem{name: c[i].name, keys: append([][2]string{}, c[i].keys...)}
			}
			i := g.r.Intn(len(w))
			switch g.r.Intn(3) {
			case 0:
				w[i].name = "*"
				w[i].keys = nil
				if len(c[i].keys) > 0 {
					w[i].keys = append([][2]string{}, c[i].keys...)
				}
			case 1:
				if len(w[i].keys) > 0 {
					w[i].keys[g.r.Intn(len(w[i].keys))][1] = "*"
				} else {
					w[i].name = "*"
				}
			default:
				// ... in place of elements i..j
				j := i + g.r.Intn(len(w)-i)
				nw := append(spath{}, w[:i]...)
				nw = append(nw, elem{name: "..."})
				nw = append(nw, w[j+1:]...)
				w = nw
			}
			add(w, gnmi.Encoding_PROTO, env.Pick(g.r, []string{"path", "path", "split"}))
		}
	}
	return qs
}

func hxItems(items []string) string {
	return env.HxList(items)
}

// flatten the JSON tree BuildTree produced into leaf paths (key members of list entries are dropped: the tree
// always contains them, whether or not the key leaf is configured)
func flattenJSON(doc []byte) ([]string, error) {
	var root interface{}
	if err := json.Unmarshal(doc, &root); err != nil {
		return nil, err
	}
	out := []string{}
	var walk func(prefix string, v interface{}, kids []*node)
	walk = func(prefix string, v interface{}, kids []*node) {
		m, ok := v.(map[string]interface{})
		if !ok {
			out = append(out, prefix+"\x00?"+fmt.Sprint(v))
			return
		}
		for name, sub := range m {
			var n *node
			for _, k := range kids {
				if k.name == name {
					n = k
				}
			}
			if n == nil {
				out = append(out, prefix+"/"+name+"\x00?unknown-member")
				continue
			}
			if len(n.kids) == 0 {
				out = append(out, prefix+"/"+name+"\x00"+fmt.Sprint(sub))
				continue
			}
			if len(n.keys) == 0 {
				walk(prefix+"/"+name, sub, n.kids)
				continue
			}
			arr, ok := sub.([]interface{})
			if !ok {
				out = append(out, prefix+"/"+name+"\x00?not-a-list")
				continue
			}
			ks := append([]string{}, n.keys...)
			sort.Strings(ks)
			for _, ent := range arr {
				em, ok := ent.(map[string]interface{})
				if !ok {
					out = append(out, prefix+"/"+name+"\x00?entry")
					continue
				}
				p := prefix + "/" + name
				for _, k := range ks {
					p += "[" + k + "=" + fmt.Sprint(em[k]) + "]"
				}
				rest := map[string]interface{}{}
				for k, v := range em {
					isKey := false
					for _, kk := range ks {
						if kk == k {
							isKey = true
						}
					}
					if !isKey {
						rest[k] = v
					}
				}
				walk(p, rest, n.kids)
			}
		}
	}
	walk("", root, schema)
	sort.Strings(out)
	return out, nil
}

func runGet(e *env.Env, q query) string {
	ctx, cancel := context.WithTimeout(context.Background(), 20*time.Second)
	defer cancel()
	req := &gnmi.GetRequest{Encoding: q.enc, Prefix: q.pfx}
	if q.path != nil {
		req.Path = []*gnmi.Path{q.path}
	}
	resp, err := e.Gnmi.Get(ctx, req)
	if err != nil {
		return "ERR:" + status.Code(err).String()
	}
	items := []string{}
	for _, n := range resp.Notification {
		for _, u := range n.Update {
			if u.Val == nil {
				continue
			}
			if jv := u.Val.GetJsonVal(); jv != nil {
				fl, err := flattenJSON(jv)
				if err != nil {
					return "ERR:json"
				}
				items = append(items, fl...)
				continue
			}
			items = append(items, textOfGnmi(u.Path)+"\x00"+u.Val.GetStringVal())
		}
	}
	sort.Strings(items)
	return hxItems(items)
}

func pvItem(pv *configapi.PathValue) string {
	d := "0"
	if pv.Deleted {
		d = "1"
	}
	return env.Hx(pv.Path) + ":" + env.Hx(string(pv.Value.Bytes)) + ":" + d + ":" + fmt.Sprint(uint64(pv.Index))
}

func pvMap(m map[string]*configapi.PathValue) string {
	if len(m) == 0 {
		return "."
	}
	items := []string{}
	for k, pv := range m {
		it := pvItem(pv)
		if k != pv.Path {
			it += ":" + env.Hx(k)
		}
		items = append(items, it)
	}
	sort.Strings(items)
	return strings.Join(items, ",")
}

func pvList(l []*configapi.PathValue) string {
	if len(l) == 0 {
		return "."
	}
	items := []string{}
	for _, pv := range l {
		items = append(items, pvItem(pv))
	}
	return strings.Join(items, ",")
}

func cfgID(target string) configapi.ConfigurationID {
	return configuration.NewID(configapi.TargetID(target), modelName, modelVersion)
}

// the three places path values live in: the Atomix map configurations-<id>, and the copies of Values /
// Status.Applied.Values embedded in the configuration entry itself
type rawReader struct {
	mu      sync.Mutex
	e       *env.Env
	entries _map.Map[configapi.ConfigurationID, *configapi.Configuration]
	maps    map[string]_map.Map[string, *configapi.PathValue]
}

func (r *rawReader) pathMap(name string) map[string]*configapi.PathValue {
	ctx := context.Background()
	r.mu.Lock()
	pm, ok := r.maps[name]
	if !ok {
		var err error
		pm, err = _map.NewBuilder[string, *configapi.PathValue](r.e.Atomix, name).
			Tag("onos-config", "path-value").
			Codec(types.Proto[*configapi.PathValue](&configapi.PathValue{})).Get(ctx)
		if err != nil {
			panic(err)
		}
		r.maps[name] = pm
	}
	r.mu.Unlock()
	m := map[string]*configapi.PathValue{}
	st, err := pm.List(ctx)
	if err != nil {
		panic(err)
	}
	for {
		en, err := st.Next()
		if err != nil {
			break
		}
		m[en.Key] = en.Value
	}
	return m
}

func newRawReader(e *env.Env) *rawReader {
	m, err := _map.NewBuilder[configapi.ConfigurationID, *configapi.Configuration](e.Atomix, "configurations").
		Tag("onos-config", "configuration").
		Codec(types.Proto[*configapi.Configuration](&configapi.Configuration{})).Get(context.Background())
	if err != nil {
		panic(err)
	}
	return &rawReader{e: e, entries: m, maps: map[string]_map.Map[string, *configapi.PathValue]{}}
}

// forget closes the reader's handles on a target's maps (each handle is a client session of its own)
func (r *rawReader) forget(target string) {
	id := cfgID(target)
	r.mu.Lock()
	defer r.mu.Unlock()
	for _, name := range []string{fmt.Sprintf("configurations-%s", id), fmt.Sprintf("configurations-%s-applied", id)} {
		if pm, ok := r.maps[name]; ok {
			_ = pm.Close(context.Background())
			delete(r.maps, name)
		}
	}
}

func (r *rawReader) state(target string) string {
	id := cfgID(target)
	m := r.pathMap(fmt.Sprintf("configurations-%s", id))
	a := r.pathMap(fmt.Sprintf("configurations-%s-applied", id))
	ent, err := r.entries.Get(context.Background(), id)
	if err != nil {
		return pvMap(m) + "\t" + pvMap(a) + "\t.\t.\t0"
	}
	return pvMap(m) + "\t" + pvMap(a) + "\t" + pvMap(ent.Value.Values) + "\t" + pvMap(ent.Value.Status.Applied.Values) + "\t" + fmt.Sprint(uint64(ent.Value.Status.Committed.Index))
}

func (h *history) run(e *env.Env, rr *rawReader, seed int64) []string {
	lines := []string{}
	for i, op := range h.sets {
		req := &gnmi.SetRequest{Extension: []*gnmi_ext.Extension{asyncExt()}}
		dels, upds := []string{}, []string{}
		for _, d := range op.dels {
			req.Delete = append(req.Delete, d.gnmi(h.target))
			dels = append(dels, d.text())
		}
		for k, u := range op.upds {
			req.Update = append(req.Update, &gnmi.Update{Path: u.gnmi(h.target),
				Val: &gnmi.TypedValue{Value: &gnmi.TypedValue_StringVal{StringVal: op.vals[k]}}})
			upds = append(upds, u.text()+"\x00"+op.vals[k])
		}
		ctx, cancel := context.WithTimeout(context.Background(), 30*time.Second)
		resp, err := e.Gnmi.Set(ctx, req)
		cancel()
		code := "OK"
		idx := uint64(0)
		if err != nil {
			code = status.Code(err).String()
		} else {
			for _, ext := range resp.Extension {
				if r := ext.GetRegisteredExt(); r != nil && r.Id == configapi.TransactionInfoExtensionID {
					ti := &configapi.TransactionInfo{}
					if ti.Unmarshal(r.Msg) == nil {
						idx = uint64(ti.Index)
					}
				}
			}
		}
		id := fmt.Sprintf("%d:%s.%d", seed, h.name, i)
		lines = append(lines, fmt.Sprintf("c03.set\t%s\t%s\t%d\t%s\t%s\t%s\t%s\t%d", id, h.name, i, h.kind, code, hxItems(dels), hxItems(upds), idx))
		lines = append(lines, fmt.Sprintf("c03.raw\t%s\t%s\t%d\t%s", id, h.name, i, rr.state(h.target)))
		for k, q := range h.qs[i] {
			enc := "PROTO"
			if q.enc != gnmi.Encoding_PROTO {
				enc = "JSON"
			}
			pfx := ""
			if q.pfx != nil {
				pfx = textOfGnmi(q.pfx)
			}
			lines = append(lines, fmt.Sprintf("c03.get\t%s.q%d\t%s\t%d\t%s\t%s\t%s\t%s\t%s", id, k, h.name, i, enc, q.form, env.Hx(q.text), env.Hx(pfx), runGet(e, q)))
		}
	}
	rr.forget(h.target)
	return lines
}

// ---------------------------------------------------------------- pure --

var purePaths = []string{"/a", "/a/b", "/a/bc", "/a/b-c", "/a/b.d", "/a/b/c", "/a/b/c/d", "/a/bc/x", "/a/c", "/a/c/d", "/a/cd/x",
	"/l", "/l[k=1]", "/l[k=1]/v", "/l[k=1]/w/z", "/l[k=10]/v", "/l[k=1x]/v", "/lx[k=1]/v", "/m[k1=a]", "/m[k1=a][k2=b]", "/m[k1=a][k2=b]/v",
	"/m[k1=a][k2=bb]/v", "/m[k1=ab][k2=b]/v", "/x", "/xy", "/", "", "/a/", "a", "/a[", "/a/b[", "/é", "/é/b", "//", "/a//b"}

func (g *gen) purePath() string {
	if g.r.Intn(12) == 0 { // malformed / random
		n := g.r.Intn(6)
		b := make([]byte, n)
		for i := range b {
			b[i] = "/ab[]=c.-*\\\n"[g.r.Intn(12)]
		}
		return string(b)
	}
	return env.Pick(g.r, purePaths)
}

func (g *gen) pv(path string, idxMax int) *configapi.PathValue {
	pv := &configapi.PathValue{Path: path, Index: configapi.Index(g.r.Intn(idxMax + 1)), Deleted: g.r.Intn(3) == 0}
	if !pv.Deleted || g.r.Intn(4) == 0 {
		pv.Value = *configapi.NewTypedValueString(fmt.Sprintf("s%d", g.r.Intn(50)))
	}
	return pv
}

func (g *gen) pvMapGen(n int, idxMax int, wf bool) map[string]*configapi.PathValue {
	m := map[string]*configapi.PathValue{}
	for i := 0; i < n; i++ {
		var p string
		if wf {
			p = env.Pick(g.r, purePaths[:25])
		} else {
			p = g.purePath()
		}
		m[p] = g.pv(p, idxMax)
	}
	return m
}

func clonePVMap(m map[string]*configapi.PathValue) map[string]*configapi.PathValue {
	r := map[string]*configapi.PathValue{}
	for k, v := range m {
		c := *v
		r[k] = &c
	}
	return r
}

var wildQueries = []string{"", "/", "/a", "/a/b", "/a/b/", "/a/*", "/a/*/d", "/*", "/*/b", "/a/...", "/a/.../d", "/...", "/l[k=*]/v", "/l[k=1]", "/l[k=*]",
	"/m[k1=*][k2=b]/v", "/m[k1=a]", "/a/b*", "/a/b.d", "/a/b.", "/a/b..", "/a/....", "/a/b(", "/a/[b", "/a/b+", "/a/b?", "/a/b|c", "/a/b\\", "/a/b$", "^/a", "/a/.*", "/a/\\*",
	"/l", "/x", "/a/c", "/a/*/...", "/.../z", "/a/b-c", "*", "...", "/a/..."}

func main() {
	seed := flag.Int64("seed", 1, "")
	nHist := flag.Int("hist", 60, "clean end-to-end histories")
	nFind := flag.Int("find", 10, "histories of the finding streams (recreate, overlap), each")
	nCommit := flag.Int("commit", 150, "direct commit sequences")
	nPure := flag.Int("pure", 2000, "cases per pure function")
	workers := flag.Int("workers", 8, "")
	corpus := flag.String("corpus", "", "tsv file with scripted histories")
	flag.Parse()
	env.Quiet()
	logging.GetLogger("jwt").SetLevel(logging.FatalLevel)
	r := rand.New(rand.NewSource(*seed))
	g := &gen{r: r}
	out := bufio.NewWriterSize(os.Stdout, 1<<20)
	defer out.Flush()

	plugin := &fakes.PluginClient{Name: modelName, Version: modelVersion}
	for _, p := range rwPaths() {
		plugin.RW = append(plugin.RW, fakes.RWPath(p[0], configapi.ValueType_STRING, p[1] == "1", p[2]))
	}

	// ------------------------------------------------ pure differential cases
	for i := 0; i < *nPure; i++ {
		// AddDeleteChildren
		wf := r.Intn(5) != 0
		ch := g.pvMapGen(1+r.Intn(4), 0, wf)
		index := uint64(5 + r.Intn(3))
		for _, v := range ch {
			v.Index = configapi.Index(index)
		}
		st := g.pvMapGen(r.Intn(7), 4, wf)
		chIn, stIn := pvMap(ch), pvMap(st)
		res := ctlutils.AddDeleteChildren(configapi.Index(index), ch, st)
		fmt.Fprintf(out, "c03.adc\t%d:a%d\t%d\t%s\t%s\t%s\t%s\n", *seed, i, index, chIn, stIn, pvMap(res), pvMap(st))
	}
	for i := 0; i < *nPure; i++ {
		n := r.Intn(8)
		l := []*configapi.PathValue{}
		seen := map[string]bool{}
		for j := 0; j < n; j++ {
			p := g.purePath()
			if seen[p] {
				continue
			}
			seen[p] = true
			l = append(l, g.pv(p, 5))
		}
		leave := r.Intn(2) == 0
		in := pvList(l)
		res := tree.PrunePathValues(l, leave)
		lv := "0"
		if leave {
			lv = "1"
		}
		fmt.Fprintf(out, "c03.prune\t%d:p%d\t%s\t%s\t%s\n", *seed, i, lv, in, pvList(res))
	}
	for i := 0; i < *nPure; i++ {
		q := env.Pick(r, wildQueries)
		if r.Intn(10) == 0 {
			q = g.purePath()
		}
		p := g.purePath()
		if r.Intn(3) == 0 {
			p = env.Pick(r, []string{"/a/b/c/d", "/a/c/d", "/a/x/y/d", "/l[k=1]/v", "/l[k=a-b]/v", "/l[k=1]/w/z", "/m[k1=a][k2=b]/v", "/a/b.d", "/a/bXd", "/a/b\nc/d", "/a/b(", "/a/b,c", "/a/b:c/d"})
		}
		exact := r.Intn(4) == 0
		res := func() (s string) {
			defer func() {
				if recover() != nil {
					s = "panic"
				}
			}()
			if utils.MatchWildcardRegexp(q, exact).MatchString(p) {
				return "1"
			}
			return "0"
		}()
		ex := "0"
		if exact {
			ex = "1"
		}
		fmt.Fprintf(out, "c03.wild\t%d:w%d\t%s\t%s\t%s\t%s\n", *seed, i, env.Hx(q), ex, env.Hx(p), res)
	}

	// ------------------------------------------------ store writes + commit step of the real proposal reconciler
	{
		e := env.New(0, plugin)
		rec := propctl.NewReconcilerForVerif(e.Topo, e.Conns, e.Props, e.Cfgs, e.Registry)
		rr := newRawReader(e)
		ctx := context.Background()
		for i := 0; i < *nCommit; i++ {
			target := fmt.Sprintf("d%d", i)
			id := cfgID(target)
			wf := r.Intn(6) != 0
			v0 := g.pvMapGen(r.Intn(7), 3, wf)
			cfg := &configapi.Configuration{ID: id, TargetID: configapi.TargetID(target), Values: clonePVMap(v0)}
			if err := e.Cfgs.Create(ctx, cfg); err != nil {
				panic(err)
			}
			dump := func() string { return rr.state(target) }
			cid := fmt.Sprintf("%d:c%d", *seed, i)
			fmt.Fprintf(out, "c03.store\t%s.0\t%s\t.\t.\t.\t.\t0\t%s\t%s\n", cid, target, pvMap(v0), dump())
			nw := r.Intn(3)
			for w := 0; w < nw; w++ {
				pre := dump()
				c, _ := e.Cfgs.Get(ctx, id)
				var vals map[string]*configapi.PathValue
				if r.Intn(3) == 0 { // a status-like rewrite of what was loaded
					vals = c.Values
				} else {
					vals = g.pvMapGen(r.Intn(6), 4, wf)
					if r.Intn(2) == 0 { // loaded values plus changes
						for k, v := range c.Values {
							if _, ok := vals[k]; !ok {
								vals[k] = v
							}
						}
					}
				}
				in := pvMap(vals)
				c.Values = clonePVMap(vals)
				if vals == nil {
					c.Values = nil
				}
				if err := e.Cfgs.Update(ctx, c); err != nil {
					panic(err)
				}
				fmt.Fprintf(out, "c03.store\t%s.%d\t%s\t%s\t%s\t%s\n", cid, w+1, target, pre, in, dump())
			}
			prev := uint64(0)
			idx := uint64(4)
			np := 1 + r.Intn(3)
			for p := 0; p < np; p++ {
				idx += uint64(1 + r.Intn(2))
				ch := g.pvMapGen(1+r.Intn(3), 0, wf)
				for _, v := range ch {
					v.Index = configapi.Index(idx)
				}
				pre := dump()
				prop := &configapi.Proposal{
					ID:                proposalstore.NewID(configapi.TargetID(target), configapi.Index(idx)),
					TargetID:          configapi.TargetID(target),
					TransactionIndex:  configapi.Index(idx),
					TargetTypeVersion: configapi.TargetTypeVersion{TargetType: modelName, TargetVersion: modelVersion},
					Details:           &configapi.Proposal_Change{Change: &configapi.ChangeProposal{Values: clonePVMap(ch)}},
					Status: configapi.ProposalStatus{PrevIndex: configapi.Index(prev), Phases: configapi.ProposalPhases{
						Initialize: &configapi.ProposalInitializePhase{State: configapi.ProposalInitializePhase_INITIALIZED},
						Validate:   &configapi.ProposalValidatePhase{State: configapi.ProposalValidatePhase_VALIDATED},
						Commit:     &configapi.ProposalCommitPhase{State: configapi.ProposalCommitPhase_COMMITTING},
					}},
				}
				if err := e.Props.Create(ctx, prop); err != nil {
					panic(err)
				}
				if _, err := rec.Reconcile(controller.NewID(prop.ID)); err != nil {
					panic(err)
				}
				c, _ := e.Cfgs.Get(ctx, id)
				if uint64(c.Status.Committed.Index) != idx {
					panic(fmt.Sprintf("commit did not happen: committed index %d, want %d", c.Status.Committed.Index, idx))
				}
				fmt.Fprintf(out, "c03.commit\t%s.p%d\t%s\t%d\t%s\t%s\t%s\n", cid, p, target, idx, pre, pvMap(ch), dump())
				prev = idx
			}
			rr.forget(target)
		}
	}

	// ------------------------------------------------ end-to-end histories
	e := env.New(0, plugin)
	hs := []*history{}
	vc := 0
	if *corpus != "" {
		if b, err := os.ReadFile(*corpus); err == nil {
			hs = append(hs, corpusHistories(g, string(b))...)
		}
	}
	for i := 0; i < *nHist; i++ {
		hs = append(hs, g.history(fmt.Sprintf("h%d", i), fmt.Sprintf("t%d", i), "clean", &vc))
	}
	for i := 0; i < *nFind; i++ {
		hs = append(hs, g.history(fmt.Sprintf("r%d", i), fmt.Sprintf("tr%d", i), "recreate", &vc))
		hs = append(hs, g.history(fmt.Sprintf("o%d", i), fmt.Sprintf("to%d", i), "overlap", &vc))
	}
	for _, h := range hs {
		e.Topo.AddTarget(h.target, modelName, modelVersion, false, false)
	}
	e.StartControllers(false)
	rr := newRawReader(e)
	results := make([][]string, len(hs))
	var wg sync.WaitGroup
	ch := make(chan int)
	for w := 0; w < *workers; w++ {
		wg.Add(1)
		go func() {
			defer wg.Done()
			for i := range ch {
				results[i] = hs[i].run(e, rr, *seed)
			}
		}()
	}
	for i := range hs {
		ch <- i
	}
	close(ch)
	wg.Wait()
	e.StopControllers()
	for _, ls := range results {
		for _, l := range ls {
			fmt.Fprintln(out, l)
		}
	}
}

// corpus file: one history per line:  name <TAB> kind <TAB> set;set;...   where set = op,op,...  and
// op = "d" hex(path text) | "u" hex(path text) ":" hex(value)
func corpusHistories(g *gen, txt string) []*history {
	res := []*history{}
	for _, ln := range strings.Split(txt, "\n") {
		f := strings.Split(strings.TrimSpace(ln), "\t")
		if len(f) != 3 || strings.HasPrefix(ln, "#") {
			continue
		}
		h := &history{name: "corpus-" + f[0], target: "tc-" + f[0], kind: f[1]}
		written := []spath{}
		for _, s := range strings.Split(f[2], ";") {
			op := setOp{}
			for _, o := range strings.Split(s, ",") {
				if len(o) < 2 {
					continue
				}
				if o[0] == 'd' {
					b, _ := hex.DecodeString(o[1:])
					op.dels = append(op.dels, parseText(string(b)))
				} else {
					pv := strings.Split(o[1:], ":")
					b, _ := hex.DecodeString(pv[0])
					v, _ := hex.DecodeString(pv[1])
					op.upds = append(op.upds, parseText(string(b)))
					op.vals = append(op.vals, string(v))
				}
			}
			written = append(written, op.upds...)
			h.sets = append(h.sets, op)
			h.qs = append(h.qs, g.queries(h.target, written, op))
		}
		res = append(res, h)
	}
	return res
}

// parse the canonical text form (restricted alphabet: no escapes)
func parseText(t string) spath {
	p := spath{}
	for _, part := range strings.Split(strings.TrimPrefix(t, "/"), "/") {
		if part == "" {
			continue
		}
		e := elem{}
		i := strings.Index(part, "[")
		if i < 0 {
			e.name = part
		} else {
			e.name = part[:i]
			for _, kv := range strings.Split(strings.TrimSuffix(part[i+1:], "]"), "][") {
				j := strings.Index(kv, "=")
				e.keys = append(e.keys, [2]string{kv[:j], kv[j+1:]})
			}
		}
		p = append(p, e)
	}
	return p
}

// c08: observations for property C08 (every Set / rollback request is answered, truthfully).
//
// Domains (one line per case, tab separated):
//
//	h.status  id  ctor  code                       errors.Status(errors.NewX()).Code() of the real library
//	h.loop    id  kind sync events cm txid index outcome resp
//	          the real Set / RollbackTransaction handler over a scripted transaction store: Create records what
//	          the handler built, Watch delivers exactly the scripted events, then ends the stream
//	h.watch   id  log watchAt delivered            the real transaction store: writes, a Watch(WithReplay,
//	          WithTransactionID) opened in the middle, the events it delivered
//	h.e2e     id  kind sync label h delivered outcome final requested stored resp idok
//	          the real handlers over the real stores and the real controllers (with devices, plugin), the
//	          handler's transaction store decorated so that the controllers' progress is placed between
//	          Create and Watch
package main

import (
	"bufio"
	"context"
	"flag"
	"fmt"
	"math/rand"
	"os"
	"os/exec"
	"runtime"
	"runtime/pprof"
	"sort"
	"strings"
	"sync"
	"time"

	"github.com/gogo/protobuf/proto"
	adminapi "github.com/onosproject/onos-api/go/onos/config/admin"
	configapi "github.com/onosproject/onos-api/go/onos/config/v2"
	"github.com/onosproject/onos-config/pkg/northbound/admin"
	nbgnmi "github.com/onosproject/onos-config/pkg/northbound/gnmi/v2"
	"github.com/onosproject/onos-config/pkg/store/v2/transaction"
	"github.com/onosproject/onos-config/pkg/utils"
	"github.com/onosproject/onos-lib-go/pkg/errors"
	"github.com/onosproject/onos-lib-go/pkg/logging"
	"github.com/openconfig/gnmi/proto/gnmi"
	"github.com/openconfig/gnmi/proto/gnmi_ext"
	"google.golang.org/grpc/codes"
	"google.golang.org/grpc/status"

	"verifharness/env"
	"verifharness/fakes"
)

var out *bufio.Writer

// ------------------------------------------------------------------ helpers

// extsFor: the strategy extension, on some requests behind one of gNMI's well-known extensions (master arbitration, history),
// which the server has no use for and must step over
func extsFor(r *rand.Rand, sync bool) []*gnmi_ext.Extension {
	xs := []*gnmi_ext.Extension{}
	switch r.Intn(5) {
	case 0:
		xs = append(xs, &gnmi_ext.Extension{Ext: &gnmi_ext.Extension_MasterArbitration{
			MasterArbitration: &gnmi_ext.MasterArbitration{ElectionId: &gnmi_ext.Uint128{Low: 1}}}})
	case 1:
		xs = append(xs, &gnmi_ext.Extension{Ext: &gnmi_ext.Extension_History{History: &gnmi_ext.History{}}})
	}
	return append(xs, strategyExt(sync))
}

func strategyExt(sync bool) *gnmi_ext.Extension {
	s := configapi.TransactionStrategy_ASYNCHRONOUS
	if sync {
		s = configapi.TransactionStrategy_SYNCHRONOUS
	}
	b, _ := (&configapi.TransactionStrategy{Synchronicity: s}).Marshal()
	return &gnmi_ext.Extension{Ext: &gnmi_ext.Extension_RegisteredExt{RegisteredExt: &gnmi_ext.RegisteredExtension{
		Id: configapi.TransactionStrategyExtensionID, Msg: b}}}
}

func pathOf(target string, elems ...string) *gnmi.Path {
	p := &gnmi.Path{Target: target}
	for _, e := range elems {
		p.Elem = append(p.Elem, &gnmi.PathElem{Name: e})
	}
	return p
}

func strVal(s string) *gnmi.TypedValue {
	return &gnmi.TypedValue{Value: &gnmi.TypedValue_StringVal{StringVal: s}}
}

func outcomeOf(err error) string {
	if err == nil {
		return "OK"
	}
	return fmt.Sprintf("ERR:%d", int(status.Code(err)))
}

func failStr(f *configapi.Failure) string {
	if f == nil {
		return "-"
	}
	return fmt.Sprintf("%d", int32(f.Type))
}

type row struct {
	target, path string
	del          bool
}

func rowsStr(rs []row) string {
	if len(rs) == 0 {
		return "."
	}
	l := make([]string, 0, len(rs))
	for _, r := range rs {
		op := "U"
		if r.del {
			op = "D"
		}
		l = append(l, env.Hx(r.target)+":"+env.Hx(r.path)+":"+op)
	}
	sort.Strings(l)
	return strings.Join(l, ",")
}

func rowsOfChange(tx *configapi.Transaction) []row {
	rs := []row{}
	if tx == nil || tx.GetChange() == nil {
		return rs
	}
	for t, c := range tx.GetChange().Values {
		for p, v := range c.Values {
			rs = append(rs, row{string(t), p, v.Deleted})
		}
	}
	return rs
}

// response rows, rendered back to text with the repository's own StrPath
func rowsOfResponse(resp *gnmi.SetResponse) []row {
	rs := []row{}
	for _, r := range resp.GetResponse() {
		del := r.Op == gnmi.UpdateResult_DELETE
		if r.Op != gnmi.UpdateResult_DELETE && r.Op != gnmi.UpdateResult_UPDATE {
			rs = append(rs, row{r.Path.GetTarget(), fmt.Sprintf("?op%d?", int(r.Op)) + utils.StrPath(r.Path), false})
			continue
		}
		rs = append(rs, row{r.Path.GetTarget(), utils.StrPath(r.Path), del})
	}
	return rs
}

func txInfo(resp *gnmi.SetResponse) (string, uint64, bool) {
	for _, e := range resp.GetExtension() {
		if re := e.GetRegisteredExt(); re != nil && re.Id == configapi.TransactionInfoExtensionID {
			ti := &configapi.TransactionInfo{}
			if err := proto.Unmarshal(re.Msg, ti); err != nil {
				return "", 0, false
			}
			return string(ti.ID), uint64(ti.Index), true
		}
	}
	return "", 0, false
}

// ------------------------------------------------------------------ h.status

func domStatus() {
	mk := []func(string, ...interface{}) error{errors.NewUnknown, errors.NewCanceled, errors.NewNotFound, errors.NewAlreadyExists,
		errors.NewUnauthorized, errors.NewForbidden, errors.NewConflict, errors.NewInvalid, errors.NewUnavailable,
		errors.NewNotSupported, errors.NewTimeout, errors.NewInternal}
	for i, f := range mk {
		c := status.Code(errors.Status(f("x")).Err())
		fmt.Fprintf(out, "h.status\tst:%d\t%d\t%d\n", i, i, int(c))
	}
}

// ------------------------------------------------------------------ h.loop: scripted store

type scriptEvent struct {
	state   int32
	failure *int32 // nil = no Failure message
	sync    int32
	etype   configapi.TransactionEvent_EventType
}

type scriptStore struct {
	transaction.Store // nil: every other method would panic, the handlers only use Create and Watch
	events            []scriptEvent
	index             uint64
	created           *configapi.Transaction
	mutate            []row // when non-nil, Create replaces the change values by these (what a plugin's path list could contain)
	cancel            context.CancelFunc
	accepted          int
	echo              bool  // Set: an event whose scripted strategy is the one the caller asked for carries the strategy of the
	asked             int32 // transaction the handler CREATED (what the real store would echo), not the script's copy of it
}

func (s *scriptStore) Create(ctx context.Context, tx *configapi.Transaction) error {
	if s.mutate != nil {
		if ch := tx.GetChange(); ch != nil {
			vals := map[configapi.TargetID]*configapi.PathValues{}
			for _, r := range s.mutate {
				pv, ok := vals[configapi.TargetID(r.target)]
				if !ok {
					pv = &configapi.PathValues{Values: map[string]*configapi.PathValue{}}
					vals[configapi.TargetID(r.target)] = pv
				}
				pv.Values[r.path] = &configapi.PathValue{Path: r.path, Deleted: r.del}
			}
			ch.Values = vals
		}
	}
	tx.Index = configapi.Index(s.index)
	tx.Version = 1
	tx.Revision = 1
	s.created = tx
	return nil
}

func (s *scriptStore) Watch(ctx context.Context, ch chan<- configapi.TransactionEvent, opts ...transaction.WatchOption) error {
	go func() {
		for _, e := range s.events {
			tx := *s.created
			tx.Status = configapi.TransactionStatus{State: configapi.TransactionStatus_State(e.state)}
			if e.failure != nil {
				tx.Status.Failure = &configapi.Failure{Type: configapi.Failure_Type(*e.failure), Description: "scripted"}
			}
			if !(s.echo && e.sync == s.asked) {
				tx.TransactionStrategy.Synchronicity = configapi.TransactionStrategy_Synchronicity(e.sync)
			}
			select {
			case ch <- configapi.TransactionEvent{Type: e.etype, Transaction: tx}:
				s.accepted++
			case <-time.After(2 * time.Second):
				// the handler returned: nobody reads any more
				return
			}
		}
		// script exhausted: the caller gives up (context cancelled, stream closed as the real store does)
		s.cancel()
		close(ch)
	}()
	return nil
}

var weirdPaths = []string{"/a", "/a/b", "/a[k=v]/b", "/a[", "/a[k", "/a[k=", "/a[k=v", "/a[=v]", "/a[k=]", "/[k=v]", "/a]b", "/a\\[b", "/a\\/b/c",
	"/a[k=v][l=w]/c", "/a[k=v]x", "/a[k=x/y]/z", "/a//b", "", "/", "a", "/a[k=v\\]]", "/a[k\\==v]", "/a\\", "/a[k=v]/", "/é[k=ü]", "/a[k=v]]", "/a[[k=v]"}

// well-formed paths (the textual form utils.StrPath produces) whose list keys hold the characters of the path syntax
var keyPaths = []string{"/interfaces/interface[name=eth1/0]/config/mtu", "/a[k=x/y/z]", "/a[k=v=w]/b", "/a[k=x[y]/b", "/a[k=x\\]y]/b",
	"/a[k=x\\\\y]/b", "/a[k=/]/b", "/a[j=1/2][k=3/4]/c", "/a[k=Ethernet1/0/1]/b[l=x/y]/c", "/a[k==]/b", "/a[k=[[]/b", "/a\\/b/c"}

func genPath(r *rand.Rand) string {
	if r.Intn(3) == 0 {
		return env.Pick(r, weirdPaths)
	}
	alpha := []string{"a", "b", "/", "[", "]", "=", "\\", "k", "v"}
	n := 1 + r.Intn(8)
	s := "/"
	for i := 0; i < n; i++ {
		s += env.Pick(r, alpha)
	}
	return s
}

func domLoop(r *rand.Rand, seed int64, n int, corpus string) {
	plugin := &fakes.PluginClient{Name: "devicesim", Version: "1.0.0"}
	for _, p := range []string{"/foo", "/bar", "/cont/leaf"} {
		plugin.RW = append(plugin.RW, fakes.RWPath(p, configapi.ValueType_STRING, false, ""))
	}
	e := env.New(0, plugin)
	e.Topo.AddTarget("t1", "devicesim", "1.0.0", false, false)
	e.Topo.AddTarget("t2", "devicesim", "1.0.0", false, false)

	runOne := func(id string, kind string, label string, sync bool, evs []scriptEvent, mutate []row, index uint64) {
		ctx, cancel := context.WithCancel(context.Background())
		st := &scriptStore{events: evs, index: index, cancel: cancel, mutate: mutate}
		if sync {
			st.asked = 1
		}
		st.echo = kind == "set"
		evStr := "."
		if len(evs) > 0 {
			l := []string{}
			for _, ev := range evs {
				f := "-"
				if ev.failure != nil {
					f = fmt.Sprintf("%d", *ev.failure)
				}
				l = append(l, fmt.Sprintf("%d:%s:%d", ev.state, f, ev.sync))
			}
			evStr = strings.Join(l, ",")
		}
		sy := 0
		if sync {
			sy = 1
		}
		if kind == "set" {
			srv := nbgnmi.NewServerForVerif(e.Topo, st, e.Props, e.Cfgs, e.Registry, e.Conns, 0)
			req := &gnmi.SetRequest{Extension: extsFor(r, sync)}
			req.Update = append(req.Update, &gnmi.Update{Path: pathOf("t1", "foo"), Val: strVal("x")})
			switch r.Intn(4) {
			case 0:
				req.Delete = append(req.Delete, pathOf("t1", "bar"))
			case 1:
				req.Update = append(req.Update, &gnmi.Update{Path: pathOf("t2", "cont", "leaf"), Val: strVal("y")})
				req.Delete = append(req.Delete, pathOf("t2", "foo"))
			case 2:
				req.Replace = append(req.Replace, &gnmi.Update{Path: pathOf("t2", "bar"), Val: strVal("z")})
			}
			resp, err := srv.Set(ctx, req)
			cancel()
			oc := outcomeOf(err)
			if err == context.Canceled {
				oc = "WAIT"
			}
			cm, txid := ".", "-"
			if st.created != nil {
				cm = rowsStr(rowsOfChange(st.created))
				txid = string(st.created.ID)
			}
			rs := "-"
			if err == nil {
				if resp == nil {
					oc = "NILNIL"
				} else {
					rid, ridx, ok := txInfo(resp)
					rs = fmt.Sprintf("%s|%v|%d|%v", rowsStr(rowsOfResponse(resp)), rid == txid, ridx, ok)
				}
			}
			fmt.Fprintf(out, "h.loop\t%s\tset\t%d\t%s\t%s\t%s\t%d\t%s\t%s\n", id, sy, label, evStr, cm, index, oc, rs)
		} else {
			srv := admin.NewServerForVerif(st, e.Cfgs, e.Registry)
			resp, err := srv.RollbackTransaction(ctx, &adminapi.RollbackRequest{Index: configapi.Index(1 + r.Intn(5))})
			cancel()
			oc := outcomeOf(err)
			if err == context.Canceled {
				oc = "WAIT"
			}
			rs := "-"
			if err == nil {
				if resp == nil {
					oc = "NILNIL"
				} else {
					rs = fmt.Sprintf(".|%v|%d|true", st.created != nil && resp.ID == st.created.ID, uint64(resp.Index))
				}
			}
			fmt.Fprintf(out, "h.loop\t%s\trb\t%d\t%s\t%s\t.\t%d\t%s\t%s\n", id, 1, label, evStr, index, oc, rs)
		}
	}

	parseEvents := func(s string) []scriptEvent {
		evs := []scriptEvent{}
		if s == "." || s == "" {
			return evs
		}
		for _, p := range strings.Split(s, ",") {
			f := strings.Split(p, ":")
			if len(f) != 3 {
				continue
			}
			var st, sy int32
			fmt.Sscanf(f[0], "%d", &st)
			fmt.Sscanf(f[2], "%d", &sy)
			ev := scriptEvent{state: st, sync: sy, etype: configapi.TransactionEvent_UPDATED}
			if f[1] != "-" {
				var ft int32
				fmt.Sscanf(f[1], "%d", &ft)
				ev.failure = &ft
			}
			evs = append(evs, ev)
		}
		return evs
	}
	// corpus: kind \t sync \t events
	if corpus != "" {
		if b, err := os.ReadFile(corpus); err == nil {
			for i, ln := range strings.Split(string(b), "\n") {
				f := strings.Split(ln, "\t")
				if len(f) == 3 && !strings.HasPrefix(ln, "#") {
					runOne(fmt.Sprintf("corpus:%d", i), f[0], "valid", f[1] == "1", parseEvents(f[2]), nil, 7)
				}
			}
		}
	}

	// exhaustive small scope first: every single event and every pair, both kinds, both synchronicities
	cnt := 0
	fails := []*int32{nil}
	for _, v := range []int32{0, 2, 5, 7, 11, 12, 99, -1} {
		x := v
		fails = append(fails, &x)
	}
	for _, sync := range []bool{false, true} {
		for st := int32(0); st <= 4; st++ {
			for _, f := range fails {
				if st != 4 && f != nil && *f != 7 {
					continue
				}
				sy := int32(0)
				if sync {
					sy = 1
				}
				ev := scriptEvent{state: st, failure: f, sync: sy, etype: configapi.TransactionEvent_REPLAYED}
				runOne(fmt.Sprintf("%d:x%d", seed, cnt), "set", "valid", sync, []scriptEvent{ev}, nil, uint64(1+cnt))
				cnt++
				if sync {
					runOne(fmt.Sprintf("%d:x%d", seed, cnt), "rb", "valid", true, []scriptEvent{ev}, nil, uint64(1+cnt))
					cnt++
				}
			}
		}
	}
	// every failure type value 0..13 once
	for ft := int32(0); ft <= 13; ft++ {
		x := ft
		for _, kind := range []string{"set", "rb"} {
			runOne(fmt.Sprintf("%d:x%d", seed, cnt), kind, "valid", true, []scriptEvent{{state: 0, sync: 1}, {state: 4, failure: &x, sync: 1}}, nil, uint64(1+cnt))
			cnt++
		}
	}

	// every odd path and every well-formed path with syntax characters inside keys, alone in a change map that succeeds
	for _, pth := range weirdPaths {
		for _, del := range []bool{false, true} {
			runOne(fmt.Sprintf("%d:x%d", seed, cnt), "set", "valid-oddpaths", true, []scriptEvent{{state: 3, sync: 1}}, []row{{"t1", pth, del}}, uint64(1+cnt))
			cnt++
		}
	}
	for i, pth := range keyPaths {
		sync := i%2 == 0
		sy := int32(0)
		if sync {
			sy = 1
		}
		runOne(fmt.Sprintf("%d:x%d", seed, cnt), "set", "valid-keypaths", sync, []scriptEvent{{state: 0, sync: sy}, {state: 3, sync: sy}}, []row{{"t1", pth, i%3 == 0}, {"t2", "/foo", false}}, uint64(1+cnt))
		cnt++
	}

	// generated: histories delivered under a random placement (replay h[k-1], then h[j..]), plus a malformed stream
	for i := 0; i < n; i++ {
		sync := r.Intn(2) == 0
		kind := "set"
		if r.Intn(4) == 0 {
			kind = "rb"
			sync = true
		}
		sy := int32(0)
		if sync {
			sy = 1
		}
		var evs []scriptEvent
		var mutate []row
		label := "valid"
		mode := r.Intn(10)
		if mode < 7 {
			// a valid history
			h := []scriptEvent{}
			st := int32(0)
			var fl *int32
			for len(h) < 12 {
				h = append(h, scriptEvent{state: st, failure: fl, sync: sy, etype: configapi.TransactionEvent_UPDATED})
				if r.Intn(3) == 0 {
					continue // stutter (phase bookkeeping writes)
				}
				if st == 3 || st == 4 {
					if r.Intn(2) == 0 {
						break
					}
					continue
				}
				if r.Intn(5) == 0 {
					st = 4
					if r.Intn(8) != 0 {
						x := int32(r.Intn(13))
						if r.Intn(10) == 0 {
							x = 50 + int32(r.Intn(50))
						}
						fl = &x
					}
				} else if r.Intn(6) == 0 {
					break // history still in progress
				} else {
					st++
				}
			}
			k := 1 + r.Intn(len(h))
			j := r.Intn(k + 1)
			rep := h[k-1]
			rep.etype = configapi.TransactionEvent_REPLAYED
			evs = append(evs, rep)
			evs = append(evs, h[j:]...)
		} else {
			// arbitrary events: any state order, flipped synchronicity, odd failure types
			label = "arbitrary"
			m := r.Intn(6)
			for x := 0; x < m; x++ {
				ev := scriptEvent{state: int32(r.Intn(5)), sync: sy, etype: configapi.TransactionEvent_UPDATED}
				if r.Intn(4) == 0 {
					ev.sync = 1 - sy
				}
				if r.Intn(2) == 0 {
					ft := int32(r.Intn(14))
					if r.Intn(6) == 0 {
						ft = int32(r.Intn(200)) - 50
					}
					ev.failure = &ft
				}
				evs = append(evs, ev)
			}
		}
		if kind == "set" && r.Intn(4) == 0 {
			// the change map the handler iterates over holds arbitrary path text
			m := 1 + r.Intn(4)
			for x := 0; x < m; x++ {
				mutate = append(mutate, row{env.Pick(r, []string{"t1", "t2", ""}), genPath(r), r.Intn(2) == 0})
			}
		}
		if mutate != nil {
			label += "-oddpaths"
		} else if kind == "set" && r.Intn(6) == 0 {
			m := 1 + r.Intn(3)
			for x := 0; x < m; x++ {
				mutate = append(mutate, row{env.Pick(r, []string{"t1", "t2"}), env.Pick(r, keyPaths), r.Intn(3) == 0})
			}
			label += "-keypaths"
		}
		runOne(fmt.Sprintf("%d:l%d", seed, i), kind, label, sync, evs, mutate, uint64(1+r.Intn(1000)))
	}
}

// ------------------------------------------------------------------ h.watch: the real store's Watch

func domWatch(r *rand.Rand, seed int64, n int) {
	e := env.New(0)
	ctxAll, cancelAll := context.WithCancel(context.Background())
	defer cancelAll()
	for i := 0; i < n; i++ {
		ids := []configapi.TransactionID{configapi.TransactionID(fmt.Sprintf("w%d-%d-A", seed, i)), configapi.TransactionID(fmt.Sprintf("w%d-%d-B", seed, i))}
		txs := make([]*configapi.Transaction, 2)
		total := 2 + r.Intn(10)
		watchAt := r.Intn(total + 1)
		// every log entry: (which transaction, marker)
		type ent struct {
			who    int
			marker string
		}
		log := []ent{}
		var ch chan configapi.TransactionEvent
		var delivered []string
		var mu sync.Mutex
		done := make(chan struct{})
		ctx, cancel := context.WithCancel(ctxAll)
		openWatch := func() {
			ch = make(chan configapi.TransactionEvent)
			if err := e.Txs.Watch(ctx, ch, transaction.WithReplay(), transaction.WithTransactionID(ids[0])); err != nil {
				panic(err)
			}
			go func() {
				for ev := range ch {
					mu.Lock()
					typ := "E"
					if ev.Type == configapi.TransactionEvent_REPLAYED {
						typ = "R"
					}
					delivered = append(delivered, typ+string(ev.Transaction.ID[len(ev.Transaction.ID)-1:])+ev.Transaction.Username)
					mu.Unlock()
				}
				close(done)
			}()
		}
		burst := r.Intn(2) == 0
		// a second watcher of the same transaction that comes after the first and leaves before write number leaveAt
		second := watchAt < total && r.Intn(3) == 0
		leaveAt := -1
		var cancel2 context.CancelFunc
		done2 := make(chan struct{})
		if second {
			leaveAt = watchAt + r.Intn(total-watchAt)
		}
		for w := 0; w < total; w++ {
			if w == watchAt {
				openWatch()
				if second {
					var ctx2 context.Context
					ctx2, cancel2 = context.WithCancel(ctxAll)
					ch2 := make(chan configapi.TransactionEvent)
					opts2 := []transaction.WatchOption{transaction.WithTransactionID(ids[0])}
					if r.Intn(2) == 0 {
						opts2 = append(opts2, transaction.WithReplay())
					}
					if err := e.Txs.Watch(ctx2, ch2, opts2...); err != nil {
						panic(err)
					}
					go func() {
						for range ch2 {
						}
						close(done2)
					}()
				}
				if !burst {
					time.Sleep(time.Duration(r.Intn(300)) * time.Microsecond)
				}
			}
			if second && w == leaveAt {
				cancel2()
				select {
				case <-done2:
				case <-time.After(time.Second):
				}
				time.Sleep(300 * time.Microsecond) // its deferred unregistration
			}
			who := r.Intn(2)
			if w == 0 || (second && w == total-1) {
				who = 0
			}
			marker := fmt.Sprintf("m%d", w)
			if txs[who] == nil {
				tx := &configapi.Transaction{ID: ids[who], Username: marker,
					Details: &configapi.Transaction_Change{Change: &configapi.ChangeTransaction{Values: map[configapi.TargetID]*configapi.PathValues{}}}}
				if err := e.Txs.Create(ctxAll, tx); err != nil {
					panic(err)
				}
				txs[who] = tx
			} else {
				txs[who].Username = marker
				txs[who].Status.State = configapi.TransactionStatus_State(r.Intn(5))
				if err := e.Txs.UpdateStatus(ctxAll, txs[who]); err != nil {
					panic(err)
				}
			}
			log = append(log, ent{who, marker})
			if !burst && r.Intn(3) == 0 {
				time.Sleep(time.Duration(r.Intn(200)) * time.Microsecond)
			}
		}
		if watchAt == total {
			openWatch()
		}
		// wait until the last marker of A has been delivered (or nothing more comes)
		lastA := ""
		for _, en := range log {
			if en.who == 0 {
				lastA = "A" + en.marker
			}
		}
		deadline := time.Now().Add(time.Second)
		for time.Now().Before(deadline) {
			mu.Lock()
			ok := len(delivered) > 0 && strings.HasSuffix(delivered[len(delivered)-1], lastA)
			mu.Unlock()
			if ok {
				break
			}
			time.Sleep(200 * time.Microsecond)
		}
		time.Sleep(300 * time.Microsecond)
		cancel()
		select {
		case <-done:
		case <-time.After(2 * time.Second):
		}
		mu.Lock()
		ls := []string{}
		for _, en := range log {
			ls = append(ls, fmt.Sprintf("%c%s", "AB"[en.who], en.marker))
		}
		d := "."
		if len(delivered) > 0 {
			d = strings.Join(delivered, ",")
		}
		mu.Unlock()
		tag := ""
		if second {
			tag = fmt.Sprintf("+second-watcher-left-before-write-%d", leaveAt)
		}
		fmt.Fprintf(out, "h.watch\t%d:w%d%s\t%s\t%d\t%s\n", seed, i, tag, strings.Join(ls, ","), watchAt, d)
		if cancel2 != nil {
			cancel2()
		}
	}
}

// ------------------------------------------------------------------ h.e2e

type recEvent struct {
	at      time.Time
	version uint64
	state   int32
	failure string
}

type recorder struct {
	mu sync.Mutex
	h  map[configapi.TransactionID][]recEvent
}

func (rc *recorder) run(ch chan configapi.TransactionEvent) {
	for ev := range ch {
		rc.mu.Lock()
		rc.h[ev.Transaction.ID] = append(rc.h[ev.Transaction.ID], recEvent{time.Now(), ev.Transaction.Version, int32(ev.Transaction.Status.State), failStr(ev.Transaction.Status.Failure)})
		rc.mu.Unlock()
	}
}

func (rc *recorder) get(id configapi.TransactionID) []recEvent {
	rc.mu.Lock()
	defer rc.mu.Unlock()
	return append([]recEvent{}, rc.h[id]...)
}

// stages a placement can wait for
const (
	stNone = iota
	stValidated
	stCommitted
	stTerminal
	stSettled // terminal and, for a failed transaction, its abort phase complete
)

type placeStore struct {
	transaction.Store
	mu        sync.Mutex
	waitFor   int           // progress the controllers make between Create and Watch
	jitter    time.Duration // instead of a stage: a short random delay
	created   *configapi.Transaction
	delivered []string
	stopped   bool
	// second > 0: once the handler's own watch is registered, a second Watch(WithTransactionID) on the same
	// transaction is opened (what admin WatchTransactions with an ID does) and cancelled: 1 at once, 2 when the
	// transaction is VALIDATED, 3 when it is COMMITTED, 4 only when the handler's context ends
	second       int
	secondReplay bool
	fwdDone      chan struct{} // closed when the forwarder of the handler's watch has finished its bookkeeping
}

func reachedStage(tx *configapi.Transaction, stage int) bool {
	s := tx.Status.State
	switch stage {
	case stNone:
		return true
	case stValidated:
		return s >= configapi.TransactionStatus_VALIDATED
	case stCommitted:
		return s >= configapi.TransactionStatus_COMMITTED
	case stTerminal:
		return s == configapi.TransactionStatus_APPLIED || s == configapi.TransactionStatus_FAILED
	default:
		if s == configapi.TransactionStatus_APPLIED {
			return true
		}
		if s == configapi.TransactionStatus_FAILED {
			if tx.Status.Phases.Apply != nil {
				return true
			}
			return tx.Status.Phases.Abort != nil && tx.Status.Phases.Abort.State == configapi.TransactionAbortPhase_ABORTED
		}
		return false
	}
}

func waitStage(st transaction.Store, id configapi.TransactionID, stage int, budget time.Duration) bool {
	deadline := time.Now().Add(budget)
	for {
		tx, err := st.Get(context.Background(), id)
		if err == nil && reachedStage(tx, stage) {
			return true
		}
		if time.Now().After(deadline) {
			return false
		}
		time.Sleep(150 * time.Microsecond)
	}
}

func (p *placeStore) Create(ctx context.Context, tx *configapi.Transaction) error {
	if err := p.Store.Create(ctx, tx); err != nil {
		return err
	}
	p.mu.Lock()
	p.created = tx
	p.mu.Unlock()
	if p.jitter > 0 {
		time.Sleep(p.jitter)
	} else {
		waitStage(p.Store, tx.ID, p.waitFor, 1500*time.Millisecond)
	}
	return nil
}

func (p *placeStore) Watch(ctx context.Context, ch chan<- configapi.TransactionEvent, opts ...transaction.WatchOption) error {
	inner := make(chan configapi.TransactionEvent)
	if err := p.Store.Watch(ctx, inner, opts...); err != nil {
		return err
	}
	p.mu.Lock()
	created := p.created
	p.mu.Unlock()
	if p.second > 0 && created != nil {
		ctx2, cancel2 := context.WithCancel(context.Background())
		ch2 := make(chan configapi.TransactionEvent)
		opts2 := []transaction.WatchOption{transaction.WithTransactionID(created.ID)}
		if p.secondReplay {
			opts2 = append(opts2, transaction.WithReplay())
		}
		if err := p.Store.Watch(ctx2, ch2, opts2...); err == nil {
			go func() {
				for range ch2 {
				}
			}()
			go func() {
				switch p.second {
				case 2:
					waitStage(p.Store, created.ID, stValidated, time.Second)
				case 3:
					waitStage(p.Store, created.ID, stCommitted, time.Second)
				case 4:
					<-ctx.Done()
				}
				cancel2()
			}()
		} else {
			cancel2()
		}
	}
	fwdDone := make(chan struct{})
	p.mu.Lock()
	p.fwdDone = fwdDone
	p.mu.Unlock()
	go func() {
		defer close(ch)
		defer close(fwdDone)
		for ev := range inner {
			select {
			case ch <- ev:
				p.mu.Lock()
				if !p.stopped {
					p.delivered = append(p.delivered, fmt.Sprintf("%d:%d:%s:%d", ev.Transaction.Version, int32(ev.Transaction.Status.State),
						failStr(ev.Transaction.Status.Failure), int32(ev.Transaction.TransactionStrategy.Synchronicity)))
				}
				p.mu.Unlock()
			case <-ctx.Done():
				// keep draining so that the store's event loop is never blocked by this watcher
				go func() {
					for range inner {
					}
				}()
				return
			}
		}
	}()
	return nil
}

type world struct {
	setJSON func(doc string, paths []string)
	live   []string // targets of the current case (their connections are closed when the case is over)
	e      *env.Env
	plugin *fakes.PluginClient
	rec    *recorder
	ntgt   int
	devs   map[string]*fakes.Device
}

func newWorld() *world {
	plugin := &fakes.PluginClient{Name: "devicesim", Version: "1.0.0"}
	for _, p := range []string{"/foo", "/bar", "/cont/leaf", "/cont/other"} {
		plugin.RW = append(plugin.RW, fakes.RWPath(p, configapi.ValueType_STRING, false, ""))
	}
	plugin.Verdict = func(doc []byte) (bool, string) {
		if strings.Contains(string(doc), "REJECT") {
			return false, "rejected by the model"
		}
		return true, ""
	}
	var jmu sync.Mutex
	jsonPaths := map[string][]string{}
	// JSON-encoded updates: the model plugin decides which path values a document stands for
	plugin.PathValues = func(prefix string, js []byte) ([]*configapi.PathValue, error) {
		jmu.Lock()
		defer jmu.Unlock()
		pvs := []*configapi.PathValue{}
		for i, pth := range jsonPaths[string(js)] {
			pvs = append(pvs, &configapi.PathValue{Path: pth, Value: *configapi.NewTypedValueString(fmt.Sprintf("j%d", i))})
		}
		return pvs, nil
	}
	w := &world{e: env.New(0, plugin), plugin: plugin, rec: &recorder{h: map[configapi.TransactionID][]recEvent{}}, devs: map[string]*fakes.Device{}}
	w.setJSON = func(doc string, paths []string) {
		jmu.Lock()
		jsonPaths[doc] = paths
		jmu.Unlock()
	}
	ch := make(chan configapi.TransactionEvent, 1024)
	if err := w.e.Txs.Watch(context.Background(), ch); err != nil {
		panic(err)
	}
	go w.rec.run(ch)
	w.e.StartControllers(true)
	return w
}

func (w *world) newTarget(withDevice bool) string {
	w.ntgt++
	t := fmt.Sprintf("tg%d", w.ntgt)
	w.e.Topo.AddTarget(t, "devicesim", "1.0.0", false, false)
	if withDevice {
		d := fakes.NewDevice(t)
		w.devs[t] = d
		w.e.Conns.AddConn("conn-"+t, t, d)
		w.live = append(w.live, t)
	}
	return t
}

type e2eCase struct {
	kind     string
	sync     bool
	label    string
	req      *gnmi.SetRequest
	rbIndex  uint64
	waitFor  int
	jitter   time.Duration
	deadline time.Duration
	want     []row
	second   int
	replay2  bool
}

func (w *world) run(id string, c e2eCase) {
	ps := &placeStore{Store: w.e.Txs, waitFor: c.waitFor, jitter: c.jitter, second: c.second, secondReplay: c.replay2}
	ctx, cancel := context.WithTimeout(context.Background(), c.deadline)
	var err error
	var resp *gnmi.SetResponse
	var rresp *adminapi.RollbackResponse
	t0 := time.Now()
	if c.kind == "set" {
		srv := nbgnmi.NewServerForVerif(w.e.Topo, ps, w.e.Props, w.e.Cfgs, w.e.Registry, w.e.Conns, 0)
		resp, err = srv.Set(ctx, c.req)
	} else {
		srv := admin.NewServerForVerif(ps, w.e.Cfgs, w.e.Registry)
		rresp, err = srv.RollbackTransaction(ctx, &adminapi.RollbackRequest{Index: configapi.Index(c.rbIndex)})
	}
	el := time.Since(t0)
	tret := time.Now()
	cancel() // what the gRPC server does when the handler returns
	// the forwarder notes an event after the handler took it: let it finish before reading its notes
	ps.mu.Lock()
	fd := ps.fwdDone
	ps.mu.Unlock()
	if fd != nil {
		select {
		case <-fd:
		case <-time.After(time.Second):
		}
	}
	ps.mu.Lock()
	ps.stopped = true
	delivered := append([]string{}, ps.delivered...)
	created := ps.created
	ps.mu.Unlock()
	oc := outcomeOf(err)
	_ = el
	if err == context.DeadlineExceeded {
		oc = "WAIT"
	}
	sy := 0
	if c.sync {
		sy = 1
	}
	if created == nil {
		// refused before the transaction was created: not this property's business
		fmt.Fprintf(out, "h.e2e.refused\t%s\t%s\t%s\t%s\n", id, c.kind, c.label, oc)
		return
	}
	// let the transaction settle (bounded), then read the final record and the recorded history
	waitStage(w.e.Txs, created.ID, stSettled, 1500*time.Millisecond)
	final, ferr := w.e.Txs.Get(context.Background(), created.ID)
	fin := "?"
	committed := 0
	if ferr == nil {
		fin = fmt.Sprintf("%d:%s", int32(final.Status.State), failStr(final.Status.Failure))
		if final.Status.Phases.Commit != nil && final.Status.Phases.Commit.State == configapi.TransactionCommitPhase_COMMITTED {
			committed = 1
		}
		// the recorder lags behind the store: wait until it has seen the final version
		dl := time.Now().Add(3 * time.Second)
		for time.Now().Before(dl) {
			h := w.rec.get(created.ID)
			if len(h) > 0 && h[len(h)-1].version >= final.Version {
				break
			}
			time.Sleep(100 * time.Microsecond)
		}
	}
	h := w.rec.get(created.ID)
	hs := []string{}
	for _, x := range h {
		hs = append(hs, fmt.Sprintf("%d:%d:%s", x.version, x.state, x.failure))
	}
	lead := -1
	for _, x := range h {
		if x.state == 3 || x.state == 4 {
			lead = int(tret.Sub(x.at) / time.Millisecond)
			if lead < 0 {
				lead = 0
			}
			break
		}
	}
	hstr, dstr := ".", "."
	if len(hs) > 0 {
		hstr = strings.Join(hs, ",")
	}
	if len(delivered) > 0 {
		dstr = strings.Join(delivered, ",")
	}
	stored, rs, idok := ".", "-", "-"
	if err == nil {
		var rid string
		var ridx uint64
		ok := false
		if c.kind == "set" && resp != nil {
			rid, ridx, ok = txInfo(resp)
			rs = rowsStr(rowsOfResponse(resp))
		} else if rresp != nil {
			rid, ridx, ok = string(rresp.ID), uint64(rresp.Index), true
			rs = "."
		}
		idok = "0"
		if ok {
			if byIdx, e2 := w.e.Txs.GetByIndex(context.Background(), configapi.Index(ridx)); e2 == nil {
				stored = rowsStr(rowsOfChange(byIdx))
				if string(byIdx.ID) == rid && byIdx.ID == created.ID {
					idok = "1"
				}
				if c.kind == "rb" {
					if byIdx.GetRollback() == nil || uint64(byIdx.GetRollback().RollbackIndex) != c.rbIndex {
						idok = "0"
					}
				}
			}
		}
	}
	// the case is over: close its device connections (keeps the process small over thousands of cases)
	for _, t := range w.live {
		w.e.Conns.RemoveConn("conn-" + t)
		delete(w.devs, t)
	}
	w.live = nil
	fmt.Fprintf(out, "h.e2e\t%s\t%s\t%d\t%s\t%s\t%s\t%s\t%s:%d\t%d\t%s\t%s\t%s\t%s\n", id, c.kind, sy, c.label, hstr, dstr, oc, fin, committed, lead,
		rowsStr(c.want), stored, rs, idok)
}

var failCodes = []codes.Code{codes.Unknown, codes.InvalidArgument, codes.NotFound, codes.AlreadyExists, codes.ResourceExhausted,
	codes.FailedPrecondition, codes.Aborted, codes.OutOfRange, codes.Unimplemented, codes.Internal, codes.DataLoss, codes.Unauthenticated}

func domE2E(r *rand.Rand, seed int64, n int) {
	if n <= 0 {
		return
	}
	w := newWorld()
	defer func() { w.e.StopControllers() }()
	places := []struct {
		name string
		st   int
	}{{"none", stNone}, {"validated", stValidated}, {"committed", stCommitted}, {"all", stTerminal}, {"settled", stSettled}, {"jitter", -1}}
	i := 0
	emit := func(c e2eCase) {
		w.run(fmt.Sprintf("%d:e%d", seed, i), c)
		i++
	}
	setReq := func(sync bool, ups []row, vals []string) *gnmi.SetRequest {
		req := &gnmi.SetRequest{Extension: []*gnmi_ext.Extension{strategyExt(sync)}}
		for x, u := range ups {
			elems := strings.Split(strings.TrimPrefix(u.path, "/"), "/")
			if u.del {
				req.Delete = append(req.Delete, pathOf(u.target, elems...))
			} else {
				req.Update = append(req.Update, &gnmi.Update{Path: pathOf(u.target, elems...), Val: strVal(vals[x])})
			}
		}
		return req
	}
	// plain Set through the undecorated stores (history for rollbacks); returns the transaction index
	// (through the draining decorator too: an abandoned watch must not block the store's event loop, see h.stall)
	var plainGnmi *nbgnmi.Server
	var plainAdmin *admin.Server
	mkPlain := func() {
		plainGnmi = nbgnmi.NewServerForVerif(w.e.Topo, &placeStore{Store: w.e.Txs}, w.e.Props, w.e.Cfgs, w.e.Registry, w.e.Conns, 0)
		plainAdmin = admin.NewServerForVerif(&placeStore{Store: w.e.Txs}, w.e.Cfgs, w.e.Registry)
	}
	mkPlain()
	plainSet := func(ups []row, vals []string) uint64 {
		ctx, cancel := context.WithTimeout(context.Background(), 3*time.Second)
		defer cancel()
		resp, err := plainGnmi.Set(ctx, setReq(true, ups, vals))
		if err != nil {
			return 0
		}
		_, idx, _ := txInfo(resp)
		return idx
	}
	inWorld := 0
	for i < n {
		_ = inWorld
		pl := places[r.Intn(len(places))]
		sync := r.Intn(2) == 0
		c := e2eCase{sync: sync, waitFor: pl.st, deadline: 2500 * time.Millisecond}
		if pl.st < 0 {
			c.waitFor = stNone
			c.jitter = time.Duration(1+r.Intn(1500)) * time.Microsecond
		}
		w2 := ""
		if r.Intn(4) == 0 {
			// a second watcher on the request's transaction comes and goes while the request is in flight
			c.second = 1 + r.Intn(4)
			c.replay2 = r.Intn(2) == 0
			w2 = "+w2" + []string{"", "now", "validated", "committed", "kept"}[c.second]
			if r.Intn(3) != 0 {
				pl = places[0]
				c.waitFor, c.jitter = stNone, 0
			}
			c.deadline = 1500 * time.Millisecond
		}
		sc := r.Intn(14)
		switch {
		case sc <= 2: // success, one or two targets, updates and deletes
			t1 := w.newTarget(true)
			ups := []row{{t1, "/foo", false}}
			vals := []string{"v1", "v2", "v3", "v4"}
			if r.Intn(2) == 0 {
				ups = append(ups, row{t1, "/cont/leaf", false})
			}
			if r.Intn(2) == 0 {
				ups = append(ups, row{t1, "/bar", true})
			}
			if r.Intn(3) == 0 {
				t2 := w.newTarget(true)
				ups = append(ups, row{t2, "/bar", false})
			}
			c.kind, c.label, c.req, c.want = "set", "success/"+pl.name, setReq(sync, ups, vals), ups
		case sc == 3: // plugin rejects the change
			t1 := w.newTarget(true)
			ups := []row{{t1, "/foo", false}}
			vals := []string{"REJECT"}
			if r.Intn(2) == 0 {
				t2 := w.newTarget(true)
				ups = append([]row{{t2, "/bar", false}}, ups...)
				vals = []string{"fine", "REJECT"}
			}
			c.kind, c.label, c.req, c.want = "set", "plugin-reject/"+pl.name, setReq(sync, ups, vals), ups
		case sc <= 6: // the device refuses with a code the controller records as a failure
			t1 := w.newTarget(true)
			code := failCodes[r.Intn(len(failCodes))]
			w.devs[t1].Policy = func(n int, rq *fakes.DevReq) codes.Code { return code }
			ups := []row{{t1, "/foo", false}}
			c.kind, c.label, c.req, c.want = "set", fmt.Sprintf("device-%s/%s", code, pl.name), setReq(sync, ups, []string{"v"}), ups
		case sc == 7: // device unreachable at first (retried by the controller), then fine
			t1 := w.newTarget(true)
			code := []codes.Code{codes.Unavailable, codes.DeadlineExceeded, codes.Canceled}[r.Intn(3)]
			w.devs[t1].Policy = func(n int, rq *fakes.DevReq) codes.Code {
				if n < 1 {
					return code
				}
				return codes.OK
			}
			ups := []row{{t1, "/foo", false}}
			c.kind, c.label, c.req, c.want = "set", fmt.Sprintf("device-retry-%s/%s", code, pl.name), setReq(sync, ups, []string{"v"}), ups
		case sc == 8: // no connection to the target: a synchronous Set cannot finish, an asynchronous one can
			t1 := w.newTarget(false)
			ups := []row{{t1, "/foo", false}}
			c.deadline = 250 * time.Millisecond
			if c.waitFor >= stTerminal || (sync && c.waitFor >= stCommitted) {
				c.waitFor = stValidated
			}
			c.kind, c.label, c.req, c.want = "set", "offline/"+pl.name, setReq(sync, ups, []string{"v"}), ups
		case sc == 9: // rollback of the latest change
			t1 := w.newTarget(true)
			plainSet([]row{{t1, "/foo", false}}, []string{"old"})
			idx := plainSet([]row{{t1, "/foo", false}, {t1, "/bar", false}}, []string{"new", "b"})
			c.kind, c.sync, c.label, c.rbIndex = "rb", true, "rollback-latest/"+pl.name, idx
		case sc == 10: // rollback of an index that does not exist / of a rollback / of a change that is not the latest
			t1 := w.newTarget(true)
			i1 := plainSet([]row{{t1, "/foo", false}}, []string{"one"})
			i2 := plainSet([]row{{t1, "/foo", false}}, []string{"two"})
			switch r.Intn(3) {
			case 0:
				c.rbIndex, c.label = 100000+uint64(r.Intn(1000)), "rollback-missing/"+pl.name
			case 1:
				c.rbIndex, c.label = i1, "rollback-not-latest/"+pl.name
			default:
				ctx, cancel := context.WithTimeout(context.Background(), 3*time.Second)
				rr, err := plainAdmin.RollbackTransaction(ctx, &adminapi.RollbackRequest{Index: configapi.Index(i2)})
				cancel()
				if err != nil {
					continue
				}
				c.rbIndex, c.label = uint64(rr.Index), "rollback-of-rollback/"+pl.name
			}
			c.kind, c.sync = "rb", true
		case sc >= 12: // JSON-encoded update: the changed paths are the plugin's, list keys hold characters of the path syntax
			t1 := w.newTarget(true)
			doc := fmt.Sprintf(`{"doc":%d}`, i)
			n := 1 + r.Intn(3)
			paths := []string{}
			ups := []row{}
			for x := 0; x < n; x++ {
				pth := env.Pick(r, keyPaths)
				dup := false
				for _, q := range paths {
					dup = dup || q == pth
				}
				if !dup {
					paths = append(paths, pth)
					ups = append(ups, row{t1, pth, false})
				}
			}
			w.setJSON(doc, paths)
			req := &gnmi.SetRequest{Extension: []*gnmi_ext.Extension{strategyExt(sync)},
				Update: []*gnmi.Update{{Path: pathOf(t1, "interfaces"), Val: &gnmi.TypedValue{Value: &gnmi.TypedValue_JsonVal{JsonVal: []byte(doc)}}}}}
			if r.Intn(3) == 0 {
				req.Update = append(req.Update, &gnmi.Update{Path: pathOf(t1, "foo"), Val: strVal("v")})
				ups = append(ups, row{t1, "/foo", false})
			}
			c.kind, c.label, c.req, c.want = "set", "json-key-paths/"+pl.name, req, ups
		default: // rollback whose device push is refused
			t1 := w.newTarget(true)
			plainSet([]row{{t1, "/foo", false}}, []string{"old"})
			idx := plainSet([]row{{t1, "/foo", false}}, []string{"new"})
			code := failCodes[r.Intn(len(failCodes))]
			w.devs[t1].Policy = func(n int, rq *fakes.DevReq) codes.Code { return code }
			c.kind, c.sync, c.label, c.rbIndex = "rb", true, fmt.Sprintf("rollback-device-%s/%s", code, pl.name), idx
		}
		c.label += w2
		emit(c)
	}
}

// ------------------------------------------------------------------ h.stall

// driveStore stands in for the controllers: as soon as the handler has created its transaction the
// status is written forward to APPLIED in quick succession
type driveStore struct {
	transaction.Store
	writes int
	done   chan struct{}
}

func (d *driveStore) Create(ctx context.Context, tx *configapi.Transaction) error {
	if err := d.Store.Create(ctx, tx); err != nil {
		return err
	}
	id := tx.ID
	go func() {
		defer close(d.done)
		cur, err := d.Store.Get(context.Background(), id)
		if err != nil {
			return
		}
		states := []configapi.TransactionStatus_State{configapi.TransactionStatus_PENDING, configapi.TransactionStatus_VALIDATED,
			configapi.TransactionStatus_VALIDATED, configapi.TransactionStatus_COMMITTED, configapi.TransactionStatus_COMMITTED}
		for len(states) < d.writes {
			states = append(states, configapi.TransactionStatus_APPLIED)
		}
		for _, st := range states {
			cur.Status.State = st
			if err := d.Store.UpdateStatus(context.Background(), cur); err != nil {
				return
			}
		}
	}()
	return nil
}

// After a Set returned and its context was cancelled (what the gRPC server does), does the transaction store
// still deliver events to other watchers?
func domStall(r *rand.Rand, seed int64, n int) {
	for i := 0; i < n; i++ {
		plugin := &fakes.PluginClient{Name: "devicesim", Version: "1.0.0"}
		plugin.RW = append(plugin.RW, fakes.RWPath("/foo", configapi.ValueType_STRING, false, ""))
		e := env.New(0, plugin)
		e.Topo.AddTarget("t1", "devicesim", "1.0.0", false, false)
		sync := r.Intn(3) == 0
		ds := &driveStore{Store: e.Txs, writes: 6 + r.Intn(4), done: make(chan struct{})}
		srv := nbgnmi.NewServerForVerif(e.Topo, ds, e.Props, e.Cfgs, e.Registry, e.Conns, 0)
		ctx, cancel := context.WithTimeout(context.Background(), 2*time.Second)
		_, err := srv.Set(ctx, &gnmi.SetRequest{Extension: []*gnmi_ext.Extension{strategyExt(sync)},
			Update: []*gnmi.Update{{Path: pathOf("t1", "foo"), Val: strVal("v")}}})
		time.Sleep(time.Duration(r.Intn(120)) * time.Microsecond)
		cancel()
		oc := outcomeOf(err)
		if err == context.DeadlineExceeded {
			oc = "WAIT"
		}
		select {
		case <-ds.done:
		case <-time.After(2 * time.Second):
		}
		time.Sleep(2 * time.Millisecond)
		// probe
		ch2 := make(chan configapi.TransactionEvent, 16)
		ctx2, cancel2 := context.WithCancel(context.Background())
		alive := 0
		if err := e.Txs.Watch(ctx2, ch2); err == nil {
			probe := &configapi.Transaction{ID: configapi.TransactionID(fmt.Sprintf("probe-%d", i)),
				Details: &configapi.Transaction_Change{Change: &configapi.ChangeTransaction{Values: map[configapi.TargetID]*configapi.PathValues{}}}}
			if err := e.Txs.Create(context.Background(), probe); err == nil {
				select {
				case <-ch2:
					alive = 1
				case <-time.After(1200 * time.Millisecond):
				}
			}
		}
		cancel2()
		sy := 0
		if sync {
			sy = 1
		}
		fmt.Fprintf(out, "h.stall\t%d:s%d\t%d\t%d\t%s\t%d\n", seed, i, sy, ds.writes, oc, alive)
	}
}

func main() {
	seed := flag.Int64("seed", 1, "")
	nLoop := flag.Int("loop", 2000, "")
	nWatch := flag.Int("watch", 200, "")
	nE2E := flag.Int("e2e", 120, "")
	nStall := flag.Int("stall", 40, "")
	onlyE2E := flag.Bool("only-e2e", false, "run the end-to-end domain only (child process of a large run)")
	corpus := flag.String("corpus", "", "")
	flag.Parse()
	env.Quiet()
	logging.GetLogger("jwt").SetLevel(logging.FatalLevel)
	out = bufio.NewWriterSize(os.Stdout, 1<<20)
	defer out.Flush()
	r := rand.New(rand.NewSource(*seed))
	if *onlyE2E {
		domE2E(r, *seed, *nE2E)
		return
	}
	domStatus()
	domLoop(r, *seed, *nLoop, *corpus)
	domWatch(r, *seed, *nWatch)
	// every fresh target costs the in-memory Atomix client about 10 MB (one in-process connection per primitive)
	// that it never gives back: large end-to-end runs are split over child processes of 150 cases each
	if *nE2E <= 150 {
		domE2E(r, *seed, *nE2E)
	} else {
		out.Flush()
		for c, rest := 0, *nE2E; rest > 0; c, rest = c+1, rest-150 {
			m := rest
			if m > 150 {
				m = 150
			}
			cmd := exec.Command(os.Args[0], "-only-e2e", "-seed", fmt.Sprint(*seed*1000+int64(c)+1), "-e2e", fmt.Sprint(m))
			cmd.Stdout = os.Stdout
			cmd.Stderr = os.Stderr
			if err := cmd.Run(); err != nil {
				fmt.Fprintf(os.Stderr, "c08: end-to-end child %d failed: %v\n", c, err)
				os.Exit(1)
			}
		}
	}
	domStall(r, *seed, *nStall)
	if f := os.Getenv("C08_MEMPROF"); f != "" {
		if fh, err := os.Create(f); err == nil {
			runtime.GC()
			_ = pprof.WriteHeapProfile(fh)
			fh.Close()
		}
	}
}

// c09 harness: lost wake-ups on the REAL controllers.
//
// Every scenario runs the repository's real transaction, proposal, configuration, mastership and connection
// controllers with their real watchers and the real onos-lib-go work queues (NewController(...).Start()) over the
// real stores on the in-memory Atomix client, and drives them with the timing that the witnesses of the model
// search (ocaml/c09_search.ml, coq/Proofs/P2_QueueWitness.v) need.  Detection on the implementation:
//
//	the stores are quiet for a while, then
//	(i)  some transaction is not final although every target it names is connected, mastered and synchronised,
//	(ii) one pass of direct Reconcile calls over every stored id (as harness/cmd/p2 does) writes something -
//	     the id whose reconcile wrote first is an id that was enabled while all queues were empty,
//	(iii) the proposal store is being read at a high rate although nothing is written (a re-queue cycle).
//
// Output: one line per scenario run
//
//	c09.scen \t seed:n \t scenario \t stalled=0|1 \t enabled=<id|-> \t nonfinal=<list|-> \t afterprod=<final|stuck> \t spin=<reads/s> \t state
package main

import (
	"bufio"
	"context"
	"flag"
	"fmt"
	"math/rand"
	"os"
	"sort"
	"strings"
	"sync/atomic"
	"time"

	configapi "github.com/onosproject/onos-api/go/onos/config/v2"
	topoapi "github.com/onosproject/onos-api/go/onos/topo"
	"github.com/onosproject/onos-config/pkg/controller/connection"
	"github.com/onosproject/onos-config/pkg/controller/utils"
	cfgctl "github.com/onosproject/onos-config/pkg/controller/v2/configuration"
	mstctl "github.com/onosproject/onos-config/pkg/controller/v2/mastership"
	propctl "github.com/onosproject/onos-config/pkg/controller/v2/proposal"
	txctl "github.com/onosproject/onos-config/pkg/controller/v2/transaction"
	sb "github.com/onosproject/onos-config/pkg/southbound/gnmi"
	"github.com/onosproject/onos-config/pkg/store/v2/proposal"
	"github.com/onosproject/onos-config/pkg/store/v2/transaction"
	"github.com/onosproject/onos-lib-go/pkg/controller"
	"github.com/onosproject/onos-lib-go/pkg/errors"
	"google.golang.org/grpc/codes"

	"verifharness/env"
	"verifharness/fakes"
)

const (
	ttype    = "devicesim"
	tversion = "1.0.0"
)

var out *bufio.Writer

// ---------------------------------------------------------------- store decorators (counting, delaying, one fault)

type cntProps struct {
	proposal.Store
	gets  *int64
	delay time.Duration // delays Get (used to make the transaction controller slower than the proposal controller)
}

func (s *cntProps) Get(ctx context.Context, id configapi.ProposalID) (*configapi.Proposal, error) {
	atomic.AddInt64(s.gets, 1)
	if s.delay > 0 {
		time.Sleep(s.delay)
	}
	return s.Store.Get(ctx, id)
}

// faultTxs fails GetByIndex once with a transient error (what a store time-out does): the reconcile is retried with back-off
type faultTxs struct {
	transaction.Store
	failIndex configapi.Index
	left      *int64
}

func (s *faultTxs) GetByIndex(ctx context.Context, index configapi.Index) (*configapi.Transaction, error) {
	if index == s.failIndex && atomic.AddInt64(s.left, -1) >= 0 {
		return nil, errors.NewUnavailable("injected transient store error")
	}
	return s.Store.GetByIndex(ctx, index)
}

// ---------------------------------------------------------------- world

type world struct {
	e       *env.Env
	plugin  *fakes.PluginClient
	devs    map[string]*fakes.Device
	ctls    []*controller.Controller
	gets    int64
	txFault int64
	nconn   int
}

type opts struct {
	txPropDelay time.Duration   // delay of proposal reads inside the transaction controller
	faultIndex  configapi.Index // GetByIndex(faultIndex) fails once inside the transaction controller
	noProposal  bool            // the proposal controller is not running (the process dies before it handles a new proposal)
}

func newWorld(o opts) *world {
	plugin := &fakes.PluginClient{Name: ttype, Version: tversion}
	for _, p := range []string{"/foo", "/bar"} {
		plugin.RW = append(plugin.RW, fakes.RWPath(p, configapi.ValueType_STRING, false, ""))
	}
	plugin.Verdict = func(doc []byte) (bool, string) {
		d := string(doc)
		if strings.Contains(d, "SLOW") {
			time.Sleep(400 * time.Millisecond)
		}
		if strings.Contains(d, "REJECT") {
			return false, "rejected by the model"
		}
		return true, ""
	}
	w := &world{e: env.New(0, plugin), plugin: plugin, devs: map[string]*fakes.Device{}}
	// the entity of this onos-config node (pkg/controller/node creates it in production): the mastership
	// controller's topo watcher needs it to map a CONTROLS relation to the configuration of its target
	if err := w.e.Topo.Create(context.Background(), &topoapi.Object{ID: utils.GetOnosConfigID(), Type: topoapi.Object_ENTITY,
		Obj: &topoapi.Object_Entity{Entity: &topoapi.Entity{KindID: topoapi.ONOS_CONFIG}}}); err != nil {
		panic(err)
	}
	w.start(o)
	return w
}

// start runs the controllers (watchers with replay, queues) over the current store handles
func (w *world) start(o opts) {
	e := w.e
	var txs transaction.Store = e.Txs
	if o.faultIndex != 0 {
		w.txFault = 1
		txs = &faultTxs{Store: e.Txs, failIndex: o.faultIndex, left: &w.txFault}
	}
	w.ctls = []*controller.Controller{
		connection.NewController(e.Topo, e.Conns), mstctl.NewController(e.Topo, e.Cfgs),
		cfgctl.NewController(e.Topo, e.Conns, e.Cfgs),
		txctl.NewController(txs, &cntProps{Store: e.Props, gets: &w.gets, delay: o.txPropDelay}),
	}
	if !o.noProposal {
		w.ctls = append(w.ctls, propctl.NewController(e.Topo, e.Conns, &cntProps{Store: e.Props, gets: &w.gets}, e.Cfgs, e.Registry))
	}
	for _, c := range w.ctls {
		if err := c.Start(); err != nil {
			panic(err)
		}
	}
}

// restart: the controllers stop, the stores are re-opened on the same Atomix client (what a process restart does),
// whatever `while` does happens with no controller running, then fresh controllers start and replay the stores
func (w *world) restart(o opts, while func()) {
	w.stop()
	time.Sleep(100 * time.Millisecond)
	w.e.OpenStores()
	if while != nil {
		while()
	}
	w.start(o)
}

func (w *world) stop() {
	for _, c := range w.ctls {
		c.Stop()
	}
}

func (w *world) target(t string, refuse bool) {
	w.e.Topo.AddTarget(t, ttype, tversion, false, false)
	d := fakes.NewDevice(t)
	if refuse {
		d.Policy = func(n int, r *fakes.DevReq) codes.Code { return codes.InvalidArgument }
	}
	w.devs[t] = d
}

func (w *world) connect(t string) {
	w.nconn++
	w.e.Conns.AddConn(fmt.Sprintf("conn-%s-%d", t, w.nconn), t, w.devs[t])
}

var txSeq int

func (w *world) change(serializable bool, tv ...string) {
	txSeq++
	vals := map[configapi.TargetID]*configapi.PathValues{}
	ov := map[string]*configapi.TargetTypeVersion{}
	for i := 0; i+1 < len(tv); i += 2 {
		v := configapi.NewTypedValueString(tv[i+1])
		vals[configapi.TargetID(tv[i])] = &configapi.PathValues{Values: map[string]*configapi.PathValue{"/foo": {Path: "/foo", Value: *v}}}
		ov[tv[i]] = &configapi.TargetTypeVersion{TargetType: ttype, TargetVersion: tversion}
	}
	iso := configapi.TransactionStrategy_DEFAULT
	if serializable {
		iso = configapi.TransactionStrategy_SERIALIZABLE
	}
	t := &configapi.Transaction{
		ID:                     configapi.TransactionID(fmt.Sprintf("c09-%d", txSeq)),
		Details:                &configapi.Transaction_Change{Change: &configapi.ChangeTransaction{Values: vals}},
		TransactionStrategy:    configapi.TransactionStrategy{Synchronicity: configapi.TransactionStrategy_ASYNCHRONOUS, Isolation: iso},
		TargetVersionOverrides: &configapi.TargetVersionOverrides{Overrides: ov},
	}
	if err := w.e.Txs.Create(context.Background(), t); err != nil {
		panic(err)
	}
}

func (w *world) rollback(index uint64) {
	txSeq++
	t := &configapi.Transaction{
		ID:      configapi.TransactionID(fmt.Sprintf("c09-%d", txSeq)),
		Details: &configapi.Transaction_Rollback{Rollback: &configapi.RollbackTransaction{RollbackIndex: configapi.Index(index)}},
	}
	if err := w.e.Txs.Create(context.Background(), t); err != nil {
		panic(err)
	}
}

// ---------------------------------------------------------------- observation

func txFinal(t *configapi.Transaction) bool {
	ph := t.Status.Phases
	switch t.Status.State {
	case configapi.TransactionStatus_APPLIED:
		return true
	case configapi.TransactionStatus_FAILED:
		if ph.Apply != nil && ph.Apply.State == configapi.TransactionApplyPhase_FAILED {
			return true
		}
		return ph.Abort != nil && ph.Abort.State == configapi.TransactionAbortPhase_ABORTED
	}
	return false
}

func (w *world) state() string {
	ctx := context.Background()
	var parts []string
	txs, _ := w.e.Txs.List(ctx)
	sort.Slice(txs, func(i, j int) bool { return txs[i].Index < txs[j].Index })
	for _, t := range txs {
		ph := t.Status.Phases
		s := fmt.Sprintf("tx%d[%s", t.Index, t.Status.State)
		if ph.Initialize != nil {
			s += " i=" + ph.Initialize.State.String()
		}
		if ph.Validate != nil {
			s += " v=" + ph.Validate.State.String()
		}
		if ph.Commit != nil {
			s += " c=" + ph.Commit.State.String()
		}
		if ph.Apply != nil {
			s += " a=" + ph.Apply.State.String()
		}
		if ph.Abort != nil {
			s += " ab=" + ph.Abort.State.String()
		}
		parts = append(parts, s+"]")
	}
	props, _ := w.e.Props.List(ctx)
	sort.Slice(props, func(i, j int) bool {
		if props[i].TargetID != props[j].TargetID {
			return props[i].TargetID < props[j].TargetID
		}
		return props[i].TransactionIndex < props[j].TransactionIndex
	})
	for _, p := range props {
		ph := p.Status.Phases
		s := fmt.Sprintf("p(%s,%d)[prev=%d next=%d", p.TargetID, p.TransactionIndex, p.Status.PrevIndex, p.Status.NextIndex)
		if ph.Initialize != nil {
			s += " i=" + ph.Initialize.State.String()
		}
		if ph.Validate != nil {
			s += " v=" + ph.Validate.State.String()
		}
		if ph.Commit != nil {
			s += " c=" + ph.Commit.State.String()
		}
		if ph.Apply != nil {
			s += " a=" + ph.Apply.State.String()
		}
		if ph.Abort != nil {
			s += " ab=" + ph.Abort.State.String()
		}
		parts = append(parts, s+"]")
	}
	cfgs, _ := w.e.Cfgs.List(ctx)
	sort.Slice(cfgs, func(i, j int) bool { return cfgs[i].TargetID < cfgs[j].TargetID })
	for _, c := range cfgs {
		parts = append(parts, fmt.Sprintf("cfg(%s)[index=%d proposed=%d committed=%d applied=%d %s master=%t term=%d/%d]", c.TargetID, c.Index,
			c.Status.Proposed.Index, c.Status.Committed.Index, c.Status.Applied.Index, c.Status.State, c.Status.Mastership.Master != "",
			c.Status.Mastership.Term, c.Status.Applied.Mastership.Term))
	}
	return strings.Join(parts, " ")
}

// quiet waits until the stores have not changed for d (at most max); it returns the number of proposal reads per second
// seen during the last quiet window
func (w *world) quiet(d, max time.Duration) float64 {
	t0 := time.Now()
	last := w.state()
	since := time.Now()
	g0 := atomic.LoadInt64(&w.gets)
	for time.Since(t0) < max {
		time.Sleep(20 * time.Millisecond)
		s := w.state()
		if s != last {
			if os.Getenv("C09_TRACE") != "" {
				fmt.Fprintf(os.Stderr, "%6dms %s\n", time.Since(t0).Milliseconds(), s)
			}
			last, since = s, time.Now()
			g0 = atomic.LoadInt64(&w.gets)
			continue
		}
		if time.Since(since) >= d {
			break
		}
	}
	el := time.Since(since).Seconds()
	if el <= 0 {
		return 0
	}
	return float64(atomic.LoadInt64(&w.gets)-g0) / el
}

// pause sleeps for d (tracing the store changes when C09_TRACE is set)
func (w *world) pause(d time.Duration) {
	if os.Getenv("C09_TRACE") == "" {
		time.Sleep(d)
		return
	}
	t0 := time.Now()
	last := ""
	for time.Since(t0) < d {
		if s := w.state(); s != last {
			fmt.Fprintf(os.Stderr, "pause %6dms %s\n", time.Since(t0).Milliseconds(), s)
			last = s
		}
		time.Sleep(5 * time.Millisecond)
	}
}

// connected: every configuration has a live master in a synchronised term
func (w *world) allConnected() bool {
	cfgs, _ := w.e.Cfgs.List(context.Background())
	for _, c := range cfgs {
		if c.Status.Mastership.Master == "" || c.Status.State == configapi.ConfigurationStatus_SYNCHRONIZING ||
			c.Status.Applied.Mastership.Term < c.Status.Mastership.Term {
			return false
		}
		if _, ok := w.e.Conns.Get(context.Background(), sb.ConnID(c.Status.Mastership.Master)); !ok {
			return false
		}
	}
	return true
}

func (w *world) nonFinal() []string {
	txs, _ := w.e.Txs.List(context.Background())
	sort.Slice(txs, func(i, j int) bool { return txs[i].Index < txs[j].Index })
	var r []string
	for _, t := range txs {
		if !txFinal(t) {
			r = append(r, fmt.Sprintf("tx%d", t.Index))
		}
	}
	return r
}

// prod: one pass of direct Reconcile calls over every stored id; returns the first id whose reconcile changed a store
func (w *world) prod() string {
	ctx := context.Background()
	e := w.e
	txR := txctl.NewReconcilerForVerif(e.Txs, e.Props)
	propR := propctl.NewReconcilerForVerif(e.Topo, e.Conns, e.Props, e.Cfgs, e.Registry)
	cfgR := cfgctl.NewReconcilerForVerif(e.Topo, e.Conns, e.Cfgs)
	mstR := mstctl.NewReconcilerForVerif(e.Topo, e.Cfgs)
	first := "-"
	check := func(id string, before string) {
		if first == "-" && w.state() != before {
			first = id
		}
	}
	txs, _ := e.Txs.List(ctx)
	sort.Slice(txs, func(i, j int) bool { return txs[i].Index < txs[j].Index })
	for _, t := range txs {
		b := w.state()
		_, _ = txR.Reconcile(controller.NewID(t.Index))
		check(fmt.Sprintf("tx%d", t.Index), b)
	}
	props, _ := e.Props.List(ctx)
	sort.Slice(props, func(i, j int) bool { return props[i].ID < props[j].ID })
	for _, p := range props {
		b := w.state()
		_, _ = propR.Reconcile(controller.NewID(p.ID))
		check(fmt.Sprintf("prop(%s,%d)", p.TargetID, p.TransactionIndex), b)
	}
	cfgs, _ := e.Cfgs.List(ctx)
	for _, c := range cfgs {
		b := w.state()
		_, _ = cfgR.Reconcile(controller.NewID(c.ID))
		check("cfg("+string(c.TargetID)+")", b)
		b = w.state()
		_, _ = mstR.Reconcile(controller.NewID(c.ID))
		check("master("+string(c.TargetID)+")", b)
	}
	return first
}

var caseNo int

// judge: the scenario has been driven; wait for quiet, look, prod, wait, look again
func (w *world) judge(seed int64, name string, qd time.Duration) {
	spin := w.quiet(qd, 20*qd)
	nf := w.nonFinal()
	conn := w.allConnected()
	if len(nf) > 0 && conn {
		// something is not final although every target is connected: before this is called a stall, deliveries that are
		// merely late (a starved machine) get a window six times as long; a lost wake-up stays lost however long one waits
		spin = w.quiet(6*qd, 40*qd)
		nf = w.nonFinal()
	}
	st := w.state()
	enabled := w.prod()
	w.quiet(qd, 20*qd)
	nf2 := w.nonFinal()
	stalled := 0
	if enabled != "-" || (len(nf) > 0 && conn) || spin > 200 {
		stalled = 1
	}
	after := "final"
	if len(nf2) > 0 {
		after = "stuck:" + strings.Join(nf2, ",")
	}
	nfs := "-"
	if len(nf) > 0 {
		nfs = strings.Join(nf, ",")
	}
	caseNo++
	fmt.Fprintf(out, "c09.scen\t%d:%d\t%s\tstalled=%d\tenabled=%s\tnonfinal=%s\tconnected=%t\tafterprod=%s\tspin=%.0f\t%s\n",
		seed, caseNo, name, stalled, enabled, nfs, conn, after, spin, st)
	out.Flush()
}

// ---------------------------------------------------------------- scenarios

type scenario struct {
	name string
	run  func(seed int64, r *rand.Rand, qd time.Duration)
}

func jitter(r *rand.Rand, base, spread int) time.Duration {
	return time.Duration(base+r.Intn(spread+1)) * time.Millisecond
}

var scenarios = []scenario{
	// baseline: two plain changes on a connected target must go through without help
	{"baseline", func(seed int64, r *rand.Rand, qd time.Duration) {
		w := newWorld(opts{})
		defer w.stop()
		w.target("t1", false)
		w.connect("t1")
		w.quiet(qd/2, 5*qd)
		w.change(false, "t1", "a")
		time.Sleep(jitter(r, 0, 30))
		w.change(false, "t1", "b")
		w.judge(seed, "baseline", qd)
	}},
	// F-02(a) dead_prev: Set A on {t1 fine, t2 rejected after a slow validation}; Set B on t1 issued while A still validates
	{"dead_prev", func(seed int64, r *rand.Rand, qd time.Duration) {
		w := newWorld(opts{})
		defer w.stop()
		w.target("t1", false)
		w.target("t2", false)
		w.connect("t1")
		w.connect("t2")
		w.quiet(qd/2, 5*qd)
		// warm-up: the configurations exist and are synchronised before the scenario proper
		w.change(false, "t1", "w", "t2", "w")
		w.quiet(qd/2, 5*qd)
		w.change(false, "t1", "a", "t2", "SLOW-REJECT")
		w.pause(jitter(r, 120, 60))
		w.change(false, "t1", "b")
		w.judge(seed, "dead_prev", qd)
	}},
	// F-02(b) initfail_successor: a rollback of a missing index whose reconcile hits one transient store error, followed by a change
	{"initfail_successor", func(seed int64, r *rand.Rand, qd time.Duration) {
		w := newWorld(opts{faultIndex: 77})
		defer w.stop()
		w.target("t1", false)
		w.connect("t1")
		w.quiet(qd/2, 5*qd)
		w.rollback(77)
		w.change(false, "t1", "b")
		w.judge(seed, "initfail_successor", qd)
	}},
	// F-02(d) serializable_gate: a SERIALIZABLE change on {t1, t2 slow to validate}, a plain change on t1 right behind it
	{"serializable_gate", func(seed int64, r *rand.Rand, qd time.Duration) {
		w := newWorld(opts{})
		defer w.stop()
		w.target("t1", false)
		w.target("t2", false)
		w.connect("t1")
		w.connect("t2")
		w.quiet(qd/2, 5*qd)
		w.change(false, "t1", "w", "t2", "w")
		w.quiet(qd/2, 5*qd)
		w.change(true, "t1", "a", "t2", "SLOW-a")
		w.pause(jitter(r, 120, 60))
		w.change(false, "t1", "b")
		w.judge(seed, "serializable_gate", qd)
	}},
	// sync_wakeup: a change and its rollback are committed before the device has ever connected; then it connects
	{"sync_wakeup", func(seed int64, r *rand.Rand, qd time.Duration) {
		w := newWorld(opts{})
		defer w.stop()
		w.target("t1", false)
		w.change(false, "t1", "a")
		w.quiet(qd/2, 5*qd)
		w.rollback(1)
		w.quiet(qd/2, 5*qd)
		w.connect("t1")
		w.judge(seed, "sync_wakeup", qd)
	}},
	// sync_wakeup_serializable: a SERIALIZABLE change and a plain change are committed before the device has ever connected
	// (the second one waits at the apply gate, as it should); then the device connects
	{"sync_wakeup_serializable", func(seed int64, r *rand.Rand, qd time.Duration) {
		w := newWorld(opts{})
		defer w.stop()
		w.target("t1", false)
		w.change(true, "t1", "a")
		w.quiet(qd/2, 5*qd)
		w.change(false, "t1", "b")
		w.quiet(qd/2, 5*qd)
		w.connect("t1")
		w.judge(seed, "sync_wakeup_serializable", qd)
	}},
	// serializable_two_followers: a SERIALIZABLE change on {t1, t2}, then a change on t1 only and a change on t2 only, all
	// committed while the devices are away (the two followers wait at the apply gate); then both devices connect: the
	// transaction event of the first transaction has to wake BOTH followers
	{"serializable_two_followers", func(seed int64, r *rand.Rand, qd time.Duration) {
		w := newWorld(opts{})
		defer w.stop()
		w.target("t1", false)
		w.target("t2", false)
		w.change(true, "t1", "a", "t2", "a")
		w.quiet(qd/2, 5*qd)
		w.change(false, "t1", "b")
		w.change(false, "t2", "c")
		w.quiet(qd/2, 5*qd)
		w.connect("t1")
		w.connect("t2")
		w.judge(seed, "serializable_two_followers", qd)
	}},
	// sync_wakeup_serializable_rollback: a SERIALIZABLE change and its rollback are committed before the device has ever
	// connected (the rollback waits at the apply gate and has lowered Configuration.Index to 0); then the device connects:
	// the walk to the first proposal that is not applied has to start at Status.Proposed.Index
	{"sync_wakeup_serializable_rollback", func(seed int64, r *rand.Rand, qd time.Duration) {
		w := newWorld(opts{})
		defer w.stop()
		w.target("t1", false)
		w.change(true, "t1", "a")
		w.quiet(qd/2, 5*qd)
		w.rollback(1)
		w.quiet(qd/2, 5*qd)
		w.connect("t1")
		w.judge(seed, "sync_wakeup_serializable_rollback", qd)
	}},
	// restart_pending: a Set is accepted (the transaction is in the store, never updated) while no controller runs - the
	// process restarts between the northbound's Create and the controller's first status update; the fresh controllers see
	// it only through the replay of the store
	{"restart_pending", func(seed int64, r *rand.Rand, qd time.Duration) {
		w := newWorld(opts{})
		defer w.stop()
		w.target("t1", false)
		w.connect("t1")
		w.change(false, "t1", "a")
		w.quiet(qd/2, 5*qd)
		w.restart(opts{}, func() { w.change(false, "t1", "b") })
		w.quiet(qd/2, 5*qd)
		w.change(false, "t1", "c")
		w.judge(seed, "restart_pending", qd)
	}},
	// restart_proposal_created: the process dies right after the transaction controller created the proposals of a Set and
	// before the proposal controller wrote anything for them (here: the proposal controller is not running in the first
	// life); the fresh controllers learn of the proposals only through the replay of the proposal store
	{"restart_proposal_created", func(seed int64, r *rand.Rand, qd time.Duration) {
		w := newWorld(opts{noProposal: true})
		defer w.stop()
		w.target("t1", false)
		w.connect("t1")
		w.change(false, "t1", "a")
		w.quiet(qd/2, 5*qd)
		w.restart(opts{}, nil)
		w.quiet(qd/2, 5*qd)
		w.change(false, "t1", "b")
		w.judge(seed, "restart_proposal_created", qd)
	}},
	// restart_applied (control): a restart after everything has been applied, then a Set
	{"restart_applied", func(seed int64, r *rand.Rand, qd time.Duration) {
		w := newWorld(opts{})
		defer w.stop()
		w.target("t1", false)
		w.connect("t1")
		w.change(false, "t1", "a")
		w.quiet(qd/2, 5*qd)
		w.restart(opts{}, nil)
		w.quiet(qd/2, 5*qd)
		w.change(false, "t1", "b")
		w.judge(seed, "restart_applied", qd)
	}},
	// wedged_target / requeue cycle: {t1 refuses, t2 fine}; the transaction controller is slower than the proposal
	// controller, so the refusal of t1 is seen before t2's apply was started; then a change on t2
	{"wedged_target", func(seed int64, r *rand.Rand, qd time.Duration) {
		w := newWorld(opts{txPropDelay: 25 * time.Millisecond})
		defer w.stop()
		w.target("t1", true)
		w.target("t2", false)
		w.connect("t1")
		w.connect("t2")
		w.quiet(qd/2, 5*qd)
		w.change(false, "t1", "a", "t2", "a")
		w.quiet(qd/2, 10*qd)
		w.change(false, "t2", "b")
		w.judge(seed, "wedged_target", qd)
	}},
}

func main() {
	seed := flag.Int64("seed", 1, "seed")
	n := flag.Int("n", 1, "repetitions of every scenario")
	only := flag.String("only", "", "run only this scenario")
	quietMs := flag.Int("quiet", 500, "quiet window in ms")
	flag.Parse()
	env.Quiet()
	out = bufio.NewWriter(os.Stdout)
	defer out.Flush()
	r := rand.New(rand.NewSource(*seed))
	for i := 0; i < *n; i++ {
		for _, s := range scenarios {
			if *only != "" && *only != s.name {
				continue
			}
			s.run(*seed, r, time.Duration(*quietMs)*time.Millisecond)
		}
	}
}

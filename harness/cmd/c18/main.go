// c18: observations for property C18 (the JSON document is the configuration, no more and no less):
// the real BuildTree / PrunePathValues / PrunePathMap of pkg/utils/v2/tree and pkg/utils/v3/tree,
// utils.SplitPath and utils.IsPathBelow on generated sets of path/values.
//
// line formats (tab separated; byte strings hex, "-" = empty):
//
//	tree.build   id stream ver rfc items outcome json      outcome = ok | err | panic
//	tree.prune   id stream ver leave items outitems
//	tree.prunemap id stream ver leave items outitems          (result map listed by ascending path)
//	path.split   id path elems
//	path.below   id path ancestor 0|1
//
// items = item,item,... ("." = none); item = path:deleted:type:bytes:opts ; opts = a.b.c or "_"
package main

import (
	"bufio"
	"encoding/hex"
	"flag"
	"fmt"
	"math"
	"math/rand"
	"os"
	"sort"
	"strconv"
	"strings"

	v2 "github.com/onosproject/onos-api/go/onos/config/v2"
	v3 "github.com/onosproject/onos-api/go/onos/config/v3"
	"github.com/onosproject/onos-config/pkg/utils"
	t2 "github.com/onosproject/onos-config/pkg/utils/v2/tree"
	t3 "github.com/onosproject/onos-config/pkg/utils/v3/tree"
	"github.com/openconfig/gnmi/proto/gnmi"
)

type item struct {
	Path  string
	Del   bool
	Type  int32
	Bytes []byte
	Opts  []int32
}

func hx(s string) string {
	if s == "" {
		return "-"
	}
	return hex.EncodeToString([]byte(s))
}

func hxList(l []string) string {
	if len(l) == 0 {
		return "."
	}
	p := make([]string, len(l))
	for i, s := range l {
		p[i] = hx(s)
	}
	return strings.Join(p, ",")
}

func pick[T any](r *rand.Rand, l []T) T { return l[r.Intn(len(l))] }

func (it item) String() string {
	d := "0"
	if it.Del {
		d = "1"
	}
	o := "_"
	if len(it.Opts) > 0 {
		p := make([]string, len(it.Opts))
		for i, x := range it.Opts {
			p[i] = strconv.Itoa(int(x))
		}
		o = strings.Join(p, ".")
	}
	return hx(it.Path) + ":" + d + ":" + strconv.Itoa(int(it.Type)) + ":" + hx(string(it.Bytes)) + ":" + o
}

func items(l []item) string {
	if len(l) == 0 {
		return "."
	}
	p := make([]string, len(l))
	for i, it := range l {
		p[i] = it.String()
	}
	return strings.Join(p, ",")
}

func parseItems(s string) []item {
	if s == "." || s == "" {
		return nil
	}
	var res []item
	for _, f := range strings.Split(s, ",") {
		q := strings.Split(f, ":")
		if len(q) != 5 {
			continue
		}
		unhx := func(h string) []byte {
			if h == "-" {
				return nil
			}
			b, _ := hex.DecodeString(h)
			return b
		}
		t, _ := strconv.Atoi(q[2])
		it := item{Path: string(unhx(q[0])), Del: q[1] == "1", Type: int32(t), Bytes: unhx(q[3])}
		if q[4] != "_" {
			for _, o := range strings.Split(q[4], ".") {
				x, _ := strconv.Atoi(o)
				it.Opts = append(it.Opts, int32(x))
			}
		}
		res = append(res, it)
	}
	return res
}

func fromTV(p string, del bool, tv *v2.TypedValue) item {
	return item{Path: p, Del: del, Type: int32(tv.Type), Bytes: tv.Bytes, Opts: tv.TypeOpts}
}

func toV2(l []item) []*v2.PathValue {
	r := make([]*v2.PathValue, len(l))
	for i, it := range l {
		r[i] = &v2.PathValue{Path: it.Path, Deleted: it.Del, Value: v2.TypedValue{Bytes: it.Bytes, Type: v2.ValueType(it.Type), TypeOpts: it.Opts}}
	}
	return r
}

func toV3(l []item) []v3.PathValue {
	r := make([]v3.PathValue, len(l))
	for i, it := range l {
		r[i] = v3.PathValue{Path: it.Path, Deleted: it.Del, Value: v3.TypedValue{Bytes: it.Bytes, Type: v3.ValueType(it.Type), TypeOpts: it.Opts}}
	}
	return r
}

func backV2(l []*v2.PathValue) []item {
	r := make([]item, len(l))
	for i, p := range l {
		r[i] = item{Path: p.Path, Del: p.Deleted, Type: int32(p.Value.Type), Bytes: p.Value.Bytes, Opts: p.Value.TypeOpts}
	}
	return r
}

func backV3(l []v3.PathValue) []item {
	r := make([]item, len(l))
	for i, p := range l {
		r[i] = item{Path: p.Path, Del: p.Deleted, Type: int32(p.Value.Type), Bytes: p.Value.Bytes, Opts: p.Value.TypeOpts}
	}
	return r
}

// ---------------------------------------------------------------- generators

var names = []string{"a", "b", "ab", "a-b", "a.b", "abc", "b1", "c", "l", "lx", "l1", "m", "k", "id", "n", "x:y", "z", "0"}
var keySets = [][]string{{"k"}, {"id"}, {"a", "b"}, {"k", "n"}, {"id", "name", "z"}, {"n"}}
var keyVals = []string{"1", "10", "100", "2", "01", "true", "false", "a", "ab", "a/b", "-1", "1.5", "x y", "é", "0", "a-b", "a.b", "18446744073709551615", "-9223372036854775808",
	"Mgmt", "mgmt", "Edge", "edge", "A", "AB", "Ab", "TRUE", "É", "C:\\", "a\\b", "\\", "dir\\sub\\"}

// caseVariants returns the value and spellings of it that differ only in letter case
func caseVariants(v string) []string {
	l := []string{v}
	for _, w := range []string{strings.ToUpper(v), strings.ToLower(v), strings.Title(strings.ToLower(v))} {
		dup := false
		for _, o := range l {
			if o == w {
				dup = true
			}
		}
		if !dup {
			l = append(l, w)
		}
	}
	return l
}

// keysText renders the keys of a list entry as utils.StrPathElem does (sorted by name, '\\' and ']' escaped)
func keysText(nm string, kv map[string]string) string {
	return utils.StrPathElem([]*gnmi.PathElem{{Name: nm, Key: kv}})[1+len(nm):]
}

type g struct {
	r      *rand.Rand
	out    []item
	inner  []string            // container / list / entry paths (tombstone candidates)
	schema map[string][]string // one key-name set per list schema path
	keyTyp int                 // 0: key leaves agree and have a basic type; 1: some key leaf is BYTES; 2: some key leaf disagrees
}

func (x *g) value() *v2.TypedValue {
	r := x.r
	switch r.Intn(22) {
	case 0:
		return v2.NewTypedValueEmpty()
	case 1:
		return v2.NewTypedValueInt(r.Intn(2000)-1000, v2.Width([]int{8, 16, 32, 64}[r.Intn(4)]))
	case 2:
		return v2.NewTypedValueInt(pick(r, []int{math.MaxInt64, math.MinInt64, math.MaxInt32, math.MinInt32, 0, -1}), v2.Width([]int{32, 64}[r.Intn(2)]))
	case 3:
		return v2.NewTypedValueUint(pick(r, []uint{0, 1, 255, math.MaxUint32, math.MaxUint64, 10}), v2.Width([]int{8, 32, 64}[r.Intn(3)]))
	case 4:
		return v2.NewTypedValueBool(r.Intn(2) == 0)
	case 5:
		if r.Intn(3) == 0 {
			return v2.NewTypedValueDecimal(pick(r, []int64{math.MaxInt64, math.MinInt64, -5, 5, 0, -1000000000000}), uint8(r.Intn(19)))
		}
		return v2.NewTypedValueDecimal(int64(r.Intn(100000)-50000), uint8(r.Intn(5)))
	case 6:
		return v2.NewTypedValueFloat(float64(r.Intn(1000)) / 8)
	case 7:
		return v2.NewTypedValueBytes([]byte{byte(r.Intn(256)), 2, 3})
	case 8:
		return v2.NewLeafListStringTv([]string{"p", "q"})
	case 9:
		return v2.NewLeafListIntTv([]int64{1, -2, 3}, v2.Width([]int{16, 64}[r.Intn(2)]))
	case 10:
		return v2.NewLeafListUintTv([]uint64{1, 2}, v2.Width([]int{16, 64}[r.Intn(2)]))
	case 11:
		return v2.NewLeafListBoolTv([]bool{true, false})
	case 12:
		return v2.NewLeafListDecimalTv([]int64{15, 25}, 1)
	case 13:
		return v2.NewLeafListFloatTv([]float32{1.5, 2})
	case 14:
		return v2.NewLeafListBytesTv([][]byte{{1, 2}, {3}})
	case 15:
		return v2.NewTypedValueDouble(2.5)
	case 16: // an INT whose magnitude needs more than 64 bits, and one without type options
		if r.Intn(2) == 0 {
			return &v2.TypedValue{Type: v2.ValueType_INT, Bytes: []byte{1, 0, 0, 0, 0, 0, 0, 0, byte(r.Intn(256))}, TypeOpts: []int32{64, int32(r.Intn(2))}}
		}
		return &v2.TypedValue{Type: v2.ValueType_INT, Bytes: []byte{byte(r.Intn(256)), 7}}
	default:
		return v2.NewTypedValueString(pick(r, []string{"v", "", "10", "true", "<x&y>", "é", "a/b", "long value \x01", "1"}) + strconv.Itoa(r.Intn(4)))
	}
}

// a leaf value whose JSON rendering agrees with the key text under convertBasicType
func (x *g) keyLeaf(text string) *v2.TypedValue {
	r := x.r
	if x.keyTyp == 1 && r.Intn(2) == 0 {
		return v2.NewTypedValueBytes([]byte(text))
	}
	if x.keyTyp == 2 && r.Intn(2) == 0 {
		return v2.NewTypedValueString(text + "x")
	}
	if text == "1.5" && r.Intn(2) == 0 {
		return v2.NewTypedValueDecimal(15, 1) // a string in RFC 7951 mode, a float64 otherwise
	}
	if text == "true" || text == "false" {
		if r.Intn(2) == 0 {
			return v2.NewTypedValueBool(text == "true")
		}
	}
	if i, err := strconv.ParseInt(text, 10, 64); err == nil && strconv.FormatInt(i, 10) == text && r.Intn(3) != 0 {
		return v2.NewTypedValueInt(int(i), v2.Width([]int{8, 16, 32, 64}[r.Intn(4)]))
	}
	if u, err := strconv.ParseUint(text, 10, 64); err == nil && strconv.FormatUint(u, 10) == text && r.Intn(2) == 0 {
		return v2.NewTypedValueUint(uint(u), v2.Width([]int{32, 64}[r.Intn(2)]))
	}
	return v2.NewTypedValueString(text)
}

func (x *g) node(prefix, sp string, depth int, keys map[string]string) {
	r := x.r
	pool := append([]string{}, names...)
	r.Shuffle(len(pool), func(i, j int) { pool[i], pool[j] = pool[j], pool[i] })
	n := 1 + r.Intn(4)
	if depth >= 3 {
		n = 1 + r.Intn(2)
	}
	if keys != nil {
		ks := make([]string, 0, len(keys))
		for k := range keys {
			ks = append(ks, k)
		}
		sort.Strings(ks)
		for _, k := range ks {
			if r.Intn(2) == 0 {
				x.out = append(x.out, fromTV(prefix+"/"+k, false, x.keyLeaf(keys[k])))
			}
		}
	}
	used := 0
	for _, nm := range pool {
		if used >= n {
			break
		}
		if _, isKey := keys[nm]; isKey {
			continue
		}
		used++
		kind := r.Intn(8)
		switch {
		case kind < 4 || depth >= 4:
			x.out = append(x.out, fromTV(prefix+"/"+nm, false, x.value()))
		case kind < 6:
			x.inner = append(x.inner, prefix+"/"+nm)
			x.node(prefix+"/"+nm, sp+"/"+nm, depth+1, nil)
		default:
			ks, ok := x.schema[sp+"/"+nm]
			if !ok {
				ks = pick(r, keySets)
				x.schema[sp+"/"+nm] = ks
			}
			x.inner = append(x.inner, prefix+"/"+nm)
			seen := map[string]bool{}
			// few values per key, so that entries of a multi-key list share some of their keys
			pools := map[string][]string{}
			for _, k := range ks {
				pools[k] = []string{pick(r, keyVals), pick(r, keyVals)}
				if r.Intn(3) == 0 {
					pools[k] = append(pools[k], pick(r, keyVals))
				}
				if r.Intn(3) == 0 { // sibling entries whose keys are equal up to letter case
					pools[k] = caseVariants(pick(r, []string{"mgmt", "Edge", "ab", "a", "true", "é", "x y"}))
				}
			}
			for e := 0; e < 1+r.Intn(4); e++ {
				kv := map[string]string{}
				for _, k := range ks {
					kv[k] = pick(r, pools[k])
				}
				txt := keysText(nm, kv)
				// BuildTree takes the key text as it is written in the path; explicit key leaves repeat that text
				for k, v := range kv {
					kv[k] = strings.ReplaceAll(v, "\\", "\\\\")
				}
				if seen[txt] {
					continue
				}
				seen[txt] = true
				x.inner = append(x.inner, prefix+"/"+nm+txt)
				x.node(prefix+"/"+nm+txt, sp+"/"+nm, depth+1, kv)
			}
		}
	}
}

// a well-formed set: unique paths, canonical key order, one key-name set per list, no leaf above a leaf
func genSet(r *rand.Rand, keyTyp int, tombs bool) []item {
	x := &g{r: r, keyTyp: keyTyp, schema: map[string][]string{}}
	x.node("", "", 0, nil)
	if tombs {
		for i := range x.out {
			if r.Intn(6) == 0 {
				x.out[i].Del = true
			}
		}
		for _, p := range x.inner {
			if r.Intn(6) == 0 {
				it := fromTV(p, true, v2.NewTypedValueEmpty())
				if r.Intn(2) == 0 {
					it = fromTV(p, true, v2.NewTypedValueString("gone"))
				}
				x.out = append(x.out, it)
			}
		}
		if r.Intn(40) == 0 {
			x.out = append(x.out, fromTV("/", true, v2.NewTypedValueEmpty()))
		}
	}
	r.Shuffle(len(x.out), func(i, j int) { x.out[i], x.out[j] = x.out[j], x.out[i] })
	return x.out
}

// permute the keys of some multi-key elements (what only an external plugin can produce)
func nonCanonical(r *rand.Rand, l []item) []item {
	for i := range l {
		p := l[i].Path
		a := strings.Index(p, "][")
		if a > 0 && r.Intn(2) == 0 {
			o := strings.LastIndex(p[:a], "[")
			c := strings.Index(p[a+1:], "]")
			if o >= 0 && c >= 0 {
				c += a + 1
				l[i].Path = p[:o] + p[a+1:c+1] + p[o:a+1] + p[c+1:]
			}
		}
	}
	return l
}

var alphabet = []string{"/", "/", "[", "]", "=", "\\", "a", "b", "1", "k", "l", "", "[k=1]", "[a=1][b=2]", "/a", "/l[k=1]", "//", "x=y", "[]", "[=]", "é"}

func malformedPath(r *rand.Rand) string {
	s := ""
	if r.Intn(5) != 0 {
		s = "/"
	}
	for i := 0; i < 1+r.Intn(7); i++ {
		s += pick(r, alphabet)
	}
	return s
}

func malformedSet(r *rand.Rand) []item {
	x := &g{r: r}
	var l []item
	for i := 0; i < 1+r.Intn(5); i++ {
		tv := x.value()
		switch r.Intn(12) {
		case 0:
			tv = &v2.TypedValue{Type: v2.ValueType_BOOL}
		case 1:
			tv = &v2.TypedValue{Type: v2.ValueType_LEAFLIST_INT}
		case 2:
			tv = &v2.TypedValue{Type: v2.ValueType(17 + r.Intn(3)), Bytes: []byte("q")}
		}
		l = append(l, fromTV(malformedPath(r), r.Intn(5) == 0, tv))
	}
	return l
}

// leaf above a leaf, list and container under one name, duplicate paths, mixed key names
func conflictSet(r *rand.Rand) []item {
	l := genSet(r, 0, false)
	if len(l) == 0 {
		return l
	}
	x := &g{r: r}
	p := l[r.Intn(len(l))].Path
	switch r.Intn(5) {
	case 0:
		l = append(l, fromTV(p+"/sub", false, x.value()))
	case 1:
		l = append(l, fromTV(p+"[k=1]/sub", false, x.value()))
	case 2:
		if i := strings.LastIndex(p, "/"); i > 0 {
			l = append(l, fromTV(p[:i], false, x.value()))
		}
	case 3:
		if i := strings.LastIndex(p, "]"); i > 0 {
			l = append(l, fromTV(p[:i+1]+"[zz=9]/w", false, x.value()), fromTV(p[:strings.LastIndex(p[:i], "[")]+"[zz=9]/w", false, x.value()))
		}
	default:
		l = append(l, fromTV(p+"/", false, x.value()), fromTV(p+"//x", false, x.value()))
	}
	r.Shuffle(len(l), func(i, j int) { l[i], l[j] = l[j], l[i] })
	return l
}

// ---------------------------------------------------------------- observations

var out *bufio.Writer

func build(id, stream string, l []item) {
	for _, rfc := range []bool{true, false} {
		for ver := 2; ver <= 3; ver++ {
			outcome, js := "ok", ""
			func() {
				defer func() {
					if e := recover(); e != nil {
						outcome, js = "panic", ""
					}
				}()
				var b []byte
				var err error
				if ver == 2 {
					b, err = t2.BuildTree(toV2(l), rfc)
				} else {
					b, err = t3.BuildTree(toV3(l), rfc)
				}
				if err != nil {
					outcome = "err"
				} else {
					js = string(b)
				}
			}()
			f := "0"
			if rfc {
				f = "1"
			}
			fmt.Fprintf(out, "tree.build\t%s.%d%s\t%s\t%d\t%s\t%s\t%s\t%s\n", id, ver, f, stream, ver, f, items(l), outcome, hx(js))
		}
	}
}

func prune(id, stream string, l []item) {
	for _, leave := range []bool{true, false} {
		f := "0"
		if leave {
			f = "1"
		}
		for ver := 2; ver <= 3; ver++ {
			var res []item
			if ver == 2 {
				res = backV2(t2.PrunePathValues(toV2(l), leave))
			} else {
				res = backV3(t3.PrunePathValues(toV3(l), leave))
			}
			fmt.Fprintf(out, "tree.prune\t%s.%d%s\t%s\t%d\t%s\t%s\t%s\n", id, ver, f, stream, ver, f, items(l), items(res))
		}
		// the map form, only meaningful with distinct paths
		seen := map[string]bool{}
		uniq := true
		for _, it := range l {
			if seen[it.Path] {
				uniq = false
			}
			seen[it.Path] = true
		}
		if uniq {
			m2 := map[string]*v2.PathValue{}
			for _, p := range toV2(l) {
				m2[p.Path] = p
			}
			r2 := t2.PrunePathMap(m2, leave)
			var l2 []*v2.PathValue
			for k, p := range r2 {
				if k != p.Path {
					p = &v2.PathValue{Path: "KEY-MISMATCH " + k}
				}
				l2 = append(l2, p)
			}
			sort.Slice(l2, func(i, j int) bool { return l2[i].Path < l2[j].Path })
			fmt.Fprintf(out, "tree.prunemap\t%s.2%s\t%s\t2\t%s\t%s\t%s\n", id, f, stream, f, items(l), items(backV2(l2)))
			m3 := map[string]v3.PathValue{}
			for _, p := range toV3(l) {
				m3[p.Path] = p
			}
			r3 := t3.PrunePathMap(m3, leave)
			var l3 []v3.PathValue
			for k, p := range r3 {
				if k != p.Path {
					p = v3.PathValue{Path: "KEY-MISMATCH " + k}
				}
				l3 = append(l3, p)
			}
			sort.Slice(l3, func(i, j int) bool { return l3[i].Path < l3[j].Path })
			fmt.Fprintf(out, "tree.prunemap\t%s.3%s\t%s\t3\t%s\t%s\t%s\n", id, f, stream, f, items(l), items(backV3(l3)))
		}
	}
}

func main() {
	seed := flag.Int64("seed", 1, "")
	nBuild := flag.Int("build", 1500, "")
	nPrune := flag.Int("prune", 1500, "")
	nPath := flag.Int("path", 3000, "")
	corpus := flag.String("corpus", "", "")
	flag.Parse()
	r := rand.New(rand.NewSource(*seed))
	out = bufio.NewWriterSize(os.Stdout, 1<<20)
	defer out.Flush()

	if *corpus != "" {
		if b, err := os.ReadFile(*corpus); err == nil {
			for i, ln := range strings.Split(string(b), "\n") {
				f := strings.Split(ln, "\t")
				if len(f) >= 3 && f[0] == "build" {
					build(fmt.Sprintf("corpus:%d", i), f[1], parseItems(f[2]))
				} else if len(f) >= 3 && f[0] == "prune" {
					prune(fmt.Sprintf("corpus:%d", i), f[1], parseItems(f[2]))
				}
			}
		}
	}

	for i := 0; i < *nBuild; i++ {
		id := fmt.Sprintf("%d:b%d", *seed, i)
		switch k := r.Intn(20); {
		case k < 12:
			build(id, "clean", genSet(r, 0, true))
		case k < 13:
			build(id, "keyleaf-bytes", genSet(r, 1, r.Intn(2) == 0))
		case k < 14:
			build(id, "keyleaf-differs", genSet(r, 2, r.Intn(2) == 0))
		case k < 16:
			build(id, "noncanonical", nonCanonical(r, genSet(r, 0, r.Intn(2) == 0)))
		case k < 18:
			build(id, "malformed", malformedSet(r))
		default:
			build(id, "conflict", conflictSet(r))
		}
	}
	for i := 0; i < *nPrune; i++ {
		id := fmt.Sprintf("%d:p%d", *seed, i)
		switch k := r.Intn(20); {
		case k < 13:
			prune(id, "clean", genSet(r, 0, true))
		case k < 15: // duplicates of some paths
			l := genSet(r, 0, true)
			for j := 0; j < 1+r.Intn(3) && len(l) > 0; j++ {
				d := l[r.Intn(len(l))]
				d.Del = r.Intn(2) == 0
				l = append(l, d)
			}
			prune(id, "duplicates", l)
		case k < 18:
			l := malformedSet(r)
			for j := range l {
				l[j].Del = r.Intn(3) == 0
			}
			if r.Intn(6) == 0 {
				l = append(l, item{Path: pick(r, []string{"", "/"}), Del: true})
			}
			prune(id, "malformed", l)
		default:
			prune(id, "conflict", conflictSet(r))
		}
	}
	for i := 0; i < *nPath; i++ {
		var p string
		if r.Intn(2) == 0 {
			p = malformedPath(r)
		} else {
			l := genSet(r, 0, false)
			if len(l) > 0 {
				p = l[0].Path
			}
		}
		fmt.Fprintf(out, "path.split\t%d:s%d\t%s\t%s\n", *seed, i, hx(p), hxList(utils.SplitPath(p)))
		var a string
		switch r.Intn(4) {
		case 0:
			a = malformedPath(r)
		case 1:
			a = pick(r, []string{"", "/", p})
		default:
			a = p[:r.Intn(len(p)+1)]
		}
		b := "0"
		if utils.IsPathBelow(p, a) {
			b = "1"
		}
		fmt.Fprintf(out, "path.below\t%d:w%d\t%s\t%s\t%s\n", *seed, i, hx(p), hx(a), b)
	}
}

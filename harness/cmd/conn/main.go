// conn harness: the REAL southbound connection manager (pkg/southbound/gnmi, NewConnManager / Connect / Get / Watch /
// Disconnect) over real gRPC channels on 127.0.0.1 to small gNMI servers whose listener and transport connections the
// harness controls.  Nothing of the manager is faked; it is observed through its public API only:
//
//	Watch events (a Conn is delivered once when it is added and once when it is removed), Get(id) for every id ever
//	seen, Capabilities + Set calls through the handed-out Conn,
//
// plus the device's own view: how many transport connections it served ("epochs"; the Capabilities answer names the
// epoch of the transport connection the call arrived on), how many are open, how many attempts it turned away.
//
// A scenario is a script of phases.  Every phase = one forced action on the device / manager, then waiting (bounded) for
// what the contract of the manager asks for after that action, then a quiet window on the event stream, then a probe.
// Output: one line per scenario run and target
//
//	conn.scen \t seed:n \t scenario \t target-index \t params \t phase \t phase ...
//	phase := act=<action>;sd=<us>;ev=<A1.R1.A2|->;live=<ids|->;rpc=<id:cap:epoch:set,..|->;srv=<served>:<open>:<turned away>;to=<0|1>;ms=<elapsed>
//	(sd = time the device lets pass between accepting a transport connection and serving it, in microseconds)
//
// ids are the manager's connection ids renamed 1,2,3.. in order of first appearance (per manager); A = first delivery of
// an id on the watch (added), R = second (removed), X = any further one.  `to=1`: the awaited condition did not come
// within the bound (the probe then shows the state the manager was left in).
//
// Actions (what the driver ocaml/conn_check.ml turns into channel states for the extracted model Model/ConnMgr.v):
//
//	connect            Connect(target)                                    CONNECTING READY
//	cut:<fin|rst|goaway>  all transport connections of the device are closed, its listener keeps accepting
//	                                                                      IDLE CONNECTING READY
//	restart:<ms>       listener closed + connections cut, listening again after <ms>
//	                                                                      IDLE CONNECTING (TRANSIENT_FAILURE IDLE CONNECTING)* READY
//	refuse:<k>         connections cut, the next k attempts are accepted and closed at once, then served
//	                                                                      IDLE CONNECTING (TRANSIENT_FAILURE IDLE CONNECTING)^k READY
//	down               listener closed + connections cut, never back      IDLE CONNECTING TRANSIENT_FAILURE ..
//	disconnect         Disconnect(target)                                 SHUTDOWN
//	burst:<n>          n cuts in a row without waiting in between         (no exact replay: only the contract is evaluated)
package main

import (
	"bufio"
	"context"
	"flag"
	"fmt"
	"math/rand"
	"net"
	"os"
	"runtime"
	"sort"
	"strings"
	"sync"
	"sync/atomic"
	"time"

	topoapi "github.com/onosproject/onos-api/go/onos/topo"
	sb "github.com/onosproject/onos-config/pkg/southbound/gnmi"
	"github.com/onosproject/onos-lib-go/pkg/logging"
	gpb "github.com/openconfig/gnmi/proto/gnmi"
	"google.golang.org/grpc"
	"google.golang.org/grpc/peer"
)

// ------------------------------------------------------------------------------------------------ the device

// vlistener is the listener the gRPC server of one boot of the device serves on; the harness feeds it
type vlistener struct {
	ch   chan net.Conn
	done chan struct{}
	once sync.Once
	addr net.Addr
}

func (l *vlistener) Accept() (net.Conn, error) {
	select {
	case c := <-l.ch:
		return c, nil
	case <-l.done:
		return nil, fmt.Errorf("listener closed")
	}
}
func (l *vlistener) Close() error   { l.once.Do(func() { close(l.done) }); return nil }
func (l *vlistener) Addr() net.Addr { return l.addr }

type device struct {
	gpb.UnimplementedGNMIServer
	addr  string
	laddr net.Addr

	mu         sync.Mutex
	real       net.Listener // nil while the device does not listen
	boot       int          // number of the current boot (gRPC server instance)
	srv        *grpc.Server
	vl         *vlistener
	open       map[net.Conn]int // open transport connections -> epoch
	byRemote   map[string]int   // client address -> epoch
	served     int              // transport connections handed to a gRPC server so far (epochs)
	turnedAway int
	refuse     int           // accept-and-close the next n attempts
	serveDelay time.Duration // time between the TCP accept and the gRPC server taking the connection
	sets       int
}

func newDevice() *device {
	d := &device{open: map[net.Conn]int{}, byRemote: map[string]int{}}
	l, err := net.Listen("tcp", "127.0.0.1:0")
	if err != nil {
		panic(err)
	}
	d.addr = l.Addr().String()
	d.laddr = l.Addr()
	d.real = l
	d.bootLocked()
	go d.acceptLoop(l)
	return d
}

// bootLocked starts a new gRPC server (a new boot of the device's agent)
func (d *device) bootLocked() {
	d.boot++
	d.vl = &vlistener{ch: make(chan net.Conn), done: make(chan struct{}), addr: d.laddr}
	d.srv = grpc.NewServer()
	gpb.RegisterGNMIServer(d.srv, d)
	go func(s *grpc.Server, l net.Listener) { _ = s.Serve(l) }(d.srv, d.vl)
}

func (d *device) acceptLoop(l net.Listener) {
	for {
		c, err := l.Accept()
		if err != nil {
			return
		}
		d.mu.Lock()
		if d.refuse > 0 {
			d.refuse--
			d.turnedAway++
			d.mu.Unlock()
			if tc, ok := c.(*net.TCPConn); ok {
				_ = tc.SetLinger(0)
			}
			_ = c.Close()
			continue
		}
		delay := d.serveDelay
		d.mu.Unlock()
		go func() {
			if delay > 0 {
				time.Sleep(delay)
			}
			d.mu.Lock()
			if d.real != l {
				// the device went down (or restarted) while this connection was waiting to be served
				d.turnedAway++
				d.mu.Unlock()
				_ = c.Close()
				return
			}
			d.served++
			d.open[c] = d.served
			d.byRemote[c.RemoteAddr().String()] = d.served
			vl := d.vl
			d.mu.Unlock()
			select {
			case vl.ch <- c:
			case <-vl.done:
				_ = c.Close()
			}
		}()
	}
}

// cut closes every open transport connection; the agent is booted anew (it forgets everything); the listener stays
func (d *device) cut(how string) {
	d.mu.Lock()
	old := d.srv
	oldvl := d.vl
	conns := d.open
	d.open = map[net.Conn]int{}
	d.bootLocked()
	d.mu.Unlock()
	switch how {
	case "goaway":
		// GOAWAY first; there are no calls in flight at a probe-free moment, so the connections close right after
		old.GracefulStop()
	case "rst":
		for c := range conns {
			if tc, ok := c.(*net.TCPConn); ok {
				_ = tc.SetLinger(0)
			}
			_ = c.Close()
		}
	default:
		for c := range conns {
			_ = c.Close()
		}
	}
	_ = oldvl.Close()
	old.Stop()
}

func (d *device) stopListening() {
	d.mu.Lock()
	l := d.real
	d.real = nil
	d.mu.Unlock()
	if l != nil {
		_ = l.Close()
	}
}

func (d *device) startListening() {
	var l net.Listener
	var err error
	for i := 0; i < 200; i++ {
		l, err = net.Listen("tcp", d.addr)
		if err == nil {
			break
		}
		time.Sleep(5 * time.Millisecond)
	}
	if err != nil {
		panic(err)
	}
	d.mu.Lock()
	d.real = l
	d.mu.Unlock()
	go d.acceptLoop(l)
}

func (d *device) view() (served, open, turnedAway int) {
	d.mu.Lock()
	defer d.mu.Unlock()
	return d.served, len(d.open), d.turnedAway
}

func (d *device) shutdown() {
	d.stopListening()
	d.mu.Lock()
	s := d.srv
	d.mu.Unlock()
	s.Stop()
}

func (d *device) epochOf(ctx context.Context) int {
	p, ok := peer.FromContext(ctx)
	if !ok {
		return 0
	}
	d.mu.Lock()
	defer d.mu.Unlock()
	return d.byRemote[p.Addr.String()]
}

func (d *device) Capabilities(ctx context.Context, _ *gpb.CapabilityRequest) (*gpb.CapabilityResponse, error) {
	return &gpb.CapabilityResponse{GNMIVersion: fmt.Sprintf("e%d", d.epochOf(ctx))}, nil
}

func (d *device) Set(ctx context.Context, _ *gpb.SetRequest) (*gpb.SetResponse, error) {
	d.mu.Lock()
	d.sets++
	d.mu.Unlock()
	return &gpb.SetResponse{}, nil
}

// ------------------------------------------------------------------------------------------------ the observer

type event struct {
	target string
	id     int
	kind   byte
}

type observer struct {
	mu     sync.Mutex
	ids    map[sb.ConnID]int
	names  []sb.ConnID // index id-1
	target []string    // index id-1
	count  map[int]int
	evs    []event
	last   time.Time
}

func (o *observer) run(ch <-chan sb.Conn) {
	for c := range ch {
		o.mu.Lock()
		id, ok := o.ids[c.ID()]
		if !ok {
			id = len(o.names) + 1
			o.ids[c.ID()] = id
			o.names = append(o.names, c.ID())
			o.target = append(o.target, string(c.TargetID()))
		}
		o.count[id]++
		k := byte('X')
		switch o.count[id] {
		case 1:
			k = 'A'
		case 2:
			k = 'R'
		}
		o.evs = append(o.evs, event{string(c.TargetID()), id, k})
		o.last = time.Now()
		o.mu.Unlock()
	}
}

func (o *observer) nEvents() int {
	o.mu.Lock()
	defer o.mu.Unlock()
	return len(o.evs)
}

func (o *observer) quietFor() time.Duration {
	o.mu.Lock()
	defer o.mu.Unlock()
	return time.Since(o.last)
}

// ------------------------------------------------------------------------------------------------ a scenario run

type world struct {
	mgr     sb.ConnManager
	obs     *observer
	devs    []*device
	targets []*topoapi.Object
	phases  [][]string // per target
	cancel  context.CancelFunc
	quiet   time.Duration
}

func newWorld(ntargets int, quiet time.Duration) *world {
	w := &world{mgr: sb.NewConnManager(), quiet: quiet,
		obs: &observer{ids: map[sb.ConnID]int{}, count: map[int]int{}, last: time.Now()}}
	ctx, cancel := context.WithCancel(context.Background())
	w.cancel = cancel
	ch := make(chan sb.Conn, 4096)
	if err := w.mgr.Watch(ctx, ch); err != nil {
		panic(err)
	}
	go w.obs.run(ch)
	for i := 0; i < ntargets; i++ {
		d := newDevice()
		w.devs = append(w.devs, d)
		t := &topoapi.Object{
			ID:   topoapi.ID(fmt.Sprintf("target-%d", i)),
			Type: topoapi.Object_ENTITY,
			Obj:  &topoapi.Object_Entity{Entity: &topoapi.Entity{KindID: "devicesim"}},
		}
		timeout := 10 * time.Second
		if err := t.SetAspect(&topoapi.Configurable{Type: "devicesim", Version: "1.0.0", Address: d.addr, Timeout: &timeout}); err != nil {
			panic(err)
		}
		if err := t.SetAspect(&topoapi.TLSOptions{Plain: true}); err != nil {
			panic(err)
		}
		w.targets = append(w.targets, t)
		w.phases = append(w.phases, nil)
	}
	return w
}

func (w *world) close() {
	for i, d := range w.devs {
		_ = w.mgr.Disconnect(context.Background(), w.targets[i].ID)
		d.shutdown()
	}
	w.cancel()
}

// live: the ids (of target ti) ever seen on the watch for which Get still answers
func (w *world) live(ti int) []int {
	w.obs.mu.Lock()
	names := append([]sb.ConnID(nil), w.obs.names...)
	tg := append([]string(nil), w.obs.target...)
	w.obs.mu.Unlock()
	var res []int
	for i, n := range names {
		if tg[i] != string(w.targets[ti].ID) {
			continue
		}
		if _, ok := w.mgr.Get(context.Background(), n); ok {
			res = append(res, i+1)
		}
	}
	return res
}

func has(l []int, x int) bool {
	for _, y := range l {
		if x == y {
			return true
		}
	}
	return false
}

// fresh: exactly one live connection, not among `before`
func (w *world) reestablished(ti int, before []int, servedBefore int) bool {
	l := w.live(ti)
	if len(l) != 1 || has(before, l[0]) {
		return false
	}
	s, _, _ := w.devs[ti].view()
	return s > servedBefore
}

func (w *world) probe(ti int) (string, string) {
	l := w.live(ti)
	var ls, rs []string
	for _, id := range l {
		ls = append(ls, fmt.Sprint(id))
		w.obs.mu.Lock()
		name := w.obs.names[id-1]
		w.obs.mu.Unlock()
		c, ok := w.mgr.Get(context.Background(), name)
		if !ok {
			rs = append(rs, fmt.Sprintf("%d:gone:e0:gone", id))
			continue
		}
		cs, ep, ss := "fail", "e0", "fail"
		for try := 0; try < 2 && cs == "fail"; try++ {
			ctx, cancel := context.WithTimeout(context.Background(), 3*time.Second)
			capr, err := c.Capabilities(ctx, &gpb.CapabilityRequest{})
			cancel()
			if err == nil {
				cs, ep = "ok", capr.GNMIVersion
			} else {
				time.Sleep(50 * time.Millisecond)
			}
		}
		for try := 0; try < 2 && ss == "fail"; try++ {
			ctx, cancel := context.WithTimeout(context.Background(), 3*time.Second)
			_, err := c.Set(ctx, &gpb.SetRequest{})
			cancel()
			if err == nil {
				ss = "ok"
			} else {
				time.Sleep(50 * time.Millisecond)
			}
		}
		rs = append(rs, fmt.Sprintf("%d:%s:%s:%s", id, cs, ep, ss))
	}
	return dash(strings.Join(ls, ".")), dash(strings.Join(rs, ","))
}

func dash(s string) string {
	if s == "" {
		return "-"
	}
	return s
}

// phase runs one action and records, per target, what was observed until the manager settled
func (w *world) phase(act []string, do func(), cond func() bool, bound time.Duration) {
	start := time.Now()
	ev0 := w.obs.nEvents()
	do()
	to := 0
	for !cond() {
		if time.Since(start) > bound {
			to = 1
			break
		}
		time.Sleep(2 * time.Millisecond)
	}
	// quiet window on the event stream (bounded)
	qstart := time.Now()
	for w.obs.quietFor() < w.quiet && time.Since(qstart) < 10*w.quiet {
		time.Sleep(2 * time.Millisecond)
	}
	if since := time.Since(qstart); since < w.quiet {
		time.Sleep(w.quiet - since)
	}
	w.obs.mu.Lock()
	evs := append([]event(nil), w.obs.evs[ev0:]...)
	w.obs.mu.Unlock()
	ms := time.Since(start).Milliseconds()
	for ti := range w.targets {
		var es []string
		for _, e := range evs {
			if e.target == string(w.targets[ti].ID) {
				es = append(es, fmt.Sprintf("%c%d", e.kind, e.id))
			}
		}
		live, rpc := w.probe(ti)
		s, o, r := w.devs[ti].view()
		w.devs[ti].mu.Lock()
		sd := w.devs[ti].serveDelay.Microseconds()
		w.devs[ti].mu.Unlock()
		w.phases[ti] = append(w.phases[ti], fmt.Sprintf("act=%s;sd=%d;ev=%s;live=%s;rpc=%s;srv=%d:%d:%d;to=%d;ms=%d",
			act[ti], sd, dash(strings.Join(es, ".")), live, rpc, s, o, r, to, ms))
	}
}

// ---- actions on target 0..; `acts` gives the action of every target in this phase ("-" = nothing)

type action struct {
	name string
	arg  int // ms / count
	how  string
}

func (a action) String() string {
	switch a.name {
	case "cut":
		return "cut:" + a.how
	case "restart", "refuse", "burst":
		return fmt.Sprintf("%s:%d", a.name, a.arg)
	}
	return a.name
}

func (w *world) step(acts ...action) {
	n := len(w.targets)
	before := make([][]int, n)
	servedBefore := make([]int, n)
	names := make([]string, n)
	bound := 2500 * time.Millisecond
	for i := 0; i < n; i++ {
		before[i] = w.live(i)
		servedBefore[i], _, _ = w.devs[i].view()
		names[i] = "-"
		if i < len(acts) {
			names[i] = acts[i].String()
			if acts[i].name == "restart" {
				if b := time.Duration(acts[i].arg)*time.Millisecond*3 + 8*time.Second; b > bound {
					bound = b
				}
			}
			if acts[i].name == "refuse" {
				if b := time.Duration(acts[i].arg)*3*time.Second + 8*time.Second; b > bound {
					bound = b
				}
			}
		}
	}
	do := func() {
		var wg sync.WaitGroup
		for i := 0; i < n && i < len(acts); i++ {
			i, a, d := i, acts[i], w.devs[i]
			wg.Add(1)
			go func() {
				defer wg.Done()
				switch a.name {
				case "connect":
					if err := w.mgr.Connect(context.Background(), w.targets[i]); err != nil {
						fmt.Fprintf(os.Stderr, "connect: %v\n", err)
					}
				case "disconnect":
					if err := w.mgr.Disconnect(context.Background(), w.targets[i].ID); err != nil {
						fmt.Fprintf(os.Stderr, "disconnect: %v\n", err)
					}
				case "cut":
					d.cut(a.how)
				case "burst":
					for k := 0; k < a.arg; k++ {
						d.cut("fin")
						time.Sleep(time.Duration(k) * 300 * time.Microsecond)
					}
				case "refuse":
					d.mu.Lock()
					d.refuse = a.arg
					d.mu.Unlock()
					d.cut("fin")
				case "restart":
					d.stopListening()
					d.cut("fin")
					time.Sleep(time.Duration(a.arg) * time.Millisecond)
					d.startListening()
				case "down":
					d.stopListening()
					d.cut("fin")
				}
			}()
		}
		wg.Wait()
	}
	cond := func() bool {
		for i := 0; i < n && i < len(acts); i++ {
			switch acts[i].name {
			case "connect":
				if len(w.live(i)) != 1 {
					return false
				}
			case "disconnect", "down":
				if len(w.live(i)) != 0 {
					return false
				}
			case "-":
			default:
				if !w.reestablished(i, before[i], servedBefore[i]) {
					return false
				}
			}
		}
		return true
	}
	w.phase(names, do, cond, bound)
}

// ------------------------------------------------------------------------------------------------ scenarios

type scenario struct {
	name   string
	params string
	nt     int
	slow   bool // only in the long run
	run    func(w *world)
}

func delays(w *world, d time.Duration) {
	for _, dev := range w.devs {
		dev.mu.Lock()
		dev.serveDelay = d
		dev.mu.Unlock()
	}
}

func buildScenarios(r *rand.Rand, long bool) []scenario {
	var res []scenario
	connect := action{name: "connect"}
	// the device restarts and its listener accepts again at once; the agent serves the new connection after `sd`
	serve := []time.Duration{0, 0, 0, 100 * time.Microsecond, time.Millisecond, 5 * time.Millisecond, 20 * time.Millisecond, 100 * time.Millisecond}
	hows := []string{"fin", "rst", "goaway"}
	for i, sd := range serve {
		sd, how := sd, hows[i%len(hows)]
		res = append(res, scenario{name: "restart_at_once", params: fmt.Sprintf("serve_us=%d,how=%s", sd.Microseconds(), how), nt: 1,
			run: func(w *world) {
				w.step(connect)
				delays(w, sd)
				w.step(action{name: "cut", how: how})
			}})
	}
	// the listener is away for a while: the first attempt fails, the channel backs off
	for _, ms := range []int{50, 1000, 3000} {
		ms := ms
		jit := r.Intn(20)
		res = append(res, scenario{name: fmt.Sprintf("restart_after_%dms", ms), params: fmt.Sprintf("down_ms=%d", ms+jit), nt: 1, slow: ms >= 3000,
			run: func(w *world) {
				w.step(connect)
				w.step(action{name: "restart", arg: ms + jit})
			}})
	}
	// attempts are accepted and dropped k times, then served (the number of failed attempts is known exactly)
	for _, k := range []int{1, 2} {
		k := k
		res = append(res, scenario{name: "refused_attempts", params: fmt.Sprintf("k=%d", k), nt: 1, slow: k >= 2,
			run: func(w *world) {
				w.step(connect)
				w.step(action{name: "refuse", arg: k})
			}})
	}
	// the server resets the connection, nothing restarts
	res = append(res, scenario{name: "reset_no_restart", params: "how=rst", nt: 1, run: func(w *world) {
		w.step(connect)
		w.step(action{name: "cut", how: "rst"})
		w.step(action{name: "cut", how: "rst"})
	}})
	// several losses in a row, each after the manager settled, random pauses and serving delays
	for rep := 0; rep < 2; rep++ {
		n := 4 + r.Intn(3)
		var sds []time.Duration
		var hs []string
		for i := 0; i < n; i++ {
			sds = append(sds, time.Duration(r.Intn(4))*time.Duration(r.Intn(800))*time.Microsecond)
			hs = append(hs, hows[r.Intn(len(hows))])
		}
		res = append(res, scenario{name: "losses_in_a_row", params: fmt.Sprintf("n=%d", n), nt: 1, run: func(w *world) {
			w.step(connect)
			for i := 0; i < n; i++ {
				delays(w, sds[i])
				w.step(action{name: "cut", how: hs[i]})
			}
		}})
	}
	// losses faster than the manager settles
	res = append(res, scenario{name: "loss_burst", params: "n=3", nt: 1, run: func(w *world) {
		w.step(connect)
		w.step(action{name: "burst", arg: 3})
		w.step(action{name: "cut", how: "fin"})
	}})
	// the target never comes back
	res = append(res, scenario{name: "never_back", params: "-", nt: 1, run: func(w *world) {
		w.step(connect)
		w.step(action{name: "down"})
	}})
	// away, refused attempts, then at-once restarts on the same connection manager
	res = append(res, scenario{name: "mixed", params: "-", nt: 1, slow: true, run: func(w *world) {
		w.step(connect)
		w.step(action{name: "cut", how: "fin"})
		w.step(action{name: "restart", arg: 30})
		w.step(action{name: "cut", how: "rst"})
		w.step(action{name: "refuse", arg: 1})
		w.step(action{name: "cut", how: "goaway"})
	}})
	// Disconnect / Connect again / loss
	res = append(res, scenario{name: "disconnect_connect", params: "-", nt: 1, run: func(w *world) {
		w.step(connect)
		w.step(action{name: "disconnect"})
		w.step(connect)
		w.step(action{name: "cut", how: "fin"})
	}})
	// two targets of one manager at once
	res = append(res, scenario{name: "two_targets", params: "-", nt: 2, run: func(w *world) {
		w.step(connect, connect)
		w.step(action{name: "cut", how: "fin"}, action{name: "restart", arg: 40})
		w.step(action{name: "cut", how: "rst"}, action{name: "cut", how: "fin"})
		w.step(action{name: "-"}, action{name: "cut", how: "goaway"})
	}})
	if !long {
		var q []scenario
		for _, s := range res {
			if !s.slow {
				q = append(q, s)
			}
		}
		res = q
	}
	return res
}

func main() {
	seed := flag.Int64("seed", 1, "seed")
	n := flag.Int("n", 1, "repetitions of every scenario")
	only := flag.String("only", "", "run only this scenario")
	long := flag.Bool("long", false, "include the slow scenarios (3 s away, two refused attempts, mixed)")
	quietMs := flag.Int("quiet", 150, "quiet window in ms")
	par := flag.Int("par", 0, "scenario runs in flight at once (0 = all)")
	procs := flag.Int("procs", 0, "GOMAXPROCS (0 = default)")
	burn := flag.Int("burn", 0, "busy goroutines competing for the processors (scheduling pressure)")
	flag.Parse()
	logging.SetLevel(logging.FatalLevel)
	for _, nme := range []string{"southbound", "controller", "utils"} {
		logging.GetLogger(nme).SetLevel(logging.FatalLevel)
	}
	if *procs > 0 {
		runtime.GOMAXPROCS(*procs)
	}
	var stop int32
	for i := 0; i < *burn; i++ {
		go func() {
			x := 0
			for atomic.LoadInt32(&stop) == 0 {
				for k := 0; k < 1000000; k++ {
					x += k
				}
				_ = x
			}
		}()
	}
	r := rand.New(rand.NewSource(*seed))
	type job struct {
		id string
		s  scenario
	}
	var jobs []job
	cnt := 0
	for i := 0; i < *n; i++ {
		for _, s := range buildScenarios(r, *long) {
			cnt++
			if *only != "" && *only != s.name {
				continue
			}
			jobs = append(jobs, job{fmt.Sprintf("%d:%d", *seed, cnt), s})
		}
	}
	var mu sync.Mutex
	var lines []string
	limit := *par
	if limit <= 0 {
		limit = len(jobs) + 1
	}
	sem := make(chan struct{}, limit)
	var wg sync.WaitGroup
	for _, j := range jobs {
		j := j
		wg.Add(1)
		sem <- struct{}{}
		go func() {
			defer wg.Done()
			defer func() { <-sem }()
			w := newWorld(j.s.nt, time.Duration(*quietMs)*time.Millisecond)
			j.s.run(w)
			w.close()
			mu.Lock()
			for ti := range w.targets {
				lines = append(lines, fmt.Sprintf("conn.scen\t%s\t%s\t%d\t%s\t%s", j.id, j.s.name, ti, j.s.params, strings.Join(w.phases[ti], "\t")))
			}
			mu.Unlock()
		}()
	}
	wg.Wait()
	atomic.StoreInt32(&stop, 1)
	sort.SliceStable(lines, func(a, b int) bool {
		fa, fb := strings.Split(lines[a], "\t"), strings.Split(lines[b], "\t")
		var ca, cb, ta, tb int
		fmt.Sscanf(strings.SplitN(fa[1], ":", 2)[1], "%d", &ca)
		fmt.Sscanf(strings.SplitN(fb[1], ":", 2)[1], "%d", &cb)
		fmt.Sscanf(fa[3], "%d", &ta)
		fmt.Sscanf(fb[3], "%d", &tb)
		if ca != cb {
			return ca < cb
		}
		return ta < tb
	})
	out := bufio.NewWriter(os.Stdout)
	defer out.Flush()
	for _, l := range lines {
		fmt.Fprintln(out, l)
	}
}

// c16: observations for property C16 (textual paths and gNMI paths are one and the same)
//
// domains (one line per case, tab separated, byte strings hex encoded, "-" = empty string):
//
//	path.str    id  gpath  elementlist   text                 utils.StrPath on {Elem, Element}
//	path.rt     id  gpath  text  parsed  parent  inittext     StrPath -> SplitPath -> ParseGNMIElements (the implementation's own round trip),
//	                                                          GetParentPath(text), StrPathElem(all but the last element)
//	path.parse  id  text   tokens  parsed                     SplitPath, ParseGNMIElements on raw text
//	path.parent id  text   parent                             pathutils.GetParentPath
//	path.idx    id  text   0|1                                pathutils.CheckPathIndexIsValid
//	path.valid  id  text   0|1                                pathutils.IsPathValid
//	path.chg    id  text   del(0|1)  parsed                   values.PathValuesToGnmiChange (southbound request path)
//	path.cu     id  text   result                             a stored path read back by the real Get PROTO (createUpdate)
//	path.det    id  gpath  texts                               the distinct texts of repeated conversions of one compound-key path
//	path.unexpected id domain input what                       an observation could not be completed (panic / unforeseen answer)
//	path.e2e    id  kind prefix paths dels code resp stored get sb   real gNMI Set, its SetResponse, the stored texts, Get PROTO, southbound request
//
// gpath encoding: elements joined by ';', "." = no elements; element = name{|key=value} with
// hex fields and keys in bytewise order of the key names.
package main

import (
	"bufio"
	"context"
	"encoding/hex"
	"flag"
	"fmt"
	"math/rand"
	"os"
	"sort"
	"strings"
	"time"

	configapi "github.com/onosproject/onos-api/go/onos/config/v2"
	"github.com/onosproject/onos-config/pkg/store/v2/configuration"
	"github.com/onosproject/onos-config/pkg/utils"
	pathutils "github.com/onosproject/onos-config/pkg/utils/path"
	"github.com/onosproject/onos-config/pkg/utils/v2/values"
	"github.com/openconfig/gnmi/proto/gnmi"
	"github.com/openconfig/gnmi/proto/gnmi_ext"
	"google.golang.org/grpc/status"

	"verifharness/env"
	"verifharness/fakes"
)

var out *bufio.Writer

// ---------------------------------------------------------------- encoding --

func encElems(elems []*gnmi.PathElem) string {
	if len(elems) == 0 {
		return "."
	}
	parts := make([]string, 0, len(elems))
	for _, e := range elems {
		if e == nil {
			parts = append(parts, "NIL")
			continue
		}
		s := env.Hx(e.Name)
		ks := make([]string, 0, len(e.Key))
		for k := range e.Key {
			ks = append(ks, k)
		}
		sort.Strings(ks)
		for _, k := range ks {
			s += "|" + env.Hx(k) + "=" + env.Hx(e.Key[k])
		}
		parts = append(parts, s)
	}
	return strings.Join(parts, ";")
}

func errKind(err error) string {
	m := err.Error()
	switch {
	case strings.HasPrefix(m, "failed to find element name"):
		return "elemname"
	case strings.HasPrefix(m, "failed to find opening '['"):
		return "open"
	case strings.HasPrefix(m, "failed to find '='"):
		return "eq"
	case strings.HasPrefix(m, "failed to find key name"):
		return "keyname"
	case strings.HasPrefix(m, "failed to find ']'"):
		return "close"
	case strings.HasPrefix(m, "failed to find key value"):
		return "keyvalue"
	}
	return "other"
}

func parsed(p *gnmi.Path, err error) string {
	if err != nil {
		return "err:" + errKind(err)
	}
	return "ok:" + encElems(p.Elem)
}

// unexpected (deferred by every observation) turns a panic inside an observation - the code under test panicking, or
// an answer of a shape the observation code did not foresee (nil path, missing field) - into an observation line, so
// that no behaviour of /repo takes the harness down; the driver reports it with the input
func unexpected(id, domain, input string) {
	if r := recover(); r != nil {
		fmt.Fprintf(out, "path.unexpected\t%s\t%s\t%s\t%s\n", id, domain, input, env.Hx(fmt.Sprint(r)))
	}
}

// guarded runs f and reports a panic as the outcome "panic"
func guarded(f func() string) (res string) {
	defer func() {
		if r := recover(); r != nil {
			res = "panic"
		}
	}()
	return f()
}

// -------------------------------------------------------------- generators --

var identWords = []string{"a", "b", "cont", "list", "leaf", "name", "if-name", "x_1", "v1.2", "mod:top", "oc-if:interfaces", "interface", "config", "Z9", "_u", "A"}
var valueWords = []string{"1", "eth0", "a", "b", "10.0.0.1", "x-y_z", "*", "Z", "007", "ab", "a.b", "-", "_", "name"}
var special = []string{"/", "\\", "[", "]", "=", " ", "é", "日本", "\\\\", "\\]", "a/b", "[x]", "]=[", "\n", ":", "*", ".", "\\/", "/", "]"}

func genIdent(r *rand.Rand) string {
	w := env.Pick(r, identWords)
	if r.Intn(6) == 0 {
		w += env.Pick(r, identWords)
	}
	return w
}

// a string with escape-worthy characters sprinkled in
func genSpicy(r *rand.Rand, base []string) string {
	n := 1 + r.Intn(3)
	s := ""
	for i := 0; i < n; i++ {
		if r.Intn(2) == 0 {
			s += env.Pick(r, special)
		} else {
			s += env.Pick(r, base)
		}
	}
	return s
}

// level 0: accepted alphabet only; 1: escape-worthy characters in names and values (mostly
// round-trippable); 2: anything (empty names, '[' in names, empty keys and values, ...)
func genElem(r *rand.Rand, level int) *gnmi.PathElem {
	e := &gnmi.PathElem{}
	switch level {
	case 0:
		e.Name = genIdent(r)
	case 1:
		if r.Intn(3) == 0 {
			e.Name = strings.ReplaceAll(genSpicy(r, identWords), "[", "(")
		} else {
			e.Name = genIdent(r)
		}
	default:
		switch r.Intn(6) {
		case 0:
			e.Name = ""
		case 1, 2:
			e.Name = genSpicy(r, identWords)
		default:
			e.Name = genIdent(r)
		}
	}
	nk := 0
	switch r.Intn(10) {
	case 0, 1, 2:
		nk = 1
	case 3, 4:
		nk = 2
	case 5:
		nk = 3
	}
	if nk > 0 {
		e.Key = map[string]string{}
	} else if level == 2 && r.Intn(8) == 0 {
		e.Key = map[string]string{} // empty, non-nil map
	}
	for i := 0; i < nk; i++ {
		var k, v string
		switch level {
		case 0:
			k, v = genIdent(r), env.Pick(r, valueWords)
		case 1:
			k = genIdent(r)
			if r.Intn(5) == 0 {
				k = strings.NewReplacer("=", "-", "\\", "-").Replace(genSpicy(r, identWords))
				if r.Intn(2) == 0 {
					k = strings.ReplaceAll(k, "]", ")")
				}
			}
			if r.Intn(2) == 0 {
				v = genSpicy(r, valueWords)
			} else {
				v = env.Pick(r, valueWords)
			}
		default:
			k, v = genSpicy(r, identWords), genSpicy(r, valueWords)
			if r.Intn(8) == 0 {
				k = ""
			}
			if r.Intn(8) == 0 {
				v = ""
			}
		}
		e.Key[k] = v
	}
	return e
}

func genPath(r *rand.Rand, level int) []*gnmi.PathElem {
	n := r.Intn(5)
	if level < 2 && n == 0 && r.Intn(4) != 0 {
		n = 1 + r.Intn(3)
	}
	p := make([]*gnmi.PathElem, 0, n)
	for i := 0; i < n; i++ {
		p = append(p, genElem(r, level))
	}
	return p
}

var rawAlphabet = []string{"a", "b", "/", "\\", "[", "]", "=", "k", "é", "1", "/", "[", "]", "="}

func genRaw(r *rand.Rand) string {
	switch r.Intn(4) {
	case 0: // random soup
		n := r.Intn(14)
		s := ""
		for i := 0; i < n; i++ {
			s += env.Pick(r, rawAlphabet)
		}
		return s
	case 1: // a rendered path with a small mutation
		s := utils.StrPathElem(genPath(r, r.Intn(3)))
		if len(s) > 0 {
			i := r.Intn(len(s))
			switch r.Intn(3) {
			case 0:
				s = s[:i] + s[i+1:]
			case 1:
				s = s[:i] + env.Pick(r, rawAlphabet) + s[i:]
			default:
				s = s[:i] + env.Pick(r, rawAlphabet) + s[i+1:]
			}
		}
		return s
	case 2: // well-formed looking text
		n := 1 + r.Intn(3)
		s := ""
		for i := 0; i < n; i++ {
			s += "/" + genIdent(r)
			for j := r.Intn(3); j > 0; j-- {
				s += "[" + genIdent(r) + "=" + genSpicy(r, valueWords) + "]"
			}
		}
		if r.Intn(6) == 0 {
			s += "/"
		}
		if r.Intn(8) == 0 {
			s = s[1:]
		}
		return s
	default:
		return utils.StrPathElem(genPath(r, r.Intn(3)))
	}
}

// every string over the alphabet up to the given length
func allStrings(alpha []string, maxLen int) []string {
	res := []string{""}
	layer := []string{""}
	for l := 0; l < maxLen; l++ {
		next := []string{}
		for _, s := range layer {
			for _, a := range alpha {
				next = append(next, s+a)
			}
		}
		res = append(res, next...)
		layer = next
	}
	return res
}

// ------------------------------------------------------------ observations --

func obsStr(id string, elems []*gnmi.PathElem, element []string) {
	defer unexpected(id, "path.str", encElems(elems))
	p := &gnmi.Path{Elem: elems, Element: element}
	fmt.Fprintf(out, "path.str\t%s\t%s\t%s\t%s\n", id, encElems(elems), env.HxList(element), env.Hx(utils.StrPath(p)))
}

// compound reports whether some element has two or more keys
func compound(elems []*gnmi.PathElem) bool {
	for _, e := range elems {
		if e != nil && len(e.Key) >= 2 {
			return true
		}
	}
	return false
}

// the text of one gNMI path must be the same at every conversion: convert a compound-key path several times
// (fresh map copies too, so that neither insertion order nor map identity matters) and report the distinct texts
func obsDet(id string, elems []*gnmi.PathElem) {
	defer unexpected(id, "path.det", encElems(elems))
	if !compound(elems) {
		return
	}
	distinct := []string{}
	add := func(t string) {
		for _, d := range distinct {
			if d == t {
				return
			}
		}
		distinct = append(distinct, t)
	}
	for round := 0; round < 8; round++ {
		cp := make([]*gnmi.PathElem, len(elems))
		for i, e := range elems {
			ks := make([]string, 0, len(e.Key))
			for k := range e.Key {
				ks = append(ks, k)
			}
			sort.Strings(ks)
			if round%2 == 1 { // insert in descending order
				for a, b := 0, len(ks)-1; a < b; a, b = a+1, b-1 {
					ks[a], ks[b] = ks[b], ks[a]
				}
			}
			ne := &gnmi.PathElem{Name: e.Name}
			if e.Key != nil {
				ne.Key = map[string]string{}
			}
			for _, k := range ks {
				ne.Key[k] = e.Key[k]
			}
			cp[i] = ne
		}
		add(utils.StrPath(&gnmi.Path{Elem: cp}))
		add(utils.StrPath(&gnmi.Path{Elem: elems}))
		add(utils.StrPathElem(elems))
	}
	fmt.Fprintf(out, "path.det\t%s\t%s\t%s\n", id, encElems(elems), env.HxList(distinct))
}

func obsRT(id string, elems []*gnmi.PathElem) {
	defer unexpected(id, "path.rt", encElems(elems))
	text := utils.StrPath(&gnmi.Path{Elem: elems})
	res := guarded(func() string { return parsed(utils.ParseGNMIElements(utils.SplitPath(text))) })
	// the parent of the text, and the text of the path without its last element (both by the implementation)
	parent, init := "-", "-"
	if len(elems) > 0 {
		parent = env.Hx(pathutils.GetParentPath(text))
		init = env.Hx(utils.StrPathElem(elems[:len(elems)-1]))
	}
	fmt.Fprintf(out, "path.rt\t%s\t%s\t%s\t%s\t%s\t%s\n", id, encElems(elems), env.Hx(text), res, parent, init)
}

func obsParse(id string, text string) {
	defer unexpected(id, "path.parse", env.Hx(text))
	toks := utils.SplitPath(text)
	res := guarded(func() string { return parsed(utils.ParseGNMIElements(toks)) })
	fmt.Fprintf(out, "path.parse\t%s\t%s\t%s\t%s\n", id, env.Hx(text), env.HxList(toks), res)
}

func obsParent(id string, text string) {
	defer unexpected(id, "path.parent", env.Hx(text))
	fmt.Fprintf(out, "path.parent\t%s\t%s\t%s\n", id, env.Hx(text), env.Hx(pathutils.GetParentPath(text)))
}

func b01(ok bool) string {
	if ok {
		return "1"
	}
	return "0"
}

func obsIdx(id string, text string) {
	defer unexpected(id, "path.idx", env.Hx(text))
	fmt.Fprintf(out, "path.idx\t%s\t%s\t%s\n", id, env.Hx(text), b01(pathutils.CheckPathIndexIsValid(text) == nil))
}

func obsValid(id string, text string) {
	defer unexpected(id, "path.valid", env.Hx(text))
	fmt.Fprintf(out, "path.valid\t%s\t%s\t%s\n", id, env.Hx(text), b01(pathutils.IsPathValid(text) == nil))
}

func strVal(s string) configapi.TypedValue {
	return configapi.TypedValue{Bytes: []byte(s), Type: configapi.ValueType_STRING}
}

func obsChg(id string, text string, del bool) {
	defer unexpected(id, "path.chg", env.Hx(text))
	res := guarded(func() string {
		req, err := values.PathValuesToGnmiChange([]*configapi.PathValue{{Path: text, Value: strVal("v"), Deleted: del}}, "t")
		if err != nil {
			return "err:" + errKind(err)
		}
		if del {
			if len(req.Delete) != 1 || len(req.Update) != 0 {
				return "shape"
			}
			return "ok:" + encElems(req.Delete[0].Elem)
		}
		if len(req.Update) != 1 || len(req.Delete) != 0 {
			return "shape"
		}
		return "ok:" + encElems(req.Update[0].Path.Elem)
	})
	fmt.Fprintf(out, "path.chg\t%s\t%s\t%s\t%s\n", id, env.Hx(text), b01(del), res)
}

// obsChgBatch: several stored values - siblings beneath one parent, updates and deletes mixed - go through ONE call of
// PathValuesToGnmiChange, as they do when a proposal is applied; every path of the request is reported as its own
// path.chg line against the stored text it came from (positions: updates and deletes each keep the order of the values)
func obsChgBatch(id string, texts []string, dels []bool) {
	defer unexpected(id, "path.chg", "batch")
	pvs := []*configapi.PathValue{}
	for i, t := range texts {
		pvs = append(pvs, &configapi.PathValue{Path: t, Value: strVal(fmt.Sprintf("v%d", i)), Deleted: dels[i]})
	}
	var req *gnmi.SetRequest
	var err error
	res := guarded(func() string {
		req, err = values.PathValuesToGnmiChange(pvs, "t")
		if err != nil {
			return "err:" + errKind(err)
		}
		return "ok"
	})
	nu, nd := 0, 0
	for i, t := range texts {
		r := res
		if res == "ok" {
			if dels[i] {
				if nd < len(req.Delete) {
					r = "ok:" + encElems(req.Delete[nd].Elem)
				} else {
					r = "shape"
				}
				nd++
			} else {
				if nu < len(req.Update) {
					r = "ok:" + encElems(req.Update[nu].Path.Elem)
				} else {
					r = "shape"
				}
				nu++
			}
		}
		if strings.HasPrefix(res, "err") {
			continue // one bad text fails the whole batch: the single-path observations cover the errors
		}
		fmt.Fprintf(out, "path.chg\t%s.%d\t%s\t%s\t%s\n", id, i, env.Hx(t), b01(dels[i]), r)
	}
}

const (
	modelName    = "devicesim"
	modelVersion = "1.0.0"
)

var cuCount int

// a stored path text read back through the real Get handler with PROTO encoding
func obsCU(e *env.Env, id string, text string) {
	defer unexpected(id, "path.cu", env.Hx(text))
	cuCount++
	target := fmt.Sprintf("cu%d", cuCount)
	e.Topo.AddTarget(target, modelName, modelVersion, true, false)
	cfg := &configapi.Configuration{
		ID:       configuration.NewID(configapi.TargetID(target), modelName, modelVersion),
		TargetID: configapi.TargetID(target),
		Values:   map[string]*configapi.PathValue{text: {Path: text, Value: strVal("v"), Index: 1}},
	}
	if err := e.Cfgs.Create(context.Background(), cfg); err != nil {
		fmt.Fprintf(out, "path.cu\t%s\t%s\tunexpected:store-create:%s\n", id, env.Hx(text), status.Code(err).String())
		return
	}
	res := guarded(func() string {
		resp, err := e.Gnmi.Get(context.Background(), &gnmi.GetRequest{Path: []*gnmi.Path{{Target: target}}, Encoding: gnmi.Encoding_PROTO})
		if err != nil {
			return "err:" + status.Code(err).String()
		}
		if len(resp.Notification) != 1 || len(resp.Notification[0].Update) != 1 {
			return "shape"
		}
		u := resp.Notification[0].Update[0]
		if u.Val == nil {
			return "nomatch"
		}
		return "ok:" + encElems(u.Path.Elem)
	})
	fmt.Fprintf(out, "path.cu\t%s\t%s\t%s\n", id, env.Hx(text), res)
}

// ---------------------------------------------------------------- end to end --

func asyncExt() *gnmi_ext.Extension {
	b, _ := (&configapi.TransactionStrategy{Synchronicity: configapi.TransactionStrategy_ASYNCHRONOUS}).Marshal()
	return &gnmi_ext.Extension{Ext: &gnmi_ext.Extension_RegisteredExt{RegisteredExt: &gnmi_ext.RegisteredExtension{
		Id: configapi.TransactionStrategyExtensionID, Msg: b}}}
}

// the schema of the fake model plugin: (path pattern, is key, attribute)
type schemaLeaf struct {
	elems []string   // element names
	keys  [][]string // key names per element
	leaf  string
}

var schema = []schemaLeaf{
	{[]string{"cont"}, [][]string{nil}, "leaf"},
	{[]string{"cont", "list"}, [][]string{nil, {"name"}}, "value"},
	{[]string{"cont", "list"}, [][]string{nil, {"name"}}, "name"},
	{[]string{"mod:top", "entry"}, [][]string{nil, {"id", "zone"}}, "descr"},
	{[]string{"mod:top", "entry"}, [][]string{nil, {"id", "zone"}}, "id"},
	{[]string{"mod:top", "entry"}, [][]string{nil, {"id", "zone"}}, "zone"},
	{[]string{"cont", "list", "sub"}, [][]string{nil, {"name"}, {"idx"}}, "val"},
	{[]string{"cont", "list", "sub"}, [][]string{nil, {"name"}, {"idx"}}, "idx"},
	{[]string{"oc-if:interfaces", "interface"}, [][]string{nil, {"name"}}, "name"},
	{[]string{"mod:top", "triple"}, [][]string{nil, {"x", "y", "z"}}, "v"},
	{[]string{"mod:top", "triple"}, [][]string{nil, {"x", "y", "z"}}, "x"},
	{[]string{"mod:top", "triple"}, [][]string{nil, {"x", "y", "z"}}, "y"},
	{[]string{"mod:top", "triple"}, [][]string{nil, {"x", "y", "z"}}, "z"},
	{[]string{"mod:top", "triple", "inner"}, [][]string{nil, {"x", "y", "z"}, {"a", "b"}}, "w"},
	{[]string{"mod:top", "triple", "inner"}, [][]string{nil, {"x", "y", "z"}, {"a", "b"}}, "b"},
	{[]string{"oc-if:interfaces", "interface", "config"}, [][]string{nil, {"name"}, nil}, "mtu"},
}

type rwEntry struct {
	path  string
	isKey bool
	attr  string
}

func schemaRW() []rwEntry {
	res := []rwEntry{}
	for _, s := range schema {
		p := ""
		for i, n := range s.elems {
			p += "/" + n
			ks := append([]string{}, s.keys[i]...)
			sort.Strings(ks)
			for _, k := range ks {
				p += "[" + k + "=*]"
			}
		}
		en := rwEntry{path: p + "/" + s.leaf}
		for _, k := range s.keys[len(s.elems)-1] {
			if k == s.leaf {
				en.isKey, en.attr = true, k
			}
		}
		res = append(res, en)
	}
	return res
}

var dirtyValid = []string{"a/b", "x/", "/", "a/b/c", "a=b", "a:b", "a[b", "1/2"}
var dirtyValues = []string{"a/b", "/", "x/", "a\\b", "a]b", "a[b", "a=b", "a b", "é", "", "a/b/c", "\\", "]"}

// one client path over the schema; dirty = one key value outside the accepted alphabet
func genClientPath(r *rand.Rand, dirty bool) (elems []*gnmi.PathElem, isKeyLeaf string, keyVal string) {
	s := schema[r.Intn(len(schema))]
	if dirty {
		for len(s.keys) < 2 || (len(s.keys[1]) == 0) {
			s = schema[r.Intn(len(schema))]
		}
	}
	type slot struct{ e, k int }
	slots := []slot{}
	for i, n := range s.elems {
		pe := &gnmi.PathElem{Name: n}
		if len(s.keys[i]) > 0 {
			pe.Key = map[string]string{}
			for ki, k := range s.keys[i] {
				pe.Key[k] = env.Pick(r, valueWords)
				for pe.Key[k] == "*" { // '*' passes the index alphabet but not IsPathValid
					pe.Key[k] = env.Pick(r, valueWords)
				}
				slots = append(slots, slot{i, ki})
			}
		}
		elems = append(elems, pe)
	}
	if dirty {
		// mostly the LAST index of the path and mostly values that pass IsPathValid (only the index alphabet refuses them)
		sl := slots[len(slots)-1]
		if r.Intn(3) == 0 {
			sl = slots[r.Intn(len(slots))]
		}
		v := env.Pick(r, dirtyValues)
		if r.Intn(3) != 0 {
			v = env.Pick(r, dirtyValid)
		}
		elems[sl.e].Key[s.keys[sl.e][sl.k]] = v
	}
	elems = append(elems, &gnmi.PathElem{Name: s.leaf})
	// a key leaf must carry the value of its own list entry
	last := len(s.elems) - 1
	for _, k := range s.keys[last] {
		if k == s.leaf {
			return elems, k, elems[last].Key[k]
		}
	}
	return elems, "", ""
}

func encPaths(ps [][]*gnmi.PathElem) string {
	if len(ps) == 0 {
		return "."
	}
	l := make([]string, 0, len(ps))
	for _, p := range ps {
		l = append(l, encElems(p))
	}
	sort.Strings(l)
	return strings.Join(l, "+")
}

var e2eCount int

func obsE2E(e *env.Env, r *rand.Rand, id string, kind string) {
	defer unexpected(id, "path.e2e", kind)
	e2eCount++
	target := fmt.Sprintf("e%d", e2eCount)
	e.Topo.AddTarget(target, modelName, modelVersion, true, false)
	var prefix []*gnmi.PathElem
	nUpd := 1 + r.Intn(3)
	usePrefix := r.Intn(2) == 0
	req := &gnmi.SetRequest{Extension: []*gnmi_ext.Extension{asyncExt()}}
	client := [][]*gnmi.PathElem{}
	dels := [][]*gnmi.PathElem{}
	seen := map[string]bool{}
	for i := 0; i < nUpd; i++ {
		dirty := kind == "dirty" && i == 0
		elems, _, keyVal := genClientPath(r, dirty)
		for try := 0; i > 0 && prefix != nil && try < 12; try++ {
			// later paths of the request: look for one under the prefix, re-using the prefix' own key values
			if len(elems) > len(prefix) {
				cand := append(append([]*gnmi.PathElem{}, prefix...), elems[len(prefix):]...)
				ok := true
				for j := range prefix {
					if prefix[j].Name != elems[j].Name {
						ok = false
					}
				}
				if ok {
					if keyVal != "" && len(elems)-2 < len(prefix) {
						keyVal = cand[len(cand)-2].Key[cand[len(cand)-1].Name]
					}
					elems = cand
					break
				}
			}
			elems, _, keyVal = genClientPath(r, false)
		}
		isDel := kind == "delete" && i == 0
		if kind == "delete" && i == 0 {
			// delete of a list entry (the path ends in the keyed element), possibly with an unusual key value
			for len(elems) > 1 && len(elems[len(elems)-1].Key) == 0 {
				elems = elems[:len(elems)-1]
			}
			if len(elems[len(elems)-1].Key) == 0 {
				isDel = false
				elems, _, keyVal = genClientPath(r, false)
			} else if r.Intn(2) == 0 {
				last := elems[len(elems)-1]
				ks := []string{}
				for k := range last.Key {
					ks = append(ks, k)
				}
				sort.Strings(ks)
				k := ks[r.Intn(len(ks))]
				old := last.Key[k]
				last.Key[k] = env.Pick(r, dirtyValues)
				// a delete whose text fails IsPathValid puts a nil PathValue into the transaction (computeChange drops
				// NewChangeValue's error) and the transaction controller then dies on it, taking the process down:
				// reported to C12; not generated here
				if pathutils.IsPathValid(utils.StrPathElem(elems)) != nil {
					last.Key[k] = old
				}
			}
		}
		if i == 0 && usePrefix && len(elems) > 1 {
			j := 1 + r.Intn(len(elems)-1)
			prefix = elems[:j]
		}
		full := elems
		rel := elems
		if prefix != nil {
			// every path of the request lives under the prefix
			if len(elems) < len(prefix) || encElems(elems[:len(prefix)]) != encElems(prefix) {
				continue
			}
			rel = elems[len(prefix):]
			if len(rel) == 0 {
				continue
			}
		}
		txt := encElems(full) // the harness' own canonical form: bookkeeping must not depend on the code under test
		if seen[txt] {
			continue
		}
		// an update below a path deleted in the same request is another property's subject (C03/C05: the outcome
		// depends on the order in which the change is merged); keep the requests free of such overlaps
		overlap := false
		for _, d := range dels {
			if len(full) >= len(d) && encElems(full[:len(d)]) == encElems(d) {
				overlap = true
			}
		}
		if overlap {
			continue
		}
		seen[txt] = true
		if isDel {
			dels = append(dels, full)
			req.Delete = append(req.Delete, &gnmi.Path{Elem: rel})
			continue
		}
		client = append(client, full)
		val := fmt.Sprintf("v%d", i)
		if keyVal != "" {
			val = keyVal
		}
		req.Update = append(req.Update, &gnmi.Update{Path: &gnmi.Path{Elem: rel},
			Val: &gnmi.TypedValue{Value: &gnmi.TypedValue_StringVal{StringVal: val}}})
	}
	req.Prefix = &gnmi.Path{Target: target, Elem: prefix}
	for n, cp := range append(append([][]*gnmi.PathElem{}, client...), dels...) {
		obsDet(fmt.Sprintf("%s.p%d", id, n), cp)
	}

	ctx, cancel := context.WithTimeout(context.Background(), 20*time.Second)
	defer cancel()
	code, respPaths := "OK", "."
	resp, err := func() (resp *gnmi.SetResponse, err error) {
		defer func() {
			if rec := recover(); rec != nil {
				err = fmt.Errorf("panic")
				code = "PANIC"
			}
		}()
		return e.Gnmi.Set(ctx, req)
	}()
	if err != nil {
		if code != "PANIC" {
			code = status.Code(err).String()
		}
	} else {
		ps, ds := [][]*gnmi.PathElem{}, [][]*gnmi.PathElem{}
		for _, ur := range resp.Response {
			if ur.Op == gnmi.UpdateResult_DELETE {
				ds = append(ds, ur.Path.Elem)
			} else {
				ps = append(ps, ur.Path.Elem)
			}
		}
		respPaths = encPaths(ps) + "!" + encPaths(ds)
	}
	stored, getPaths, sbPaths := ".", ".", "."
	{
		// the stored texts (committed values, tombstones included) - also after a Set that was answered with an error
		cfg, gerr := e.Cfgs.Get(ctx, configuration.NewID(configapi.TargetID(target), modelName, modelVersion))
		if gerr != nil {
			if err == nil {
				stored = "ERROR"
			}
		} else {
			texts := []string{}
			pvs := []*configapi.PathValue{}
			for p, pv := range cfg.Values {
				mark := "u"
				if pv.Deleted {
					mark = "d"
				}
				texts = append(texts, mark+env.Hx(p))
				pvs = append(pvs, pv)
			}
			sort.Strings(texts)
			stored = strings.Join(texts, ",")
			if len(texts) == 0 {
				stored = "."
			}
			// what the proposal controller would send to the device for these values
			sbPaths = guarded(func() string {
				sreq, serr := values.PathValuesToGnmiChange(pvs, configapi.TargetID(target))
				if serr != nil {
					return "err"
				}
				ups, ds := [][]*gnmi.PathElem{}, [][]*gnmi.PathElem{}
				for _, u := range sreq.Update {
					ups = append(ups, u.Path.Elem)
				}
				for _, d := range sreq.Delete {
					ds = append(ds, d.Elem)
				}
				return encPaths(ups) + "!" + encPaths(ds)
			})
		}
	}
	if err == nil {
		getPaths = guarded(func() string {
			gresp, gerr := e.Gnmi.Get(ctx, &gnmi.GetRequest{Path: []*gnmi.Path{{Target: target}}, Encoding: gnmi.Encoding_PROTO})
			if gerr != nil {
				return "err:" + status.Code(gerr).String()
			}
			ps := [][]*gnmi.PathElem{}
			for _, n := range gresp.Notification {
				for _, u := range n.Update {
					if u.Val != nil {
						ps = append(ps, u.Path.Elem)
					}
				}
			}
			return encPaths(ps)
		})
	}
	fmt.Fprintf(out, "path.e2e\t%s\t%s\t%s\t%s\t%s\t%s\t%s\t%s\t%s\t%s\n", id, kind, encElems(prefix), encPaths(client), encPaths(dels),
		code, respPaths, stored, getPaths, sbPaths)
}

// --------------------------------------------------------------------- main --

func decodeElems(s string) []*gnmi.PathElem {
	if s == "." {
		return nil
	}
	res := []*gnmi.PathElem{}
	for _, es := range strings.Split(s, ";") {
		f := strings.Split(es, "|")
		e := &gnmi.PathElem{Name: unhx(f[0])}
		for _, kv := range f[1:] {
			p := strings.SplitN(kv, "=", 2)
			if e.Key == nil {
				e.Key = map[string]string{}
			}
			e.Key[unhx(p[0])] = unhx(p[1])
		}
		res = append(res, e)
	}
	return res
}

func unhx(s string) string {
	if s == "-" {
		return ""
	}
	b, err := hex.DecodeString(s)
	if err != nil {
		panic(err)
	}
	return string(b)
}

func main() {
	seed := flag.Int64("seed", 1, "")
	nPure := flag.Int("pure", 3000, "generated gpaths (per level) and raw strings")
	exhaust := flag.Int("exhaust", 2, "exhaustive alphabet strings up to this length")
	nCU := flag.Int("cu", 150, "")
	nE2E := flag.Int("e2e", 120, "")
	corpus := flag.String("corpus", "", "corpus file: lines `gpath <enc>` or `text <hex>`")
	flag.Parse()
	env.Quiet()
	r := rand.New(rand.NewSource(*seed))
	out = bufio.NewWriterSize(os.Stdout, 1<<20)
	defer out.Flush()

	plugin := &fakes.PluginClient{Name: modelName, Version: modelVersion}
	for _, en := range schemaRW() {
		plugin.RW = append(plugin.RW, fakes.RWPath(en.path, configapi.ValueType_STRING, en.isKey, en.attr))
	}
	e := env.New(0, plugin)
	e.StartControllers(false)
	defer e.StopControllers()

	allObs := func(id string, elems []*gnmi.PathElem) {
		obsDet(id, elems)
		obsStr(id, elems, nil)
		obsRT(id, elems)
		text := utils.StrPathElem(elems)
		obsParent(id, text)
		obsChg(id, text, false)
	}
	textObs := func(id string, text string) {
		obsParse(id, text)
		obsParent(id, text)
		obsIdx(id, text)
		obsValid(id, text)
		obsChg(id, text, len(text)%2 == 0)
	}

	// batches: 2-4 siblings beneath a common parent of 0..8 elements in one southbound request
	for i := 0; i < 160; i++ {
		depth := i % 9
		parent := []*gnmi.PathElem{}
		for len(parent) < depth {
			lv := 0
			if r.Intn(5) == 0 {
				lv = 1
			}
			parent = append(parent, genElem(r, lv))
		}
		n := 2 + r.Intn(3)
		texts, dels := []string{}, []bool{}
		for j := 0; j < n; j++ {
			leaf := append(append([]*gnmi.PathElem{}, parent...), &gnmi.PathElem{Name: fmt.Sprintf("leaf%d", j)})
			if r.Intn(4) == 0 {
				leaf = append(leaf, genElem(r, 1))
			}
			texts = append(texts, utils.StrPathElem(leaf))
			dels = append(dels, r.Intn(4) == 0)
		}
		obsChgBatch(fmt.Sprintf("%d:b%d", *seed, i), texts, dels)
	}

	// corpus first
	if *corpus != "" {
		if b, err := os.ReadFile(*corpus); err == nil {
			for i, ln := range strings.Split(string(b), "\n") {
				f := strings.Split(strings.TrimSpace(ln), "\t")
				if len(f) != 2 {
					continue
				}
				id := fmt.Sprintf("corpus:%d", i)
				switch f[0] {
				case "gpath":
					allObs(id, decodeElems(f[1]))
				case "text":
					textObs(id, unhx(f[1]))
					obsCU(e, id, unhx(f[1]))
				}
			}
		}
	}

	// exhaustive small scope over the alphabet of special characters
	alpha := []string{"a", "/", "\\", "[", "]", "="}
	strs := allStrings(alpha, *exhaust)
	n := 0
	for _, s := range strs {
		n++
		allObs(fmt.Sprintf("%d:xn%d", *seed, n), []*gnmi.PathElem{{Name: s}})
		textObs(fmt.Sprintf("%d:xt%d", *seed, n), s)
		obsParse(fmt.Sprintf("%d:xs%d", *seed, n), "/"+s)
		for _, s2 := range strs {
			n++
			allObs(fmt.Sprintf("%d:xp%d", *seed, n), []*gnmi.PathElem{{Name: s}, {Name: s2}})
			allObs(fmt.Sprintf("%d:xk%d", *seed, n), []*gnmi.PathElem{{Name: "a", Key: map[string]string{s: s2}}})
			if len(s) <= 1 && len(s2) <= 1 {
				allObs(fmt.Sprintf("%d:xq%d", *seed, n), []*gnmi.PathElem{{Name: "a", Key: map[string]string{"k]": "v", s: s2}}, {Name: "b"}})
			}
		}
	}

	// generated gnmi paths at three levels of wildness
	for i := 0; i < *nPure; i++ {
		for level := 0; level < 3; level++ {
			allObs(fmt.Sprintf("%d:g%d.%d", *seed, level, i), genPath(r, level))
		}
		if i%10 == 0 { // the v0.3 Element form and the nil/empty cases of StrPath
			el := []string{}
			for j := r.Intn(4); j > 0; j-- {
				el = append(el, genSpicy(r, identWords))
			}
			var elems []*gnmi.PathElem
			if r.Intn(4) == 0 {
				elems = genPath(r, 1)
			}
			obsStr(fmt.Sprintf("%d:v03.%d", *seed, i), elems, el)
		}
	}
	// raw strings, malformed included
	for i := 0; i < *nPure; i++ {
		textObs(fmt.Sprintf("%d:r%d", *seed, i), genRaw(r))
	}
	// index values
	for i := 0; i < *nPure/4; i++ {
		obsIdx(fmt.Sprintf("%d:i%d", *seed, i), genSpicy(r, valueWords))
		obsIdx(fmt.Sprintf("%d:j%d", *seed, i), env.Pick(r, valueWords)+env.Pick(r, valueWords))
	}

	// stored texts read back by Get PROTO
	for i := 0; i < *nCU; i++ {
		var text string
		switch r.Intn(4) {
		case 0:
			text = genRaw(r)
		case 1:
			text = utils.StrPathElem(genPath(r, 1))
		default:
			text = utils.StrPathElem(genPath(r, 0))
		}
		if text == "" || strings.ContainsAny(text, "\n") {
			text = "/a"
		}
		obsCU(e, fmt.Sprintf("%d:c%d", *seed, i), text)
	}

	// end to end
	for i := 0; i < *nE2E; i++ {
		kind := "clean"
		switch i % 6 {
		case 3:
			kind = "dirty"
		case 5:
			kind = "delete"
		}
		obsE2E(e, r, fmt.Sprintf("%d:s%d", *seed, i), kind)
	}
}

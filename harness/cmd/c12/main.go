// c12: observations for property C12 (no request can crash the server).
//
// Every northbound entry point of /repo (gNMI Capabilities / Get / Set / Subscribe, admin
// RollbackTransaction / LeafSelectionQuery / ListRegisteredModels / transaction and configuration
// services) is called in-process, under recover(), on generated requests that were first marshalled
// and unmarshalled through the real protobuf codecs; the real stores and controllers run underneath.
// One line per case: domain, id, wire bytes (hex), the decoded request in the driver's text form, the
// observed outcome class (code:<grpc code> or panic:<text>).
//
// The work is done in a child process: a panic on a goroutine the handler does not own (a
// controller crashing on what a request stored) cannot be recovered and kills the process - the
// parent then reports the request that was in flight as a c12.crash line.
package main

import (
	"bufio"
	"bytes"
	"context"
	"encoding/hex"
	"errors"
	"flag"
	"fmt"
	"math"
	"math/rand"
	"os"
	"os/exec"
	"sort"
	"strings"
	"time"

	gogoproto "github.com/golang/protobuf/proto" // the codec grpc-go uses for these (legacy) message types
	adminapi "github.com/onosproject/onos-api/go/onos/config/admin"
	configapi "github.com/onosproject/onos-api/go/onos/config/v2"
	"github.com/onosproject/onos-config/pkg/store/v2/configuration"
	"github.com/openconfig/gnmi/proto/gnmi"
	"github.com/openconfig/gnmi/proto/gnmi_ext"
	"google.golang.org/grpc/metadata"
	"google.golang.org/grpc/status"
	"google.golang.org/protobuf/proto"

	"verifharness/env"
	"verifharness/fakes"
)

func main() {
	seed := flag.Int64("seed", 1, "")
	n := flag.Int("n", 300, "cases per stream")
	child := flag.Bool("child", false, "")
	corpus := flag.String("corpus", "", "file of <kind>\\t<wire hex> lines run first")
	limit := flag.Int("limit", 0, "GNMI_SET_SIZE_LIMIT of the server")
	flag.Parse()
	if !*child {
		os.Exit(parent())
	}
	runChild(*seed, *n, *corpus, *limit)
}

// ------------------------------------------------------------------ parent
func parent() int {
	// a Go panic always leaves its report on stderr; a child that disappears without one was killed from outside
	// (out-of-memory killer, ...): that is no evidence about the request in flight, the run is repeated
	for attempt := 0; attempt < 3; attempt++ {
		lines, crashed, genuine := runOnce()
		if crashed && !genuine {
			fmt.Fprintf(os.Stderr, "c12: child process vanished without a panic report (attempt %d), repeating\n", attempt+1)
			continue
		}
		out := bufio.NewWriterSize(os.Stdout, 1<<20)
		for _, ln := range lines {
			fmt.Fprintln(out, ln)
		}
		out.Flush()
		return 0
	}
	fmt.Fprintln(os.Stderr, "c12: the child process was killed from outside three times in a row")
	return 3
}

func runOnce() (lines []string, crashed bool, genuine bool) {
	cmd := exec.Command(os.Args[0], append(append([]string{}, os.Args[1:]...), "-child")...)
	var stderr bytes.Buffer
	cmd.Stderr = &stderr
	pipe, err := cmd.StdoutPipe()
	if err != nil {
		fmt.Fprintln(os.Stderr, err)
		os.Exit(3)
	}
	if err := cmd.Start(); err != nil {
		fmt.Fprintln(os.Stderr, err)
		os.Exit(3)
	}
	sc := bufio.NewScanner(pipe)
	sc.Buffer(make([]byte, 1<<20), 1<<28)
	last := ""
	done := false
	for sc.Scan() {
		ln := sc.Text()
		if strings.HasPrefix(ln, "c12.begin\t") {
			last = ln
			continue
		}
		if ln == "c12.done" {
			done = true
			continue
		}
		if !strings.HasPrefix(ln, "c12.") { // stray log output of the libraries
			continue
		}
		last = ""
		lines = append(lines, ln)
	}
	werr := cmd.Wait()
	if werr == nil && done {
		return lines, false, false
	}
	tail := stderr.String()
	genuine = strings.Contains(tail, "panic:") || strings.Contains(tail, "fatal error:") || strings.Contains(tail, "goroutine ")
	if i := strings.Index(tail, "panic:"); i >= 0 {
		tail = tail[i:]
	}
	if len(tail) > 1500 {
		tail = tail[:1500]
	}
	f := strings.Split(last, "\t")
	if len(f) >= 5 {
		lines = append(lines, fmt.Sprintf("c12.crash\t%s\t%s\t%s\t%s\t%s", f[1], f[2], f[3], f[4], hx(tail)))
	} else {
		lines = append(lines, fmt.Sprintf("c12.crash\t?\tnone\t-\t-\t%s", hx(tail)))
	}
	return lines, true, genuine
}

// ------------------------------------------------------------------ the fake model plugin
var rwModel = []struct {
	path  string
	vt    configapi.ValueType
	key   bool
	attr  string
	opts  []uint64
	only1 bool // not in version 2.0.0
}{
	{"/foo", configapi.ValueType_STRING, false, "", nil, false},
	{"/bar", configapi.ValueType_STRING, false, "", nil, true},
	{"/cont/leaf", configapi.ValueType_INT, false, "", []uint64{64}, true},
	{"/cont/u", configapi.ValueType_UINT, false, "", []uint64{64}, true},
	{"/cont/bits", configapi.ValueType_BYTES, false, "", nil, true},
	{"/cont/dec", configapi.ValueType_DECIMAL, false, "", []uint64{2}, true},
	{"/cont/flt", configapi.ValueType_FLOAT, false, "", nil, true},
	{"/cont/flag", configapi.ValueType_BOOL, false, "", nil, true},
	{"/cont/ll", configapi.ValueType_LEAFLIST_STRING, false, "", nil, true},
	{"/cont/lli", configapi.ValueType_LEAFLIST_INT, false, "", []uint64{64}, true},
	{"/cont/llu", configapi.ValueType_LEAFLIST_UINT, false, "", []uint64{64}, true},
	{"/cont/llb", configapi.ValueType_LEAFLIST_BOOL, false, "", nil, true},
	{"/cont/lld", configapi.ValueType_LEAFLIST_DECIMAL, false, "", []uint64{1}, true},
	{"/cont/llf", configapi.ValueType_LEAFLIST_FLOAT, false, "", nil, true},
	{"/cont/lly", configapi.ValueType_LEAFLIST_BYTES, false, "", nil, true},
	// the same model types with and without type options (the width / precision the conversion looks up)
	{"/cont/u0", configapi.ValueType_UINT, false, "", nil, true},
	{"/cont/i0", configapi.ValueType_INT, false, "", nil, true},
	{"/cont/sopt", configapi.ValueType_STRING, false, "", []uint64{8}, true},
	{"/cont/bopt", configapi.ValueType_BOOL, false, "", []uint64{1}, true},
	{"/cont/yopt", configapi.ValueType_BYTES, false, "", []uint64{4}, true},
	{"/list[k=*]/k", configapi.ValueType_STRING, true, "k", nil, false},
	{"/list[k=*]/v", configapi.ValueType_STRING, false, "", nil, false},
	{"/list[k=*]/sub[j=*]/j", configapi.ValueType_STRING, true, "j", nil, true},
	{"/list[k=*]/sub[j=*]/w", configapi.ValueType_UINT, false, "", []uint64{32}, true},
	{"/multi[a=*][b=*]/a", configapi.ValueType_STRING, true, "a", nil, true},
	{"/multi[a=*][b=*]/b", configapi.ValueType_STRING, true, "b", nil, true},
	{"/multi[a=*][b=*]/val", configapi.ValueType_STRING, false, "", nil, true},
}

func mkPlugin(version string) *fakes.PluginClient {
	p := &fakes.PluginClient{Name: "devicesim", Version: version, PathValues: fakePathValues}
	for _, m := range rwModel {
		if version != "1.0.0" && m.only1 {
			continue
		}
		p.RW = append(p.RW, fakes.RWPath(m.path, m.vt, m.key, m.attr, m.opts...))
	}
	return p
}

func encEnv(limit int) string {
	tg := []string{}
	for _, t := range [][3]string{{"t1", "devicesim", "1.0.0"}, {"t2", "devicesim", "1.0.0"}, {"t3", "nomodel", "9.9"}, {"t4", "devicesim", "1.0.0"}} {
		tg = append(tg, hx(t[0])+":"+hx(t[1])+":"+hx(t[2]))
	}
	pls := []string{}
	for _, v := range []string{"1.0.0", "2.0.0"} {
		rw := []string{}
		for _, m := range rwModel {
			if v != "1.0.0" && m.only1 {
				continue
			}
			k := "0"
			if m.key {
				k = "1"
			}
			opts := []string{}
			for _, o := range m.opts {
				opts = append(opts, fmt.Sprint(o))
			}
			rw = append(rw, hx(m.path)+"~"+k+"~"+hx(m.attr)+"~"+joinOr(opts, "+"))
		}
		pls = append(pls, hx("devicesim")+":"+hx(v)+":"+strings.Join(rw, ","))
	}
	return fmt.Sprintf("%d\t%s\t%s", limit, strings.Join(tg, ","), strings.Join(pls, ";"))
}

// ------------------------------------------------------------------ child
type runner struct {
	e      *env.Env
	out    *bufio.Writer
	seed   int64
	ctr    int
	g      *gen
	lastSt string
	blocked bool
}

func (r *runner) id() string { r.ctr++; return fmt.Sprintf("%d:%d", r.seed, r.ctr) }

func (r *runner) begin(id, kind, wire string) {
	fmt.Fprintf(r.out, "c12.begin\t%s\t%s\t%s\t-\n", id, kind, wire)
	r.out.Flush()
}

// guard runs one handler call under recover() and classifies the outcome
func guard(f func() error) (obs string) {
	defer func() {
		if p := recover(); p != nil {
			obs = "panic:" + hx(fmt.Sprint(p))
		}
	}()
	err := f()
	if err == nil {
		return "code:0"
	}
	return fmt.Sprintf("code:%d", uint32(status.Code(err)))
}

func (r *runner) settle() {
	// normally a few milliseconds; a transaction that never completes (blocked log) is waited for once
	wait := 4 * time.Second
	if r.blocked {
		wait = 300 * time.Millisecond
	}
	deadline := time.Now().Add(wait)
	for time.Now().Before(deadline) {
		txs, err := r.e.Txs.List(context.Background())
		if err != nil {
			return
		}
		busy := false
		for _, t := range txs {
			s := t.Status.State
			if s != configapi.TransactionStatus_COMMITTED && s != configapi.TransactionStatus_APPLIED && s != configapi.TransactionStatus_FAILED {
				busy = true
			}
		}
		if !busy {
			return
		}
		time.Sleep(2 * time.Millisecond)
	}
	r.blocked = true
}

func (r *runner) dumpState(force bool) {
	cfgs, err := r.e.Cfgs.List(context.Background())
	if err != nil {
		return
	}
	l := []string{}
	for _, c := range cfgs {
		paths := make([]string, 0, len(c.Values))
		for p := range c.Values {
			paths = append(paths, p)
		}
		sort.Strings(paths)
		vs := []string{}
		for _, p := range paths {
			v := c.Values[p]
			if v == nil {
				vs = append(vs, hx(p)+"~1~0~0~.")
				continue
			}
			opts := []string{}
			for _, o := range v.Value.TypeOpts {
				opts = append(opts, fmt.Sprint(o))
			}
			d := "0"
			if v.Deleted {
				d = "1"
			}
			vs = append(vs, fmt.Sprintf("%s~%s~%d~%d~%s", hx(v.Path), d, int32(v.Value.Type), len(v.Value.Bytes), joinOr(opts, "+")))
		}
		l = append(l, hx(string(c.ID))+":"+joinOr(vs, ","))
	}
	sort.Strings(l)
	st := joinOr(l, ";")
	if st != r.lastSt || force {
		r.lastSt = st
		fmt.Fprintf(r.out, "c12.state\t%s\t%s\n", r.id(), st)
	}
}

func (r *runner) doSet(wire []byte) {
	req := &gnmi.SetRequest{}
	if proto.Unmarshal(wire, req) != nil {
		return
	}
	id := r.id()
	w := hex.EncodeToString(wire)
	enc := encSet(req)
	r.begin(id, "set", w)
	to := 1500 * time.Millisecond
	if firstStrategySync(req) {
		to = 150 * time.Millisecond // nothing is ever applied here: no southbound
	}
	before := r.e.NumTx()
	obs := guard(func() error {
		ctx, cancel := context.WithTimeout(context.Background(), to)
		defer cancel()
		_, err := r.e.Gnmi.Set(ctx, req)
		return err
	})
	delta := r.e.NumTx() - before
	if delta > 0 {
		r.settle()
	}
	fmt.Fprintf(r.out, "c12.set\t%s\t%s\t%s\t%s\t%d\n", id, w, enc, obs, delta)
	if delta > 0 {
		r.dumpState(false)
	}
}

func firstStrategySync(req *gnmi.SetRequest) bool {
	for _, x := range req.Extension {
		s := encExt(x)
		if strings.HasPrefix(s, "r111:") {
			return s == "r111:S1"
		}
	}
	return false
}

func (r *runner) doGet(wire []byte) {
	req := &gnmi.GetRequest{}
	if proto.Unmarshal(wire, req) != nil {
		return
	}
	r.dumpState(false)
	id := r.id()
	w := hex.EncodeToString(wire)
	r.begin(id, "get", w)
	obs := guard(func() error {
		ctx, cancel := context.WithTimeout(context.Background(), 300*time.Millisecond)
		defer cancel()
		_, err := r.e.Gnmi.Get(ctx, req)
		return err
	})
	fmt.Fprintf(r.out, "c12.get\t%s\t%s\t%s\t%s\n", id, w, encGet(req), obs)
}

type subStream struct {
	ctx  context.Context
	msgs []*gnmi.SubscribeRequest
}

func (s *subStream) Send(*gnmi.SubscribeResponse) error { return nil }
func (s *subStream) Recv() (*gnmi.SubscribeRequest, error) {
	if len(s.msgs) == 0 {
		return nil, errors.New("client went away")
	}
	m := s.msgs[0]
	s.msgs = s.msgs[1:]
	return m, nil
}
func (s *subStream) SetHeader(metadata.MD) error  { return nil }
func (s *subStream) SendHeader(metadata.MD) error { return nil }
func (s *subStream) SetTrailer(metadata.MD)       {}
func (s *subStream) Context() context.Context     { return s.ctx }
func (s *subStream) SendMsg(m interface{}) error  { return nil }
func (s *subStream) RecvMsg(m interface{}) error  { return nil }

func (r *runner) doSub(wires [][]byte) {
	msgs := []*gnmi.SubscribeRequest{}
	ws, encs := []string{}, []string{}
	for _, w := range wires {
		m := &gnmi.SubscribeRequest{}
		if proto.Unmarshal(w, m) != nil {
			continue
		}
		msgs = append(msgs, m)
		ws = append(ws, hx(string(w)))
		encs = append(encs, encSubMsg(m))
	}
	id := r.id()
	r.begin(id, "sub", joinOr(ws, ","))
	obs := guard(func() error {
		ctx, cancel := context.WithTimeout(context.Background(), 300*time.Millisecond)
		defer cancel()
		return r.e.Gnmi.Subscribe(&subStream{ctx: ctx, msgs: msgs})
	})
	fmt.Fprintf(r.out, "c12.sub\t%s\t%s\t%s\t%s\n", id, joinOr(ws, ","), joinOr(encs, ","), obs)
}

func (r *runner) doLsq(wire []byte) {
	req := &adminapi.LeafSelectionQueryRequest{}
	if gogoproto.Unmarshal(wire, req) != nil {
		return
	}
	r.dumpState(false)
	id := r.id()
	w := hex.EncodeToString(wire)
	r.begin(id, "lsq", w)
	obs := guard(func() error {
		ctx, cancel := context.WithTimeout(context.Background(), 300*time.Millisecond)
		defer cancel()
		_, err := r.e.Admin.LeafSelectionQuery(ctx, req)
		return err
	})
	fmt.Fprintf(r.out, "c12.lsq\t%s\t%s\t%s\t%s\n", id, w, encLsq(req), obs)
}

type modelsStream struct {
	subStream
}

func (s *modelsStream) Send(*adminapi.ModelPlugin) error { return nil }

type txStream struct{ subStream }

func (s *txStream) Send(*adminapi.ListTransactionsResponse) error { return nil }

type txWatchStream struct{ subStream }

func (s *txWatchStream) Send(*adminapi.WatchTransactionsResponse) error { return nil }

type cfgStream struct{ subStream }

func (s *cfgStream) Send(*adminapi.ListConfigurationsResponse) error { return nil }

type cfgWatchStream struct{ subStream }

func (s *cfgWatchStream) Send(*adminapi.WatchConfigurationsResponse) error { return nil }

// the entry points that only read scalar fields of the request
func (r *runner) doMisc() {
	g := r.g
	ctx, cancel := context.WithTimeout(context.Background(), 60*time.Millisecond)
	defer cancel()
	var name string
	var wire []byte
	var f func() error
	rt := func(m gogoproto.Message, into gogoproto.Message) bool {
		b, err := gogoproto.Marshal(m)
		if err != nil {
			return false
		}
		if g.chance(6) {
			b = g.mutate(b)
		}
		wire = b
		return gogoproto.Unmarshal(b, into) == nil
	}
	switch g.r.Intn(10) {
	case 0:
		name = "capabilities"
		req := &gnmi.CapabilityRequest{Extension: g.exts(false)}
		wire, _ = proto.Marshal(req)
		dec := &gnmi.CapabilityRequest{}
		if proto.Unmarshal(wire, dec) != nil {
			return
		}
		f = func() error { _, err := r.e.Gnmi.Capabilities(ctx, dec); return err }
	case 1:
		name = "listmodels"
		dec := &adminapi.ListModelsRequest{}
		if !rt(&adminapi.ListModelsRequest{Verbose: g.chance(2), ModelName: g.pick(hostileNames), ModelVersion: g.pick(hostileNames)}, dec) {
			return
		}
		f = func() error {
			return r.e.Admin.ListRegisteredModels(dec, &modelsStream{subStream{ctx: ctx}})
		}
	case 2:
		name = "rollback"
		dec := &adminapi.RollbackRequest{}
		idx := []uint64{0, 1, 2, 3, 1 << 40, ^uint64(0)}[g.r.Intn(6)]
		if g.chance(2) {
			idx = uint64(r.e.NumTx())
		}
		if !rt(&adminapi.RollbackRequest{Index: configapi.Index(idx)}, dec) {
			return
		}
		f = func() error {
			c2, cancel2 := context.WithTimeout(context.Background(), 150*time.Millisecond)
			defer cancel2()
			_, err := r.e.Admin.RollbackTransaction(c2, dec)
			return err
		}
	case 3:
		name = "gettx"
		dec := &adminapi.GetTransactionRequest{}
		if !rt(&adminapi.GetTransactionRequest{ID: configapi.TransactionID(g.pick(hostileNames)), Index: configapi.Index(g.r.Intn(4))}, dec) {
			return
		}
		f = func() error { _, err := r.e.Admin.GetTransaction(ctx, dec); return err }
	case 4:
		name = "listtx"
		dec := &adminapi.ListTransactionsRequest{}
		if !rt(&adminapi.ListTransactionsRequest{}, dec) {
			return
		}
		f = func() error { return r.e.Admin.ListTransactions(dec, &txStream{subStream{ctx: ctx}}) }
	case 5:
		name = "watchtx"
		dec := &adminapi.WatchTransactionsRequest{}
		if !rt(&adminapi.WatchTransactionsRequest{ID: configapi.TransactionID(g.pick([]string{"", "x", "a]"})), Noreplay: g.chance(2)}, dec) {
			return
		}
		f = func() error { return r.e.Admin.WatchTransactions(dec, &txWatchStream{subStream{ctx: ctx}}) }
	case 6:
		name = "getcfg"
		dec := &adminapi.GetConfigurationRequest{}
		cid := configapi.ConfigurationID(g.pick(hostileNames))
		if g.chance(2) {
			cid = configuration.NewID(configapi.TargetID(g.pick([]string{"t1", "t4"})), "devicesim", "1.0.0")
		}
		if !rt(&adminapi.GetConfigurationRequest{ConfigurationID: cid}, dec) {
			return
		}
		f = func() error { _, err := r.e.Admin.GetConfiguration(ctx, dec); return err }
	case 7:
		name = "listcfg"
		dec := &adminapi.ListConfigurationsRequest{}
		if !rt(&adminapi.ListConfigurationsRequest{}, dec) {
			return
		}
		f = func() error { return r.e.Admin.ListConfigurations(dec, &cfgStream{subStream{ctx: ctx}}) }
	default:
		name = "watchcfg"
		dec := &adminapi.WatchConfigurationsRequest{}
		if !rt(&adminapi.WatchConfigurationsRequest{ConfigurationID: configapi.ConfigurationID(g.pick([]string{"", "x", "t1-devicesim-1.0.0", "t4-devicesim-1.0.0"})), Noreplay: g.chance(2)}, dec) {
			return
		}
		f = func() error { return r.e.Admin.WatchConfigurations(dec, &cfgWatchStream{subStream{ctx: ctx}}) }
	}
	id := r.id()
	w := hx(string(wire))
	r.begin(id, name, w)
	before := r.e.NumTx()
	obs := guard(f)
	if r.e.NumTx() != before {
		r.settle()
	}
	fmt.Fprintf(r.out, "c12.misc\t%s\t%s\t%s\t%s\n", id, name, w, obs)
	if r.e.NumTx() != before {
		r.dumpState(false)
	}
}

func g0exts() []*gnmi_ext.Extension { return []*gnmi_ext.Extension{strategyExt(false)} }

func marshalMaybeMutate(g *gen, m proto.Message) []byte {
	b, err := proto.Marshal(m)
	if err != nil {
		return nil
	}
	if g.chance(7) {
		b = g.mutate(b)
	}
	return b
}

func (r *runner) one(kind int) {
	g := r.g
	switch kind {
	case 0:
		if b := marshalMaybeMutate(g, g.setRequest()); b != nil {
			r.doSet(b)
		}
	case 1:
		if b := marshalMaybeMutate(g, g.getRequest()); b != nil {
			r.doGet(b)
		}
	case 2:
		ws := [][]byte{}
		for _, m := range g.subStream() {
			if b := marshalMaybeMutate(g, m); b != nil {
				ws = append(ws, b)
			}
		}
		r.doSub(ws)
	case 3:
		lr := g.lsqRequest()
		if lr.ChangeContext != nil { // normalise hand-built oneofs through the gnmi codec first
			cb, err := proto.Marshal(lr.ChangeContext)
			if err != nil {
				return
			}
			lr.ChangeContext = &gnmi.SetRequest{}
			if proto.Unmarshal(cb, lr.ChangeContext) != nil {
				return
			}
		}
		b, err := gogoproto.Marshal(lr)
		if err != nil {
			return
		}
		if g.chance(7) {
			b = g.mutate(b)
		}
		r.doLsq(b)
	default:
		r.doMisc()
	}
}

// createEmptyConfiguration stores, through the real configuration store, the Configuration object of a target that
// was discovered but never configured: it exists and holds no value (reads of it return Values == nil)
func createEmptyConfiguration(e *env.Env, target string) {
	err := e.Cfgs.Create(context.Background(), &configapi.Configuration{
		ID:       configuration.NewID(configapi.TargetID(target), "devicesim", "1.0.0"),
		TargetID: configapi.TargetID(target),
	})
	if err != nil {
		panic(err)
	}
}

func runChild(seed int64, n int, corpus string, limit int) {
	env.Quiet()
	os.Unsetenv("OIDC_SERVER_URL")
	out := bufio.NewWriterSize(os.Stdout, 1<<20)
	defer out.Flush()
	e := env.New(limit, mkPlugin("1.0.0"), mkPlugin("2.0.0"))
	e.Topo.AddTarget("t1", "devicesim", "1.0.0", false, false)
	e.Topo.AddTarget("t2", "devicesim", "1.0.0", true, false)
	e.Topo.AddTarget("t3", "nomodel", "9.9", false, false)
	e.Topo.AddTarget("t4", "devicesim", "1.0.0", false, false)
	createEmptyConfiguration(e, "t4")
	e.StartControllers(false)
	rn := &runner{e: e, out: out, seed: seed, g: &gen{r: rand.New(rand.NewSource(seed))}}
	fmt.Fprintf(out, "c12.env\t%s\t%s\n", rn.id(), encEnv(limit))
	rn.dumpState(true)

	// corpus first: <kind> TAB <wire hex>
	if corpus != "" {
		if b, err := os.ReadFile(corpus); err == nil {
			for _, ln := range strings.Split(string(b), "\n") {
				f := strings.Split(strings.TrimSpace(ln), "\t")
				if len(f) < 2 || strings.HasPrefix(f[0], "#") {
					continue
				}
				w, err := hex.DecodeString(f[1])
				if err != nil && f[1] != "-" {
					continue
				}
				switch f[0] {
				case "set":
					rn.doSet(w)
				case "get":
					rn.doGet(w)
				case "lsq":
					rn.doLsq(w)
				case "sub":
					rn.doSub([][]byte{w})
				}
			}
		}
	}

	// stream 1: empty configuration (no Set has been accepted yet)
	for i := 0; i < n/3; i++ {
		rn.one(1 + rn.g.r.Intn(4))
	}
	// stream 2: everything interleaved; accepted Sets populate the configurations
	for i := 0; i < n; i++ {
		k := rn.g.r.Intn(10)
		switch {
		case k < 4:
			rn.one(0)
		case k < 7:
			rn.one(1)
		case k < 8:
			rn.one(3)
		case k < 9:
			rn.one(2)
		default:
			rn.one(4)
		}
	}
	// stream 3: populated configuration, reads only
	for i := 0; i < n/3; i++ {
		rn.one(1 + 2*rn.g.r.Intn(2))
	}
	// last: a float leaf-list holding NaN (accepted; whatever follows it on the back-end is not C12's concern)
	nan := &gnmi.SetRequest{Update: []*gnmi.Update{{Path: &gnmi.Path{Target: "t2", Elem: []*gnmi.PathElem{{Name: "cont"}, {Name: "llf"}}},
		Val: &gnmi.TypedValue{Value: &gnmi.TypedValue_LeaflistVal{LeaflistVal: &gnmi.ScalarArray{Element: []*gnmi.TypedValue{
			{Value: &gnmi.TypedValue_FloatVal{FloatVal: float32(math.NaN())}}}}}}}}, Extension: g0exts()}
	if b, err := proto.Marshal(nan); err == nil {
		rn.doSet(b)
	}
	e.StopControllers()
	fmt.Fprintln(out, "c12.done")
}

package main

// Encoders: the decoded request (after a marshal / unmarshal round trip through the real protobuf
// codecs) is rendered in the compact text form the model-side driver parses.

import (
	"encoding/hex"
	"fmt"
	"math"
	"sort"
	"strings"

	adminapi "github.com/onosproject/onos-api/go/onos/config/admin"
	configapi "github.com/onosproject/onos-api/go/onos/config/v2"
	"github.com/openconfig/gnmi/proto/gnmi"
	"github.com/openconfig/gnmi/proto/gnmi_ext"
)

func hx(s string) string {
	if s == "" {
		return "-"
	}
	return hex.EncodeToString([]byte(s))
}

func joinOr(l []string, sep string) string {
	if len(l) == 0 {
		return "."
	}
	return strings.Join(l, sep)
}

func encPath(p *gnmi.Path) string {
	if p == nil {
		return "N"
	}
	elems := []string{}
	for _, e := range p.Elem {
		s := hx(e.GetName())
		keys := make([]string, 0, len(e.GetKey()))
		for k := range e.GetKey() {
			keys = append(keys, k)
		}
		sort.Strings(keys)
		for _, k := range keys {
			s += "~" + hx(k) + "=" + hx(e.Key[k])
		}
		elems = append(elems, s)
	}
	els := []string{}
	for _, e := range p.Element {
		els = append(els, hx(e))
	}
	return "P" + hx(p.Target) + "/" + joinOr(elems, "+") + "/" + joinOr(els, "+")
}

func encScalar(v *gnmi.TypedValue) string {
	switch x := v.GetValue().(type) {
	case *gnmi.TypedValue_StringVal:
		return "s" + hx(x.StringVal)
	case *gnmi.TypedValue_AsciiVal:
		return "a" + hx(x.AsciiVal)
	case *gnmi.TypedValue_IntVal:
		return fmt.Sprintf("i%d", x.IntVal)
	case *gnmi.TypedValue_UintVal:
		return fmt.Sprintf("u%d", x.UintVal)
	case *gnmi.TypedValue_BoolVal:
		if x.BoolVal {
			return "b1"
		}
		return "b0"
	case *gnmi.TypedValue_BytesVal:
		return "y" + hx(string(x.BytesVal))
	case *gnmi.TypedValue_DecimalVal:
		if x.DecimalVal == nil {
			return "dN"
		}
		return fmt.Sprintf("d%d_%d", x.DecimalVal.Digits, x.DecimalVal.Precision)
	case *gnmi.TypedValue_FloatVal:
		if math.IsNaN(float64(x.FloatVal)) {
			return "fn"
		}
		return "ff"
	}
	return "o"
}

func encVal(v *gnmi.TypedValue) string {
	if v == nil {
		return "N"
	}
	switch x := v.GetValue().(type) {
	case *gnmi.TypedValue_JsonVal:
		if x.JsonVal == nil { // GetJsonVal() == nil: the typed branch is taken, default arm
			return "o"
		}
		return "j" + hx(string(x.JsonVal))
	case *gnmi.TypedValue_LeaflistVal:
		l := []string{}
		for _, e := range x.LeaflistVal.GetElement() {
			if e == nil {
				l = append(l, "N")
			} else {
				l = append(l, encScalar(e))
			}
		}
		return "l" + joinOr(l, "+")
	}
	return encScalar(v)
}

// pluginAnswer is what the fake model plugin answers to GetPathValues for this JSON value
func encPlugin(v *gnmi.TypedValue) string {
	j := v.GetJsonVal()
	if j == nil {
		return "-"
	}
	pvs, err := fakePathValues("", j)
	if err != nil {
		return "E13"
	}
	l := []string{}
	for _, pv := range pvs {
		l = append(l, hx(pv.Path))
	}
	return "O" + joinOr(l, "+")
}

func encUpdate(u *gnmi.Update) string {
	return encPath(u.Path) + "@" + encVal(u.Val) + "@" + encPlugin(u.Val)
}

func encExt(x *gnmi_ext.Extension) string {
	r, ok := x.GetExt().(*gnmi_ext.Extension_RegisteredExt)
	if !ok {
		return "x"
	}
	if r.RegisteredExt == nil {
		return "rN"
	}
	id := r.RegisteredExt.Id
	pre := fmt.Sprintf("r%d:", id)
	switch id {
	case configapi.TransactionStrategyExtensionID:
		s := &configapi.TransactionStrategy{}
		if err := s.Unmarshal(r.RegisteredExt.Msg); err != nil {
			return pre + "B"
		}
		if s.Synchronicity == configapi.TransactionStrategy_SYNCHRONOUS {
			return pre + "S1"
		}
		return pre + "S0"
	case configapi.TargetVersionOverridesID:
		o := &configapi.TargetVersionOverrides{}
		if err := o.Unmarshal(r.RegisteredExt.Msg); err != nil {
			return pre + "B"
		}
		keys := []string{}
		for k := range o.Overrides {
			keys = append(keys, k)
		}
		sort.Strings(keys)
		l := []string{}
		for _, k := range keys {
			v := o.Overrides[k]
			if v == nil {
				l = append(l, hx(k)+"=N")
			} else {
				l = append(l, hx(k)+"="+hx(string(v.TargetType))+"~"+hx(string(v.TargetVersion)))
			}
		}
		return pre + "O" + joinOr(l, "+")
	}
	return pre + "U"
}

func encExts(xs []*gnmi_ext.Extension) string {
	l := []string{}
	for _, x := range xs {
		l = append(l, encExt(x))
	}
	return joinOr(l, ",")
}

func encSet(r *gnmi.SetRequest) string {
	d, rp, up := []string{}, []string{}, []string{}
	for _, p := range r.Delete {
		d = append(d, encPath(p))
	}
	for _, u := range r.Replace {
		rp = append(rp, encUpdate(u))
	}
	for _, u := range r.Update {
		up = append(up, encUpdate(u))
	}
	return encPath(r.Prefix) + "|" + joinOr(d, ",") + "|" + joinOr(rp, ",") + "|" + joinOr(up, ",") + "|" + encExts(r.Extension)
}

func encGet(r *gnmi.GetRequest) string {
	ps := []string{}
	for _, p := range r.Path {
		ps = append(ps, encPath(p))
	}
	return fmt.Sprintf("%s|%s|%d|%d|%s", encPath(r.Prefix), joinOr(ps, ","), int32(r.Encoding), int32(r.Type), encExts(r.Extension))
}

func encSubMsg(r *gnmi.SubscribeRequest) string {
	switch x := r.GetRequest().(type) {
	case *gnmi.SubscribeRequest_Subscribe:
		if x.Subscribe == nil {
			return "X"
		}
		ps := []string{}
		for _, s := range x.Subscribe.Subscription {
			ps = append(ps, encPath(s.GetPath()))
		}
		return "S" + encPath(x.Subscribe.Prefix) + "@" + joinOr(ps, ";")
	case *gnmi.SubscribeRequest_Poll:
		if x.Poll == nil {
			return "X"
		}
		return "P"
	}
	return "X"
}

func encLsq(r *adminapi.LeafSelectionQueryRequest) string {
	cx := "N"
	if r.ChangeContext != nil {
		cx = encSet(r.ChangeContext)
	}
	return hx(r.Target) + "!" + hx(r.Type) + "!" + hx(r.Version) + "!" + cx
}

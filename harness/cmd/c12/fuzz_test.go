package main

// Go native fuzzing of the wire bytes of Set, Get and LeafSelectionQuery (thorough tier, search
// support): bytes that decode are handed to the real handler over real stores and controllers; a
// panic (in the handler or on any other goroutine) fails the fuzz target with the input saved.
// Seeds: corpus/c12/*.hex (hex text, one message per file).

import (
	"context"
	"encoding/hex"
	"os"
	"path/filepath"
	"strings"
	"sync"
	"testing"
	"time"

	golangproto "github.com/golang/protobuf/proto"
	adminapi "github.com/onosproject/onos-api/go/onos/config/admin"
	"github.com/openconfig/gnmi/proto/gnmi"
	"google.golang.org/protobuf/proto"

	"verifharness/env"
)

var (
	fuzzOnce sync.Once
	fuzzEnv  *env.Env
)

func fuzzSetup() *env.Env {
	fuzzOnce.Do(func() {
		env.Quiet()
		os.Unsetenv("OIDC_SERVER_URL")
		e := env.New(0, mkPlugin("1.0.0"), mkPlugin("2.0.0"))
		e.Topo.AddTarget("t1", "devicesim", "1.0.0", false, false)
		e.Topo.AddTarget("t2", "devicesim", "1.0.0", true, false)
		e.Topo.AddTarget("t3", "nomodel", "9.9", false, false)
		e.Topo.AddTarget("t4", "devicesim", "1.0.0", false, false)
		createEmptyConfiguration(e, "t4")
		e.StartControllers(false)
		// a populated configuration on t1
		g := &gen{r: nil}
		_ = g
		for _, w := range seeds("set") {
			req := &gnmi.SetRequest{}
			if proto.Unmarshal(w, req) == nil {
				ctx, cancel := context.WithTimeout(context.Background(), 300*time.Millisecond)
				_, _ = e.Gnmi.Set(ctx, req)
				cancel()
			}
		}
		fuzzEnv = e
	})
	return fuzzEnv
}

func seeds(kind string) [][]byte {
	res := [][]byte{}
	files, _ := filepath.Glob(filepath.Join("..", "..", "..", "corpus", "c12", kind+"-*.hex"))
	for _, f := range files {
		b, err := os.ReadFile(f)
		if err != nil {
			continue
		}
		w, err := hex.DecodeString(strings.TrimSpace(string(b)))
		if err == nil {
			res = append(res, w)
		}
	}
	return res
}

func FuzzSet(f *testing.F) {
	for _, s := range seeds("set") {
		f.Add(s)
	}
	f.Fuzz(func(t *testing.T, wire []byte) {
		req := &gnmi.SetRequest{}
		if proto.Unmarshal(wire, req) != nil {
			return
		}
		// a float leaf-list holding NaN / Inf blocks the transaction log for good (not a crash): skip it
		if strings.Contains(encSet(req), "+fn") || strings.Contains(encSet(req), "lfn") {
			return
		}
		e := fuzzSetup()
		ctx, cancel := context.WithTimeout(context.Background(), 150*time.Millisecond)
		defer cancel()
		_, _ = e.Gnmi.Set(ctx, req)
	})
}

func FuzzGet(f *testing.F) {
	for _, s := range seeds("get") {
		f.Add(s)
	}
	f.Fuzz(func(t *testing.T, wire []byte) {
		req := &gnmi.GetRequest{}
		if proto.Unmarshal(wire, req) != nil {
			return
		}
		e := fuzzSetup()
		ctx, cancel := context.WithTimeout(context.Background(), 100*time.Millisecond)
		defer cancel()
		_, _ = e.Gnmi.Get(ctx, req)
	})
}

func FuzzLeafSelection(f *testing.F) {
	for _, s := range seeds("lsq") {
		f.Add(s)
	}
	f.Fuzz(func(t *testing.T, wire []byte) {
		req := &adminapi.LeafSelectionQueryRequest{}
		if golangproto.Unmarshal(wire, req) != nil {
			return
		}
		e := fuzzSetup()
		ctx, cancel := context.WithTimeout(context.Background(), 100*time.Millisecond)
		defer cancel()
		_, _ = e.Admin.LeafSelectionQuery(ctx, req)
	})
}

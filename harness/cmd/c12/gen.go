package main

// Generators: structured, mostly valid requests over the harness' model plus hostile material
// (bracket / escape / regexp metacharacters in element names and keys, omitted sub-messages, every
// TypedValue arm, malformed extensions).  All randomness comes from the one *rand.Rand.

import (
	"fmt"
	"math"
	"math/rand"
	"strings"

	adminapi "github.com/onosproject/onos-api/go/onos/config/admin"
	configapi "github.com/onosproject/onos-api/go/onos/config/v2"
	"github.com/openconfig/gnmi/proto/gnmi"
	"github.com/openconfig/gnmi/proto/gnmi_ext"
	"google.golang.org/protobuf/types/known/anypb"
)

var hostileNames = []string{"a]", "a[b]", "a(", "[", "]", "\\", "", "=", "a=b", "a[b=c", "a]b=c]", "foo[", "fo[ ! ]o", "f[x]oo",
	"list[k=1]", "list[k]", "list[]", "list[=]", "list[k=]", "a/b", "a\\/b", "*", "...", "a*", "a...", "a)", "a+", "a?", "a{2}", "a|b", "^a", "a$",
	"é", "日本", "a\nb", "[\n]", "a b", "cont", "foo", "list", "multi", "k", "x[y=z]]w=v", "x[y=z]w=", "a=[", "=[a]", "]=["}

var okValues = []string{"1", "k1", "a.b", "*", "x-y", "true", "-5", "0", "ab_c"}
var hostileKeyVals = []string{"a]", "a[b", "a=b", "a/b", "", "a]]b=c", "a\\]b", "é", "a b", "(", "a\nb", "]x=y", "]]x=y", "*", "..."}
var targets = []string{"t1", "t2", "t3", "", "*", "nosuch", "t1", "t1", "t2"}

type gen struct{ r *rand.Rand }

func (g *gen) pick(l []string) string { return l[g.r.Intn(len(l))] }
func (g *gen) chance(n int) bool      { return g.r.Intn(n) == 0 }

func (g *gen) keyVal() string {
	if g.chance(4) {
		return g.pick(hostileKeyVals)
	}
	return g.pick(okValues)
}

// a path over the harness' model, possibly damaged
func (g *gen) elems() []*gnmi.PathElem {
	var es []*gnmi.PathElem
	switch g.r.Intn(12) {
	case 0:
		es = []*gnmi.PathElem{{Name: "foo"}}
	case 1:
		es = []*gnmi.PathElem{{Name: "bar"}}
	case 2:
		es = []*gnmi.PathElem{{Name: "cont"}, {Name: g.pick([]string{"leaf", "bits", "dec", "flt", "flag", "ll", "u", "lli", "llu", "llb", "lld", "llf", "lly"})}}
	case 3:
		es = []*gnmi.PathElem{{Name: "list", Key: map[string]string{"k": g.keyVal()}}, {Name: g.pick([]string{"k", "v"})}}
	case 4:
		es = []*gnmi.PathElem{{Name: "list", Key: map[string]string{"k": g.keyVal()}}, {Name: "sub", Key: map[string]string{"j": g.keyVal()}}, {Name: g.pick([]string{"j", "w"})}}
	case 5:
		es = []*gnmi.PathElem{{Name: "multi", Key: map[string]string{"a": g.keyVal(), "b": g.keyVal()}}, {Name: g.pick([]string{"a", "b", "val"})}}
	case 6:
		es = []*gnmi.PathElem{{Name: "list", Key: map[string]string{"k": g.keyVal()}}}
	case 7:
		es = []*gnmi.PathElem{{Name: "cont"}}
	case 8:
		es = nil
	case 9:
		es = []*gnmi.PathElem{{Name: "list[k=" + g.keyVal() + "]"}, {Name: "v"}}
	default:
		n := 1 + g.r.Intn(3)
		for i := 0; i < n; i++ {
			e := &gnmi.PathElem{Name: g.pick(hostileNames)}
			if g.chance(3) {
				e.Key = map[string]string{g.pick([]string{"k", "", "a=b", "x]", "k"}): g.keyVal()}
			}
			es = append(es, e)
		}
	}
	if g.chance(6) && len(es) > 0 { // damage one element
		i := g.r.Intn(len(es))
		es[i] = &gnmi.PathElem{Name: g.pick(hostileNames), Key: es[i].Key}
	}
	if g.chance(10) {
		es = append(es, &gnmi.PathElem{Name: g.pick(hostileNames)})
	}
	return es
}

func (g *gen) path(withTarget bool) *gnmi.Path {
	if g.chance(25) {
		return nil
	}
	p := &gnmi.Path{Elem: g.elems()}
	if withTarget {
		p.Target = g.pick(targets)
	}
	if g.chance(20) {
		p.Element = []string{g.pick(hostileNames), "x"}
		if g.chance(2) {
			p.Elem = nil
		}
	}
	if g.chance(15) {
		p.Origin = "o"
	}
	return p
}

func (g *gen) prefix() *gnmi.Path {
	switch g.r.Intn(6) {
	case 0, 1, 2:
		return nil
	case 3:
		return &gnmi.Path{Target: g.pick(targets)}
	case 4:
		return &gnmi.Path{Target: g.pick(targets), Elem: []*gnmi.PathElem{{Name: g.pick([]string{"cont", "list", "foo", "a]", "list[k=1]"})}}}
	}
	p := g.path(true)
	return p
}

func (g *gen) scalar() *gnmi.TypedValue {
	switch g.r.Intn(14) {
	case 0, 1:
		return &gnmi.TypedValue{Value: &gnmi.TypedValue_StringVal{StringVal: g.pick(append(okValues, hostileKeyVals...))}}
	case 2:
		return &gnmi.TypedValue{Value: &gnmi.TypedValue_AsciiVal{AsciiVal: g.pick(okValues)}}
	case 3:
		return &gnmi.TypedValue{Value: &gnmi.TypedValue_IntVal{IntVal: []int64{0, 1, -1, -5, 255, 256, math.MaxInt64, math.MinInt64, 65536}[g.r.Intn(9)]}}
	case 4:
		return &gnmi.TypedValue{Value: &gnmi.TypedValue_UintVal{UintVal: []uint64{0, 1, 255, 256, math.MaxUint64, 1 << 32}[g.r.Intn(6)]}}
	case 5:
		return &gnmi.TypedValue{Value: &gnmi.TypedValue_BoolVal{BoolVal: g.chance(2)}}
	case 6:
		return &gnmi.TypedValue{Value: &gnmi.TypedValue_BytesVal{BytesVal: [][]byte{nil, {}, {1}, {0, 255, 7}}[g.r.Intn(4)]}}
	case 7:
		if g.chance(4) {
			return &gnmi.TypedValue{Value: &gnmi.TypedValue_DecimalVal{DecimalVal: nil}} // marshals as an empty message
		}
		return &gnmi.TypedValue{Value: &gnmi.TypedValue_DecimalVal{DecimalVal: &gnmi.Decimal64{Digits: []int64{0, 15, -15, math.MinInt64, math.MaxInt64}[g.r.Intn(5)], Precision: []uint32{0, 1, 2, 18, 19, 64, 255, 256, 300}[g.r.Intn(9)]}}}
	case 8:
		return &gnmi.TypedValue{Value: &gnmi.TypedValue_FloatVal{FloatVal: []float32{0, 1.5, -2.25, float32(math.NaN()), float32(math.Inf(1)), float32(math.Inf(-1)), math.MaxFloat32, math.SmallestNonzeroFloat32}[g.r.Intn(8)]}}
	case 9:
		return &gnmi.TypedValue{Value: &gnmi.TypedValue_DoubleVal{DoubleVal: []float64{0, math.NaN(), math.Inf(1), 2.5}[g.r.Intn(4)]}}
	case 10:
		return &gnmi.TypedValue{Value: &gnmi.TypedValue_JsonIetfVal{JsonIetfVal: []byte(`{"foo":"x"}`)}}
	case 11:
		return &gnmi.TypedValue{Value: &gnmi.TypedValue_ProtoBytes{ProtoBytes: []byte{1, 2}}}
	case 12:
		if g.chance(2) {
			return &gnmi.TypedValue{Value: &gnmi.TypedValue_AnyVal{AnyVal: &anypb.Any{TypeUrl: "x/y", Value: []byte{1}}}}
		}
		return &gnmi.TypedValue{} // oneof unset
	}
	return &gnmi.TypedValue{Value: &gnmi.TypedValue_StringVal{StringVal: g.pick(okValues)}}
}

var jsonDocs = []string{`{"foo":"x"}`, `{"/foo":"y","bar":"z"}`, `{"/list[k=k1]/v":"1","/list[k=k1]/k":"k1"}`, `{"/cont/leaf":"5"}`, `{}`, ``, `{`, `[1,2]`, `"x"`, `null`,
	`{"/list[k=a/b]/v":"1"}`, `{"/list[k=a]]b=c]/v":"1"}`, `{"/a=b/c":"1"}`, `{"nosuch":"1"}`, `{"/list[k=é]/v":"1"}`, `{"/multi[a=1][b=2]/val":"q"}`, `{"/list[k=x y]/v":"1"}`, `{"/foo":{"nested":1}}`}

func (g *gen) value() *gnmi.TypedValue {
	switch g.r.Intn(10) {
	case 0:
		if g.chance(3) {
			return nil
		}
		return &gnmi.TypedValue{Value: &gnmi.TypedValue_JsonVal{JsonVal: []byte(g.pick(jsonDocs))}}
	case 1:
		n := g.r.Intn(4)
		if g.chance(5) {
			n = 0
		}
		l := []*gnmi.TypedValue{}
		mixed := g.chance(4)
		first := g.scalar()
		for i := 0; i < n; i++ {
			e := first
			if mixed || i == 0 {
				e = g.scalar()
			}
			// a NaN / Inf inside a float leaf-list is accepted by Set and then blocks every later transaction
			// (json.Marshal refuses NaN during validation): kept out of the stream, tried once at the end
			if f, ok := e.GetValue().(*gnmi.TypedValue_FloatVal); ok && (math.IsNaN(float64(f.FloatVal)) || math.IsInf(float64(f.FloatVal), 0)) {
				e = &gnmi.TypedValue{Value: &gnmi.TypedValue_FloatVal{FloatVal: 0.5}}
			}
			l = append(l, e)
		}
		if g.chance(12) {
			l = append(l, &gnmi.TypedValue{Value: &gnmi.TypedValue_LeaflistVal{LeaflistVal: &gnmi.ScalarArray{}}})
		}
		if g.chance(15) {
			return &gnmi.TypedValue{Value: &gnmi.TypedValue_LeaflistVal{LeaflistVal: nil}}
		}
		return &gnmi.TypedValue{Value: &gnmi.TypedValue_LeaflistVal{LeaflistVal: &gnmi.ScalarArray{Element: l}}}
	}
	return g.scalar()
}

func regExt(id gnmi_ext.ExtensionID, b []byte) *gnmi_ext.Extension {
	return &gnmi_ext.Extension{Ext: &gnmi_ext.Extension_RegisteredExt{RegisteredExt: &gnmi_ext.RegisteredExtension{Id: id, Msg: b}}}
}

func strategyExt(sync bool) *gnmi_ext.Extension {
	s := configapi.TransactionStrategy_ASYNCHRONOUS
	if sync {
		s = configapi.TransactionStrategy_SYNCHRONOUS
	}
	b, _ := (&configapi.TransactionStrategy{Synchronicity: s}).Marshal()
	return regExt(configapi.TransactionStrategyExtensionID, b)
}

var garbage = [][]byte{{0xff}, {0x0a}, {0x0a, 0x05, 1}, {0x08}, {0x12, 0x7f}, {0x0a, 0x04, 0x0a, 0x02, 't'}}

func (g *gen) exts(forSet bool) []*gnmi_ext.Extension {
	xs := []*gnmi_ext.Extension{}
	if forSet {
		if !g.chance(12) { // asynchronous: the handler returns as soon as the change is committed
			xs = append(xs, strategyExt(false))
		} else if g.chance(2) {
			xs = append(xs, strategyExt(true))
		}
	} else if g.chance(10) {
		xs = append(xs, strategyExt(g.chance(3)))
	}
	if g.chance(12) {
		xs = append([]*gnmi_ext.Extension{regExt(configapi.TransactionStrategyExtensionID, garbage[g.r.Intn(len(garbage))])}, xs...)
	}
	if g.chance(5) {
		ov := &configapi.TargetVersionOverrides{Overrides: map[string]*configapi.TargetTypeVersion{}}
		n := 1 + g.r.Intn(2)
		for i := 0; i < n; i++ {
			t := g.pick([]string{"t1", "t2", "t3", "zz", ""})
			switch g.r.Intn(4) {
			case 0:
				ov.Overrides[t] = nil // an entry without a value
			case 1:
				ov.Overrides[t] = &configapi.TargetTypeVersion{TargetType: "devicesim", TargetVersion: "2.0.0"}
			case 2:
				ov.Overrides[t] = &configapi.TargetTypeVersion{TargetType: "devicesim", TargetVersion: "1.0.0"}
			default:
				ov.Overrides[t] = &configapi.TargetTypeVersion{TargetType: configapi.TargetType(g.pick([]string{"", "nomodel", "devicesim"})), TargetVersion: "7"}
			}
		}
		b, _ := ov.Marshal()
		xs = append(xs, regExt(configapi.TargetVersionOverridesID, b))
	}
	if g.chance(15) {
		xs = append(xs, regExt(configapi.TargetVersionOverridesID, garbage[g.r.Intn(len(garbage))]))
	}
	if g.chance(12) {
		// an overrides extension that decodes to NO entries: an empty payload, or unknown fields only
		xs = append(xs, regExt(configapi.TargetVersionOverridesID, [][]byte{{}, {0x78, 0x01}, {0x7a, 0x01, 'x'}}[g.r.Intn(3)]))
	}
	if g.chance(10) {
		// one of gNMI's well-known extensions AHEAD of the registered ones
		if g.chance(2) {
			xs = append([]*gnmi_ext.Extension{{Ext: &gnmi_ext.Extension_MasterArbitration{MasterArbitration: &gnmi_ext.MasterArbitration{ElectionId: &gnmi_ext.Uint128{Low: 1}}}}}, xs...)
		} else {
			xs = append([]*gnmi_ext.Extension{{Ext: &gnmi_ext.Extension_History{History: &gnmi_ext.History{}}}}, xs...)
		}
	}
	if g.chance(15) {
		xs = append(xs, regExt(gnmi_ext.ExtensionID(g.r.Intn(200)), garbage[g.r.Intn(len(garbage))]))
	}
	if g.chance(20) {
		xs = append(xs, &gnmi_ext.Extension{Ext: &gnmi_ext.Extension_MasterArbitration{MasterArbitration: &gnmi_ext.MasterArbitration{}}})
	}
	if g.chance(25) {
		xs = append(xs, &gnmi_ext.Extension{})
	}
	if g.chance(25) {
		xs = append(xs, &gnmi_ext.Extension{Ext: &gnmi_ext.Extension_RegisteredExt{RegisteredExt: nil}})
	}
	return xs
}

func (g *gen) update() *gnmi.Update {
	u := &gnmi.Update{Path: g.path(true), Val: g.value()}
	if g.chance(20) {
		u.Path = nil
	}
	return u
}

// a valid update of the right type for a model leaf (used to populate and as the "mostly valid" part)
func (g *gen) validUpdate(target string) *gnmi.Update {
	k := g.pick(okValues)
	str := func(s string) *gnmi.TypedValue {
		return &gnmi.TypedValue{Value: &gnmi.TypedValue_StringVal{StringVal: s}}
	}
	ll := func(vs ...*gnmi.TypedValue) *gnmi.TypedValue {
		return &gnmi.TypedValue{Value: &gnmi.TypedValue_LeaflistVal{LeaflistVal: &gnmi.ScalarArray{Element: vs}}}
	}
	iv := func(i int64) *gnmi.TypedValue { return &gnmi.TypedValue{Value: &gnmi.TypedValue_IntVal{IntVal: i}} }
	uv := func(i uint64) *gnmi.TypedValue { return &gnmi.TypedValue{Value: &gnmi.TypedValue_UintVal{UintVal: i}} }
	switch g.r.Intn(18) {
	case 0:
		return &gnmi.Update{Path: &gnmi.Path{Target: target, Elem: []*gnmi.PathElem{{Name: "foo"}}}, Val: str(g.pick(okValues))}
	case 1:
		return &gnmi.Update{Path: &gnmi.Path{Target: target, Elem: []*gnmi.PathElem{{Name: "list", Key: map[string]string{"k": k}}, {Name: "v"}}}, Val: str("v" + k)}
	case 2:
		if g.chance(6) { // a key leaf is compared as text: ValueToString of whatever value arrives
			return &gnmi.Update{Path: &gnmi.Path{Target: target, Elem: []*gnmi.PathElem{{Name: "list", Key: map[string]string{"k": k}}, {Name: "k"}}}, Val: g.scalar()}
		}
		return &gnmi.Update{Path: &gnmi.Path{Target: target, Elem: []*gnmi.PathElem{{Name: "list", Key: map[string]string{"k": k}}, {Name: "k"}}}, Val: str(k)}
	case 3:
		return &gnmi.Update{Path: &gnmi.Path{Target: target, Elem: []*gnmi.PathElem{{Name: "cont"}, {Name: "leaf"}}}, Val: iv([]int64{0, -7, 300, math.MinInt64}[g.r.Intn(4)])}
	case 4:
		return &gnmi.Update{Path: &gnmi.Path{Target: target, Elem: []*gnmi.PathElem{{Name: "cont"}, {Name: "flag"}}}, Val: &gnmi.TypedValue{Value: &gnmi.TypedValue_BoolVal{BoolVal: g.chance(2)}}}
	case 5:
		return &gnmi.Update{Path: &gnmi.Path{Target: target, Elem: []*gnmi.PathElem{{Name: "cont"}, {Name: "ll"}}}, Val: ll(str("a"), str("b"), str(""))}
	case 6:
		return &gnmi.Update{Path: &gnmi.Path{Target: target, Elem: []*gnmi.PathElem{{Name: "cont"}, {Name: "lli"}}}, Val: ll(iv(0), iv(-1), iv(70000), iv(math.MinInt64))}
	case 7:
		return &gnmi.Update{Path: &gnmi.Path{Target: target, Elem: []*gnmi.PathElem{{Name: "cont"}, {Name: "llu"}}}, Val: ll(uv(0), uv(255), uv(math.MaxUint64))}
	case 8:
		return &gnmi.Update{Path: &gnmi.Path{Target: target, Elem: []*gnmi.PathElem{{Name: "cont"}, {Name: "lly"}}}, Val: ll(
			&gnmi.TypedValue{Value: &gnmi.TypedValue_BytesVal{BytesVal: []byte{1}}}, &gnmi.TypedValue{Value: &gnmi.TypedValue_BytesVal{BytesVal: []byte{}}},
			&gnmi.TypedValue{Value: &gnmi.TypedValue_BytesVal{BytesVal: []byte{2, 3}}}, &gnmi.TypedValue{Value: &gnmi.TypedValue_BytesVal{BytesVal: []byte{}}})}
	case 9:
		return &gnmi.Update{Path: &gnmi.Path{Target: target, Elem: []*gnmi.PathElem{{Name: "cont"}, {Name: "lld"}}}, Val: ll(
			&gnmi.TypedValue{Value: &gnmi.TypedValue_DecimalVal{DecimalVal: &gnmi.Decimal64{Digits: -15, Precision: 1}}},
			&gnmi.TypedValue{Value: &gnmi.TypedValue_DecimalVal{DecimalVal: &gnmi.Decimal64{Digits: 0, Precision: 300}}})}
	case 10:
		return &gnmi.Update{Path: &gnmi.Path{Target: target, Elem: []*gnmi.PathElem{{Name: "cont"}, {Name: "llf"}}}, Val: ll(
			&gnmi.TypedValue{Value: &gnmi.TypedValue_FloatVal{FloatVal: -2.5}}, &gnmi.TypedValue{Value: &gnmi.TypedValue_FloatVal{FloatVal: 1.5}})}
	case 11:
		return &gnmi.Update{Path: &gnmi.Path{Target: target, Elem: []*gnmi.PathElem{{Name: "cont"}, {Name: "llb"}}}, Val: ll(
			&gnmi.TypedValue{Value: &gnmi.TypedValue_BoolVal{BoolVal: true}}, &gnmi.TypedValue{Value: &gnmi.TypedValue_BoolVal{BoolVal: false}})}
	case 12:
		return &gnmi.Update{Path: &gnmi.Path{Target: target, Elem: []*gnmi.PathElem{{Name: "cont"}, {Name: "dec"}}}, Val: &gnmi.TypedValue{Value: &gnmi.TypedValue_DecimalVal{DecimalVal: &gnmi.Decimal64{Digits: []int64{-5, 0, 15, math.MaxInt64}[g.r.Intn(4)],
			Precision: []uint32{1, 1, 2, 18, 19, 63, 64, 255, 256, 300, 1 << 31}[g.r.Intn(11)]}}}}
	case 13:
		return &gnmi.Update{Path: &gnmi.Path{Target: target, Elem: []*gnmi.PathElem{{Name: "cont"}, {Name: "flt"}}}, Val: &gnmi.TypedValue{Value: &gnmi.TypedValue_FloatVal{FloatVal: []float32{1.5, float32(math.Inf(1)), 0}[g.r.Intn(3)]}}}
	case 14:
		return &gnmi.Update{Path: &gnmi.Path{Target: target, Elem: []*gnmi.PathElem{{Name: "cont"}, {Name: "bits"}}}, Val: &gnmi.TypedValue{Value: &gnmi.TypedValue_BytesVal{BytesVal: [][]byte{{}, {9, 8}}[g.r.Intn(2)]}}}
	case 15:
		return &gnmi.Update{Path: &gnmi.Path{Target: target, Elem: []*gnmi.PathElem{{Name: "multi", Key: map[string]string{"a": k, "b": g.pick(okValues)}}, {Name: "val"}}}, Val: str("m")}
	case 16:
		return &gnmi.Update{Path: &gnmi.Path{Target: target, Elem: []*gnmi.PathElem{{Name: "list", Key: map[string]string{"k": k}}, {Name: "sub", Key: map[string]string{"j": g.pick(okValues)}}, {Name: "w"}}}, Val: uv(7)}
	}
	return &gnmi.Update{Path: &gnmi.Path{Target: target, Elem: []*gnmi.PathElem{{Name: "cont"}, {Name: "u"}}}, Val: uv(math.MaxUint64)}
}

var contLeaves = []string{"leaf", "u", "bits", "dec", "flt", "flag", "ll", "lli", "llu", "llb", "lld", "llf", "lly", "u0", "i0", "sopt", "bopt", "yopt"}

// an update of an existing model leaf with a value whose WIRE type is drawn independently of the leaf's model
// type (uint / int / bool / float / decimal / bytes / leaf-list / string against string, bool, bytes, uint, int ...
// leaves, with and without type options in the model entry): Set does not compare the two, the conversion
// switches on the wire type and looks the width / precision up in the entry's type options
func (g *gen) mismatchUpdate(target string) *gnmi.Update {
	var p *gnmi.Path
	k := g.pick(okValues)
	switch g.r.Intn(8) {
	case 0:
		p = &gnmi.Path{Target: target, Elem: []*gnmi.PathElem{{Name: g.pick([]string{"foo", "bar"})}}}
	case 1:
		p = &gnmi.Path{Target: target, Elem: []*gnmi.PathElem{{Name: "list", Key: map[string]string{"k": k}}, {Name: g.pick([]string{"k", "v"})}}}
	case 2:
		p = &gnmi.Path{Target: target, Elem: []*gnmi.PathElem{{Name: "multi", Key: map[string]string{"a": k, "b": g.pick(okValues)}}, {Name: g.pick([]string{"a", "b", "val"})}}}
	case 3:
		p = &gnmi.Path{Target: target, Elem: []*gnmi.PathElem{{Name: "list", Key: map[string]string{"k": k}}, {Name: "sub", Key: map[string]string{"j": g.pick(okValues)}}, {Name: g.pick([]string{"j", "w"})}}}
	default:
		p = &gnmi.Path{Target: target, Elem: []*gnmi.PathElem{{Name: "cont"}, {Name: g.pick(contLeaves)}}}
	}
	var v *gnmi.TypedValue
	switch g.r.Intn(6) {
	case 0: // the arms that look type options up
		v = &gnmi.TypedValue{Value: &gnmi.TypedValue_UintVal{UintVal: []uint64{0, 7, 255, math.MaxUint64}[g.r.Intn(4)]}}
	case 1:
		v = &gnmi.TypedValue{Value: &gnmi.TypedValue_IntVal{IntVal: []int64{0, -7, 300, math.MinInt64}[g.r.Intn(4)]}}
	default:
		for v == nil || v.GetJsonVal() != nil {
			v = g.value()
		}
	}
	return &gnmi.Update{Path: p, Val: v}
}

// a well-formed update: right type most of the time, any wire type otherwise
func (g *gen) okUpdate(target string) *gnmi.Update {
	if g.chance(3) {
		return g.mismatchUpdate(target)
	}
	return g.validUpdate(target)
}

func (g *gen) setRequest() *gnmi.SetRequest {
	r := &gnmi.SetRequest{Prefix: g.prefix(), Extension: g.exts(true)}
	valid := g.r.Intn(3) != 0
	tgt := g.pick([]string{"t1", "t1", "t2"})
	if valid {
		r.Prefix = nil
		if g.chance(4) {
			r.Prefix = &gnmi.Path{Target: tgt}
		}
	}
	nd, nr, nu := g.r.Intn(3), g.r.Intn(2), g.r.Intn(3)
	if g.chance(15) {
		nd, nr, nu = 0, 0, 0
	}
	for i := 0; i < nd; i++ {
		if valid && !g.chance(4) {
			r.Delete = append(r.Delete, g.validUpdate(tgt).Path)
		} else {
			r.Delete = append(r.Delete, g.path(true))
		}
	}
	for i := 0; i < nr; i++ {
		if valid && !g.chance(5) {
			r.Replace = append(r.Replace, g.okUpdate(tgt))
		} else {
			r.Replace = append(r.Replace, g.update())
		}
	}
	for i := 0; i < nu; i++ {
		if valid && !g.chance(5) {
			r.Update = append(r.Update, g.okUpdate(tgt))
		} else {
			r.Update = append(r.Update, g.update())
		}
	}
	return r
}

func (g *gen) getRequest() *gnmi.GetRequest {
	r := &gnmi.GetRequest{Prefix: g.prefix(), Extension: g.exts(false)}
	r.Encoding = []gnmi.Encoding{gnmi.Encoding_JSON, gnmi.Encoding_PROTO, gnmi.Encoding_JSON_IETF, gnmi.Encoding_JSON, gnmi.Encoding_PROTO, gnmi.Encoding_BYTES, gnmi.Encoding_ASCII, gnmi.Encoding(9)}[g.r.Intn(8)]
	if g.chance(10) {
		r.Type = []gnmi.GetRequest_DataType{gnmi.GetRequest_STATE, gnmi.GetRequest_OPERATIONAL, gnmi.GetRequest_CONFIG, gnmi.GetRequest_DataType(7)}[g.r.Intn(4)]
	}
	n := g.r.Intn(4)
	valid := g.r.Intn(3) != 0
	for i := 0; i < n; i++ {
		if valid {
			p := g.validUpdate(g.pick([]string{"t1", "t2", "t1", "t2", "t4"})).Path
			switch g.r.Intn(5) {
			case 0:
				p.Elem = p.Elem[:1]
			case 1:
				p.Elem = nil
			case 2:
				p.Elem[len(p.Elem)-1] = &gnmi.PathElem{Name: g.pick([]string{"*", "...", "v*", "a(", "k", "[", "l*"})}
			case 3:
				if p.Elem[0].Key != nil {
					for k := range p.Elem[0].Key {
						p.Elem[0].Key[k] = g.pick([]string{"*", "...", "k1", "a]", "("})
					}
				}
			}
			r.Path = append(r.Path, p)
		} else {
			r.Path = append(r.Path, g.path(true))
		}
	}
	if valid && g.chance(3) {
		r.Prefix = nil
	}
	return r
}

func (g *gen) subStream() []*gnmi.SubscribeRequest {
	n := 1 + g.r.Intn(3)
	ms := []*gnmi.SubscribeRequest{}
	for i := 0; i < n; i++ {
		switch g.r.Intn(6) {
		case 0:
			ms = append(ms, &gnmi.SubscribeRequest{Request: &gnmi.SubscribeRequest_Poll{Poll: &gnmi.Poll{}}})
		case 1:
			ms = append(ms, &gnmi.SubscribeRequest{})
		default:
			sl := &gnmi.SubscriptionList{Prefix: g.prefix(), Mode: gnmi.SubscriptionList_Mode(g.r.Intn(4)), Encoding: gnmi.Encoding(g.r.Intn(5))}
			k := g.r.Intn(4)
			for j := 0; j < k; j++ {
				s := &gnmi.Subscription{Path: g.path(true), Mode: gnmi.SubscriptionMode(g.r.Intn(3))}
				if g.chance(6) {
					s.Path = nil
				}
				sl.Subscription = append(sl.Subscription, s)
			}
			m := &gnmi.SubscribeRequest{Request: &gnmi.SubscribeRequest_Subscribe{Subscribe: sl}, Extension: g.exts(false)}
			if g.chance(15) {
				m.Request = &gnmi.SubscribeRequest_Subscribe{Subscribe: nil}
			}
			ms = append(ms, m)
		}
	}
	return ms
}

func (g *gen) lsqRequest() *adminapi.LeafSelectionQueryRequest {
	// t4: its configuration exists but holds no value (a discovered, never configured target: the store
	// returns Values == nil); t1 / t2: populated by the Sets of the stream; t3 / nosuch / "": no configuration
	r := &adminapi.LeafSelectionQueryRequest{Target: g.pick([]string{"t1", "t2", "t1", "t4", "t4", "t3", "", "nosuch"}), Type: "devicesim", Version: "1.0.0",
		SelectionPath: g.pick([]string{"/foo", "", "/list[k=1]/v", "a(", "/a]"})}
	if g.chance(8) {
		r.Type = g.pick([]string{"", "nomodel", "devicesim"})
		r.Version = g.pick([]string{"", "2.0.0", "9"})
	}
	switch g.r.Intn(6) {
	case 0: // no change context
	case 1, 2: // a small, valid change context: updates / replaces / deletes that pass the model checks
		cx := &gnmi.SetRequest{}
		tgt := g.pick([]string{r.Target, "", "t1"})
		n := 1 + g.r.Intn(2)
		for i := 0; i < n; i++ {
			u := g.okUpdate(tgt)
			switch g.r.Intn(4) {
			case 0:
				cx.Replace = append(cx.Replace, u)
			case 1:
				cx.Delete = append(cx.Delete, u.Path)
			default:
				cx.Update = append(cx.Update, u)
			}
		}
		if g.chance(3) {
			cx.Prefix = &gnmi.Path{Target: tgt}
		}
		r.ChangeContext = cx
	default:
		cx := g.setRequest()
		if g.chance(2) { // the change context names no targets of its own
			for _, u := range cx.Update {
				if u.Path != nil {
					u.Path.Target = ""
				}
			}
		}
		r.ChangeContext = cx
	}
	return r
}

// mutate flips / inserts / deletes bytes of an encoded message (the malformed stream)
func (g *gen) mutate(b []byte) []byte {
	out := append([]byte{}, b...)
	n := 1 + g.r.Intn(3)
	for i := 0; i < n && len(out) > 0; i++ {
		p := g.r.Intn(len(out))
		switch g.r.Intn(4) {
		case 0:
			out[p] ^= byte(1 << uint(g.r.Intn(8)))
		case 1:
			out = append(out[:p], out[p+1:]...)
		case 2:
			out = append(out[:p], append([]byte{byte(g.r.Intn(256))}, out[p:]...)...)
		default:
			out[p] = byte(g.r.Intn(256))
		}
	}
	return out
}

var _ = fmt.Sprintf
var _ = strings.Join

package main

import (
	"encoding/json"
	"fmt"
	"sort"

	configapi "github.com/onosproject/onos-api/go/onos/config/v2"
	pathutils "github.com/onosproject/onos-config/pkg/utils/path"
)

// fakePathValues is the fake model plugin's GetPathValues: the JSON document must be an object whose
// member names are (absolute or relative) leaf paths of the model; like a real plugin it answers
// only with paths that exist in its schema - the key values inside are whatever the document says.
func fakePathValues(prefix string, doc []byte) ([]*configapi.PathValue, error) {
	var m map[string]interface{}
	if err := json.Unmarshal(doc, &m); err != nil {
		return nil, fmt.Errorf("invalid json: %v", err)
	}
	keys := make([]string, 0, len(m))
	for k := range m {
		keys = append(keys, k)
	}
	sort.Strings(keys)
	res := []*configapi.PathValue{}
	for _, k := range keys {
		p := k
		if len(p) == 0 || p[0] != '/' {
			p = "/" + p
		}
		known := false
		for _, rw := range rwModel {
			if rw.path == pathutils.AnonymizePathIndices(p) {
				known = true
			}
		}
		if !known {
			return nil, fmt.Errorf("unknown path %s", p)
		}
		res = append(res, &configapi.PathValue{Path: p, Value: *configapi.NewTypedValueString(fmt.Sprint(m[k]))})
	}
	return res, nil
}

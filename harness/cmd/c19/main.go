// c19: observations for property C19 (subscriptions reach exactly the targets they name).
// Drives the real Server.Subscribe of /repo with a scripted northbound stream and recording
// per-target southbound clients; prints one line per stream run:
//
//	sub.run <id> <known targets> <eof|err> <script> <result> <forwarded per target> <relayed>
//
// script  : steps joined by ';' ('_' = none):  P | N | D:<target>:r:<payload> | D:<target>:o:- | S:<req>
// req     : <ext>=<prefix>=<opts>=<entries>
// prefix  : ~ (nil) | <target>.<origin>.<elem bytes>.<element bytes>
// opts    : <qos: ~ | q<hex>>.<mode>.<allow 0|1>.<use_models bytes>.<encoding>.<updates_only 0|1>
// entries : _ | <path target>/<entry bytes>,...
// forwarded: _ | T:<target>:<ev>|<ev>...;...   ev = p | s!<query target>!<flags>!<req>
// relayed : _ | <target>/r/<bytes>,<target>/e/-,...      (all byte strings hex, '-' = empty)
package main

import (
	"bufio"
	"context"
	"encoding/hex"
	"flag"
	"fmt"
	"io"
	"math"
	"math/rand"
	"os"
	"sort"
	"strconv"
	"strings"

	nbgnmi "github.com/onosproject/onos-config/pkg/northbound/gnmi/v2"
	liberrors "github.com/onosproject/onos-lib-go/pkg/errors"
	"github.com/openconfig/gnmi/proto/gnmi"
	"github.com/openconfig/gnmi/proto/gnmi_ext"
	"google.golang.org/grpc/metadata"
	"google.golang.org/protobuf/proto"

	"verifharness/env"
	"verifharness/fakes"
)

func hx(b []byte) string {
	if len(b) == 0 {
		return "-"
	}
	return hex.EncodeToString(b)
}

func unhx(s string) []byte {
	if s == "-" || s == "" {
		return nil
	}
	b, err := hex.DecodeString(s)
	if err != nil {
		panic(err)
	}
	return b
}

func b01(b bool) string {
	if b {
		return "1"
	}
	return "0"
}

func descPrefix(p *gnmi.Path) string {
	if p == nil {
		return "~"
	}
	return hx([]byte(p.Target)) + "." + hx([]byte(p.Origin)) + "." + hx(fakes.C19Marshal(&gnmi.Path{Elem: p.Elem})) + "." +
		hx(fakes.C19Marshal(&gnmi.Path{Element: p.Element}))
}

func descReq(r *gnmi.SubscribeRequest) string {
	l := r.GetSubscribe()
	if l == nil {
		return "?"
	}
	qos := "~"
	if l.Qos != nil {
		qos = "q" + hex.EncodeToString(fakes.C19Marshal(l.Qos))
	}
	ents := []string{}
	for _, s := range l.Subscription {
		ents = append(ents, hx([]byte(s.GetPath().GetTarget()))+"/"+hx(fakes.C19Marshal(s)))
	}
	es := "_"
	if len(ents) > 0 {
		es = strings.Join(ents, ",")
	}
	return hx(fakes.C19Marshal(&gnmi.SubscribeRequest{Extension: r.Extension})) + "=" + descPrefix(l.Prefix) + "=" +
		qos + "." + strconv.Itoa(int(l.Mode)) + "." + b01(l.AllowAggregation) + "." +
		hx(fakes.C19Marshal(&gnmi.SubscriptionList{UseModels: l.UseModels})) + "." + strconv.Itoa(int(l.Encoding)) + "." + b01(l.UpdatesOnly) +
		"=" + es
}

// parseReq rebuilds a request from its description (corpus / replay lines)
func parseReq(d string) *gnmi.SubscribeRequest {
	f := strings.Split(d, "=")
	if len(f) != 4 {
		panic("bad request description " + d)
	}
	r := &gnmi.SubscribeRequest{}
	if err := proto.Unmarshal(unhx(f[0]), r); err != nil {
		panic(err)
	}
	l := &gnmi.SubscriptionList{}
	if f[1] != "~" {
		p := strings.Split(f[1], ".")
		el, elt := &gnmi.Path{}, &gnmi.Path{}
		_ = proto.Unmarshal(unhx(p[2]), el)
		_ = proto.Unmarshal(unhx(p[3]), elt)
		l.Prefix = &gnmi.Path{Target: string(unhx(p[0])), Origin: string(unhx(p[1])), Elem: el.Elem, Element: elt.Element}
	}
	o := strings.Split(f[2], ".")
	if o[0] != "~" {
		l.Qos = &gnmi.QOSMarking{}
		b, _ := hex.DecodeString(o[0][1:])
		_ = proto.Unmarshal(b, l.Qos)
	}
	m, _ := strconv.Atoi(o[1])
	l.Mode = gnmi.SubscriptionList_Mode(m)
	l.AllowAggregation = o[2] == "1"
	um := &gnmi.SubscriptionList{}
	_ = proto.Unmarshal(unhx(o[3]), um)
	l.UseModels = um.UseModels
	e, _ := strconv.Atoi(o[4])
	l.Encoding = gnmi.Encoding(e)
	l.UpdatesOnly = o[5] == "1"
	if f[3] != "_" {
		for _, es := range strings.Split(f[3], ",") {
			tb := strings.Split(es, "/")
			s := &gnmi.Subscription{}
			if err := proto.Unmarshal(unhx(tb[1]), s); err != nil {
				panic(err)
			}
			l.Subscription = append(l.Subscription, s)
		}
	}
	r.Request = &gnmi.SubscribeRequest_Subscribe{Subscribe: l}
	return r
}

func parseScript(s string) []fakes.C19Step {
	steps := []fakes.C19Step{}
	if s == "_" || s == "" {
		return steps
	}
	for _, st := range strings.Split(s, ";") {
		switch {
		case st == "P":
			steps = append(steps, fakes.C19Step{Kind: 'M', Req: &gnmi.SubscribeRequest{Request: &gnmi.SubscribeRequest_Poll{Poll: &gnmi.Poll{}}}})
		case st == "N":
			steps = append(steps, fakes.C19Step{Kind: 'M', Req: &gnmi.SubscribeRequest{}})
		case strings.HasPrefix(st, "S:"):
			steps = append(steps, fakes.C19Step{Kind: 'M', Req: parseReq(st[2:])})
		case strings.HasPrefix(st, "D:"):
			f := strings.Split(st, ":")
			var m proto.Message = &gnmi.GetResponse{}
			if f[2] == "r" {
				resp := &gnmi.SubscribeResponse{}
				if err := proto.Unmarshal(unhx(f[3]), resp); err != nil {
					panic(err)
				}
				m = resp
			}
			steps = append(steps, fakes.C19Step{Kind: 'D', Target: string(unhx(f[1])), Dev: m})
		default:
			panic("bad step " + st)
		}
	}
	return steps
}

func roundTrip(r *gnmi.SubscribeRequest) *gnmi.SubscribeRequest {
	out := &gnmi.SubscribeRequest{}
	if err := proto.Unmarshal(fakes.C19Marshal(r), out); err != nil {
		panic(err)
	}
	return out
}

func descScript(steps []fakes.C19Step) string {
	parts := []string{}
	for _, st := range steps {
		if st.Kind == 'D' {
			if resp, ok := st.Dev.(*gnmi.SubscribeResponse); ok {
				parts = append(parts, "D:"+hx([]byte(st.Target))+":r:"+hx(fakes.C19Marshal(resp)))
			} else {
				parts = append(parts, "D:"+hx([]byte(st.Target))+":o:-")
			}
			continue
		}
		d := roundTrip(st.Req) // what the handler will see
		switch {
		case d.GetSubscribe() != nil:
			parts = append(parts, "S:"+descReq(d))
		case d.GetPoll() != nil:
			parts = append(parts, "P")
		default:
			parts = append(parts, "N")
		}
	}
	if len(parts) == 0 {
		return "_"
	}
	return strings.Join(parts, ";")
}

// runCase drives the real handler
func runCase(out *bufio.Writer, id string, known []string, steps []fakes.C19Step, endEOF bool, withMD bool) {
	script := descScript(steps)
	log := &fakes.C19Log{}
	conns := fakes.NewC19Conns(known, log)
	srv := nbgnmi.NewServerForVerif(nil, nil, nil, nil, nil, conns, 0)
	ctx := context.Background()
	if withMD {
		ctx = metadata.NewIncomingContext(ctx, metadata.Pairs("name", "alice", "groups", "users;AetherROCAdmin"))
	}
	stream := &fakes.C19Stream{Ctx: ctx, Steps: steps, EndEOF: endEOF, Conns: conns, Log: log}
	result := func() (res string) {
		defer func() {
			if p := recover(); p != nil {
				res = "panic"
			}
		}()
		err := srv.Subscribe(stream)
		switch {
		case err == nil:
			return "nil"
		case err == io.EOF:
			return "eof"
		case liberrors.IsInvalid(err):
			return "invalid"
		}
		return "other"
	}()
	per := map[string][]string{}
	rel := []string{}
	for _, ev := range log.Events {
		switch ev.Kind {
		case 's':
			d := "?"
			if ev.Req != nil {
				d = descReq(ev.Req)
			}
			per[ev.Target] = append(per[ev.Target], "s!"+hx([]byte(ev.QTarget))+"!"+ev.Flags+"!"+d)
		case 'p':
			per[ev.Target] = append(per[ev.Target], "p")
		case 'r':
			rel = append(rel, hx([]byte(ev.Target))+"/r/"+hx(ev.Payload))
		case 'e':
			rel = append(rel, hx([]byte(ev.Target))+"/e/-")
		default:
			rel = append(rel, hx([]byte(ev.Target))+"/x/-")
		}
	}
	ts := []string{}
	for t := range per {
		ts = append(ts, t)
	}
	sort.Strings(ts)
	fw := []string{}
	for _, t := range ts {
		fw = append(fw, "T:"+hx([]byte(t))+":"+strings.Join(per[t], "|"))
	}
	fwd, rl := "_", "_"
	if len(fw) > 0 {
		fwd = strings.Join(fw, ";")
	}
	if len(rel) > 0 {
		rl = strings.Join(rel, ",")
	}
	e := "err"
	if endEOF {
		e = "eof"
	}
	fmt.Fprintf(out, "sub.run\t%s\t%s\t%s\t%s\t%s\t%s\t%s\n", id, env.HxList(known), e, script, result, fwd, rl)
}

// ------------------------------------------------------------------ generators

var pool = []string{"t1", "t2", "t3", "t4"}
var odd = []string{"T1", "t1 ", "t", "t11", "é1", "a/b", "t1;t2", "*", "0", strings.Repeat("x", 70), "t2\x00"}

func genTarget(r *rand.Rand, nt int) string {
	if r.Intn(12) == 0 {
		return env.Pick(r, odd)
	}
	return pool[r.Intn(nt)]
}

func genElems(r *rand.Rand) []*gnmi.PathElem {
	names := []string{"interfaces", "interface", "state", "counters", "a", "b-c", "x:y", ""}
	n := r.Intn(4)
	es := []*gnmi.PathElem{}
	for i := 0; i < n; i++ {
		e := &gnmi.PathElem{Name: env.Pick(r, names)}
		if r.Intn(4) == 0 {
			e.Key = map[string]string{"name": env.Pick(r, []string{"eth0", "*", "", "a=b"})}
			if r.Intn(3) == 0 {
				e.Key["id"] = strconv.Itoa(r.Intn(3))
			}
		}
		es = append(es, e)
	}
	return es
}

func genEntry(r *rand.Rand, nt int, pTarget float64) *gnmi.Subscription {
	s := &gnmi.Subscription{}
	if r.Intn(16) != 0 {
		s.Path = &gnmi.Path{Elem: genElems(r)}
		if r.Float64() < pTarget {
			s.Path.Target = genTarget(r, nt)
		}
		if r.Intn(10) == 0 {
			s.Path.Origin = env.Pick(r, []string{"openconfig", "cli"})
		}
		if r.Intn(20) == 0 {
			s.Path.Element = []string{"legacy", "path"}
		}
	}
	s.Mode = gnmi.SubscriptionMode(r.Intn(3))
	s.SampleInterval = env.Pick(r, []uint64{0, 0, 1, 1000000000, 10000000000, math.MaxUint64})
	s.SuppressRedundant = r.Intn(4) == 0
	s.HeartbeatInterval = env.Pick(r, []uint64{0, 0, 60000000000, math.MaxUint64})
	return s
}

func genExt(r *rand.Rand) []*gnmi_ext.Extension {
	n := env.Pick(r, []int{0, 0, 0, 1, 1, 2})
	xs := []*gnmi_ext.Extension{}
	for i := 0; i < n; i++ {
		if r.Intn(2) == 0 {
			xs = append(xs, &gnmi_ext.Extension{Ext: &gnmi_ext.Extension_RegisteredExt{RegisteredExt: &gnmi_ext.RegisteredExtension{
				Id: gnmi_ext.ExtensionID(100 + r.Intn(12)), Msg: []byte(env.Pick(r, []string{"", "v1", "\x00\xff"}))}}})
		} else {
			xs = append(xs, &gnmi_ext.Extension{Ext: &gnmi_ext.Extension_MasterArbitration{MasterArbitration: &gnmi_ext.MasterArbitration{
				ElectionId: &gnmi_ext.Uint128{Low: uint64(r.Intn(5))}}}})
		}
	}
	return xs
}

// genSubscribe: shape 0 = multi-target by paths, 1 = prefix target, 2 = no target anywhere, 3 = anything
func genSubscribe(r *rand.Rand, shape int) *gnmi.SubscribeRequest {
	nt := 1 + r.Intn(4)
	l := &gnmi.SubscriptionList{}
	pT := 0.85
	switch shape {
	case 1:
		pT = 0.4
	case 2:
		pT = 0
	case 3:
		pT = r.Float64()
	}
	havePrefix := r.Intn(10) < 7 || shape == 1
	if havePrefix {
		l.Prefix = &gnmi.Path{Origin: env.Pick(r, []string{"", "", "openconfig", "x"})}
		if r.Intn(2) == 0 {
			l.Prefix.Elem = genElems(r)
		}
		if r.Intn(12) == 0 {
			l.Prefix.Element = []string{"old", "style"}
		}
		if shape == 1 || (shape == 3 && r.Intn(3) == 0) {
			l.Prefix.Target = genTarget(r, nt)
		}
	}
	ne := env.Pick(r, []int{0, 1, 1, 2, 2, 3, 3, 4, 5, 6, 9})
	for i := 0; i < ne; i++ {
		if i > 0 && r.Intn(12) == 0 { // exact duplicate of an earlier entry
			l.Subscription = append(l.Subscription, proto.Clone(l.Subscription[r.Intn(i)]).(*gnmi.Subscription))
			continue
		}
		l.Subscription = append(l.Subscription, genEntry(r, nt, pT))
	}
	switch r.Intn(4) {
	case 0:
		l.Qos = &gnmi.QOSMarking{}
	case 1:
		l.Qos = &gnmi.QOSMarking{Marking: uint32(env.Pick(r, []int{46, 1, math.MaxUint32}))}
	}
	l.Mode = gnmi.SubscriptionList_Mode(env.Pick(r, []int{0, 0, 1, 2, 2, 7}))
	l.AllowAggregation = r.Intn(2) == 0
	for i := r.Intn(3); i > 0; i-- {
		l.UseModels = append(l.UseModels, &gnmi.ModelData{Name: env.Pick(r, []string{"openconfig-interfaces", "m", ""}), Organization: "oc", Version: env.Pick(r, []string{"1.0.0", ""})})
	}
	l.Encoding = gnmi.Encoding(r.Intn(5))
	l.UpdatesOnly = r.Intn(2) == 0
	req := &gnmi.SubscribeRequest{Request: &gnmi.SubscribeRequest_Subscribe{Subscribe: l}, Extension: genExt(r)}
	if r.Intn(60) == 0 { // wrapper without a list: arrives as an empty list
		req = &gnmi.SubscribeRequest{Request: &gnmi.SubscribeRequest_Subscribe{}, Extension: genExt(r)}
	}
	return req
}

func genResponse(r *rand.Rand) *gnmi.SubscribeResponse {
	switch r.Intn(6) {
	case 0:
		return &gnmi.SubscribeResponse{Response: &gnmi.SubscribeResponse_SyncResponse{SyncResponse: r.Intn(4) != 0}}
	case 1:
		return &gnmi.SubscribeResponse{}
	}
	n := &gnmi.Notification{Timestamp: env.Pick(r, []int64{0, 1, 1600000000000000000, math.MaxInt64, -1})}
	if r.Intn(2) == 0 {
		n.Prefix = &gnmi.Path{Target: env.Pick(r, []string{"", "t1", "other"}), Elem: genElems(r)}
	}
	for i := r.Intn(3); i > 0; i-- {
		var v *gnmi.TypedValue
		switch r.Intn(4) {
		case 0:
			v = &gnmi.TypedValue{Value: &gnmi.TypedValue_StringVal{StringVal: env.Pick(r, []string{"", "up", "é", strings.Repeat("v", 40)})}}
		case 1:
			v = &gnmi.TypedValue{Value: &gnmi.TypedValue_UintVal{UintVal: env.Pick(r, []uint64{0, 1, math.MaxUint64})}}
		case 2:
			v = &gnmi.TypedValue{Value: &gnmi.TypedValue_BytesVal{BytesVal: []byte{0, 255, 29}}}
		}
		n.Update = append(n.Update, &gnmi.Update{Path: &gnmi.Path{Elem: genElems(r)}, Val: v, Duplicates: uint32(r.Intn(2))})
	}
	if r.Intn(4) == 0 {
		n.Delete = append(n.Delete, &gnmi.Path{Elem: genElems(r)})
	}
	n.Atomic = r.Intn(8) == 0
	resp := &gnmi.SubscribeResponse{Response: &gnmi.SubscribeResponse_Update{Update: n}}
	if r.Intn(10) == 0 {
		resp.Extension = genExt(r)
	}
	return resp
}

func poll() *gnmi.SubscribeRequest {
	return &gnmi.SubscribeRequest{Request: &gnmi.SubscribeRequest_Poll{Poll: &gnmi.Poll{}}}
}

func genDev(r *rand.Rand) fakes.C19Step {
	t := genTarget(r, 4)
	if r.Intn(9) == 0 {
		return fakes.C19Step{Kind: 'D', Target: t, Dev: &gnmi.GetResponse{}}
	}
	return fakes.C19Step{Kind: 'D', Target: t, Dev: genResponse(r)}
}

// genScript: message sequences of length 0..5 (6..40 in the long stream) with device messages in between
func genScript(r *rand.Rand, long bool) []fakes.C19Step {
	steps := []fakes.C19Step{}
	shape := r.Intn(20)
	sub := func() {
		k := r.Intn(10)
		sh := 0
		switch {
		case k >= 5 && k < 8:
			sh = 1
		case k == 8:
			sh = 2
		case k == 9:
			sh = 3
		}
		steps = append(steps, fakes.C19Step{Kind: 'M', Req: genSubscribe(r, sh)})
	}
	devs := func(max int) {
		for i := r.Intn(max + 1); i > 0; i-- {
			steps = append(steps, genDev(r))
		}
	}
	nmsg := r.Intn(6)
	if long {
		nmsg = 6 + r.Intn(35)
	}
	switch {
	case shape == 0: // nothing but possibly device noise
		devs(2)
		return steps
	case shape == 1: // poll first
		steps = append(steps, fakes.C19Step{Kind: 'M', Req: poll()})
	case shape == 2: // neither first
		steps = append(steps, fakes.C19Step{Kind: 'M', Req: &gnmi.SubscribeRequest{Extension: genExt(r)}})
	default:
		devs(1)
		sub()
	}
	for len(steps) < 60 && nmsg > 1 {
		nmsg--
		devs(3)
		switch k := r.Intn(12); {
		case k == 0:
			sub() // second subscription
		case k == 1:
			steps = append(steps, fakes.C19Step{Kind: 'M', Req: &gnmi.SubscribeRequest{}})
		default:
			steps = append(steps, fakes.C19Step{Kind: 'M', Req: poll()})
		}
	}
	devs(3)
	return steps
}

func genKnown(r *rand.Rand) []string {
	known := []string{}
	k := r.Intn(10)
	for _, t := range pool {
		if k < 7 || r.Intn(2) == 0 { // mostly every pool target is connected
			known = append(known, t)
		}
	}
	if k == 9 {
		known = []string{}
	}
	for _, t := range odd {
		if r.Intn(3) == 0 {
			known = append(known, t)
		}
	}
	known = append(known, "bystander")
	return known
}

func main() {
	seed := flag.Int64("seed", 1, "")
	n := flag.Int("n", 3000, "stream runs")
	nlong := flag.Int("long", 100, "long stream runs")
	corpus := flag.String("corpus", "", "file with <known>\\t<eof|err>\\t<script> lines, run first")
	enum := flag.Int("enum", 4, "enumerate every sequence of message kinds up to this length")
	flag.Parse()
	env.Quiet()
	r := rand.New(rand.NewSource(*seed))
	out := bufio.NewWriter(os.Stdout)
	defer out.Flush()

	if *corpus != "" {
		if b, err := os.ReadFile(*corpus); err == nil {
			for i, ln := range strings.Split(string(b), "\n") {
				f := strings.Split(strings.TrimRight(ln, "\r"), "\t")
				if len(f) != 3 || strings.HasPrefix(ln, "#") {
					continue
				}
				known := []string{}
				if f[0] != "." {
					for _, h := range strings.Split(f[0], ",") {
						known = append(known, string(unhx(h)))
					}
				}
				runCase(out, fmt.Sprintf("corpus:%d", i), known, parseScript(f[2]), f[1] == "eof", false)
			}
		}
	}
	// exhaustive small scope: every sequence over {subscribe by paths, subscribe by prefix target, subscribe
	// without target, poll, neither} up to the given length, a device response of t1 and of t2 after each message
	cnt := 0
	var rec func(prefix []int)
	rec = func(prefix []int) {
		steps := []fakes.C19Step{}
		for _, k := range prefix {
			switch k {
			case 0, 1, 2:
				steps = append(steps, fakes.C19Step{Kind: 'M', Req: genSubscribe(r, k)})
			case 3:
				steps = append(steps, fakes.C19Step{Kind: 'M', Req: poll()})
			default:
				steps = append(steps, fakes.C19Step{Kind: 'M', Req: &gnmi.SubscribeRequest{}})
			}
			steps = append(steps, fakes.C19Step{Kind: 'D', Target: "t1", Dev: genResponse(r)}, fakes.C19Step{Kind: 'D', Target: "t2", Dev: genResponse(r)})
		}
		runCase(out, fmt.Sprintf("%d:enum%d", *seed, cnt), []string{"t1", "t2", "t3", "t4", "bystander"}, steps, cnt%2 == 0, false)
		cnt++
		if len(prefix) < *enum {
			for k := 0; k < 5; k++ {
				rec(append(append([]int{}, prefix...), k))
			}
		}
	}
	rec(nil)
	for i := 0; i < *n+*nlong; i++ {
		long := i >= *n
		known := genKnown(r)
		steps := genScript(r, long)
		runCase(out, fmt.Sprintf("%d:%d", *seed, i), known, steps, r.Intn(3) != 0, r.Intn(5) == 0)
	}
}

// p2: drives the repository's real v2 reconcilers (transaction, proposal, configuration, mastership,
// connection) step by step over real stores, a fake topo store, fake connections whose southbound
// side is the repository's real client wrapper over an in-process gNMI device, and the real plugin
// registry over a fake model plugin.  Every step is a label; after every step the projected state of
// all stores, the topology, the connections and the devices is dumped as an S-expression.  The model
// side (ocaml/p2_check.ml) validates every observed step against the Coq model and evaluates the
// property monitors on the implementation's trace.
package main

import (
	"bufio"
	"context"
	"crypto/sha256"
	"encoding/hex"
	"encoding/json"
	"flag"
	"fmt"
	"github.com/onosproject/onos-config/pkg/utils/v2/tree"
	"io"
	"math/rand"
	"os"
	"runtime"
	"sort"
	"strconv"
	"strings"
	"sync"
	"time"

	_map "github.com/atomix/go-sdk/pkg/primitive/map"
	"github.com/atomix/go-sdk/pkg/types"
	adminapi "github.com/onosproject/onos-api/go/onos/config/admin"
	configapi "github.com/onosproject/onos-api/go/onos/config/v2"
	topoapi "github.com/onosproject/onos-api/go/onos/topo"
	"github.com/onosproject/onos-config/pkg/controller/connection"
	controllerutils "github.com/onosproject/onos-config/pkg/controller/utils"
	cfgctl "github.com/onosproject/onos-config/pkg/controller/v2/configuration"
	mstctl "github.com/onosproject/onos-config/pkg/controller/v2/mastership"
	propctl "github.com/onosproject/onos-config/pkg/controller/v2/proposal"
	txctl "github.com/onosproject/onos-config/pkg/controller/v2/transaction"
	sb "github.com/onosproject/onos-config/pkg/southbound/gnmi"
	topostore "github.com/onosproject/onos-config/pkg/store/topo"
	"github.com/onosproject/onos-config/pkg/store/v2/configuration"
	"github.com/onosproject/onos-config/pkg/store/v2/proposal"
	"github.com/onosproject/onos-config/pkg/store/v2/transaction"
	"github.com/onosproject/onos-lib-go/pkg/controller"
	"github.com/onosproject/onos-lib-go/pkg/errors"
	"github.com/openconfig/gnmi/proto/gnmi"
	"github.com/openconfig/gnmi/proto/gnmi_ext"
	"google.golang.org/grpc/codes"
	"google.golang.org/grpc/status"

	"verifharness/env"
	"verifharness/fakes"
)

const (
	ttype    = "devicesim"
	tversion = "1.0.0"
)

// ---------------------------------------------------------------- crash injection

type crashCtl struct {
	mu     sync.Mutex
	budget int // -1: unlimited
	calls  int
	// a second replica: the race-th proposal Create of this invocation is preceded by the same Create from elsewhere
	// (another replica's transaction controller that read "not found" at the same moment); -1: no race
	race  int
	raced bool
	// faults: the readFault-th store read of this invocation fails (Unavailable); -1: none
	readFault   int
	writeFault  int // the writeFault-th store write of this invocation is answered Unavailable and not performed; -1: none
	reads       int
	faulted     bool
	callsAtStop int // writes completed when the first injected fault / failed write happened
	// a write that the store refused (version conflict, not found): another invocation got in between
	writeFailed bool
	// mid-call interference: run once, while the device call of this invocation is in flight
	midcall  func()
	kinds    []string // configuration store writes of this invocation that were performed: "U" Update, "S" UpdateStatus, "C" Create
	devCalls int
}

type crashSnap struct {
	budget, calls, race, readFault, reads, callsAtStop, devCalls, writeFault int
	raced, faulted, writeFailed                                              bool
}

func (c *crashCtl) snapshot() crashSnap {
	c.mu.Lock()
	defer c.mu.Unlock()
	return crashSnap{c.budget, c.calls, c.race, c.readFault, c.reads, c.callsAtStop, c.devCalls, c.writeFault, c.raced, c.faulted, c.writeFailed}
}
func (c *crashCtl) restore(s crashSnap) {
	c.mu.Lock()
	defer c.mu.Unlock()
	c.budget, c.calls, c.race, c.readFault, c.reads, c.callsAtStop, c.devCalls = s.budget, s.calls, s.race, s.readFault, s.reads, s.callsAtStop, s.devCalls
	c.writeFault = s.writeFault
	c.raced, c.faulted, c.writeFailed = s.raced, s.faulted, s.writeFailed
	c.midcall = nil
}

// read is called by the store decorators before every read of the reconcilers
func (c *crashCtl) read() error {
	c.mu.Lock()
	defer c.mu.Unlock()
	c.reads++
	if c.readFault >= 0 && c.reads-1 == c.readFault && !c.faulted {
		c.faulted = true
		if !c.writeFailed {
			c.callsAtStop = c.calls
		}
		return errors.NewUnavailable("injected: store read failed")
	}
	return nil
}

// wrote is called with the result of every store write
func (c *crashCtl) wrote(err error) error {
	if err != nil && (errors.IsConflict(err) || errors.IsNotFound(err)) {
		c.mu.Lock()
		if !c.writeFailed && !c.faulted {
			c.callsAtStop = c.calls - 1
		}
		c.writeFailed = true
		c.mu.Unlock()
	}
	return err
}
func (c *crashCtl) stopped() (bool, int) {
	c.mu.Lock()
	defer c.mu.Unlock()
	return c.faulted || c.writeFailed, c.callsAtStop
}

func (c *crashCtl) reset(b int) {
	c.mu.Lock()
	c.budget, c.calls, c.race, c.raced = b, 0, -1, false
	c.readFault, c.reads, c.faulted, c.callsAtStop, c.writeFailed, c.midcall, c.devCalls = -1, 0, false, 0, false, nil, 0
	c.writeFault = -1
	c.kinds = nil
	c.mu.Unlock()
}

func (c *crashCtl) kind(k string, err error) error {
	if err == nil {
		c.mu.Lock()
		c.kinds = append(c.kinds, k)
		c.mu.Unlock()
	}
	return err
}

// failWrite is asked by the store decorators right after before(): true = answer Unavailable instead of writing
func (c *crashCtl) failWrite() bool {
	c.mu.Lock()
	defer c.mu.Unlock()
	if c.writeFault >= 0 && c.calls-1-c.devCalls == c.writeFault && !c.faulted && !c.writeFailed {
		c.faulted = true
		c.callsAtStop = c.calls - 1
		c.calls-- // the write did not happen
		return true
	}
	return false
}
func (c *crashCtl) arm(n int) { c.mu.Lock(); c.race = n; c.mu.Unlock() }
func (c *crashCtl) racing() bool {
	c.mu.Lock()
	defer c.mu.Unlock()
	if c.race >= 0 && c.calls-1 == c.race && !c.raced {
		c.raced = true
		return true
	}
	return false
}
func (c *crashCtl) didRace() bool { c.mu.Lock(); defer c.mu.Unlock(); return c.raced }
func (c *crashCtl) before() {
	c.mu.Lock()
	if c.budget >= 0 && c.calls >= c.budget {
		c.mu.Unlock()
		runtime.Goexit()
	}
	c.calls++
	c.mu.Unlock()
}
func (c *crashCtl) count() int { c.mu.Lock(); defer c.mu.Unlock(); return c.calls }

type cTxs struct {
	transaction.Store
	c *crashCtl
}

func (s *cTxs) Get(ctx context.Context, id configapi.TransactionID) (*configapi.Transaction, error) {
	if err := s.c.read(); err != nil {
		return nil, err
	}
	return s.Store.Get(ctx, id)
}
func (s *cTxs) GetByIndex(ctx context.Context, index configapi.Index) (*configapi.Transaction, error) {
	if err := s.c.read(); err != nil {
		return nil, err
	}
	return s.Store.GetByIndex(ctx, index)
}

func (s *cTxs) Create(ctx context.Context, t *configapi.Transaction) error {
	s.c.before()
	return s.c.wrote(s.Store.Create(ctx, t))
}
func (s *cTxs) Update(ctx context.Context, t *configapi.Transaction) error {
	s.c.before()
	if s.c.failWrite() {
		return errors.NewUnavailable("injected: store write failed")
	}
	return s.c.wrote(s.Store.Update(ctx, t))
}
func (s *cTxs) UpdateStatus(ctx context.Context, t *configapi.Transaction) error {
	s.c.before()
	if s.c.failWrite() {
		return errors.NewUnavailable("injected: store write failed")
	}
	return s.c.wrote(s.Store.UpdateStatus(ctx, t))
}

type cProps struct {
	proposal.Store
	c *crashCtl
}

func (s *cProps) Get(ctx context.Context, id configapi.ProposalID) (*configapi.Proposal, error) {
	if err := s.c.read(); err != nil {
		return nil, err
	}
	return s.Store.Get(ctx, id)
}

func (s *cProps) Create(ctx context.Context, p *configapi.Proposal) error {
	s.c.before()
	if s.c.racing() {
		other := *p
		_ = s.Store.Create(ctx, &other)
	}
	return s.Store.Create(ctx, p)
}
func (s *cProps) Update(ctx context.Context, p *configapi.Proposal) error {
	s.c.before()
	if s.c.failWrite() {
		return errors.NewUnavailable("injected: store write failed")
	}
	return s.c.wrote(s.Store.Update(ctx, p))
}
func (s *cProps) UpdateStatus(ctx context.Context, p *configapi.Proposal) error {
	s.c.before()
	if s.c.failWrite() {
		return errors.NewUnavailable("injected: store write failed")
	}
	return s.c.wrote(s.Store.UpdateStatus(ctx, p))
}

type cCfgs struct {
	configuration.Store
	c *crashCtl
}

func (s *cCfgs) Get(ctx context.Context, id configapi.ConfigurationID) (*configapi.Configuration, error) {
	if err := s.c.read(); err != nil {
		return nil, err
	}
	return s.Store.Get(ctx, id)
}

func (s *cCfgs) Create(ctx context.Context, p *configapi.Configuration) error {
	s.c.before()
	return s.c.kind("C", s.c.wrote(s.Store.Create(ctx, p)))
}
func (s *cCfgs) Update(ctx context.Context, p *configapi.Configuration) error {
	s.c.before()
	if s.c.failWrite() {
		return errors.NewUnavailable("injected: store write failed")
	}
	return s.c.kind("U", s.c.wrote(s.Store.Update(ctx, p)))
}
func (s *cCfgs) UpdateStatus(ctx context.Context, p *configapi.Configuration) error {
	s.c.before()
	if s.c.failWrite() {
		return errors.NewUnavailable("injected: store write failed")
	}
	return s.c.kind("S", s.c.wrote(s.Store.UpdateStatus(ctx, p)))
}

type cTopo struct {
	topostore.Store
	c *crashCtl
}

func (s *cTopo) Create(ctx context.Context, o *topoapi.Object) error {
	s.c.before()
	return s.Store.Create(ctx, o)
}
func (s *cTopo) Delete(ctx context.Context, o *topoapi.Object) error {
	s.c.before()
	return s.Store.Delete(ctx, o)
}

type cConn struct {
	sb.Conn
	c *crashCtl
}

func (s *cConn) Set(ctx context.Context, r *gnmi.SetRequest) (*gnmi.SetResponse, error) {
	s.c.before()
	s.c.mu.Lock()
	s.c.devCalls++
	hook := s.c.midcall
	first := s.c.devCalls == 1
	s.c.midcall = nil
	s.c.mu.Unlock()
	if hook != nil && first {
		hook() // something else happens while the request is on its way
	}
	return s.Conn.Set(ctx, r)
}

type cConns struct {
	sb.ConnManager
	c *crashCtl
}

func (s *cConns) Get(ctx context.Context, id sb.ConnID) (sb.Conn, bool) {
	conn, ok := s.ConnManager.Get(ctx, id)
	if !ok {
		return nil, false
	}
	return &cConn{Conn: conn, c: s.c}, true
}

// ---------------------------------------------------------------- harness state

type poisoned struct {
	val  string
	code codes.Code
}

type nbCall struct {
	kind  string // set | rollback
	index uint64
	done  chan struct{}
	code  string
	resp  string
}

type H struct {
	e           *env.Env
	plugin      *fakes.PluginClient
	devs        map[string]*fakes.Device
	devPos      map[string]int
	policy      map[string][]codes.Code // upcoming answers per target
	poison      map[string]poisoned     // a value the device of a target refuses every time
	focusCrash  map[string]int          // target -> number of its proposal invocations cut so far (scripted crash histories)
	holdSucc    map[string]uint64       // target -> index: proposals of the target above that index are not scheduled yet
	holdUntil   map[string]func() bool  // "target-index" of a proposal -> it is not scheduled until the predicate holds
	cutCommits  int                     // crash histories: how many commit invocations may still be cut after their configuration write and held back behind their successor
	txR         *txctl.Reconciler
	propR       *propctl.Reconciler
	cfgR        *cfgctl.Reconciler
	mstR        *mstctl.Reconciler
	connR       *connection.Reconciler
	crash       *crashCtl
	r           *rand.Rand
	out         *bufio.Writer
	hid         string
	step        int
	nb          []*nbCall
	connSeq     int
	knownC      map[string]bool // connection ids ever used
	lastDoc     []byte          // the document of the validation seen during the current step
	lastVerdict int             // -1 none, 0 reject, 1 accept (during the current step)
	vmu         sync.Mutex
	targets     []string
	lastState   string
	steps       int
	noops       int
	rs          *rand.Rand // scenario choices (the same for a crash history and its crash-free twin)
	focus       int
	faults      bool // inject store read faults and mid-call interference (atomic histories only)
	nesting     int
	interf      bool // run another invocation inside the device call of a proposal invocation (atomic histories only)
	midcalls    int
	expectDocs  []string // runChunks: digests of the documents the validations must have received
	script      []op
	twin        string // outcome summary of the crash-free twin ("" = none)
	raw         map[configapi.ConfigurationID]_map.Map[string, *configapi.PathValue]
	entries     _map.Map[configapi.ConfigurationID, *configapi.Configuration]
}

func tnum(t string) string { return strings.TrimPrefix(t, "t") }

func hx(s string) string {
	if s == "" {
		return "-"
	}
	return hex.EncodeToString([]byte(s))
}

func newH(seed int64, hid string, out *bufio.Writer, ntargets int, persistent map[string]bool) *H {
	h := &H{devs: map[string]*fakes.Device{}, devPos: map[string]int{}, policy: map[string][]codes.Code{}, poison: map[string]poisoned{}, focusCrash: map[string]int{}, holdSucc: map[string]uint64{}, holdUntil: map[string]func() bool{},
		crash: &crashCtl{budget: -1, race: -1, readFault: -1, writeFault: -1}, r: rand.New(rand.NewSource(seed)), out: out, hid: hid, knownC: map[string]bool{}, lastVerdict: -1,
		raw: map[configapi.ConfigurationID]_map.Map[string, *configapi.PathValue]{}}
	h.rs = h.r
	h.plugin = &fakes.PluginClient{Name: ttype, Version: tversion}
	for _, p := range []string{"/a/b", "/a/bc", "/a/c", "/a/d/e", "/z", "/q", "/l[k=*]/v", "/l[k=*]/k", "/l[k=*]/w"} {
		h.plugin.RW = append(h.plugin.RW, fakes.RWPath(p, configapi.ValueType_STRING, strings.HasSuffix(p, "]/k"), p[strings.LastIndex(p, "/")+1:]))
	}
	h.plugin.Verdict = func(doc []byte) (bool, string) {
		ok := !strings.Contains(string(doc), "BAD")
		h.vmu.Lock()
		h.lastDoc = append([]byte{}, doc...)
		if ok {
			h.lastVerdict = 1
		} else {
			h.lastVerdict = 0
		}
		h.vmu.Unlock()
		if ok {
			return true, ""
		}
		return false, "document contains BAD"
	}
	h.e = env.New(0, h.plugin)
	for i := 1; i <= ntargets; i++ {
		t := fmt.Sprintf("t%d", i)
		h.targets = append(h.targets, t)
		h.e.Topo.AddTarget(t, ttype, tversion, persistent[t], false)
		d := fakes.NewDevice(t)
		tt := t
		d.Policy = func(n int, r *fakes.DevReq) codes.Code {
			// a poisoned value is refused whenever it is sent (the same answer before and after a crash)
			if pz, ok := h.poison[tt]; ok {
				for _, u := range r.Updates {
					if strings.HasSuffix(u[1], pz.val) {
						return pz.code
					}
				}
			}
			q := h.policy[tt]
			if len(q) == 0 {
				return codes.OK
			}
			c := q[0]
			h.policy[tt] = q[1:]
			return c
		}
		h.devs[t] = d
	}
	txs := &cTxs{Store: h.e.Txs, c: h.crash}
	props := &cProps{Store: h.e.Props, c: h.crash}
	cfgs := &cCfgs{Store: h.e.Cfgs, c: h.crash}
	topo := &cTopo{Store: h.e.Topo, c: h.crash}
	conns := &cConns{ConnManager: h.e.Conns, c: h.crash}
	h.txR = txctl.NewReconcilerForVerif(txs, props)
	h.propR = propctl.NewReconcilerForVerif(topo, conns, props, cfgs, h.e.Registry)
	h.cfgR = cfgctl.NewReconcilerForVerif(topo, conns, cfgs)
	h.mstR = mstctl.NewReconcilerForVerif(topo, cfgs)
	h.connR = connection.NewReconcilerForVerif(topo, conns)
	return h
}

// ---------------------------------------------------------------- dump

func phTx(present bool, state int32, doing, done, failed int32) string {
	if !present {
		return "n"
	}
	switch state {
	case doing:
		return "doing"
	case done:
		return "done"
	case failed:
		return "failed"
	}
	return "doing"
}

func failStr(f *configapi.Failure) string {
	if f == nil {
		return "none"
	}
	return f.Type.String()
}

func cmStr(m map[string]*configapi.PathValue) string {
	keys := make([]string, 0, len(m))
	for k := range m {
		keys = append(keys, k)
	}
	sort.Strings(keys)
	var b strings.Builder
	b.WriteString("(cm")
	for _, k := range keys {
		v := m[k]
		val := ""
		if v.Value.Type != configapi.ValueType_EMPTY {
			val = v.Value.ValueToString()
		}
		d := 0
		if v.Deleted {
			d = 1
		}
		// key and path are printed separately: they differ only if the code corrupts the map
		fmt.Fprintf(&b, " (pv %s %s %s %d %d)", hx(k), hx(v.Path), hx(val), d, v.Index)
	}
	b.WriteString(")")
	return b.String()
}

func (h *H) dump() string {
	ctx := context.Background()
	var b strings.Builder
	b.WriteString("(state (txs")
	txs, err := h.e.Txs.List(ctx)
	if err != nil {
		panic(err)
	}
	sort.Slice(txs, func(i, j int) bool { return txs[i].Index < txs[j].Index })
	next := uint64(1)
	for _, t := range txs {
		if uint64(t.Index) >= next {
			next = uint64(t.Index) + 1
		}
		kind := ""
		switch d := t.Details.(type) {
		case *configapi.Transaction_Change:
			ks := make([]string, 0)
			for k := range d.Change.Values {
				ks = append(ks, string(k))
			}
			sort.Strings(ks)
			kind = "(change"
			for _, k := range ks {
				kind += fmt.Sprintf(" (%s %s)", tnum(k), cmStr(d.Change.Values[configapi.TargetID(k)].Values))
			}
			kind += ")"
		case *configapi.Transaction_Rollback:
			kind = fmt.Sprintf("(rollback %d)", d.Rollback.RollbackIndex)
		}
		ph := t.Status.Phases
		pi, pv, pc, pa, pb := "n", "n", "n", "n", "n"
		if ph.Initialize != nil {
			pi = phTx(true, int32(ph.Initialize.State), int32(configapi.TransactionInitializePhase_INITIALIZING), int32(configapi.TransactionInitializePhase_INITIALIZED), int32(configapi.TransactionInitializePhase_FAILED))
		}
		if ph.Validate != nil {
			pv = phTx(true, int32(ph.Validate.State), int32(configapi.TransactionValidatePhase_VALIDATING), int32(configapi.TransactionValidatePhase_VALIDATED), int32(configapi.TransactionValidatePhase_FAILED))
		}
		if ph.Commit != nil {
			pc = phTx(true, int32(ph.Commit.State), int32(configapi.TransactionCommitPhase_COMMITTING), int32(configapi.TransactionCommitPhase_COMMITTED), -1)
		}
		if ph.Apply != nil {
			pa = phTx(true, int32(ph.Apply.State), int32(configapi.TransactionApplyPhase_APPLYING), int32(configapi.TransactionApplyPhase_APPLIED), int32(configapi.TransactionApplyPhase_FAILED))
		}
		if ph.Abort != nil {
			pb = phTx(true, int32(ph.Abort.State), int32(configapi.TransactionAbortPhase_ABORTING), int32(configapi.TransactionAbortPhase_ABORTED), -1)
		}
		prs := "nil"
		if t.Status.Proposals != nil {
			prs = "("
			for i, p := range t.Status.Proposals {
				if i > 0 {
					prs += " "
				}
				s := string(p)
				prs += tnum(s[:strings.LastIndex(s, "-")])
			}
			prs += ")"
		}
		ser, syn := 0, 0
		if t.Isolation == configapi.TransactionStrategy_SERIALIZABLE {
			ser = 1
		}
		if t.Synchronicity == configapi.TransactionStrategy_SYNCHRONOUS {
			syn = 1
		}
		fmt.Fprintf(&b, " (tx %d %s %d %d %s %s %s %s %s %s %s %s)", t.Index, kind, ser, syn, t.Status.State.String(), failStr(t.Status.Failure), pi, pv, pc, pa, pb, prs)
	}
	fmt.Fprintf(&b, ") (next %d) (props", next)
	props, err := h.e.Props.List(ctx)
	if err != nil {
		panic(err)
	}
	sort.Slice(props, func(i, j int) bool {
		if props[i].TargetID != props[j].TargetID {
			return props[i].TargetID < props[j].TargetID
		}
		return props[i].TransactionIndex < props[j].TransactionIndex
	})
	for _, p := range props {
		kind := ""
		switch d := p.Details.(type) {
		case *configapi.Proposal_Change:
			kind = "(change " + cmStr(d.Change.Values) + ")"
		case *configapi.Proposal_Rollback:
			kind = fmt.Sprintf("(rollback %d)", d.Rollback.RollbackIndex)
		}
		rbv := "nil"
		if p.Status.RollbackValues != nil {
			rbv = cmStr(p.Status.RollbackValues)
		}
		ph := p.Status.Phases
		pi, pv, pc, pa, pb := "n", "n", "n", "n", "n"
		vf, af := "none", "none"
		term := uint64(0)
		if ph.Initialize != nil {
			pi = phTx(true, int32(ph.Initialize.State), int32(configapi.ProposalInitializePhase_INITIALIZING), int32(configapi.ProposalInitializePhase_INITIALIZED), -1)
		}
		if ph.Validate != nil {
			pv = phTx(true, int32(ph.Validate.State), int32(configapi.ProposalValidatePhase_VALIDATING), int32(configapi.ProposalValidatePhase_VALIDATED), int32(configapi.ProposalValidatePhase_FAILED))
			vf = failStr(ph.Validate.Failure)
		}
		if ph.Commit != nil {
			pc = phTx(true, int32(ph.Commit.State), int32(configapi.ProposalCommitPhase_COMMITTING), int32(configapi.ProposalCommitPhase_COMMITTED), -1)
		}
		if ph.Apply != nil {
			pa = phTx(true, int32(ph.Apply.State), int32(configapi.ProposalApplyPhase_APPLYING), int32(configapi.ProposalApplyPhase_APPLIED), int32(configapi.ProposalApplyPhase_FAILED))
			af = failStr(ph.Apply.Failure)
			term = uint64(ph.Apply.Term)
		}
		if ph.Abort != nil {
			pb = phTx(true, int32(ph.Abort.State), int32(configapi.ProposalAbortPhase_ABORTING), int32(configapi.ProposalAbortPhase_ABORTED), -1)
		}
		fmt.Fprintf(&b, " (p %s %d %s %d %d %d %s %s %s %s %s %s %s %s %d %s)", tnum(string(p.TargetID)), p.TransactionIndex, kind,
			p.Status.PrevIndex, p.Status.NextIndex, p.Status.RollbackIndex, rbv, pi, pv, pc, pa, pb, vf, af, term, hx(string(p.TargetType)))
	}
	b.WriteString(") (cfgs")
	cfgs, err := h.e.Cfgs.List(ctx)
	if err != nil {
		panic(err)
	}
	sort.Slice(cfgs, func(i, j int) bool { return cfgs[i].TargetID < cfgs[j].TargetID })
	for _, c := range cfgs {
		m := func(s string) string {
			if s == "" {
				return "none"
			}
			return connNum(s)
		}
		inl, ainl := h.rawEntry(c.ID)
		fmt.Fprintf(&b, " (c %s %d %s %d %d %d %s %s %d %s %d %s %s %s %s %s)", tnum(string(c.TargetID)), c.Index, cmStr(c.Values), c.Status.Proposed.Index,
			c.Status.Committed.Index, c.Status.Applied.Index, c.Status.State.String(), m(c.Status.Mastership.Master), c.Status.Mastership.Term,
			m(c.Status.Applied.Mastership.Master), c.Status.Applied.Mastership.Term, cmStr(c.Status.Applied.Values), cmStr(h.rawMap(c.ID, "")), cmStr(h.rawMap(c.ID, "-applied")),
			cmStr(inl), cmStr(ainl))
	}
	b.WriteString(") (targets")
	for _, t := range h.targets {
		o, err := h.e.Topo.Get(ctx, topoapi.ID(t))
		if err != nil {
			continue
		}
		cf := &topoapi.Configurable{}
		_ = o.GetAspect(cf)
		p := 0
		if cf.Persistent {
			p = 1
		}
		fmt.Fprintf(&b, " (%s %d)", tnum(t), p)
	}
	b.WriteString(") (rels")
	me := string(controllerutils.GetOnosConfigID())
	for _, r := range h.e.Topo.Relations() {
		mine := 0
		if r[1] == me {
			mine = 1
		}
		fmt.Fprintf(&b, " (%s %s %d)", connNum(r[0]), tnum(r[2]), mine)
	}
	b.WriteString(") (conns")
	for _, c := range h.e.Conns.IDs() {
		fmt.Fprintf(&b, " (%s %s)", connNum(c[0]), tnum(c[1]))
	}
	b.WriteString(") (devs")
	for _, t := range h.targets {
		d := h.devs[t]
		fmt.Fprintf(&b, " (%s %d", tnum(t), d.MaxElect)
		for _, l := range d.Leaves() {
			i := strings.LastIndex(l, "=")
			fmt.Fprintf(&b, " (leaf %s %s)", hx(l[:i]), hx(strings.TrimPrefix(l[i+1:], "s:")))
		}
		b.WriteString(")")
	}
	b.WriteString("))")
	return b.String()
}

// rawEntry reads the configuration entry as it is stored (not overlaid with the path-value maps): the copies of the
// committed and of the applied values that the entry itself carries
func (h *H) rawEntry(id configapi.ConfigurationID) (map[string]*configapi.PathValue, map[string]*configapi.PathValue) {
	ctx := context.Background()
	if h.entries == nil {
		m, err := _map.NewBuilder[configapi.ConfigurationID, *configapi.Configuration](h.e.Atomix, "configurations").
			Tag("onos-config", "configuration").
			Codec(types.Proto[*configapi.Configuration](&configapi.Configuration{})).Get(ctx)
		if err != nil {
			panic(err)
		}
		h.entries = m
	}
	e, err := h.entries.Get(ctx, id)
	if err != nil || e.Value == nil {
		return nil, nil
	}
	return e.Value.Values, e.Value.Status.Applied.Values
}

// rawMap lists the Atomix path-value map of a configuration (the committed and the applied values share it)
func (h *H) rawMap(id0 configapi.ConfigurationID, suffix string) map[string]*configapi.PathValue {
	ctx := context.Background()
	id := configapi.ConfigurationID(string(id0) + suffix)
	m, ok := h.raw[id]
	if !ok {
		var err error
		m, err = _map.NewBuilder[string, *configapi.PathValue](h.e.Atomix, fmt.Sprintf("configurations-%s", id)).
			Tag("onos-config", "path-value").
			Codec(types.Proto[*configapi.PathValue](&configapi.PathValue{})).Get(ctx)
		if err != nil {
			panic(err)
		}
		h.raw[id] = m
	}
	res := map[string]*configapi.PathValue{}
	st, err := m.List(ctx)
	if err != nil {
		panic(err)
	}
	for {
		e, err := st.Next()
		if err != nil {
			break
		}
		res[e.Key] = e.Value
	}
	return res
}

// connection ids: "c<N>" -> N ; foreign relation ids "f<N>" -> 1000+N
func connNum(s string) string {
	if strings.HasPrefix(s, "c") {
		return s[1:]
	}
	if strings.HasPrefix(s, "f") {
		n, _ := strconv.Atoi(s[1:])
		return strconv.Itoa(1000 + n)
	}
	return "9999"
}

func (h *H) devDelta() string {
	var b strings.Builder
	b.WriteString("(devlog")
	for _, t := range h.targets {
		l := h.devs[t].LogCopy()
		for _, r := range l[h.devPos[t]:] {
			he := 0
			if r.HasElect {
				he = 1
			}
			fmt.Fprintf(&b, " (%s %s %d %d (del", tnum(t), connNum(r.ConnID), r.ElectionID, he)
			for _, d := range r.Deletes {
				b.WriteString(" " + hx(d))
			}
			b.WriteString(") (upd")
			for _, u := range r.Updates {
				v := u[1]
				if strings.HasPrefix(v, "s:") {
					v = v[2:]
				}
				fmt.Fprintf(&b, " (%s %s)", hx(u[0]), hx(v))
			}
			fmt.Fprintf(&b, ") %s)", r.Code.String())
		}
		h.devPos[t] = len(l)
	}
	b.WriteString(")")
	return b.String()
}

func (h *H) emit(label string, extra string) {
	st := h.dump()
	dl := h.devDelta()
	h.steps++
	if st == h.lastState && dl == "(devlog)" {
		h.noops++
		fmt.Fprintf(h.out, "p2.noop\t%s:%d\t%s\t%s\n", h.hid, h.step, label, extra)
	} else {
		fmt.Fprintf(h.out, "p2.step\t%s:%d\t%s\t%s\t%s\t%s\n", h.hid, h.step, label, st, dl, extra)
		h.lastState = st
	}
	h.step++
}

// ---------------------------------------------------------------- steps

type recID struct {
	kind string // tx prop cfg master conn
	a    string
	idx  uint64
	cid  configapi.ConfigurationID
}

func (h *H) allIDs() []recID {
	ctx := context.Background()
	ids := []recID{}
	txs, _ := h.e.Txs.List(ctx)
	for _, t := range txs {
		ids = append(ids, recID{kind: "tx", idx: uint64(t.Index)})
	}
	props, _ := h.e.Props.List(ctx)
	for _, p := range props {
		ids = append(ids, recID{kind: "prop", a: string(p.TargetID), idx: uint64(p.TransactionIndex)})
	}
	cfgs, _ := h.e.Cfgs.List(ctx)
	for _, c := range cfgs {
		ids = append(ids, recID{kind: "cfg", a: string(c.TargetID), cid: c.ID}, recID{kind: "master", a: string(c.TargetID), cid: c.ID})
	}
	cs := []string{}
	for c := range h.knownC {
		cs = append(cs, c)
	}
	sort.Strings(cs)
	for _, c := range cs {
		ids = append(ids, recID{kind: "conn", a: c})
	}
	return ids
}

// reconcile runs one reconcile invocation, stopping it after `budget` store/device write calls (-1: no limit)
// held: the scheduler leaves this id alone for now (a legitimate schedule: the id is just late).  Used by the scripted
// refusal: the successors of the poisoned proposal are first examined while its device call is in flight.
func (h *H) held(id recID) bool {
	if t, ok := h.holdSucc[id.a]; ok && id.kind == "prop" && id.idx > t && h.nesting == 0 {
		return true
	}
	if id.kind == "prop" && h.nesting == 0 {
		key := fmt.Sprintf("%s-%d", id.a, id.idx)
		if release, ok := h.holdUntil[key]; ok {
			if release() {
				delete(h.holdUntil, key)
				return false
			}
			// only the commit of the proposal is delayed (its linking and validation run: others queue behind them)
			p, err := h.e.Props.Get(context.Background(), proposal.NewID(configapi.TargetID(id.a), configapi.Index(id.idx)))
			if err == nil && p.Status.Phases.Validate != nil && p.Status.Phases.Validate.State == configapi.ProposalValidatePhase_VALIDATED &&
				(p.Status.Phases.Commit == nil || p.Status.Phases.Commit.State == configapi.ProposalCommitPhase_COMMITTING) {
				return true
			}
			return false
		}
	}
	return false
}

func (h *H) reconcile(id recID, budget int) {
	if h.held(id) {
		return
	}
	// crash histories of the scripted refusal: the invocations of the proposals of the refusing target that are in their apply phase
	// are cut after their 2nd, 1st, 3rd, 2nd ... call for a while, so that every cut point of the refusal branch is met
	if n, ok := h.focusCrash[id.a]; ok && id.kind == "prop" && budget < 0 && h.nesting == 0 && n < 6 {
		if p, err := h.e.Props.Get(context.Background(), proposal.NewID(configapi.TargetID(id.a), configapi.Index(id.idx))); err == nil &&
			p.Status.Phases.Apply != nil && p.Status.Phases.Apply.State == configapi.ProposalApplyPhase_APPLYING {
			budget = []int{2, 1, 3}[n%3]
			h.focusCrash[id.a] = n + 1
		}
	}
	// crash histories: the commit of a proposal is stopped right after its configuration write (the proposal is still
	// COMMITTING, Committed.Index already names it) and the proposal is then left alone until its successor on the target has
	// committed on top of it (or for a while): the resumed commit must not merge a second time, nor move a cursor back
	if h.cutCommits > 0 && id.kind == "prop" && budget < 0 && h.nesting == 0 && h.r.Intn(3) == 0 {
		ctx := context.Background()
		if p, err := h.e.Props.Get(ctx, proposal.NewID(configapi.TargetID(id.a), configapi.Index(id.idx))); err == nil &&
			p.Status.Phases.Commit != nil && p.Status.Phases.Commit.State == configapi.ProposalCommitPhase_COMMITTING &&
			p.Status.Phases.Apply == nil && p.Status.Phases.Abort == nil {
			if c, err := h.e.Cfgs.Get(ctx, configuration.NewID(p.TargetID, p.TargetType, p.TargetVersion)); err == nil &&
				c.Status.Committed.Index == p.Status.PrevIndex {
				budget = 1
				h.cutCommits--
				polls := 0
				target, idx := p.TargetID, p.TransactionIndex
				h.holdUntil[fmt.Sprintf("%s-%d", id.a, id.idx)] = func() bool {
					polls++
					if polls > 400 {
						return true
					}
					c, err := h.e.Cfgs.Get(context.Background(), configuration.NewID(target, p.TargetType, p.TargetVersion))
					return err == nil && c.Status.Committed.Index > idx
				}
			}
		}
	}
	nested := h.nesting > 0
	var outer crashSnap
	if nested {
		outer = h.crash.snapshot()
	}
	h.crash.reset(budget)
	if id.kind == "tx" && budget < 0 && h.r.Intn(3) == 0 {
		h.crash.arm(h.r.Intn(2))
	}
	if h.interf && budget < 0 && !nested {
		if h.faults && h.r.Intn(6) == 0 {
			// a store read of this invocation fails
			h.crash.mu.Lock()
			h.crash.readFault = h.r.Intn(3)
			h.crash.mu.Unlock()
		} else if h.faults && h.r.Intn(5) == 0 {
			// a store write of this invocation fails (the store is briefly unavailable): the invocation has to give up
			// there - in particular it must not record as done what it could not write
			h.crash.mu.Lock()
			h.crash.writeFault = h.r.Intn(3) % 2 // the first write twice as often: most invocations make one or two
			h.crash.mu.Unlock()
		} else if _, holding := h.holdSucc[id.a]; (id.kind == "prop" && (holding || h.r.Intn(2) == 0)) || (id.kind == "cfg" && h.r.Intn(2) == 0) {
			// while the device call of this invocation (if it makes one) is in flight, another invocation about the
			// same target runs
			h.crash.mu.Lock()
			h.crash.midcall = func() { h.interfere(id) }
			h.crash.mu.Unlock()
		}
	}
	h.vmu.Lock()
	h.lastVerdict = -1
	h.vmu.Unlock()
	done := make(chan string, 1)
	go func() {
		finished := false
		res := "crash"
		defer func() {
			if !finished {
				done <- "crash"
			} else {
				done <- res
			}
		}()
		var r controller.Result
		var err error
		switch id.kind {
		case "tx":
			r, err = h.txR.Reconcile(controller.NewID(configapi.Index(id.idx)))
		case "prop":
			r, err = h.propR.Reconcile(controller.NewID(proposal.NewID(configapi.TargetID(id.a), configapi.Index(id.idx))))
		case "cfg":
			r, err = h.cfgR.Reconcile(controller.NewID(id.cid))
		case "master":
			r, err = h.mstR.Reconcile(controller.NewID(id.cid))
		case "conn":
			r, err = h.connR.Reconcile(controller.NewID(sb.ConnID(id.a)))
		}
		if err != nil {
			res = "err"
		} else if r.Requeue.Value != nil {
			switch v := r.Requeue.Value.(type) {
			case configapi.Index:
				res = fmt.Sprintf("rqtx:%d", v)
			case configapi.ProposalID:
				s := string(v)
				res = fmt.Sprintf("rqprop:%s:%s", tnum(s[:strings.LastIndex(s, "-")]), s[strings.LastIndex(s, "-")+1:])
			default:
				res = "rq?"
			}
		} else {
			res = "done"
		}
		finished = true
	}()
	var res string
	select {
	case res = <-done:
	case <-time.After(60 * time.Second):
		res = "timeout"
	}
	calls := h.crash.count()
	raced := h.crash.didRace()
	stopped, callsAtStop := h.crash.stopped()
	h.crash.mu.Lock()
	kinds := strings.Join(h.crash.kinds, "")
	h.crash.mu.Unlock()
	if kinds == "" {
		kinds = "-"
	}
	h.crash.reset(-1)
	if nested {
		h.crash.restore(outer)
	}
	h.vmu.Lock()
	v := h.lastVerdict
	doc := h.lastDoc
	h.lastDoc = nil
	h.lastVerdict = -1
	h.vmu.Unlock()
	var lab string
	switch id.kind {
	case "tx":
		lab = fmt.Sprintf("(rec tx %d", id.idx)
	case "prop":
		lab = fmt.Sprintf("(rec prop %s %d", tnum(id.a), id.idx)
	case "cfg":
		lab = fmt.Sprintf("(rec cfg %s", tnum(id.a))
	case "master":
		lab = fmt.Sprintf("(rec master %s", tnum(id.a))
	case "conn":
		lab = fmt.Sprintf("(rec conn %s", connNum(id.a))
	}
	b := "all"
	if res == "crash" {
		b = strconv.Itoa(calls)
	} else if stopped {
		// a store read failed, or a write was refused because something else had written in between: the invocation
		// must have given up there - what it did is its writes up to that point
		b = "f" + strconv.Itoa(callsAtStop)
		res = "fault:" + res
	} else if raced {
		// the invocation lost the race for one proposal and gave up: what is stored is the work of both replicas,
		// i.e. this invocation's writes so far (the lost Create included, with identical content)
		b = strconv.Itoa(calls)
		res = "raced:" + res
	}
	lab += fmt.Sprintf(" %s %d)", b, v)
	if v != -1 {
		res += "\t" + flattenDoc(doc)
	} else {
		res += "\t-"
	}
	res += "\t" + kinds
	h.emit(lab, res)
}

// flattenDoc lists the leaves of a validation document as hex(path)=hex(value), sorted; list entries are named by
// their key member k (the only key name the scenarios use), which is not itself listed
func flattenDoc(doc []byte) string {
	if len(doc) > 20000 {
		return "big"
	}
	var root interface{}
	if err := json.Unmarshal(doc, &root); err != nil {
		return "unparsable"
	}
	leaves := []string{}
	var walk func(prefix string, n interface{}, inEntry bool)
	walk = func(prefix string, n interface{}, inEntry bool) {
		switch x := n.(type) {
		case map[string]interface{}:
			for name, c := range x {
				if inEntry && name == "k" {
					continue
				}
				if arr, ok := c.([]interface{}); ok {
					for _, e := range arr {
						if obj, ok := e.(map[string]interface{}); ok {
							walk(fmt.Sprintf("%s/%s[k=%v]", prefix, name, obj["k"]), obj, true)
						} else {
							leaves = append(leaves, hx(prefix+"/"+name)+"="+hx(fmt.Sprint(e)))
						}
					}
					continue
				}
				walk(prefix+"/"+name, c, false)
			}
		default:
			leaves = append(leaves, hx(prefix)+"="+hx(fmt.Sprint(x)))
		}
	}
	walk("", root, false)
	sort.Strings(leaves)
	if len(leaves) == 0 {
		return "."
	}
	return strings.Join(leaves, ",")
}

func strategyExt(sync, ser bool) *gnmi_ext.Extension {
	s := &configapi.TransactionStrategy{Synchronicity: configapi.TransactionStrategy_ASYNCHRONOUS}
	if sync {
		s.Synchronicity = configapi.TransactionStrategy_SYNCHRONOUS
	}
	if ser {
		s.Isolation = configapi.TransactionStrategy_SERIALIZABLE
	}
	b, _ := s.Marshal()
	return &gnmi_ext.Extension{Ext: &gnmi_ext.Extension_RegisteredExt{RegisteredExt: &gnmi_ext.RegisteredExtension{
		Id: configapi.TransactionStrategyExtensionID, Msg: b}}}
}

func parsePath(target string, p string) *gnmi.Path {
	// p like /l[k=1]/v or /a/b
	path := &gnmi.Path{Target: target}
	for _, el := range strings.Split(strings.Trim(p, "/"), "/") {
		name := el
		keys := map[string]string(nil)
		if i := strings.Index(el, "["); i >= 0 {
			name = el[:i]
			keys = map[string]string{}
			for _, kv := range strings.Split(strings.Trim(el[i:], "[]"), "][") {
				e := strings.Index(kv, "=")
				keys[kv[:e]] = kv[e+1:]
			}
		}
		path.Elem = append(path.Elem, &gnmi.PathElem{Name: name, Key: keys})
	}
	return path
}

func tnumOf(ts []string, t string) int {
	for i, x := range ts {
		if x == t {
			return i
		}
	}
	return 0
}

type op struct {
	target string
	path   string
	val    string
	del    bool
}

// nbSet issues a change through the real gNMI Set handler (in a goroutine: the handler waits for the controllers)
func (h *H) nbSet(ops []op, sync, ser bool) {
	req := &gnmi.SetRequest{Extension: []*gnmi_ext.Extension{strategyExt(sync, ser)}}
	if h.r.Intn(3) == 0 {
		// a client managing several devices attaches the same type/version overrides to each of its Sets: entries for
		// targets this Set does not change (all targets here have that type and version: the answer is the same)
		ov := &configapi.TargetVersionOverrides{Overrides: map[string]*configapi.TargetTypeVersion{}}
		for _, t := range h.targets {
			ov.Overrides[t] = &configapi.TargetTypeVersion{TargetType: ttype, TargetVersion: tversion}
		}
		if b, err := ov.Marshal(); err == nil {
			req.Extension = append(req.Extension, &gnmi_ext.Extension{Ext: &gnmi_ext.Extension_RegisteredExt{RegisteredExt: &gnmi_ext.RegisteredExtension{
				Id: configapi.TargetVersionOverridesID, Msg: b}}})
		}
	}
	for _, o := range ops {
		if o.del {
			req.Delete = append(req.Delete, parsePath(o.target, o.path))
		} else {
			req.Update = append(req.Update, &gnmi.Update{Path: parsePath(o.target, o.path),
				Val: &gnmi.TypedValue{Value: &gnmi.TypedValue_StringVal{StringVal: o.val}}})
		}
	}
	before := h.e.NumTx()
	call := &nbCall{kind: "set", done: make(chan struct{})}
	go func() {
		ctx, cancel := context.WithTimeout(context.Background(), 120*time.Second)
		defer cancel()
		resp, err := h.e.Gnmi.Set(ctx, req)
		if err != nil {
			call.code = status.Code(err).String()
		} else {
			call.code = "OK"
			rs := []string{}
			for _, r := range resp.Response {
				rs = append(rs, fmt.Sprintf("%s:%s:%s", tnum(r.Path.Target), r.Op.String(), hx(pathStr(r.Path))))
			}
			sort.Strings(rs)
			call.resp = strings.Join(rs, ",")
			for _, e := range resp.Extension {
				if re := e.GetRegisteredExt(); re != nil && re.Id == configapi.TransactionInfoExtensionID {
					ti := &configapi.TransactionInfo{}
					if ti.Unmarshal(re.Msg) == nil {
						call.resp += fmt.Sprintf(";idx=%d", ti.Index)
					}
				}
			}
		}
		close(call.done)
	}()
	// wait until the transaction is logged or the call is refused
	deadline := time.Now().Add(10 * time.Second)
	for time.Now().Before(deadline) {
		if h.e.NumTx() > before {
			break
		}
		select {
		case <-call.done:
			deadline = time.Now()
		default:
			time.Sleep(200 * time.Microsecond)
		}
	}
	if h.e.NumTx() > before {
		call.index = uint64(h.e.NumTx())
		h.nb = append(h.nb, call)
		h.emit("(nbchange)", "")
	} else {
		<-call.done
		h.emit("(nbrefused)", call.code)
	}
}

func pathStr(p *gnmi.Path) string {
	s := ""
	for _, e := range p.Elem {
		s += "/" + e.Name
		ks := []string{}
		for k := range e.Key {
			ks = append(ks, k)
		}
		sort.Strings(ks)
		for _, k := range ks {
			s += "[" + k + "=" + e.Key[k] + "]"
		}
	}
	return s
}

func (h *H) nbRollback(index uint64) {
	before := h.e.NumTx()
	call := &nbCall{kind: "rollback", done: make(chan struct{})}
	go func() {
		ctx, cancel := context.WithTimeout(context.Background(), 120*time.Second)
		defer cancel()
		resp, err := h.e.Admin.RollbackTransaction(ctx, &adminapi.RollbackRequest{Index: configapi.Index(index)})
		if err != nil {
			call.code = status.Code(err).String()
		} else {
			call.code = "OK"
			call.resp = fmt.Sprintf("idx=%d", resp.Index)
		}
		close(call.done)
	}()
	deadline := time.Now().Add(10 * time.Second)
	for time.Now().Before(deadline) && h.e.NumTx() == before {
		time.Sleep(200 * time.Microsecond)
	}
	call.index = uint64(h.e.NumTx())
	h.nb = append(h.nb, call)
	h.emit(fmt.Sprintf("(nbrollback %d)", index), "")
}

// rawTx logs a change transaction directly (used for targets whose model plugin does not exist)
func (h *H) rawTx(target string, ttyp string, path, val string) {
	tv := configapi.NewTypedValueString(val)
	t := &configapi.Transaction{
		ID: configapi.TransactionID(fmt.Sprintf("raw-%s-%d", h.hid, h.step)),
		Details: &configapi.Transaction_Change{Change: &configapi.ChangeTransaction{Values: map[configapi.TargetID]*configapi.PathValues{
			configapi.TargetID(target): {Values: map[string]*configapi.PathValue{path: {Path: path, Value: *tv}}}}}},
		TransactionStrategy:    configapi.TransactionStrategy{Synchronicity: configapi.TransactionStrategy_ASYNCHRONOUS},
		TargetVersionOverrides: &configapi.TargetVersionOverrides{Overrides: map[string]*configapi.TargetTypeVersion{target: {TargetType: configapi.TargetType(ttyp), TargetVersion: tversion}}},
	}
	if err := h.e.Txs.Create(context.Background(), t); err != nil {
		panic(err)
	}
	h.emit("(nbchange)", "raw")
}

func (h *H) connUp(t string) {
	h.connSeq++
	id := fmt.Sprintf("c%d", h.connSeq)
	h.knownC[id] = true
	h.e.Conns.AddConn(id, t, h.devs[t])
	h.emit(fmt.Sprintf("(connup %d %s)", h.connSeq, tnum(t)), "")
}

func (h *H) connDown(id string) {
	h.e.Conns.RemoveConn(id)
	h.emit(fmt.Sprintf("(conndown %s)", connNum(id)), "")
}

func (h *H) foreignRel(t string) {
	h.connSeq++
	id := fmt.Sprintf("f%d", h.connSeq)
	h.e.Topo.AddRelation(id, "gnmi:other-node", t)
	h.emit(fmt.Sprintf("(foreignrel %d %s)", 1000+h.connSeq, tnum(t)), "")
}

// devRestart: the device comes back empty; its connections die with it (a restart is only ever noticed that way)
func (h *H) devRestart(t string) {
	for _, c := range h.connsOf(t) {
		h.connDown(c)
	}
	h.devs[t].Restart()
	h.emit(fmt.Sprintf("(devrestart %s)", tnum(t)), "")
}

func (h *H) connsOf(t string) []string {
	res := []string{}
	for _, c := range h.e.Conns.IDs() {
		if c[1] == t {
			res = append(res, c[0])
		}
	}
	return res
}

// ---------------------------------------------------------------- scenarios

var paths = []string{"/a/b", "/a/bc", "/a/c", "/a/d/e", "/z", "/l[k=1]/v", "/l[k=1]/w", "/l[k=10]/v", "/l[k=2]/v"}
var delPaths = []string{"/a/b", "/a", "/a/c", "/a/d", "/z", "/l[k=1]", "/l[k=1]/v", "/l", "/a/bc", "/l[k=10]"}

// focused histories: every northbound operation works on one small family of nested paths of one target, half of the
// operations are deletes - nested tombstones, re-creation beneath them, rollbacks of both
var focusPaths = [][]string{nil, {"/a/d/e", "/a/b", "/a/d/f/g", "/a/d/f/h"}, {"/l[k=1]/v", "/l[k=1]/w", "/l[k=10]/v", "/l[k=1]/m/n"}}
var focusDels = [][]string{nil, {"/a", "/a/d", "/a/d/f", "/a/d/e"}, {"/l", "/l[k=1]", "/l[k=1]/m", "/l[k=1]/v"}}

func (h *H) genFocusOps(bad bool) []op {
	r := h.rs
	t := h.targets[0]
	if len(h.script) > 0 && !bad {
		o := h.script[0]
		h.script = h.script[1:]
		o.target = t
		return []op{o}
	}
	if r.Intn(2) == 0 {
		return []op{{target: t, path: env.Pick(r, focusDels[h.focus]), del: true}}
	}
	ops := []op{}
	used := map[string]bool{}
	for i := 0; i < 1+r.Intn(2); i++ {
		p := env.Pick(r, focusPaths[h.focus])
		if used[p] {
			continue
		}
		used[p] = true
		ops = append(ops, op{target: t, path: p, val: fmt.Sprintf("v%d", r.Intn(1000))})
	}
	if bad {
		ops[len(ops)-1].val = "BADx"
	}
	return ops
}

func (h *H) genOps(maxTargets int, bad bool) []op {
	if h.focus > 0 {
		return h.genFocusOps(bad)
	}
	r := h.rs
	nt := 1 + r.Intn(maxTargets)
	ts := r.Perm(len(h.targets))[:min(nt, len(h.targets))]
	ops := []op{}
	badDone := !bad
	for _, ti := range ts {
		t := h.targets[ti]
		n := 1 + r.Intn(3)
		used := map[string]bool{}
		for i := 0; i < n; i++ {
			if r.Intn(4) == 0 {
				p := env.Pick(r, delPaths)
				// never a delete and an update of related paths in one request (Go map order dependent, see F-14)
				clash := false
				for u := range used {
					if strings.HasPrefix(u, p) || strings.HasPrefix(p, u) {
						clash = true
					}
				}
				if !clash {
					used[p] = true
					ops = append(ops, op{target: t, path: p, del: true})
				}
			} else {
				p := env.Pick(r, paths)
				clash := false
				for u := range used {
					if strings.HasPrefix(u, p) || strings.HasPrefix(p, u) {
						clash = true
					}
				}
				if clash {
					continue
				}
				used[p] = true
				v := fmt.Sprintf("v%d", r.Intn(1000))
				if !badDone && r.Intn(2) == 0 {
					v = "BAD" + v
					badDone = true
				}
				ops = append(ops, op{target: t, path: p, val: v})
			}
		}
	}
	if len(ops) == 0 {
		ops = append(ops, op{target: h.targets[0], path: "/z", val: "v0"})
	}
	if !badDone {
		// replace the last update by a rejected value (never introduces an overlap: same path)
		for i := len(ops) - 1; i >= 0; i-- {
			if !ops[i].del {
				ops[i].val = "BADx"
				badDone = true
				break
			}
		}
		if !badDone {
			ops = append(ops, op{target: "t1", path: "/q", val: "BADx"})
		}
	}
	return ops
}

func min(a, b int) int {
	if a < b {
		return a
	}
	return b
}

func (h *H) randomSteps(n int, crashProb int) {
	for i := 0; i < n; i++ {
		ids := h.allIDs()
		if len(ids) == 0 {
			return
		}
		id := ids[h.r.Intn(len(ids))]
		budget := -1
		if crashProb > 0 && h.r.Intn(100) < crashProb {
			budget = 1 + h.r.Intn(3)
		}
		h.reconcile(id, budget)
	}
}

// interfere runs, nested inside the device call of the invocation [outer], one other invocation that concerns the same
// target: another proposal of the target (a second replica), its configuration or mastership reconciler, or a transaction
func (h *H) interfere(outer recID) {
	cands := []recID{}
	for _, id := range h.allIDs() {
		if id.kind == outer.kind && id.a == outer.a && id.idx == outer.idx {
			continue
		}
		switch id.kind {
		case "prop", "cfg", "master":
			if id.a == outer.a {
				cands = append(cands, id)
			}
		case "tx":
			cands = append(cands, id)
		}
	}
	if len(cands) == 0 {
		return
	}
	// mostly a later proposal of the same target (its linking writes the proposal that is being applied)
	succ := []recID{}
	for _, id := range cands {
		if id.kind == "prop" && id.a == outer.a && (id.idx > outer.idx || outer.kind == "cfg") {
			succ = append(succ, id)
		}
	}
	if len(succ) > 0 && h.r.Intn(4) != 0 {
		cands = succ
	}
	delete(h.holdSucc, outer.a) // the successors may run from now on
	h.nesting++
	h.midcalls++
	pick := cands[h.r.Intn(len(cands))]
	h.reconcile(pick, -1)
	if pick.kind == "prop" && pick.a == outer.a && pick.idx > outer.idx {
		// a fresh proposal first enters its initialize phase and links to its predecessor in its next invocation
		h.reconcile(pick, -1)
		h.reconcile(pick, -1)
	}
	h.nesting--
}

// settle runs passes over every id until a complete pass changes nothing
func (h *H) settle(maxPasses int, crashProb int) bool {
	faults := h.faults
	defer func() { h.faults = faults }()
	for p := 0; p < maxPasses; p++ {
		// injected faults only in the first passes: a pass in which invocations were made to fail says nothing about rest
		h.faults = faults && p < 6
		if p >= 40 {
			h.holdSucc = map[string]uint64{}
			h.holdUntil = map[string]func() bool{}
		}
		before := h.lastState
		n0 := h.devTotal()
		ids := h.allIDs()
		h.r.Shuffle(len(ids), func(i, j int) { ids[i], ids[j] = ids[j], ids[i] })
		for _, id := range ids {
			budget := -1
			// in crash histories the first passes still interrupt reconciles (most of the work happens here)
			if crashProb > 0 && p < 12 && h.r.Intn(100) < crashProb {
				budget = 1 + h.r.Intn(3)
			}
			h.reconcile(id, budget)
		}
		if h.lastState == before && h.devTotal() == n0 && !h.faults && len(h.holdSucc) == 0 && len(h.holdUntil) == 0 {
			return true
		}
	}
	return false
}

func (h *H) devTotal() int {
	n := 0
	for _, t := range h.targets {
		n += len(h.devs[t].LogCopy())
	}
	return n
}

func (h *H) getLeaves(t string) string {
	resp, err := h.e.Gnmi.Get(context.Background(), &gnmi.GetRequest{Path: []*gnmi.Path{{Target: t}}, Encoding: gnmi.Encoding_PROTO})
	if err != nil {
		return "ERR:" + status.Code(err).String()
	}
	ls := []string{}
	for _, n := range resp.Notification {
		for _, u := range n.Update {
			if u.Val == nil {
				continue
			}
			ls = append(ls, hx(pathStr(u.Path))+"="+hx(u.Val.GetStringVal()))
		}
	}
	sort.Strings(ls)
	if len(ls) == 0 {
		return "."
	}
	return strings.Join(ls, ",")
}

func (h *H) finish(quiescent bool) string {
	// answers of the northbound calls
	var b strings.Builder
	for i, c := range h.nb {
		if i > 0 {
			b.WriteString(" ")
		}
		select {
		case <-c.done:
		case <-time.After(3 * time.Second):
			c.code = "HANG"
		}
		r := c.resp
		if r == "" {
			r = "-"
		}
		fmt.Fprintf(&b, "(%s %d %s %s)", c.kind, c.index, c.code, r)
	}
	gets := []string{}
	for _, t := range h.targets {
		gets = append(gets, tnum(t)+"="+h.getLeaves(t))
	}
	q := 0
	if quiescent {
		q = 1
	}
	// outcome summary: final state and failure of every transaction, what Get returns and what the device holds per target
	var sm strings.Builder
	txs, _ := h.e.Txs.List(context.Background())
	sort.Slice(txs, func(i, j int) bool { return txs[i].Index < txs[j].Index })
	for _, t := range txs {
		fmt.Fprintf(&sm, "tx%d:%s:%s,", t.Index, t.Status.State.String(), failStr(t.Status.Failure))
	}
	sm.WriteString("|" + strings.Join(gets, ";") + "|")
	for _, t := range h.targets {
		sm.WriteString(tnum(t) + "=")
		for _, l := range h.devs[t].Leaves() {
			sm.WriteString(hx(l) + ",")
		}
		sm.WriteString(";")
	}
	sum := sm.String()
	if !quiescent {
		sum = "notquiescent"
	}
	tw := h.twin
	if tw == "" {
		tw = "-"
	}
	fmt.Fprintf(h.out, "p2.end\t%s\t%d\t(nb %s)\t%s\t%d\t%d\t%s\t%s\n", h.hid, q, b.String(), strings.Join(gets, ";"), h.steps, h.noops, sum, tw)
	fmt.Fprintf(h.out, "p2.inject\t%s\tmidcalls=%d\n", h.hid, h.midcalls)
	return sum
}

// emitChunks prints the chunking of every validation stream of this history (property C05):
// p2.chunks <hid> <streams separated by ';', chunk sizes separated by ',', '-' = a stream without chunk; "none" = no stream> <sha of each concatenation>
func (h *H) emitChunks() {
	sizes, shas := h.plugin.ChunkStreams()
	if len(sizes) == 0 {
		fmt.Fprintf(h.out, "p2.chunks\t%s\tnone\tnone\n", h.hid)
		return
	}
	ss := make([]string, len(sizes))
	for i, st := range sizes {
		if len(st) == 0 {
			ss[i] = "-"
			continue
		}
		cs := make([]string, len(st))
		for j, c := range st {
			cs[j] = fmt.Sprintf("%d", c)
		}
		ss[i] = strings.Join(cs, ",")
	}
	exp := "-"
	if len(h.expectDocs) > 0 {
		exp = strings.Join(h.expectDocs, ";")
	}
	fmt.Fprintf(h.out, "p2.chunks\t%s\t%s\t%s\t%s\n", h.hid, strings.Join(ss, ";"), strings.Join(shas, ";"), exp)
}

// runChunks drives one Set with a value larger than the plugin's chunk size (and a small one after it) through the real
// reconcilers and the real plugin registry and prints ONLY the chunking of the validation streams (p2.chunks): the
// steps are not traced (a traced history with 100 kB values costs minutes of checking; one runs in the thorough tier).
func runChunks(seed int64, k int, out *bufio.Writer) {
	hid := fmt.Sprintf("%d.c%d", seed, k)
	h := newH(seed*104729+int64(k), hid, bufio.NewWriter(io.Discard), 1, map[string]bool{})
	r := h.r
	h.lastState = h.dump()
	var ln int // the document of the first Set is ln + 14 bytes long
	switch k % 6 {
	case 0:
		ln = 99985 // 99999
	case 1:
		ln = 99986 // 100000
	case 2:
		ln = 99987 // 100001
	case 3:
		ln = 199985 + r.Intn(3) // 199999 .. 200001
	case 4:
		ln = 100000 + r.Intn(100000)
	default:
		ln = 250000 + r.Intn(150000) // up to 400 kB: four and five chunks
	}
	if r.Intn(2) == 0 {
		h.connUp(h.targets[0])
	}
	big := "v" + strings.Repeat("x", ln)
	small := fmt.Sprintf("v%d", r.Intn(1000))
	h.nbSet([]op{{target: h.targets[0], path: "/z", val: big}}, true, false)
	h.settle(80, 0)
	h.nbSet([]op{{target: h.targets[0], path: "/q", val: small}}, true, false)
	q := h.settle(80, 0)
	h.finish(q)
	h.out = out
	// the documents the two validations must have been given, built independently of the transport
	sv := func(p, v string) *configapi.PathValue {
		return &configapi.PathValue{Path: p, Value: configapi.TypedValue{Bytes: []byte(v), Type: configapi.ValueType_STRING}}
	}
	for _, vals := range [][]*configapi.PathValue{{sv("/z", big)}, {sv("/z", big), sv("/q", small)}} {
		doc, err := tree.BuildTree(vals, true)
		if err != nil {
			panic(err)
		}
		sum := sha256.Sum256(doc)
		h.expectDocs = append(h.expectDocs, hex.EncodeToString(sum[:])[:16])
	}
	h.emitChunks()
	for _, c := range h.e.Conns.IDs() {
		h.e.Conns.RemoveConn(c[0])
	}
	h.e.Atomix.Close()
}

// runHistory: crash histories are run twice with the same scenario - first without any interruption (the twin), then
// with reconciles stopped half way; the two outcomes must be the same (property C07)
func runHistory(seed int64, n int, out *bufio.Writer, kind string) {
	if kind == "crash" {
		twin := runScenario(seed, n, out, "twin", "t", "")
		runScenario(seed, n, out, "crash", "", twin)
		return
	}
	runScenario(seed, n, out, kind, "", "")
}

func runScenario(seed int64, n int, out *bufio.Writer, kind string, suffix string, twin string) string {
	r0 := rand.New(rand.NewSource(seed*1000003 + int64(n)))
	nt := 1 + r0.Intn(3)
	pers := map[string]bool{}
	if r0.Intn(10) == 0 {
		pers["t1"] = true
	}
	if (n%16 == 5 || n%16 == 9) && (n/16)%3 == 2 {
		// the scripted lagging-device and device-fault histories are also run on a persistent target (it keeps its
		// configuration itself: nothing is re-pushed, but every new term must still be recorded as applied)
		pers["t1"] = true
	}
	hid := fmt.Sprintf("%d.%d%s", seed, n, suffix)
	sched := seed*7919 + int64(n)
	if suffix != "" {
		sched = sched*31 + 17
	}
	h := newH(sched, hid, out, nt, pers)
	h.rs = rand.New(rand.NewSource(seed*104729 + int64(n)))
	h.twin = twin
	h.faults = kind == "atomic"
	h.interf = kind == "atomic"
	r := h.rs
	if n%4 == 3 {
		h.focus = 1 + int(n/4)%2
		if (n/8)%2 == 1 {
			// scripted opening: a leaf, tombstones stacked from the outside in, the leaf again (re-creation beneath
			// nested tombstones); the rest of the history is random over the same family
			chain := [][]string{nil, {"/a/d/f/g", "/a", "/a/d", "/a/d/f"}, {"/l[k=1]/m/n", "/l", "/l[k=1]", "/l[k=1]/m"}}[h.focus]
			h.script = []op{{path: chain[0], val: fmt.Sprintf("v%d", r.Intn(1000))}}
			depth := 2 + r.Intn(2)
			for _, d := range chain[1 : 1+depth] {
				h.script = append(h.script, op{path: d, del: true})
			}
			h.script = append(h.script, op{path: chain[0], val: fmt.Sprintf("v%d", r.Intn(1000))})
		}
	}
	deterministic := kind == "crash" || kind == "twin" // no device error bursts: which request meets them depends on the schedule
	fmt.Fprintf(out, "p2.hist\t%s\t%s\t%s\n", hid, kind, h.dump())
	h.lastState = h.dump()
	crashProb := 0
	if kind == "crash" {
		crashProb = 50
		h.cutCommits = 2
	}
	// initially connect a random subset of the targets
	for _, t := range h.targets {
		if r.Intn(4) != 0 {
			h.connUp(t)
		}
	}
	h.randomSteps(h.r.Intn(6), 0)
	nev := 2 + r.Intn(5)
	if h.focus > 0 {
		nev = 5 + r.Intn(4) + len(h.script)
	}
	if kind == "atomic" && n%97 == 90 { // only reached in the thorough tier (n >= 91): a fully traced history costs ~2 min of checking
		// one Set whose value is larger than the plugin's chunk size (100 kB): the validation document is streamed in
		// several chunks; lengths around the boundaries 100000 / 200000 and in between (property C05, p2.chunks)
		var ln int // the document is ln + 14 bytes long
		switch r.Intn(3) {
		case 0:
			ln = 99984 + r.Intn(5)
		case 1:
			ln = 199984 + r.Intn(5)
		default:
			ln = 100000 + r.Intn(100000)
		}
		h.nbSet([]op{{target: h.targets[0], path: "/z", val: "v" + strings.Repeat("x", ln)}}, true, false)
		h.randomSteps(16, 0)
		// a second, small Set on the same target: its candidate document contains the large value, so it is always multi-chunk
		h.nbSet([]op{{target: h.targets[0], path: "/q", val: fmt.Sprintf("v%d", r.Intn(1000))}}, true, false)
		h.randomSteps(16, 0)
		nev = 0
	}
	if kind == "atomic" && n%16 == 5 {
		// scripted: the device side lags behind the committed side.  A value is applied, the device becomes unreachable,
		// a delete of an ancestor and a new value beneath it are committed, the device comes back and catches up, then
		// its connection is replaced once more (complete re-push of the applied values in a new term)
		t := h.targets[0]
		fam := [][]string{{"/a/b", "/a", "/a/c"}, {"/l[k=1]/v", "/l", "/l[k=2]/v"}, {"/a/d/e", "/a/d", "/a/d/f/g"}}[r.Intn(3)]
		if len(h.connsOf(t)) == 0 {
			h.connUp(t)
		}
		h.nbSet([]op{{target: t, path: fam[0], val: fmt.Sprintf("v%d", r.Intn(1000))}}, false, false)
		h.settle(40, 0)
		for _, c := range h.connsOf(t) {
			h.connDown(c)
		}
		h.settle(40, 0)
		if r.Intn(3) == 0 {
			// variant: while the device is away the ONLY change of the target is rolled back (Configuration.Index returns
			// to 0 while the applied values still hold the change): the re-push after the reconnect is still due
			h.nbRollback(uint64(h.e.NumTx()))
		} else {
			h.nbSet([]op{{target: t, path: fam[1], del: true}}, false, false)
			h.randomSteps(20, 0)
			h.nbSet([]op{{target: t, path: fam[2], val: fmt.Sprintf("v%d", r.Intn(1000))}}, false, false)
		}
		h.settle(40, 0)
		if r.Intn(2) == 0 {
			// one more change is submitted just before the device comes back: its validation and commit run while the
			// configuration controller re-synchronises (and inside its device calls, see interfere)
			h.nbSet([]op{{target: t, path: env.Pick(r, paths), val: fmt.Sprintf("v%d", r.Intn(1000))}}, false, false)
		}
		if r.Intn(2) == 0 {
			// the first request of the re-push is answered PermissionDenied (the device has seen a higher election id for
			// a moment): the re-synchronisation is not complete, the target must not be reported synchronized
			h.policy[t] = append(h.policy[t], codes.PermissionDenied)
			h.emit("(devpolicy)", fmt.Sprintf("%s:PermissionDenied:1", tnum(t)))
		}
		h.connUp(t)
		h.settle(60, 0)
		for _, c := range h.connsOf(t) {
			h.connDown(c)
		}
		h.settle(40, 0)
		h.connUp(t)
		h.settle(60, 0)
		// the device restarts (empty, its connections are gone) and is reachable again before any controller has looked:
		// the old master's relation disappears while a new one is already there - the mastership must still begin a
		// new term, or nothing is re-pushed to the empty device
		h.devRestart(t)
		h.connUp(t)
		nev = r.Intn(2)
	}
	if kind == "atomic" && n%16 == 9 {
		// scripted: one target, six changes in a row, each meeting a burst of one gRPC status code at the device (the codes
		// rotate with the history number, so that three such histories cover all of them); the controllers run to rest
		// after each change: a transient code must leave the change pending and let it through once the burst is over, a
		// refusal must fail that change only
		t := h.targets[0]
		if len(h.connsOf(t)) == 0 {
			h.connUp(t)
		}
		h.settle(20, 0)
		cds := []codes.Code{codes.Unavailable, codes.Canceled, codes.DeadlineExceeded, codes.InvalidArgument, codes.Internal, codes.NotFound,
			codes.Unknown, codes.ResourceExhausted, codes.PermissionDenied, codes.Unimplemented, codes.AlreadyExists, codes.FailedPrecondition,
			codes.Unauthenticated, codes.Aborted, codes.OutOfRange, codes.DataLoss}
		for j := 0; j < 6; j++ {
			c := cds[(6*(n/16)+j+int(seed))%len(cds)]
			burst := 1 // a refusal fails the change at once: a second answer of the burst would meet the NEXT change
			if c == codes.Unavailable || c == codes.Canceled || c == codes.DeadlineExceeded || c == codes.PermissionDenied {
				burst += r.Intn(2) // transient: the same change meets the whole burst
			}
			for i := 0; i < burst; i++ {
				h.policy[t] = append(h.policy[t], c)
			}
			h.emit("(devpolicy)", fmt.Sprintf("%s:%s:%d", tnum(t), c.String(), burst))
			// mostly synchronous: the caller then gets the failure class of a refused change (or waits out a transient one);
			// one change in three is a delete (of a leaf, a list entry or a whole container / list with applied values)
			o := op{target: t, path: env.Pick(r, paths), val: fmt.Sprintf("v%d", r.Intn(1000))}
			if r.Intn(3) == 0 {
				o = op{target: t, path: env.Pick(r, delPaths), del: true}
			}
			h.nbSet([]op{o}, r.Intn(4) != 0, r.Intn(4) == 0)
			h.settle(30, 0)
		}
		nev = r.Intn(2)
	}
	if n%16 == 2 && len(h.targets) >= 2 {
		// scripted: a SERIALIZABLE change on one target in the middle of plain changes on another target, all submitted
		// at once: the gates of a transaction look at the previous transaction OF ITS OWN TARGETS, not at its neighbour in
		// the log
		for _, t := range h.targets {
			if len(h.connsOf(t)) == 0 && r.Intn(3) != 0 {
				h.connUp(t)
			}
		}
		ta, tb := h.targets[0], h.targets[1]
		h.nbSet([]op{{target: tb, path: env.Pick(r, paths), val: fmt.Sprintf("v%d", r.Intn(1000))}}, false, false)
		h.nbSet([]op{{target: ta, path: env.Pick(r, paths), val: fmt.Sprintf("v%d", r.Intn(1000))}}, r.Intn(2) == 0, true)
		serIdx := uint64(h.e.NumTx())
		h.nbSet([]op{{target: tb, path: env.Pick(r, paths), val: fmt.Sprintf("v%d", r.Intn(1000))}}, false, false)
		if r.Intn(2) == 0 {
			// the SERIALIZABLE change is slow on its target: its proposal is left alone until its log successor (which
			// shares no target with it) has been validated
			h.holdUntil[fmt.Sprintf("%s-%d", ta, serIdx)] = func() bool {
				t, err := h.e.Txs.GetByIndex(context.Background(), configapi.Index(serIdx+1))
				return err == nil && t.Status.State >= configapi.TransactionStatus_VALIDATED
			}
		}
		if r.Intn(2) == 0 {
			h.nbSet([]op{{target: ta, path: env.Pick(r, paths), val: fmt.Sprintf("v%d", r.Intn(1000))}, {target: tb, path: env.Pick(r, paths), val: fmt.Sprintf("v%d", r.Intn(1000))}}, false, r.Intn(2) == 0)
		}
		nev = r.Intn(3)
	}
	if n%16 == 6 {
		// scripted: a change, then one or two requests about the same target that are refused and alter nothing (a change
		// the model plugin rejects, a rollback of an index that does not exist), then the rollback of the first change.
		// The refused requests are links of the target's proposal chain, yet the change before them is still the most
		// recent change of the target: its rollback restores what was there before it.
		for _, t := range h.targets {
			if len(h.connsOf(t)) == 0 && r.Intn(3) != 0 {
				h.connUp(t)
			}
		}
		t := env.Pick(r, h.targets)
		if r.Intn(2) == 0 {
			h.nbSet([]op{{target: t, path: env.Pick(r, paths), val: fmt.Sprintf("v%d", r.Intn(1000))}}, r.Intn(2) == 0, false)
		}
		first := []op{{target: t, path: env.Pick(r, paths), val: fmt.Sprintf("v%d", r.Intn(1000))}}
		if r.Intn(2) == 0 {
			first = append(first, op{target: t, path: env.Pick(r, delPaths), del: true})
			if strings.HasPrefix(first[0].path, first[1].path) || strings.HasPrefix(first[1].path, first[0].path) {
				first = first[:1]
			}
		}
		if len(h.targets) >= 2 && r.Intn(3) == 0 {
			first = append(first, op{target: h.targets[(tnumOf(h.targets, t)+1)%len(h.targets)], path: env.Pick(r, paths), val: fmt.Sprintf("v%d", r.Intn(1000))})
		}
		h.nbSet(first, r.Intn(2) == 0, false)
		idx := uint64(h.e.NumTx())
		if r.Intn(3) != 0 {
			h.randomSteps(20+h.r.Intn(30), crashProb)
			h.settle(40, crashProb)
		}
		for k := 1 + r.Intn(2); k > 0; k-- {
			if r.Intn(3) != 0 {
				h.nbSet([]op{{target: t, path: env.Pick(r, paths), val: fmt.Sprintf("BADv%d", r.Intn(1000))}}, r.Intn(2) == 0, false)
			} else {
				h.nbRollback(uint64(h.e.NumTx()) + 3)
			}
			if r.Intn(2) == 0 {
				h.randomSteps(20+h.r.Intn(30), crashProb)
				h.settle(40, crashProb)
			}
		}
		h.nbRollback(idx)
		nev = r.Intn(2)
	}
	if (n%16 == 13 || (kind == "atomic" && n%16 == 1) || (kind != "atomic" && n%16 == 5)) && len(h.targets) >= 2 {
		// scripted (atomic and crash histories alike: exactly one change is pending when the refusal is due, so the twin
		// meets it at the same request): a change on every target, refused by the device of ONE of them; then a second
		// change on all targets.  The refusal fails that change only: the other targets apply it, and every target takes
		// the second change.
		for _, t := range h.targets {
			if len(h.connsOf(t)) == 0 {
				h.connUp(t)
			}
		}
		h.settle(30, 0)
		refusals := []codes.Code{codes.InvalidArgument, codes.Internal, codes.NotFound, codes.Unknown, codes.AlreadyExists, codes.FailedPrecondition,
			codes.Unimplemented, codes.OutOfRange}
		bad := env.Pick(r, h.targets)
		h.poison[bad] = poisoned{val: "vPOISON", code: env.Pick(r, refusals)}
		if kind == "crash" {
			h.focusCrash[bad] = 0
		}
		h.emit("(devpolicy)", fmt.Sprintf("%s:refusal-of-a-value", tnum(bad)))
		ops := []op{}
		for _, t := range h.targets {
			v := fmt.Sprintf("v%d", r.Intn(1000))
			if t == bad {
				v = "vPOISON"
			}
			ops = append(ops, op{target: t, path: env.Pick(r, paths), val: v})
		}
		h.nbSet(ops, r.Intn(2) == 0, false)
		// the second change is submitted either at once (it queues behind the first on every target: its proposals are
		// being linked while the first is applied) or after the first has run its course
		early := r.Intn(4) != 0
		if early && kind == "atomic" {
			h.holdSucc[bad] = uint64(h.e.NumTx()) // the index of the poisoned change: later proposals of the target wait
		}
		if !early {
			h.randomSteps(30+h.r.Intn(30), crashProb)
			h.settle(40, crashProb)
		}
		ops = []op{}
		for _, t := range h.targets {
			ops = append(ops, op{target: t, path: env.Pick(r, paths), val: fmt.Sprintf("v%d", r.Intn(1000))})
		}
		h.nbSet(ops, r.Intn(2) == 0, false)
		nev = r.Intn(2)
	}
	for ev := 0; ev < nev; ev++ {
		switch k := r.Intn(20); {
		case k < 9:
			h.nbSet(h.genOps(3, false), r.Intn(2) == 0, r.Intn(6) == 0)
		case k < 11:
			h.nbSet(h.genOps(3, true), r.Intn(2) == 0, r.Intn(6) == 0)
		case k < 14:
			nx := h.e.NumTx()
			idx := uint64(nx)
			if r.Intn(3) == 0 {
				idx = uint64(r.Intn(nx + 2))
			}
			if idx == 0 {
				idx = 1
			}
			h.nbRollback(idx)
		case k < 15:
			t := env.Pick(r, h.targets)
			cs := h.connsOf(t)
			if len(cs) > 0 {
				h.connDown(env.Pick(r, cs))
			} else {
				h.connUp(t)
			}
		case k < 16:
			h.connUp(env.Pick(r, h.targets)) // possibly a second, competing connection
		case k < 17:
			h.devRestart(env.Pick(r, h.targets))
		case k < 18 && deterministic:
			h.connUp(env.Pick(r, h.targets))
		case k < 18:
			t := env.Pick(r, h.targets)
			cds := []codes.Code{codes.Unavailable, codes.Canceled, codes.DeadlineExceeded, codes.InvalidArgument, codes.Internal, codes.NotFound,
				codes.Unknown, codes.ResourceExhausted, codes.PermissionDenied, codes.Unimplemented, codes.AlreadyExists, codes.FailedPrecondition,
				codes.Unauthenticated, codes.Aborted, codes.OutOfRange, codes.DataLoss}
			burst := 1 + r.Intn(3)
			c := env.Pick(r, cds)
			for i := 0; i < burst; i++ {
				h.policy[t] = append(h.policy[t], c)
			}
			h.emit("(devpolicy)", fmt.Sprintf("%s:%s:%d", tnum(t), c.String(), burst))
		case k < 19:
			h.foreignRel(env.Pick(r, h.targets))
		default:
			h.rawTx("t9", "noplugin", "/z", "v1") // a target of a type without model plugin (and no topo entity)
		}
		h.randomSteps(h.r.Intn(16), crashProb)
	}
	// settle: connect everything that is offline, clear error policies, run to a fixed point
	if r.Intn(5) != 0 {
		for _, t := range h.targets {
			if len(h.connsOf(t)) == 0 {
				h.connUp(t)
			}
			h.policy[t] = nil
		}
	}
	q := h.settle(80, crashProb)
	sum := h.finish(q)
	h.emitChunks()
	for _, c := range h.e.Conns.IDs() {
		h.e.Conns.RemoveConn(c[0])
	}
	h.e.Atomix.Close()
	return sum
}

func main() {
	seed := flag.Int64("seed", 1, "")
	n := flag.Int("n", 20, "histories")
	ncrash := flag.Int("crash", 10, "histories with crash injection")
	one := flag.Int("one", -1, "run only this history number")
	shard := flag.Int("shard", 0, "this process runs the histories with number % shards == shard")
	shards := flag.Int("shards", 1, "")
	flag.Parse()
	env.Quiet()
	os.Setenv("ADMINGROUPS", "")
	out := bufio.NewWriterSize(os.Stdout, 1<<20)
	defer out.Flush()
	if *one >= 0 {
		kind := "atomic"
		if *one >= 100000 {
			kind = "crash"
		}
		runHistory(*seed, *one, out, kind)
		return
	}
	for i := 0; i < *n; i++ {
		if i%*shards == *shard {
			runHistory(*seed, i, out, "atomic")
		}
	}
	for i := 0; i < *ncrash; i++ {
		if i%*shards == *shard {
			runHistory(*seed, 100000+i, out, "crash")
		}
	}
	// chunking of large validation documents (property C05), untraced
	for k := 0; k < 6; k++ {
		if k%*shards == *shard {
			runChunks(*seed, k, out)
		}
	}
}

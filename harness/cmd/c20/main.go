// c20: observations for property C20 (v3 per-target transaction protocol: order and consistency).
//
// The v3 northbound does not exist in this repository, so configurations are created and transactions are
// appended / flipped to ROLLBACK directly through the real v3 stores (as spec/Transaction.tla's AppendChange /
// RollbackChange do).  The real v3 transaction, configuration and mastership reconcilers are then driven one
// Reconcile call at a time; a store decorator makes the n-th status write of a call fail (partial write between
// the transaction and configuration records).  After every step the projected state is printed.
//
// line:  p3.step \t seed:counter \t scenario \t label \t T=... \t C=... \t E=... \t D=...
package main

import (
	"bufio"
	"context"
	"flag"
	"fmt"
	"math/rand"
	"os"
	"sort"
	"strconv"
	"strings"

	"github.com/atomix/go-sdk/pkg/primitive"
	_map "github.com/atomix/go-sdk/pkg/primitive/map"
	"github.com/atomix/go-sdk/pkg/test"
	"github.com/atomix/go-sdk/pkg/types"
	configapi "github.com/onosproject/onos-api/go/onos/config/v3"
	topoapi "github.com/onosproject/onos-api/go/onos/topo"
	controllerutils "github.com/onosproject/onos-config/pkg/controller/utils"
	cfgctl "github.com/onosproject/onos-config/pkg/controller/v3/configuration"
	mstctl "github.com/onosproject/onos-config/pkg/controller/v3/mastership"
	txctl "github.com/onosproject/onos-config/pkg/controller/v3/transaction"
	"github.com/onosproject/onos-config/pkg/pluginregistry"
	sb "github.com/onosproject/onos-config/pkg/southbound/gnmi"
	cfgstore "github.com/onosproject/onos-config/pkg/store/v3/configuration"
	txstore "github.com/onosproject/onos-config/pkg/store/v3/transaction"
	"github.com/onosproject/onos-lib-go/pkg/controller"
	"github.com/onosproject/onos-lib-go/pkg/errors"
	"google.golang.org/grpc/codes"

	"verifharness/env"
	"verifharness/fakes"
)

// ---------------------------------------------------------------- store decorators (write budget)

type budget struct {
	left int // < 0: unlimited
	used int
}

func (b *budget) take() bool {
	if b.left == 0 {
		return false
	}
	if b.left > 0 {
		b.left--
	}
	b.used++
	return true
}

type txDeco struct {
	txstore.Store
	b *budget
}

func (s *txDeco) UpdateStatus(ctx context.Context, t *configapi.Transaction) error {
	if !s.b.take() {
		return errors.NewUnavailable("injected: transaction store write refused")
	}
	return s.Store.UpdateStatus(ctx, t)
}

type cfgDeco struct {
	cfgstore.Store
	b *budget
}

func (s *cfgDeco) UpdateStatus(ctx context.Context, c *configapi.Configuration) error {
	if !s.b.take() {
		return errors.NewUnavailable("injected: configuration store write refused")
	}
	return s.Store.UpdateStatus(ctx, c)
}

// ---------------------------------------------------------------- world

type world struct {
	atomix  *test.Client
	topo    *fakes.Topo
	conns   *fakes.Conns
	plugin  *fakes.PluginClient
	reg     pluginregistry.PluginRegistry
	noreg   pluginregistry.PluginRegistry
	txs     txstore.Store
	cfgs    cfgstore.Store
	raw     _map.Map[string, *configapi.Configuration]
	dev     *fakes.Device
	target  configapi.Target
	b       *budget
	reject  bool
	devCode codes.Code
	node    string
	epoch   int // incarnation of the device: connection / relation ids are never reused across a device restart
}

// resolve maps the generator's connection names (c1, c2, c3) to ids that are unique per device incarnation
func (w *world) resolve(op string) string {
	f := strings.Split(op, ":")
	switch f[0] {
	case "up", "down", "rup", "rdown", "cup", "cdown", "fup":
		if w.epoch > 0 && len(f[1]) == 2 {
			return fmt.Sprintf("%s:c%d%s", f[0], w.epoch, f[1][1:])
		}
	}
	return op
}

const tgtID = "t1"

func newWorld() *world {
	w := &world{atomix: test.NewClient(), topo: fakes.NewTopo(), conns: fakes.NewConns(), b: &budget{left: -1}}
	w.target = configapi.Target{ID: tgtID, Type: "tt", Version: "1"}
	w.plugin = &fakes.PluginClient{Name: "tt", Version: "1"}
	w.plugin.Verdict = func(doc []byte) (bool, string) {
		if w.reject {
			return false, "rejected by the oracle"
		}
		return true, ""
	}
	w.reg = fakes.NewRegistry(w.plugin)
	w.noreg = fakes.NewRegistry()
	w.dev = fakes.NewDevice(tgtID)
	w.dev.Policy = func(n int, r *fakes.DevReq) codes.Code { return w.devCode }
	w.node = string(controllerutils.GetOnosConfigID())
	w.open()
	return w
}

func (w *world) open() {
	t, err := txstore.NewAtomixStore(w.atomix)
	if err != nil {
		panic(err)
	}
	c, err := cfgstore.NewAtomixStore(w.atomix)
	if err != nil {
		panic(err)
	}
	w.txs, w.cfgs = t, c
	raw, err := _map.NewBuilder[string, *configapi.Configuration](primitive.Client(w.atomix), "configurations").
		Tag("onos-config", "configuration").
		Codec(types.Proto[*configapi.Configuration](&configapi.Configuration{})).
		Get(context.Background())
	if err != nil {
		panic(err)
	}
	w.raw = raw
}

func (w *world) cfgID() configapi.ConfigurationID { return configapi.ConfigurationID{Target: w.target} }

// ---------------------------------------------------------------- dump

func pvStr(pv configapi.PathValue) string {
	v := "-"
	if len(pv.Value.Bytes) > 0 {
		v = string(pv.Value.Bytes)
	}
	d := 0
	if pv.Deleted {
		d = 1
	}
	return fmt.Sprintf("%s:%s:%d:%d", pv.Path, v, d, pv.Index)
}

func valsStr(m map[string]configapi.PathValue) string {
	if len(m) == 0 {
		return "."
	}
	ks := make([]string, 0, len(m))
	for k := range m {
		ks = append(ks, k)
	}
	sort.Strings(ks)
	parts := make([]string, 0, len(ks))
	for _, k := range ks {
		pv := m[k]
		if pv.Path != k {
			parts = append(parts, "KEY("+k+")"+pvStr(pv))
		} else {
			parts = append(parts, pvStr(pv))
		}
	}
	return strings.Join(parts, ",")
}

func st(p *configapi.TransactionPhaseStatus) string {
	if p == nil {
		return "-"
	}
	s := strconv.Itoa(int(p.State))
	if p.Failure != nil {
		s += "f" + strconv.Itoa(int(p.Failure.Type))
	}
	return s
}

func (w *world) dump() string {
	ctx := context.Background()
	var sb strings.Builder
	// transactions of the target, in log order
	sb.WriteString("T=")
	n := 0
	for i := 1; ; i++ {
		t, err := w.txs.Get(ctx, configapi.TransactionID{Target: w.target, Index: configapi.Index(i)})
		if err != nil {
			if !errors.IsNotFound(err) {
				panic(err)
			}
			break
		}
		if n > 0 {
			sb.WriteString(";")
		}
		n++
		s := t.Status
		fmt.Fprintf(&sb, "%d,%s,%s,%d,%s,%s,%d,%d~%s~%s", int(s.Phase), st(s.Change.Commit), st(s.Change.Apply), s.Change.Ordinal,
			st(s.Rollback.Commit), st(s.Rollback.Apply), s.Rollback.Ordinal, s.Rollback.Index, valsStr(t.Values), valsStr(s.Rollback.Values))
	}
	if n == 0 {
		sb.WriteString(".")
	}
	// configuration: as returned by the store's Get, and the raw entry (inline committed values)
	sb.WriteString("\tC=")
	c, err := w.cfgs.Get(ctx, w.cfgID())
	if err != nil {
		if !errors.IsNotFound(err) {
			panic(err)
		}
		sb.WriteString(".")
	} else {
		master, term := "-", uint64(0)
		if c.Status.Mastership != nil {
			if c.Status.Mastership.Master != "" {
				master = string(c.Status.Mastership.Master)
			}
			term = uint64(c.Status.Mastership.Term)
		} else {
			master = "nil"
		}
		inline := "?"
		if e, err := w.raw.Get(ctx, c.Key); err == nil {
			inline = valsStr(e.Value.Committed.Values)
		}
		fmt.Fprintf(&sb, "%d,%s,%d|%d,%d,%d,%d,%d|%d,%d,%d,%d,%d|%s|%s|%s", int(c.Status.State), master, term,
			c.Committed.Index, c.Committed.Ordinal, c.Committed.Revision, c.Committed.Target, c.Committed.Change,
			c.Applied.Index, c.Applied.Ordinal, c.Applied.Revision, c.Applied.Target, c.Applied.Term,
			inline, valsStr(c.Applied.Values), valsStr(c.Committed.Values))
	}
	// environment: target entity, relations, connections
	sb.WriteString("\tE=")
	ent := "0"
	if o, err := w.topo.Get(context.Background(), tgtID); err == nil {
		ent = "1"
		cf := &topoapi.Configurable{}
		if o.GetAspect(cf) == nil && cf.Persistent {
			ent = "2"
		}
	}
	rels := []string{}
	for _, r := range w.topo.Relations() {
		own := "0"
		if r[1] == w.node {
			own = "1"
		}
		if r[2] == tgtID {
			rels = append(rels, r[0]+":"+own)
		}
	}
	cs := []string{}
	for _, c := range w.conns.IDs() {
		cs = append(cs, c[0])
	}
	fmt.Fprintf(&sb, "%s|%s|%s", ent, dotJoin(rels), dotJoin(cs))
	// device
	sb.WriteString("\tD=")
	lg := w.dev.LogCopy()
	fmt.Fprintf(&sb, "%d|%s|%d", w.dev.MaxElect, dotJoin(w.dev.Leaves()), len(lg))
	return sb.String()
}

func dotJoin(l []string) string {
	if len(l) == 0 {
		return "."
	}
	return strings.Join(l, ",")
}

// requests the device saw since `from`: elect/code/deletes/updates
func (w *world) reqsSince(from int) string {
	lg := w.dev.LogCopy()
	parts := []string{}
	for _, r := range lg[from:] {
		dl := append([]string{}, r.Deletes...)
		sort.Strings(dl)
		up := []string{}
		for _, u := range r.Updates {
			up = append(up, u[0]+"="+u[1])
		}
		sort.Strings(up)
		parts = append(parts, fmt.Sprintf("%d/%s/%s/%s", r.ElectionID, r.Code.String(), dotJoin(dl), dotJoin(up)))
	}
	if len(parts) == 0 {
		return "."
	}
	return strings.Join(parts, ";")
}

// ---------------------------------------------------------------- operations

var codeNames = map[string]codes.Code{"OK": codes.OK, "Unavailable": codes.Unavailable, "Canceled": codes.Canceled,
	"DeadlineExceeded": codes.DeadlineExceeded, "PermissionDenied": codes.PermissionDenied, "Unknown": codes.Unknown,
	"InvalidArgument": codes.InvalidArgument, "Internal": codes.Internal, "NotFound": codes.NotFound,
	"AlreadyExists": codes.AlreadyExists, "Unauthenticated": codes.Unauthenticated, "FailedPrecondition": codes.FailedPrecondition,
	"Unimplemented": codes.Unimplemented, "Aborted": codes.Aborted, "ResourceExhausted": codes.ResourceExhausted,
	"OutOfRange": codes.OutOfRange, "DataLoss": codes.DataLoss}

func atoi(s string) int {
	n, err := strconv.Atoi(s)
	if err != nil {
		panic("bad number " + s)
	}
	return n
}

func (w *world) numTx() int {
	n := 0
	for i := 1; ; i++ {
		if _, err := w.txs.Get(context.Background(), configapi.TransactionID{Target: w.target, Index: configapi.Index(i)}); err != nil {
			break
		}
		n++
	}
	return n
}

// exec runs one operation; it returns extra observation text (result class of the call, device requests)
func (w *world) exec(op string) string {
	ctx := context.Background()
	f := strings.Split(op, ":")
	from := len(w.dev.LogCopy())
	res := "-"
	switch f[0] {
	case "cfg":
		c := &configapi.Configuration{ID: w.cfgID()}
		c.Status.Mastership = &configapi.MastershipStatus{}
		if len(f) > 1 && f[1] != "" { // initial committed values (index 0)
			c.Committed.Values = map[string]configapi.PathValue{}
			for _, kv := range strings.Split(f[1], ",") {
				p := strings.SplitN(kv, "=", 2)
				c.Committed.Values[p[0]] = configapi.PathValue{Path: p[0], Value: *configapi.NewTypedValueString(p[1])}
			}
		}
		if err := w.cfgs.Create(ctx, c); err != nil {
			res = "err"
		}
	case "tgt0", "tgt1":
		w.topo.RemoveObject(tgtID)
		w.topo.AddTarget(tgtID, "tt", "1", f[0] == "tgt1", false)
	case "tgt-":
		w.topo.RemoveObject(tgtID)
	case "up": // relation + connection
		if !w.topo.Has(f[1]) {
			w.topo.AddRelation(f[1], w.node, tgtID)
		}
		if _, ok := w.conns.Get(ctx, gnmiConnID(f[1])); !ok {
			w.conns.AddConn(f[1], tgtID, w.dev)
		}
	case "down":
		w.conns.RemoveConn(f[1])
		w.topo.RemoveObject(f[1])
	case "rup":
		if !w.topo.Has(f[1]) {
			w.topo.AddRelation(f[1], w.node, tgtID)
		}
	case "fup": // a relation owned by another node
		if !w.topo.Has(f[1]) {
			w.topo.AddRelation(f[1], "gnmi:other-node", tgtID)
		}
	case "rdown":
		w.topo.RemoveObject(f[1])
	case "cup":
		if _, ok := w.conns.Get(ctx, gnmiConnID(f[1])); !ok {
			w.conns.AddConn(f[1], tgtID, w.dev)
		}
	case "cdown":
		w.conns.RemoveConn(f[1])
	case "restart": // the device loses its state; its connections and the relations built on them go away
		w.dev.Restart()
		w.epoch++
		for _, c := range w.conns.IDs() {
			w.conns.RemoveConn(c[0])
		}
		for _, r := range w.topo.Relations() {
			if r[2] == tgtID {
				w.topo.RemoveObject(r[0])
			}
		}
	case "reopen":
		w.open()
	case "a": // a:/x=1,/y=-
		idx := configapi.Index(w.numTx() + 1)
		t := &configapi.Transaction{ID: configapi.TransactionID{Target: w.target}, Values: map[string]configapi.PathValue{}}
		for _, kv := range strings.Split(f[1], ",") {
			p := strings.SplitN(kv, "=", 2)
			pv := configapi.PathValue{Path: p[0], Index: idx}
			if p[1] == "-" {
				pv.Deleted = true
			} else {
				pv.Value = *configapi.NewTypedValueString(p[1])
			}
			t.Values[p[0]] = pv
		}
		t.Status.Phase = configapi.TransactionStatus_CHANGE
		t.Status.Change.Commit = &configapi.TransactionPhaseStatus{State: configapi.TransactionPhaseStatus_PENDING}
		t.Status.Change.Apply = &configapi.TransactionPhaseStatus{State: configapi.TransactionPhaseStatus_PENDING}
		if err := w.txs.Create(ctx, t); err != nil {
			panic(err)
		}
		if t.ID.Index != idx {
			panic("index prediction wrong")
		}
	case "b": // rollback request, as RollbackChange of the specification (guard checked by the caller or deliberately not)
		t, err := w.txs.Get(ctx, configapi.TransactionID{Target: w.target, Index: configapi.Index(atoi(f[1]))})
		if err != nil {
			res = "notfound"
			break
		}
		t.Status.Phase = configapi.TransactionStatus_ROLLBACK
		t.Status.Rollback.Commit = &configapi.TransactionPhaseStatus{State: configapi.TransactionPhaseStatus_PENDING}
		t.Status.Rollback.Apply = &configapi.TransactionPhaseStatus{State: configapi.TransactionPhaseStatus_PENDING}
		if err := w.txs.UpdateStatus(ctx, t); err != nil {
			panic(err)
		}
	case "r": // r:index:budget:verdict:code
		w.b.left, w.b.used = atoi(f[2]), 0
		if w.b.left >= 9 {
			w.b.left = -1
		}
		w.reject = f[3] == "r"
		reg := w.reg
		if f[3] == "n" {
			reg = w.noreg
		}
		w.devCode = codeNames[f[4]]
		rec := txctl.NewReconcilerForVerif(configapi.NodeID(w.node), &txDeco{w.txs, w.b}, &cfgDeco{w.cfgs, w.b}, w.conns, w.topo, reg)
		res = guarded(func() (controller.Result, error) {
			return rec.Reconcile(controller.NewID(configapi.TransactionID{Target: w.target, Index: configapi.Index(atoi(f[1]))}))
		}) + fmt.Sprintf("/w%d", w.b.used)
	case "c": // c:budget:code
		w.b.left, w.b.used = atoi(f[1]), 0
		if w.b.left >= 9 {
			w.b.left = -1
		}
		w.devCode = codeNames[f[2]]
		rec := cfgctl.NewReconcilerForVerif(w.topo, w.conns, &cfgDeco{w.cfgs, w.b})
		res = guarded(func() (controller.Result, error) { return rec.Reconcile(controller.NewID(w.cfgID())) }) + fmt.Sprintf("/w%d", w.b.used)
	case "m": // m:budget
		w.b.left, w.b.used = atoi(f[1]), 0
		if w.b.left >= 9 {
			w.b.left = -1
		}
		rec := mstctl.NewReconcilerForVerif(w.topo, &cfgDeco{w.cfgs, w.b})
		res = guarded(func() (controller.Result, error) { return rec.Reconcile(controller.NewID(w.cfgID())) }) + fmt.Sprintf("/w%d", w.b.used)
	default:
		panic("unknown op " + op)
	}
	w.b.left = -1
	w.devCode = codes.OK
	return res + "\t" + w.reqsSince(from)
}

// guarded runs a reconcile call and turns a Go panic into the observable outcome "panic"
func guarded(f func() (controller.Result, error)) (res string) {
	defer func() {
		if x := recover(); x != nil {
			res = "panic"
		}
	}()
	r, err := f()
	return resStr(r, err)
}

func resStr(r controller.Result, err error) string {
	if err != nil {
		return "err"
	}
	if r.Requeue.Value != nil {
		if id, ok := r.Requeue.Value.(configapi.TransactionID); ok {
			return fmt.Sprintf("rq%d", id.Index)
		}
		return "rq?"
	}
	return "ok"
}

func gnmiConnID(s string) sb.ConnID { return sb.ConnID(s) }

// ---------------------------------------------------------------- main

var out *bufio.Writer
var counter int

func emit(seed int64, scen int, w *world, op string, extra string) {
	counter++
	fmt.Fprintf(out, "p3.step\t%d:%d\t%d\t%s\t%s\t%s\n", seed, counter, scen, op, extra, w.dump())
}

// runScenario: kind is "clean" (single path, inside every guard), "multi" (several paths, sub-tree deletes),
// "nil" (configuration created without values), "malformed" (requests the specification's guards exclude).
// ops are executed; a function may supply further operations depending on the state (generator).
func runScenario(seed int64, scen int, kind string, ops []string, more func(w *world) string) {
	w := newWorld()
	emit(seed, scen, w, "init", kind+"\t.")
	do := func(op string) string {
		op = w.resolve(op)
		extra := w.exec(op)
		emit(seed, scen, w, op, extra)
		return extra
	}
	for _, op := range ops {
		if op != "" {
			do(op)
		}
	}
	if more != nil {
		for {
			op := more(w)
			if op == "" {
				break
			}
			do(op)
		}
		// drain: heal the environment, then reconcile every transaction until a whole round writes nothing
		for _, op := range []string{"tgt0", "up:c1", "m:9", "c:9:OK", "c:9:OK", "m:9", "c:9:OK", "c:9:OK"} {
			do(op)
		}
		panicked := false
		for round := 0; round < 40 && !panicked; round++ {
			quiet := true
			n := w.numTx()
			// the environment completes what it asked for: a pending rollback waits until the later committed changes are
			// rolled back (reverse order), so request the rollback of the committed revision above it
			if c, err := w.cfgs.Get(context.Background(), w.cfgID()); err == nil && kind != "malformed" {
				rev := int(c.Committed.Revision)
				waiting := false
				for i := 1; i < rev && i <= n; i++ {
					if t, err := w.txs.Get(context.Background(), configapi.TransactionID{Target: w.target, Index: configapi.Index(i)}); err == nil &&
						t.Status.Phase == configapi.TransactionStatus_ROLLBACK && t.Status.Rollback.Commit != nil &&
						t.Status.Rollback.Commit.State == configapi.TransactionPhaseStatus_PENDING {
						waiting = true
					}
				}
				if t, err := w.txs.Get(context.Background(), configapi.TransactionID{Target: w.target, Index: configapi.Index(rev)}); waiting && err == nil &&
					t.Status.Phase == configapi.TransactionStatus_CHANGE && t.Status.Change.Commit.State == configapi.TransactionPhaseStatus_COMPLETE {
					do(fmt.Sprintf("b:%d", rev))
					quiet = false
				}
			}
			for i := 1; i <= n; i++ {
				x := do(fmt.Sprintf("r:%d:9:a:OK", i))
				if strings.HasPrefix(x, "panic") {
					panicked = true
					break
				}
				if !strings.Contains(x, "/w0") {
					quiet = false
				}
			}
			if quiet {
				break
			}
		}
		emit(seed, scen, w, "end", "-\t.")
	}
	for _, c := range w.conns.IDs() {
		w.conns.RemoveConn(c[0])
	}
	w.atomix.Close()
}

func main() {
	seed := flag.Int64("seed", 1, "")
	nScen := flag.Int("scen", 40, "random scenarios")
	steps := flag.Int("steps", 60, "steps per scenario")
	script := flag.String("script", "", "run one scripted scenario (space separated operations) and exit")
	kind := flag.String("kind", "clean", "kind of the scripted scenario")
	corpus := flag.String("corpus", "", "file of scripted scenarios, one per line, run first")
	flag.Parse()
	env.Quiet()
	os.Setenv("POD_ID", "onos-config-0")
	out = bufio.NewWriter(os.Stdout)
	defer out.Flush()
	if *script != "" {
		runScenario(*seed, 0, *kind, strings.Fields(*script), nil)
		return
	}
	scen := 0
	if *corpus != "" {
		if b, err := os.ReadFile(*corpus); err == nil {
			for _, ln := range strings.Split(string(b), "\n") {
				ln = strings.TrimSpace(ln)
				if ln == "" || strings.HasPrefix(ln, "#") {
					continue
				}
				scen++
				fs := strings.Fields(ln)
				var more func(w *world) string
				if fs[len(fs)-1] == "drain" { // heal, drain and check termination at the end
					fs = fs[:len(fs)-1]
					more = func(w *world) string { return "" }
				}
				runScenario(*seed, scen, fs[0], fs[1:], more)
			}
		}
	}
	r := rand.New(rand.NewSource(*seed))
	for i := 0; i < *nScen; i++ {
		scen++
		kind, pre, more := genScenario(r, *steps, i)
		runScenario(*seed, scen, kind, pre, more)
	}
}


var devCodes = []string{"OK", "Unavailable", "Canceled", "DeadlineExceeded", "PermissionDenied", "Unknown", "InvalidArgument",
	"Internal", "NotFound", "AlreadyExists", "Unauthenticated", "FailedPrecondition", "Unimplemented", "Aborted",
	"ResourceExhausted", "OutOfRange", "DataLoss"}

// genScenario returns the kind, the fixed prologue and a state-dependent generator of further operations
func genScenario(r *rand.Rand, steps int, k int) (string, []string, func(w *world) string) {
	kind := "clean"
	switch {
	case k%10 == 7 || k%10 == 4:
		kind = "multi"
	case k%10 == 8:
		kind = "nil"
	case k%10 == 9:
		kind = "malformed"
	}
	pre := []string{}
	switch kind {
	case "nil":
		pre = append(pre, "cfg")
	default:
		// one initial committed value on a path no change touches: Committed.Values is then allocated (F-20a) and the
		// committed path map written by Create does not shadow the changed paths (F-20b)
		pre = append(pre, "cfg:/z=0")
	}
	// mostly a healthy start, sometimes a cold one
	if r.Intn(4) > 0 {
		pre = append(pre, "tgt0", "up:c1", "m:9", "c:9:OK", "c:9:OK")
	} else if r.Intn(2) == 0 {
		pre = append(pre, "tgt0")
	}
	val := 0
	genVals := func() string {
		val++
		if kind != "multi" {
			if r.Intn(5) == 0 {
				return "/a=-"
			}
			return fmt.Sprintf("/a=%d", val)
		}
		switch r.Intn(7) {
		case 0:
			return "/a=-"
		case 1:
			return fmt.Sprintf("/a/b=%d,/d=%d", val, val)
		case 2:
			return fmt.Sprintf("/a/c=%d", val)
		case 3:
			return "/a/b=-"
		case 4:
			return fmt.Sprintf("/d=%d", val)
		case 5:
			return fmt.Sprintf("/a/b=%d,/a/c=%d", val, val)
		}
		return fmt.Sprintf("/a/b=%d", val)
	}
	n := 0
	maxTx := 2 + r.Intn(4)
	more := func(w *world) string {
		n++
		if n > steps {
			return ""
		}
		ntx := w.numTx()
		budget := func() int {
			switch r.Intn(6) {
			case 0:
				return 0
			case 1:
				return 1
			}
			return 9
		}
		code := func() string {
			if r.Intn(4) == 0 {
				return devCodes[r.Intn(len(devCodes))]
			}
			return "OK"
		}
		x := r.Intn(100)
		switch {
		case x < 12 && ntx < maxTx:
			return "a:" + genVals()
		case x < 20 && ntx > 0:
			// a rollback request the specification allows: phase CHANGE, change committed
			cands := []int{}
			rev := 0
			if c, err := w.cfgs.Get(context.Background(), w.cfgID()); err == nil {
				rev = int(c.Committed.Revision)
			}
			for i := 1; i <= ntx; i++ {
				t, err := w.txs.Get(context.Background(), configapi.TransactionID{Target: w.target, Index: configapi.Index(i)})
				if err != nil {
					continue
				}
				ok := t.Status.Phase == configapi.TransactionStatus_CHANGE && t.Status.Change.Commit.State == configapi.TransactionPhaseStatus_COMPLETE
				// rollbacks are requested in reverse order: the change that is the committed revision (anything else is "malformed")
				if ok && i == rev || kind == "malformed" && t.Status.Phase == configapi.TransactionStatus_CHANGE {
					cands = append(cands, i)
				}
			}
			if len(cands) == 0 {
				return "m:9"
			}
			// prefer the latest (the one that can proceed), sometimes an older one
			c := cands[len(cands)-1]
			if r.Intn(4) == 0 {
				c = cands[r.Intn(len(cands))]
			}
			return fmt.Sprintf("b:%d", c)
		case x < 45 && ntx > 0:
			// progress: reconcile the first transaction that is not terminal, completely, mostly with a willing device
			i := ntx
			for j := 1; j <= ntx; j++ {
				t, err := w.txs.Get(context.Background(), configapi.TransactionID{Target: w.target, Index: configapi.Index(j)})
				if err != nil {
					continue
				}
				done := func(p *configapi.TransactionPhaseStatus) bool {
					return p != nil && p.State >= configapi.TransactionPhaseStatus_COMPLETE
				}
				st := t.Status
				if !(done(st.Change.Commit) && done(st.Change.Apply)) ||
					st.Phase == configapi.TransactionStatus_ROLLBACK && !(done(st.Rollback.Commit) && done(st.Rollback.Apply)) {
					i = j
					break
				}
			}
			c := "OK"
			if r.Intn(7) == 0 {
				c = []string{"InvalidArgument", "Internal", "Unknown", "DataLoss", "Unavailable"}[r.Intn(5)]
			}
			return fmt.Sprintf("r:%d:9:a:%s", i, c)
		case x < 70:
			i := 1
			if ntx > 0 {
				i = 1 + r.Intn(ntx)
			}
			if r.Intn(25) == 0 {
				i = ntx + 1 + r.Intn(2)
			}
			v := "a"
			if y := r.Intn(12); y == 0 {
				v = "r"
			} else if y == 1 && r.Intn(3) == 0 {
				v = "n"
			}
			return fmt.Sprintf("r:%d:%d:%s:%s", i, budget(), v, code())
		case x < 78:
			return fmt.Sprintf("c:%d:%s", budget(), code())
		case x < 85:
			return fmt.Sprintf("m:%d", budget())
		}
		envOps := []string{"down:c1", "up:c1", "up:c1", "up:c2", "down:c2", "cdown:c1", "cup:c1", "rdown:c1", "rup:c1", "fup:c3", "rdown:c3",
			"restart", "tgt-", "tgt0", "tgt0", "reopen"}
		if kind == "malformed" && r.Intn(3) == 0 {
			envOps = append(envOps, "tgt1")
		}
		return envOps[r.Intn(len(envOps))]
	}
	return kind, pre, more
}

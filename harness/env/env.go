// Package env assembles the repository's real v2 stores, controllers and northbound servers over
// the in-memory Atomix test client and the fakes.
package env

import (
	"context"
	"encoding/hex"
	"math/rand"

	"github.com/atomix/go-sdk/pkg/test"
	"github.com/onosproject/onos-config/pkg/controller/connection"
	cfgctl "github.com/onosproject/onos-config/pkg/controller/v2/configuration"
	mstctl "github.com/onosproject/onos-config/pkg/controller/v2/mastership"
	propctl "github.com/onosproject/onos-config/pkg/controller/v2/proposal"
	txctl "github.com/onosproject/onos-config/pkg/controller/v2/transaction"
	"github.com/onosproject/onos-config/pkg/northbound/admin"
	nbgnmi "github.com/onosproject/onos-config/pkg/northbound/gnmi/v2"
	"github.com/onosproject/onos-config/pkg/pluginregistry"
	"github.com/onosproject/onos-config/pkg/store/v2/configuration"
	"github.com/onosproject/onos-config/pkg/store/v2/proposal"
	"github.com/onosproject/onos-config/pkg/store/v2/transaction"
	"github.com/onosproject/onos-lib-go/pkg/controller"
	"github.com/onosproject/onos-lib-go/pkg/logging"

	"verifharness/fakes"
)

// Env is one simulated onos-config instance
type Env struct {
	Atomix   *test.Client
	Topo     *fakes.Topo
	Conns    *fakes.Conns
	Registry pluginregistry.PluginRegistry
	Txs      transaction.Store
	Props    proposal.Store
	Cfgs     configuration.Store
	Gnmi     *nbgnmi.Server
	Admin    *admin.Server
	ctls     []*controller.Controller
}

// Quiet turns the repository's logging down
func Quiet() {
	logging.SetLevel(logging.FatalLevel)
	for _, n := range []string{"northbound", "controller", "store", "registry", "southbound", "utils", "atomix"} {
		logging.GetLogger(n).SetLevel(logging.FatalLevel)
	}
}

// New builds stores, plugin registry and northbound servers (no controllers running)
func New(setSizeLimit int, plugins ...*fakes.PluginClient) *Env {
	e := &Env{Atomix: test.NewClient(), Topo: fakes.NewTopo(), Conns: fakes.NewConns()}
	e.Registry = fakes.NewRegistry(plugins...)
	e.OpenStores()
	e.Gnmi = nbgnmi.NewServerForVerif(e.Topo, e.Txs, e.Props, e.Cfgs, e.Registry, e.Conns, setSizeLimit)
	e.Admin = admin.NewServerForVerif(e.Txs, e.Cfgs, e.Registry)
	return e
}

// OpenStores (re)opens store handles on the same Atomix client - what a process restart does
func (e *Env) OpenStores() {
	var err error
	if e.Cfgs, err = configuration.NewAtomixStore(e.Atomix); err != nil {
		panic(err)
	}
	if e.Props, err = proposal.NewAtomixStore(e.Atomix); err != nil {
		panic(err)
	}
	if e.Txs, err = transaction.NewAtomixStore(e.Atomix); err != nil {
		panic(err)
	}
}

// StartControllers runs the repository's real controllers (watchers, queues, goroutines)
func (e *Env) StartControllers(withSouthbound bool) {
	cs := []*controller.Controller{}
	if withSouthbound {
		cs = append(cs, connection.NewController(e.Topo, e.Conns), mstctl.NewController(e.Topo, e.Cfgs))
	}
	cs = append(cs, cfgctl.NewController(e.Topo, e.Conns, e.Cfgs),
		propctl.NewController(e.Topo, e.Conns, e.Props, e.Cfgs, e.Registry),
		txctl.NewController(e.Txs, e.Props))
	for _, c := range cs {
		if err := c.Start(); err != nil {
			panic(err)
		}
	}
	e.ctls = cs
}

// StopControllers stops them
func (e *Env) StopControllers() {
	for _, c := range e.ctls {
		c.Stop()
	}
	e.ctls = nil
}

// NumTx counts the logged transactions
func (e *Env) NumTx() int {
	l, err := e.Txs.List(context.Background())
	if err != nil {
		panic(err)
	}
	return len(l)
}

// Hx hex-encodes a string ("-" for empty) for the line protocol
func Hx(s string) string {
	if s == "" {
		return "-"
	}
	return hex.EncodeToString([]byte(s))
}

// HxList encodes a list of strings ("." for the empty list)
func HxList(l []string) string {
	if len(l) == 0 {
		return "."
	}
	r := ""
	for i, s := range l {
		if i > 0 {
			r += ","
		}
		r += Hx(s)
	}
	return r
}

// Pick returns a random element
func Pick[T any](r *rand.Rand, l []T) T { return l[r.Intn(len(l))] }

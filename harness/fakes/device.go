package fakes

import (
	"context"
	"fmt"
	"net"
	"sort"
	"strings"
	"sync"
	"time"

	topoapi "github.com/onosproject/onos-api/go/onos/topo"
	sb "github.com/onosproject/onos-config/pkg/southbound/gnmi"
	"github.com/onosproject/onos-config/pkg/utils"
	baseClient "github.com/openconfig/gnmi/client"
	gclient "github.com/openconfig/gnmi/client/gnmi"
	"github.com/openconfig/gnmi/proto/gnmi"
	"google.golang.org/grpc"
	"google.golang.org/grpc/codes"
	"google.golang.org/grpc/credentials/insecure"
	"google.golang.org/grpc/status"
	"google.golang.org/grpc/test/bufconn"
)

// DevReq is one Set request as seen by the device
type DevReq struct {
	Seq        int
	ConnID     string
	ElectionID uint64
	HasElect   bool
	Deletes    []string
	Updates    [][2]string // path, canonical value
	Code       codes.Code  // answer
	Tag        string      // harness step that caused it
}

// Device is a simulated gNMI target: a leaf map with gNMI Set semantics, a request log and an
// answer policy.  It is served over an in-process gRPC server so that the repository's real
// southbound client wrapper sits between the controllers and the device.
type Device struct {
	mu       sync.Mutex
	ID       string
	Tree     map[string]string
	Log      []DevReq
	MaxElect uint64
	// Policy returns the status code for the n-th request (codes.OK applies it)
	Policy func(n int, r *DevReq) codes.Code
	// Models reported by Capabilities
	Models []*gnmi.ModelData
	Tag    string
	seq    int
	// CapErr makes Capabilities fail
	CapErr codes.Code
	gnmi.UnimplementedGNMIServer
}

// NewDevice creates an empty device
func NewDevice(id string) *Device {
	return &Device{ID: id, Tree: map[string]string{}}
}

// ValStr renders a gNMI typed value canonically
func ValStr(v *gnmi.TypedValue) string {
	if v == nil {
		return "nil"
	}
	switch x := v.Value.(type) {
	case *gnmi.TypedValue_StringVal:
		return "s:" + x.StringVal
	case *gnmi.TypedValue_IntVal:
		return fmt.Sprintf("i:%d", x.IntVal)
	case *gnmi.TypedValue_UintVal:
		return fmt.Sprintf("u:%d", x.UintVal)
	case *gnmi.TypedValue_BoolVal:
		return fmt.Sprintf("b:%v", x.BoolVal)
	case *gnmi.TypedValue_BytesVal:
		return fmt.Sprintf("y:%x", x.BytesVal)
	case *gnmi.TypedValue_FloatVal:
		return fmt.Sprintf("f:%x", x.FloatVal)
	case *gnmi.TypedValue_DoubleVal:
		return fmt.Sprintf("F:%x", x.DoubleVal)
	case *gnmi.TypedValue_DecimalVal:
		return fmt.Sprintf("d:%d/%d", x.DecimalVal.Digits, x.DecimalVal.Precision)
	case *gnmi.TypedValue_LeaflistVal:
		parts := []string{}
		for _, e := range x.LeaflistVal.Element {
			parts = append(parts, ValStr(e))
		}
		return "l:[" + strings.Join(parts, ",") + "]"
	case *gnmi.TypedValue_JsonVal:
		return "j:" + string(x.JsonVal)
	case *gnmi.TypedValue_JsonIetfVal:
		return "J:" + string(x.JsonIetfVal)
	case *gnmi.TypedValue_AsciiVal:
		return "a:" + x.AsciiVal
	}
	return fmt.Sprintf("?:%v", v)
}

func elemsKey(p *gnmi.Path) string {
	// canonical textual form by element boundaries, independent of the repository's codec:
	// elements joined by \x00, keys sorted, name\x01k\x02v
	parts := []string{}
	for _, e := range p.GetElem() {
		s := e.Name
		ks := make([]string, 0, len(e.Key))
		for k := range e.Key {
			ks = append(ks, k)
		}
		sort.Strings(ks)
		for _, k := range ks {
			s += "\x01" + k + "\x02" + e.Key[k]
		}
		parts = append(parts, s)
	}
	return strings.Join(parts, "\x00")
}

// covers tells whether the node addressed by del is the leaf or one of its ancestors: element-wise prefix,
// where an element of del given without (some of) its keys addresses every entry of that list
func covers(del, leaf string) bool {
	if del == "" {
		return true
	}
	de, le := strings.Split(del, "\x00"), strings.Split(leaf, "\x00")
	if len(de) > len(le) {
		return false
	}
	for i, e := range de {
		dk, lk := strings.Split(e, "\x01"), strings.Split(le[i], "\x01")
		if dk[0] != lk[0] {
			return false
		}
		for _, k := range dk[1:] {
			found := false
			for _, k2 := range lk[1:] {
				if k == k2 {
					found = true
				}
			}
			if !found {
				return false
			}
		}
	}
	return true
}

// Set applies a SetRequest with gNMI semantics (delete = node and descendants at element boundaries)
func (d *Device) Set(ctx context.Context, req *gnmi.SetRequest) (*gnmi.SetResponse, error) {
	d.mu.Lock()
	defer d.mu.Unlock()
	r := DevReq{Seq: d.seq, Tag: d.Tag}
	d.seq++
	for _, e := range req.Extension {
		if ma := e.GetMasterArbitration(); ma != nil {
			r.HasElect = true
			r.ElectionID = ma.GetElectionId().GetLow()
		}
	}
	for _, p := range req.Delete {
		r.Deletes = append(r.Deletes, utils.StrPath(p))
	}
	for _, u := range append(append([]*gnmi.Update{}, req.Replace...), req.Update...) {
		r.Updates = append(r.Updates, [2]string{utils.StrPath(u.Path), ValStr(u.Val)})
	}
	code := codes.OK
	if r.HasElect && r.ElectionID < d.MaxElect {
		code = codes.PermissionDenied
	} else if d.Policy != nil {
		code = d.Policy(r.Seq, &r)
	}
	r.Code = code
	if code == codes.OK {
		if r.HasElect && r.ElectionID > d.MaxElect {
			d.MaxElect = r.ElectionID
		}
		for _, p := range req.Delete {
			for x := range d.Tree {
				if covers(elemsKey(p), x) {
					delete(d.Tree, x)
				}
			}
		}
		for _, u := range append(append([]*gnmi.Update{}, req.Replace...), req.Update...) {
			d.Tree[elemsKey(u.Path)] = utils.StrPath(u.Path) + "=" + ValStr(u.Val)
		}
	}
	d.Log = append(d.Log, r)
	if code != codes.OK {
		return nil, status.Error(code, "device answered "+code.String())
	}
	return &gnmi.SetResponse{}, nil
}

// Capabilities answers with the configured models
func (d *Device) Capabilities(ctx context.Context, req *gnmi.CapabilityRequest) (*gnmi.CapabilityResponse, error) {
	d.mu.Lock()
	defer d.mu.Unlock()
	if d.CapErr != codes.OK {
		return nil, status.Error(d.CapErr, "capabilities failed")
	}
	return &gnmi.CapabilityResponse{SupportedModels: d.Models, GNMIVersion: "0.7.0"}, nil
}

// Get is answered empty
func (d *Device) Get(ctx context.Context, req *gnmi.GetRequest) (*gnmi.GetResponse, error) {
	return &gnmi.GetResponse{}, nil
}

// Restart empties the device (election id memory is lost too)
func (d *Device) Restart() {
	d.mu.Lock()
	defer d.mu.Unlock()
	d.Tree = map[string]string{}
	d.MaxElect = 0
}

// Leaves returns the sorted "path=value" leaves
func (d *Device) Leaves() []string {
	d.mu.Lock()
	defer d.mu.Unlock()
	res := make([]string, 0, len(d.Tree))
	for _, v := range d.Tree {
		res = append(res, v)
	}
	sort.Strings(res)
	return res
}

// LogCopy returns a copy of the request log
func (d *Device) LogCopy() []DevReq {
	d.mu.Lock()
	defer d.mu.Unlock()
	return append([]DevReq{}, d.Log...)
}

// SetTag labels the requests that follow
func (d *Device) SetTag(tag string) {
	d.mu.Lock()
	d.Tag = tag
	d.mu.Unlock()
}

// ------------------------------------------------------------------ connections

type connEntry struct {
	conn   sb.Conn
	dev    *Device
	srv    *grpc.Server
	cc     *grpc.ClientConn
	target string
}

// Conns is a fake sb.ConnManager whose connections are the repository's real client wrapper
// talking to Devices over in-process gRPC
type Conns struct {
	mu       sync.Mutex
	conns    map[sb.ConnID]*connEntry
	watchers []chan<- sb.Conn
	// Connectable decides whether Connect(target) yields a connection
	Connectable func(target string) *Device
	seq         int
	// OnEvent is called after a connection was added or removed
	OnEvent func(id sb.ConnID)
}

// NewConns creates an empty connection manager
func NewConns() *Conns {
	return &Conns{conns: map[sb.ConnID]*connEntry{}}
}

var _ sb.ConnManager = &Conns{}

// AddConn opens a connection named id to the device and announces it
func (m *Conns) AddConn(id string, target string, dev *Device) sb.Conn {
	lis := bufconn.Listen(1 << 20)
	srv := grpc.NewServer(grpc.UnaryInterceptor(func(ctx context.Context, req interface{}, info *grpc.UnaryServerInfo, handler grpc.UnaryHandler) (interface{}, error) {
		resp, err := handler(ctx, req)
		if info.FullMethod == "/gnmi.gNMI/Set" {
			dev.mu.Lock()
			if n := len(dev.Log); n > 0 && dev.Log[n-1].ConnID == "" {
				dev.Log[n-1].ConnID = id
			}
			dev.mu.Unlock()
		}
		return resp, err
	}))
	gnmi.RegisterGNMIServer(srv, dev)
	go func() { _ = srv.Serve(lis) }()
	ctx, cancel := context.WithTimeout(context.Background(), 5*time.Second)
	defer cancel()
	cc, err := grpc.DialContext(ctx, "bufnet", grpc.WithContextDialer(func(context.Context, string) (net.Conn, error) {
		return lis.Dial()
	}), grpc.WithTransportCredentials(insecure.NewCredentials()))
	if err != nil {
		panic(err)
	}
	gc, err := gclient.NewFromConn(ctx, cc, baseClient.Destination{Addrs: []string{"bufnet"}, Target: target, Timeout: 5 * time.Second})
	if err != nil {
		panic(err)
	}
	conn := sb.NewConnForVerif(sb.ConnID(id), topoapi.ID(target), gc)
	m.mu.Lock()
	m.conns[sb.ConnID(id)] = &connEntry{conn: conn, dev: dev, srv: srv, cc: cc, target: target}
	ws := append([]chan<- sb.Conn{}, m.watchers...)
	cb := m.OnEvent
	m.mu.Unlock()
	for _, w := range ws {
		w <- conn
	}
	if cb != nil {
		cb(sb.ConnID(id))
	}
	return conn
}

// RemoveConn closes and forgets a connection
func (m *Conns) RemoveConn(id string) {
	m.mu.Lock()
	e, ok := m.conns[sb.ConnID(id)]
	if ok {
		delete(m.conns, sb.ConnID(id))
	}
	ws := append([]chan<- sb.Conn{}, m.watchers...)
	cb := m.OnEvent
	m.mu.Unlock()
	if !ok {
		return
	}
	e.srv.Stop()
	_ = e.cc.Close()
	for _, w := range ws {
		w <- e.conn
	}
	if cb != nil {
		cb(sb.ConnID(id))
	}
}

// Get returns a connection by id
func (m *Conns) Get(ctx context.Context, connID sb.ConnID) (sb.Conn, bool) {
	m.mu.Lock()
	defer m.mu.Unlock()
	e, ok := m.conns[connID]
	if !ok {
		return nil, false
	}
	return e.conn, true
}

// GetByTarget returns some connection to the target
func (m *Conns) GetByTarget(ctx context.Context, targetID topoapi.ID) (sb.Client, error) {
	m.mu.Lock()
	defer m.mu.Unlock()
	ids := make([]string, 0)
	for id, e := range m.conns {
		if e.target == string(targetID) {
			ids = append(ids, string(id))
		}
	}
	if len(ids) == 0 {
		return nil, fmt.Errorf("no connection to %s", targetID)
	}
	sort.Strings(ids)
	return m.conns[sb.ConnID(ids[0])].conn, nil
}

// Connect opens a connection if the target is connectable and has none
func (m *Conns) Connect(ctx context.Context, target *topoapi.Object) error {
	m.mu.Lock()
	for _, e := range m.conns {
		if e.target == string(target.ID) {
			m.mu.Unlock()
			return fmt.Errorf("already connected")
		}
	}
	f := m.Connectable
	m.seq++
	id := fmt.Sprintf("conn-%s-%d", target.ID, m.seq)
	m.mu.Unlock()
	if f == nil {
		return nil
	}
	if dev := f(string(target.ID)); dev != nil {
		m.AddConn(id, string(target.ID), dev)
	}
	return nil
}

// Disconnect drops every connection to the target
func (m *Conns) Disconnect(ctx context.Context, targetID topoapi.ID) error {
	m.mu.Lock()
	ids := make([]string, 0)
	for id, e := range m.conns {
		if e.target == string(targetID) {
			ids = append(ids, string(id))
		}
	}
	m.mu.Unlock()
	for _, id := range ids {
		m.RemoveConn(id)
	}
	return nil
}

// Watch registers a watcher; existing connections are replayed
func (m *Conns) Watch(ctx context.Context, ch chan<- sb.Conn) error {
	m.mu.Lock()
	cur := make([]sb.Conn, 0)
	for _, e := range m.conns {
		cur = append(cur, e.conn)
	}
	m.watchers = append(m.watchers, ch)
	m.mu.Unlock()
	go func() {
		for _, c := range cur {
			ch <- c
		}
	}()
	return nil
}

// IDs lists the live connection ids, sorted, with their targets
func (m *Conns) IDs() [][2]string {
	m.mu.Lock()
	defer m.mu.Unlock()
	res := make([][2]string, 0)
	for id, e := range m.conns {
		res = append(res, [2]string{string(id), e.target})
	}
	sort.Slice(res, func(i, j int) bool { return res[i][0] < res[j][0] })
	return res
}

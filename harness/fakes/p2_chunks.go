package fakes

import (
	"crypto/sha256"
	"encoding/hex"
)

// ChunkStreams returns, for every validation stream seen so far, the sizes of its chunks in order
// and the SHA-256 of their concatenation (the complete document the plugin judged).
func (p *PluginClient) ChunkStreams() (sizes [][]int, shas []string) {
	p.mu.Lock()
	defer p.mu.Unlock()
	for _, stream := range p.Docs {
		ss := make([]int, 0, len(stream))
		h := sha256.New()
		for _, c := range stream {
			ss = append(ss, len(c))
			h.Write(c)
		}
		sizes = append(sizes, ss)
		shas = append(shas, hex.EncodeToString(h.Sum(nil))[:16])
	}
	return sizes, shas
}

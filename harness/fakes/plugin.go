package fakes

import (
	"context"
	"sync"

	adminapi "github.com/onosproject/onos-api/go/onos/config/admin"
	configapi "github.com/onosproject/onos-api/go/onos/config/v2"
	"github.com/onosproject/onos-config/pkg/pluginregistry"
	"github.com/openconfig/gnmi/proto/gnmi"
	"google.golang.org/grpc"
	"google.golang.org/grpc/metadata"
)

// PluginClient is a fake api.ModelPluginServiceClient; it is plugged into the repository's real
// plugin registry (NewClientFn), so GetPlugin, Validate (chunking) etc. are the real code.
type PluginClient struct {
	mu      sync.Mutex
	Name    string
	Version string
	RW      []*adminapi.ReadWritePath
	Models  []*gnmi.ModelData
	// Verdict decides each validation from the complete document; nil accepts everything
	Verdict func(doc []byte) (bool, string)
	// PathValues answers GetPathValues
	PathValues func(prefix string, json []byte) ([]*configapi.PathValue, error)
	// Docs records the chunks of every validation stream
	Docs [][][]byte
	// PVCalls records GetPathValues calls (prefix, json)
	PVCalls [][2]string
}

var _ adminapi.ModelPluginServiceClient = &PluginClient{}

// GetModelInfo returns the model info
func (p *PluginClient) GetModelInfo(ctx context.Context, in *adminapi.ModelInfoRequest, opts ...grpc.CallOption) (*adminapi.ModelInfoResponse, error) {
	return &adminapi.ModelInfoResponse{ModelInfo: &adminapi.ModelInfo{
		Name: p.Name, Version: p.Version, ReadWritePath: p.RW, ModelData: p.Models,
	}}, nil
}

// ValidateConfig validates a complete document
func (p *PluginClient) ValidateConfig(ctx context.Context, in *adminapi.ValidateConfigRequest, opts ...grpc.CallOption) (*adminapi.ValidateConfigResponse, error) {
	p.mu.Lock()
	p.Docs = append(p.Docs, [][]byte{append([]byte{}, in.Json...)})
	v := p.Verdict
	p.mu.Unlock()
	ok, msg := true, ""
	if v != nil {
		ok, msg = v(in.Json)
	}
	return &adminapi.ValidateConfigResponse{Valid: ok, Message: msg}, nil
}

type chunkStream struct {
	p      *PluginClient
	ctx    context.Context
	chunks [][]byte
}

func (s *chunkStream) Send(c *adminapi.ValidateConfigRequestChunk) error {
	s.chunks = append(s.chunks, append([]byte{}, c.Json...))
	return nil
}

func (s *chunkStream) CloseAndRecv() (*adminapi.ValidateConfigResponse, error) {
	doc := []byte{}
	for _, c := range s.chunks {
		doc = append(doc, c...)
	}
	s.p.mu.Lock()
	s.p.Docs = append(s.p.Docs, s.chunks)
	v := s.p.Verdict
	s.p.mu.Unlock()
	ok, msg := true, ""
	if v != nil {
		ok, msg = v(doc)
	}
	return &adminapi.ValidateConfigResponse{Valid: ok, Message: msg}, nil
}
func (s *chunkStream) Header() (metadata.MD, error) { return nil, nil }
func (s *chunkStream) Trailer() metadata.MD         { return nil }
func (s *chunkStream) CloseSend() error             { return nil }
func (s *chunkStream) Context() context.Context     { return s.ctx }
func (s *chunkStream) SendMsg(m interface{}) error  { return nil }
func (s *chunkStream) RecvMsg(m interface{}) error  { return nil }

// ValidateConfigChunked opens a validation stream
func (p *PluginClient) ValidateConfigChunked(ctx context.Context, opts ...grpc.CallOption) (adminapi.ModelPluginService_ValidateConfigChunkedClient, error) {
	return &chunkStream{p: p, ctx: ctx}, nil
}

// GetPathValues flattens a JSON change
func (p *PluginClient) GetPathValues(ctx context.Context, in *adminapi.PathValuesRequest, opts ...grpc.CallOption) (*adminapi.PathValuesResponse, error) {
	p.mu.Lock()
	p.PVCalls = append(p.PVCalls, [2]string{in.PathPrefix, string(in.Json)})
	f := p.PathValues
	p.mu.Unlock()
	if f == nil {
		return &adminapi.PathValuesResponse{}, nil
	}
	pvs, err := f(in.PathPrefix, in.Json)
	if err != nil {
		return nil, err
	}
	return &adminapi.PathValuesResponse{PathValues: pvs}, nil
}

// GetValueSelection answers with an empty selection
func (p *PluginClient) GetValueSelection(ctx context.Context, in *adminapi.ValueSelectionRequest, opts ...grpc.CallOption) (*adminapi.ValueSelectionResponse, error) {
	return &adminapi.ValueSelectionResponse{Selection: []string{"sel:" + in.SelectionPath}}, nil
}

// GetValueSelectionChunked is not used by the repository
func (p *PluginClient) GetValueSelectionChunked(ctx context.Context, opts ...grpc.CallOption) (adminapi.ModelPluginService_GetValueSelectionChunkedClient, error) {
	return nil, nil
}

// LastDoc returns the concatenated chunks of the most recent validation, or nil
func (p *PluginClient) LastDoc() []byte {
	p.mu.Lock()
	defer p.mu.Unlock()
	if len(p.Docs) == 0 {
		return nil
	}
	doc := []byte{}
	for _, c := range p.Docs[len(p.Docs)-1] {
		doc = append(doc, c...)
	}
	return doc
}

// NumDocs returns the number of validations seen
func (p *PluginClient) NumDocs() int {
	p.mu.Lock()
	defer p.mu.Unlock()
	return len(p.Docs)
}

// NewRegistry builds the repository's real plugin registry over the given fake clients
// (endpoint name = index in the list)
func NewRegistry(clients ...*PluginClient) pluginregistry.PluginRegistry {
	eps := make([]string, len(clients))
	byEp := map[string]*PluginClient{}
	for i, c := range clients {
		eps[i] = c.Name + "-" + c.Version + "@fake"
		byEp[eps[i]] = c
	}
	reg := pluginregistry.NewPluginRegistry(eps...)
	reg.NewClientFn(func(endpoint string) (adminapi.ModelPluginServiceClient, error) {
		return byEp[endpoint], nil
	})
	reg.Start()
	return reg
}

// RWPath is a convenience constructor for a read-write model path
func RWPath(path string, vt configapi.ValueType, isKey bool, attr string, typeOpts ...uint64) *adminapi.ReadWritePath {
	return &adminapi.ReadWritePath{Path: path, ValueType: vt, IsAKey: isKey, AttrName: attr, TypeOpts: typeOpts}
}

// Package fakes holds the in-memory stand-ins for the services onos-config talks to
// (topology service, device connections, model plugins).  Everything else the harness
// runs is the repository's own code.
package fakes

import (
	"context"
	"sort"
	"sync"

	topoapi "github.com/onosproject/onos-api/go/onos/topo"
	"github.com/onosproject/onos-config/pkg/store/topo"
	"github.com/onosproject/onos-lib-go/pkg/errors"
)

// Topo is an in-memory topo.Store
type Topo struct {
	mu       sync.Mutex
	objs     map[topoapi.ID]*topoapi.Object
	rev      uint64
	watchers []*topoWatcher
	// Writes counts Create/Update/Delete calls that changed something
	Writes int
	// OnWrite, when set, is called (outside the lock) after every successful write
	OnWrite func(ev topoapi.Event)
	// OnList, when set, is called (outside the lock) at the start of every List call; it may block
	OnList func()
}

type topoWatcher struct {
	ch     chan<- topoapi.Event
	queue  chan topoapi.Event
	ctx    context.Context
	closed bool
}

// NewTopo returns an empty topology store
func NewTopo() *Topo {
	return &Topo{objs: make(map[topoapi.ID]*topoapi.Object)}
}

var _ topo.Store = &Topo{}

func cloneObj(o *topoapi.Object) *topoapi.Object {
	b, err := o.Marshal()
	if err != nil {
		panic(err)
	}
	c := &topoapi.Object{}
	if err := c.Unmarshal(b); err != nil {
		panic(err)
	}
	return c
}

func (t *Topo) publish(ev topoapi.Event) {
	for _, w := range t.watchers {
		if !w.closed {
			select {
			case w.queue <- ev:
			default:
				// queue sized generously; a full queue means a stuck consumer - drop rather than deadlock
			}
		}
	}
}

// Create creates a topology object
func (t *Topo) Create(ctx context.Context, object *topoapi.Object) error {
	t.mu.Lock()
	if _, ok := t.objs[object.ID]; ok {
		t.mu.Unlock()
		return errors.NewAlreadyExists("object %s already exists", object.ID)
	}
	t.rev++
	object.Revision = topoapi.Revision(t.rev)
	c := cloneObj(object)
	t.objs[object.ID] = c
	t.Writes++
	ev := topoapi.Event{Type: topoapi.EventType_ADDED, Object: *cloneObj(c)}
	t.publish(ev)
	cb := t.OnWrite
	t.mu.Unlock()
	if cb != nil {
		cb(ev)
	}
	return nil
}

// Update updates a topology object
func (t *Topo) Update(ctx context.Context, object *topoapi.Object) error {
	t.mu.Lock()
	old, ok := t.objs[object.ID]
	if !ok {
		t.mu.Unlock()
		return errors.NewNotFound("object %s not found", object.ID)
	}
	if object.Revision != 0 && object.Revision != old.Revision {
		t.mu.Unlock()
		return errors.NewConflict("object %s revision mismatch", object.ID)
	}
	t.rev++
	object.Revision = topoapi.Revision(t.rev)
	c := cloneObj(object)
	t.objs[object.ID] = c
	t.Writes++
	ev := topoapi.Event{Type: topoapi.EventType_UPDATED, Object: *cloneObj(c)}
	t.publish(ev)
	cb := t.OnWrite
	t.mu.Unlock()
	if cb != nil {
		cb(ev)
	}
	return nil
}

// Get gets a topology object
func (t *Topo) Get(ctx context.Context, id topoapi.ID) (*topoapi.Object, error) {
	t.mu.Lock()
	defer t.mu.Unlock()
	o, ok := t.objs[id]
	if !ok {
		return nil, errors.NewNotFound("object %s not found", id)
	}
	return cloneObj(o), nil
}

// List lists topology objects matching the filters the repository uses
func (t *Topo) List(ctx context.Context, filters *topoapi.Filters) ([]topoapi.Object, error) {
	t.mu.Lock()
	hook := t.OnList
	t.mu.Unlock()
	if hook != nil {
		hook()
	}
	t.mu.Lock()
	defer t.mu.Unlock()
	ids := make([]string, 0, len(t.objs))
	for id := range t.objs {
		ids = append(ids, string(id))
	}
	sort.Strings(ids)
	res := make([]topoapi.Object, 0)
	for _, id := range ids {
		o := t.objs[topoapi.ID(id)]
		if filters != nil {
			if len(filters.ObjectTypes) > 0 {
				ok := false
				for _, ot := range filters.ObjectTypes {
					if ot == o.Type {
						ok = true
					}
				}
				if !ok {
					continue
				}
			}
			if len(filters.WithAspects) > 0 {
				ok := true
				for _, a := range filters.WithAspects {
					if o.Aspects == nil || o.Aspects[a] == nil {
						ok = false
					}
				}
				if !ok {
					continue
				}
			}
			if rf := filters.RelationFilter; rf != nil {
				rel := o.GetRelation()
				if rel == nil {
					continue
				}
				if rf.RelationKind != "" && string(rel.KindID) != rf.RelationKind {
					continue
				}
				if rf.SrcId != "" && string(rel.SrcEntityID) != rf.SrcId {
					continue
				}
			}
		}
		res = append(res, *cloneObj(o))
	}
	return res, nil
}

// Delete deletes a topology object
func (t *Topo) Delete(ctx context.Context, object *topoapi.Object) error {
	t.mu.Lock()
	old, ok := t.objs[object.ID]
	if !ok {
		t.mu.Unlock()
		return errors.NewNotFound("object %s not found", object.ID)
	}
	delete(t.objs, object.ID)
	t.Writes++
	ev := topoapi.Event{Type: topoapi.EventType_REMOVED, Object: *cloneObj(old)}
	t.publish(ev)
	cb := t.OnWrite
	t.mu.Unlock()
	if cb != nil {
		cb(ev)
	}
	return nil
}

// Watch streams the existing objects (type NONE) and then every change
func (t *Topo) Watch(ctx context.Context, ch chan<- topoapi.Event, filters *topoapi.Filters) error {
	t.mu.Lock()
	w := &topoWatcher{ch: ch, queue: make(chan topoapi.Event, 100000), ctx: ctx}
	ids := make([]string, 0, len(t.objs))
	for id := range t.objs {
		ids = append(ids, string(id))
	}
	sort.Strings(ids)
	for _, id := range ids {
		w.queue <- topoapi.Event{Type: topoapi.EventType_NONE, Object: *cloneObj(t.objs[topoapi.ID(id)])}
	}
	t.watchers = append(t.watchers, w)
	t.mu.Unlock()
	go func() {
		defer close(ch)
		for {
			select {
			case <-ctx.Done():
				t.mu.Lock()
				w.closed = true
				t.mu.Unlock()
				return
			case ev := <-w.queue:
				select {
				case ch <- ev:
				case <-ctx.Done():
					t.mu.Lock()
					w.closed = true
					t.mu.Unlock()
					return
				}
			}
		}
	}()
	return nil
}

// AddTarget creates a configurable target entity
func (t *Topo) AddTarget(id string, targetType string, targetVersion string, persistent bool, validateCaps bool) {
	entity := &topoapi.Object{
		ID:   topoapi.ID(id),
		Type: topoapi.Object_ENTITY,
		Obj:  &topoapi.Object_Entity{Entity: &topoapi.Entity{}},
	}
	_ = entity.SetAspect(&topoapi.Configurable{
		Type:                 targetType,
		Address:              "",
		Target:               id,
		Version:              targetVersion,
		Persistent:           persistent,
		ValidateCapabilities: validateCaps,
	})
	if err := t.Create(context.Background(), entity); err != nil {
		panic(err)
	}
}

// RemoveObject removes an object by id (no error when absent)
func (t *Topo) RemoveObject(id string) {
	_ = t.Delete(context.Background(), &topoapi.Object{ID: topoapi.ID(id)})
}

// AddRelation creates a CONTROLS relation id: src -> tgt
func (t *Topo) AddRelation(id, src, tgt string) {
	relation := &topoapi.Object{
		ID:   topoapi.ID(id),
		Type: topoapi.Object_RELATION,
		Obj: &topoapi.Object_Relation{Relation: &topoapi.Relation{
			KindID: topoapi.CONTROLS, SrcEntityID: topoapi.ID(src), TgtEntityID: topoapi.ID(tgt)}},
	}
	if err := t.Create(context.Background(), relation); err != nil {
		panic(err)
	}
}

// Relations lists the relation objects sorted by id: (id, src, tgt)
func (t *Topo) Relations() [][3]string {
	t.mu.Lock()
	defer t.mu.Unlock()
	res := make([][3]string, 0)
	for id, o := range t.objs {
		if r := o.GetRelation(); r != nil {
			res = append(res, [3]string{string(id), string(r.SrcEntityID), string(r.TgtEntityID)})
		}
	}
	sort.Slice(res, func(i, j int) bool { return res[i][0] < res[j][0] })
	return res
}

// Has tells whether an object exists
func (t *Topo) Has(id string) bool {
	t.mu.Lock()
	defer t.mu.Unlock()
	_, ok := t.objs[topoapi.ID(id)]
	return ok
}

// SetOnList installs (or removes) the hook List calls at its start
func (t *Topo) SetOnList(f func()) {
	t.mu.Lock()
	t.OnList = f
	t.mu.Unlock()
}

// C19: recording fakes for the Subscribe handler - a ConnManager whose per-target clients record
// the queries and polls they are handed, and a northbound GNMI_SubscribeServer stream that feeds
// a scripted message sequence (through the protobuf wire format, like a real gRPC server) and
// records what is sent to the subscriber.  Single goroutine: southbound device messages of the
// script are pushed through the installed ProtoHandlers from inside Recv().
package fakes

import (
	"context"
	"errors"
	"io"

	topoapi "github.com/onosproject/onos-api/go/onos/topo"
	sb "github.com/onosproject/onos-config/pkg/southbound/gnmi"
	baseClient "github.com/openconfig/gnmi/client"
	"github.com/openconfig/gnmi/proto/gnmi"
	"google.golang.org/grpc/metadata"
	"google.golang.org/protobuf/proto"
)

// C19Event is one thing observed during a stream run, in global order
type C19Event struct {
	Kind    byte   // 's' query handed to client, 'p' poll on client, 'r' response sent on the NB stream, 'e' handler refused, 'x' anomaly
	Target  string // client owning the event / target whose handler was running
	QTarget string // 's': Query.Target
	Flags   string // 's': "ok" when NotificationHandler == nil && ProtoHandler != nil && SubReq != nil
	Req     *gnmi.SubscribeRequest // 's': deep copy (taken at call time) of Query.SubReq
	Payload []byte // 'r': deterministic encoding of the message passed to stream.Send
	Note    string
}

// C19Log collects the events of one run
type C19Log struct {
	Events  []C19Event
	Pushing string // target whose handler is being invoked (attribution of Sends)
	Lookups []string
}

// C19Marshal is the canonical encoding used everywhere in the C19 harness
func C19Marshal(m proto.Message) []byte {
	b, err := proto.MarshalOptions{Deterministic: true}.Marshal(m)
	if err != nil {
		panic(err)
	}
	return b
}

// C19Client is the recording sb.Client of one target
type C19Client struct {
	sb.Client // nil: any other method panics (Subscribe code must not call them)
	Target    string
	Log       *C19Log
	Handler   baseClient.ProtoHandler
}

// Subscribe records the query
func (c *C19Client) Subscribe(ctx context.Context, q baseClient.Query) error {
	ev := C19Event{Kind: 's', Target: c.Target, QTarget: q.Target, Flags: "ok"}
	if q.NotificationHandler != nil || q.ProtoHandler == nil || q.SubReq == nil {
		ev.Flags = "bad"
	}
	if q.SubReq != nil {
		ev.Req = proto.Clone(q.SubReq).(*gnmi.SubscribeRequest)
	}
	c.Log.Events = append(c.Log.Events, ev)
	c.Handler = q.ProtoHandler
	return nil
}

// Poll records the poll
func (c *C19Client) Poll() error {
	c.Log.Events = append(c.Log.Events, C19Event{Kind: 'p', Target: c.Target})
	return nil
}

// Close does nothing
func (c *C19Client) Close() error { return nil }

// C19Conns is a sb.ConnManager knowing a fixed set of targets
type C19Conns struct {
	Clients map[string]*C19Client
	Log     *C19Log
}

var _ sb.ConnManager = &C19Conns{}

// NewC19Conns creates clients for the known targets
func NewC19Conns(known []string, log *C19Log) *C19Conns {
	m := &C19Conns{Clients: map[string]*C19Client{}, Log: log}
	for _, t := range known {
		m.Clients[t] = &C19Client{Target: t, Log: log}
	}
	return m
}

// GetByTarget returns the recording client of a known target
func (m *C19Conns) GetByTarget(ctx context.Context, targetID topoapi.ID) (sb.Client, error) {
	m.Log.Lookups = append(m.Log.Lookups, string(targetID))
	if c, ok := m.Clients[string(targetID)]; ok {
		return c, nil
	}
	return nil, errors.New("gnmi client for target not found")
}

// Get is not used by Subscribe
func (m *C19Conns) Get(ctx context.Context, connID sb.ConnID) (sb.Conn, bool) { return nil, false }

// Connect is not used by Subscribe
func (m *C19Conns) Connect(ctx context.Context, target *topoapi.Object) error { return nil }

// Disconnect is not used by Subscribe
func (m *C19Conns) Disconnect(ctx context.Context, targetID topoapi.ID) error { return nil }

// Watch is not used by Subscribe
func (m *C19Conns) Watch(ctx context.Context, ch chan<- sb.Conn) error { return nil }

// C19Step is one scripted step: a northbound message ('S' subscribe, 'P' poll, 'N' neither - all
// given as the request object) or a southbound device message for a target ('D')
type C19Step struct {
	Kind   byte
	Req    *gnmi.SubscribeRequest
	Target string
	Dev    proto.Message
}

// C19Stream is the scripted northbound stream
type C19Stream struct {
	Ctx     context.Context
	Steps   []C19Step
	Pos     int
	EndEOF  bool
	Conns   *C19Conns
	Log     *C19Log
	Decoded []*gnmi.SubscribeRequest // what Recv handed out (separate copies), per message step
}

var _ gnmi.GNMI_SubscribeServer = &C19Stream{}

// Recv plays device steps, then returns the next message (decoded from its wire form)
func (s *C19Stream) Recv() (*gnmi.SubscribeRequest, error) {
	for s.Pos < len(s.Steps) {
		st := s.Steps[s.Pos]
		s.Pos++
		if st.Kind == 'D' {
			s.push(st.Target, st.Dev)
			continue
		}
		b := C19Marshal(st.Req)
		out := &gnmi.SubscribeRequest{}
		if err := proto.Unmarshal(b, out); err != nil {
			panic(err)
		}
		return out, nil
	}
	if s.EndEOF {
		return nil, io.EOF
	}
	return nil, errors.New("transport is closing")
}

func (s *C19Stream) push(target string, m proto.Message) {
	c, ok := s.Conns.Clients[target]
	if !ok || c.Handler == nil {
		return
	}
	s.Log.Pushing = target
	before := len(s.Log.Events)
	err := c.Handler(m)
	s.Log.Pushing = ""
	_, isResp := m.(*gnmi.SubscribeResponse)
	sent := len(s.Log.Events) - before
	switch {
	case isResp && err != nil:
		s.Log.Events = append(s.Log.Events, C19Event{Kind: 'x', Target: target, Note: "handler refused a SubscribeResponse"})
	case !isResp && err == nil:
		s.Log.Events = append(s.Log.Events, C19Event{Kind: 'x', Target: target, Note: "handler accepted a foreign message"})
	case !isResp && sent == 0:
		s.Log.Events = append(s.Log.Events, C19Event{Kind: 'e', Target: target})
	}
}

// Send records the response
func (s *C19Stream) Send(r *gnmi.SubscribeResponse) error {
	s.Log.Events = append(s.Log.Events, C19Event{Kind: 'r', Target: s.Log.Pushing, Payload: C19Marshal(r)})
	return nil
}

// Context returns the stream context
func (s *C19Stream) Context() context.Context { return s.Ctx }

// SetHeader is unused
func (s *C19Stream) SetHeader(metadata.MD) error { return nil }

// SendHeader is unused
func (s *C19Stream) SendHeader(metadata.MD) error { return nil }

// SetTrailer is unused
func (s *C19Stream) SetTrailer(metadata.MD) {}

// SendMsg is unused
func (s *C19Stream) SendMsg(m interface{}) error { return errors.New("SendMsg not expected") }

// RecvMsg is unused
func (s *C19Stream) RecvMsg(m interface{}) error { return errors.New("RecvMsg not expected") }

module verifharness

go 1.19

require (
	github.com/atomix/go-sdk v0.13.3
	github.com/gogo/protobuf v1.3.2
	github.com/golang/mock v1.6.0
	github.com/golang/protobuf v1.5.3
	github.com/google/uuid v1.3.0
	github.com/grpc-ecosystem/go-grpc-middleware v1.4.0
	github.com/onosproject/config-models/models/testdevice-1.0.x v0.5.29
	github.com/onosproject/onos-api/go v0.10.32
	github.com/onosproject/onos-lib-go v0.10.17
	github.com/openconfig/gnmi v0.9.1
	github.com/openconfig/goyang v1.4.0
	github.com/spf13/cobra v1.4.0
	github.com/stretchr/testify v1.8.2
	golang.org/x/net v0.8.0
	google.golang.org/grpc v1.54.0
	google.golang.org/protobuf v1.28.1
	gopkg.in/yaml.v2 v2.4.0
	gotest.tools v2.2.0+incompatible

)

require (
	github.com/Shopify/sarama v1.31.1 // indirect
	github.com/atomix/atomix/api v1.1.0 // indirect
	github.com/atomix/atomix/protocols/rsm v1.1.0 // indirect
	github.com/atomix/atomix/runtime v1.1.2 // indirect
	github.com/atomix/atomix/sidecar v0.4.4 // indirect
	github.com/bits-and-blooms/bitset v1.3.1 // indirect
	github.com/bits-and-blooms/bloom/v3 v3.3.1 // indirect
	github.com/cenkalti/backoff v2.2.1+incompatible // indirect
	github.com/cenkalti/backoff/v4 v4.1.1 // indirect
	github.com/davecgh/go-spew v1.1.1 // indirect
	github.com/eapache/go-resiliency v1.2.0 // indirect
	github.com/eapache/go-xerial-snappy v0.0.0-20180814174437-776d5712da21 // indirect
	github.com/eapache/queue v1.1.0 // indirect
	github.com/ericchiang/oidc v0.0.0-20160908143337-11f62933e071 // indirect
	github.com/fsnotify/fsnotify v1.5.1 // indirect
	github.com/golang-jwt/jwt/v5 v5.0.0 // indirect
	github.com/golang/glog v1.0.0 // indirect
	github.com/golang/snappy v0.0.4 // indirect
	github.com/google/go-cmp v0.5.9 // indirect
	github.com/hashicorp/go-uuid v1.0.2 // indirect
	github.com/hashicorp/golang-lru/v2 v2.0.1 // indirect
	github.com/hashicorp/hcl v1.0.0 // indirect
	github.com/inconshreveable/mousetrap v1.0.0 // indirect
	github.com/jcmturner/aescts/v2 v2.0.0 // indirect
	github.com/jcmturner/dnsutils/v2 v2.0.0 // indirect
	github.com/jcmturner/gofork v1.0.0 // indirect
	github.com/jcmturner/gokrb5/v8 v8.4.2 // indirect
	github.com/jcmturner/rpc/v2 v2.0.3 // indirect
	github.com/klauspost/compress v1.14.2 // indirect
	github.com/kylelemons/godebug v1.1.0 // indirect
	github.com/magiconair/properties v1.8.6 // indirect
	github.com/mitchellh/go-homedir v1.1.0 // indirect
	github.com/mitchellh/mapstructure v1.4.3 // indirect
	github.com/openconfig/grpctunnel v0.0.0-20220819142823-6f5422b8ca70 // indirect
	github.com/openconfig/ygot v0.24.4 // indirect
	github.com/pelletier/go-toml v1.9.4 // indirect
	github.com/pelletier/go-toml/v2 v2.0.0-beta.8 // indirect
	github.com/pierrec/lz4 v2.6.1+incompatible // indirect
	github.com/pkg/errors v0.9.1 // indirect
	github.com/pmezard/go-difflib v1.0.0 // indirect
	github.com/pquerna/cachecontrol v0.0.0-20180517163645-1555304b9b35 // indirect
	github.com/rcrowley/go-metrics v0.0.0-20201227073835-cf1acfcdf475 // indirect
	github.com/spf13/afero v1.8.2 // indirect
	github.com/spf13/cast v1.4.1 // indirect
	github.com/spf13/jwalterweatherman v1.1.0 // indirect
	github.com/spf13/pflag v1.0.5 // indirect
	github.com/spf13/viper v1.11.0 // indirect
	github.com/subosito/gotenv v1.2.0 // indirect
	go.uber.org/atomic v1.7.0 // indirect
	go.uber.org/multierr v1.6.0 // indirect
	go.uber.org/zap v1.24.0 // indirect
	golang.org/x/crypto v0.0.0-20220411220226-7b82a4e95df4 // indirect
	golang.org/x/oauth2 v0.4.0 // indirect
	golang.org/x/sys v0.6.0 // indirect
	golang.org/x/text v0.8.0 // indirect
	google.golang.org/appengine v1.6.7 // indirect
	google.golang.org/genproto v0.0.0-20230110181048-76db0878b65f // indirect
	gopkg.in/ini.v1 v1.66.4 // indirect
	gopkg.in/square/go-jose.v1 v1.1.2 // indirect
	gopkg.in/square/go-jose.v2 v2.6.0 // indirect
	gopkg.in/yaml.v3 v3.0.1 // indirect
)

require github.com/onosproject/onos-config v0.0.0

replace github.com/onosproject/onos-config => /repo

"""Shared machinery for the /verif checks (python3, stdlib only).

Every property check is a module props/<ID>.py exposing run(ctx) -> None which
drives: Coq build + property theorem re-check, harness build against /repo's
working tree, correspondence run, monitors, evidence.  See DESIGN.md section 2.
"""
import hashlib
import json
import os
import re
import shutil
import subprocess
import sys
import time

ROOT = os.path.dirname(os.path.dirname(os.path.abspath(__file__)))
REPO = os.environ.get("VERIF_REPO", "/repo")
# evidence/ and replays/ describe /repo; a run against another checkout (development aid, seeded changes) writes elsewhere
OUT = ROOT if os.path.realpath(REPO) == "/repo" else os.path.join(ROOT, ".work", "alt", os.path.basename(os.path.normpath(REPO)))
WORK = os.path.join(ROOT, ".work")
COQ = os.path.join(ROOT, "coq")
BIN = os.path.join(WORK, "bin")
NPROC = str(os.cpu_count() or 4)

GOENV = {
    "GOFLAGS": "-mod=mod",
    "GOPROXY": "off",
    "GOSUMDB": "off",
    "GOTOOLCHAIN": "local",
    "CGO_ENABLED": "0",
    # the harness processes hold many in-memory stores; a soft limit keeps the Go heap near its live size instead of
    # twice that (several checks may run side by side on one machine)
    "GOMEMLIMIT": "3GiB",
}

FORBIDDEN = re.compile(
    r"\b(Admitted|admit|Axiom|Axioms|Parameter|Parameters|Conjecture|Conjectures|Hypothesis|Variable|"
    r"Admit Obligations|bypass_check|native_compute)\b|Unset\s+Guard|Unset\s+Positivity|Unset\s+Universe|"
    r"-type-in-type|-impredicative-set"
)


class CheckError(Exception):
    """The check itself could not run (tooling failure) - not a violation."""


def sh(cmd, cwd=ROOT, timeout=1200, env=None, inp=None, check=False):
    e = dict(os.environ)
    e.update(GOENV)
    if env:
        e.update(env)
    t0 = time.time()
    try:
        p = subprocess.run(cmd, cwd=cwd, shell=isinstance(cmd, str), env=e, input=inp,
                           stdout=subprocess.PIPE, stderr=subprocess.STDOUT, timeout=timeout,
                           text=True, errors="replace")
        rc, out = p.returncode, p.stdout
    except subprocess.TimeoutExpired as ex:
        rc, out = 124, (ex.stdout or "") if isinstance(ex.stdout, str) else (ex.stdout or b"").decode("utf8", "replace")
        out += "\n[timeout after %ss]" % timeout
    if check and rc != 0:
        raise CheckError("command failed (%s): %s\n%s" % (rc, cmd, out[-4000:]))
    return rc, out, time.time() - t0


def sh2(cmd, cwd=ROOT, timeout=1200, env=None, inp=None):
    """like sh but keeps stdout and stderr apart; returns rc, stdout, stderr"""
    e = dict(os.environ)
    e.update(GOENV)
    if env:
        e.update(env)
    try:
        p = subprocess.run(cmd, cwd=cwd, shell=isinstance(cmd, str), env=e, input=inp,
                           stdout=subprocess.PIPE, stderr=subprocess.PIPE, timeout=timeout,
                           text=True, errors="replace")
        return p.returncode, p.stdout, p.stderr
    except subprocess.TimeoutExpired as ex:
        so = ex.stdout if isinstance(ex.stdout, str) else (ex.stdout or b"").decode("utf8", "replace")
        return 124, so or "", "[timeout after %ss]" % timeout


class Ctx:
    def __init__(self, prop, tier, seed, replay=None):
        self.prop = prop
        self.tier = tier
        self.seed = seed
        self.replay = replay
        self.t0 = time.time()
        self.work = os.path.join(WORK, prop) if OUT == ROOT else os.path.join(OUT, "work", prop)
        os.makedirs(self.work, exist_ok=True)
        os.makedirs(BIN, exist_ok=True)
        self.violations = []      # list of dict(kind, detail, replay)
        self.known_hits = {}      # finding id -> detail
        self.notes = []
        self.coverage = {}
        self.assumptions = []
        self.theorems = []
        self.trusted = []

    # ---------------------------------------------------------------- Coq --
    def coq_prepare(self):
        """translator + coq_makefile; cheap and idempotent"""
        translate_tables()
        mk = os.path.join(COQ, "Makefile")
        cp = os.path.join(COQ, "_CoqProject")
        regen_coqproject()
        if not os.path.exists(mk) or os.path.getmtime(mk) < os.path.getmtime(cp):
            sh("coq_makefile -f _CoqProject -o Makefile", cwd=COQ, check=True)

    def coq_make(self, targets, timeout=1500):
        """full .vo build of the given targets (paths relative to coq/); one build at a time in coq/
        (several checks may run concurrently)"""
        import fcntl
        os.makedirs(WORK, exist_ok=True)
        if not targets:
            return 0, ""   # never a bare `make`: that would build every file under coq/, whatever its state
        with open(os.path.join(WORK, "coq.lock"), "w") as lk:
            fcntl.flock(lk, fcntl.LOCK_EX)
            try:
                self.coq_prepare()
                rc, out, dt = sh(["timeout", str(timeout), "make", "-j", NPROC] + targets, cwd=COQ, timeout=timeout + 30)
            finally:
                fcntl.flock(lk, fcntl.LOCK_UN)
        return rc, out

    def coq_gate(self, files):
        bad = []
        for f in files:
            p = os.path.join(COQ, f)
            if not os.path.exists(p):
                continue
            txt = strip_coq_comments(open(p).read())
            for i, line in enumerate(txt.split("\n"), 1):
                m = FORBIDDEN.search(line)
                if m and not section_local(txt, m.group(0)):
                    bad.append("%s:%d: %s" % (f, i, line.strip()[:120]))
        return bad

    def coq_property_file(self):
        """re-compile Properties/<ID>.v from scratch and read its Print Assumptions output.

        returns (ok, theorems, assumptions, log)."""
        pf = "Properties/%s.v" % self.prop
        if not os.path.exists(os.path.join(COQ, pf)):
            return False, [], [], "coq/%s does not exist" % pf
        deps = coq_deps(pf)
        rc, out = self.coq_make([d[:-2] + ".vo" for d in deps if d != pf])
        if rc != 0:
            return False, [], [], out
        bad = self.coq_gate(deps)
        if bad:
            return False, [], [], "forbidden constructs:\n" + "\n".join(bad)
        vo = os.path.join(COQ, pf[:-2] + ".vo")
        if os.path.exists(vo):
            os.remove(vo)
        rc, out = self.coq_make([pf[:-2] + ".vo"])
        if rc != 0:
            return False, [], [], out
        src = strip_coq_comments(open(os.path.join(COQ, pf)).read())
        thms = re.findall(r"^\s*(?:Theorem|Corollary)\s+([A-Za-z0-9_']+)", src, re.M)
        assum = parse_assumptions(out)
        self.theorems = thms
        self.assumptions = assum
        self.closure = deps
        return True, thms, assum, out

    def closure_stats(self):
        """count Qed-closed statements in the closure of the property file (measured)"""
        n = 0
        for f in getattr(self, "closure", []):
            p = os.path.join(COQ, f)
            if os.path.exists(p):
                n += len(re.findall(r"^\s*(?:Lemma|Theorem|Corollary|Fact|Remark|Proposition|Example)\b",
                                    strip_coq_comments(open(p).read()), re.M))
        return n

    # ------------------------------------------------------------- OCaml --
    def build_mcheck(self, name, extract_v, driver_ml, extra_ml=()):
        """extract coq/Extract/<extract_v> into .work/ocaml/<name>/ and link with ocaml/<driver_ml>"""
        d = os.path.join(WORK, "ocaml", name)
        os.makedirs(d, exist_ok=True)
        rc, out = self.coq_make(["Extract/%s.vo" % extract_v[:-2]])
        if rc != 0:
            raise CheckError("extraction build failed:\n" + out[-3000:])
        import fcntl
        with open(os.path.join(WORK, "ocaml", name + ".lock"), "w") as lk:
            # several checks share one driver (the protocol properties): one build at a time, and the executable is
            # replaced atomically (another check may be running the previous one)
            fcntl.flock(lk, fcntl.LOCK_EX)
            return self._build_mcheck_locked(name, d, extract_v, driver_ml, extra_ml)

    def _build_mcheck_locked(self, name, d, extract_v, driver_ml, extra_ml):
        # the Extraction command writes into the cwd of coqc; re-run it there
        rc, out, _ = sh(["coqc", "-Q", COQ, "OC", "-w", "none", "-o", os.path.join(d, extract_v[:-2] + ".vo"),
                         os.path.join(COQ, "Extract", extract_v)], cwd=d, timeout=600)
        if rc != 0:
            raise CheckError("extraction failed:\n" + out[-3000:])
        srcs = []
        for f in list(extra_ml) + [driver_ml]:
            shutil.copy(os.path.join(ROOT, "ocaml", f), os.path.join(d, f))
            srcs.append(f)
        mls = sorted(f for f in os.listdir(d) if f.endswith(".ml") and f not in srcs)
        mlis = [f + "i" for f in mls if os.path.exists(os.path.join(d, f + "i"))]
        exe = os.path.join(BIN, name + "_mcheck")
        tmp = exe + ".new.%d" % os.getpid()
        rc, out, _ = sh(["ocamlfind", "ocamlopt", "-O2" if False else "-inline", "50", "-package", "str,unix",
                         "-linkpkg", "-w", "-a"] + mlis + mls + srcs + ["-o", tmp], cwd=d, timeout=600)
        if rc != 0:
            raise CheckError("ocaml build failed:\n" + out[-3000:])
        os.replace(tmp, exe)
        return exe

    # ---------------------------------------------------------------- Go --
    def build_harness(self, cmd):
        h = os.path.join(ROOT, "harness")
        src = os.path.join(REPO, "go.sum")
        dst = os.path.join(h, "go.sum")
        if not os.path.exists(dst) or open(src).read() != open(dst).read():
            shutil.copy(src, dst)
        exe = os.path.join(BIN, "vh_" + cmd)
        extra = []
        if os.path.realpath(REPO) != "/repo":
            # development aid: build against another checkout (VERIF_REPO) through an alternative go.mod
            alt = os.path.join(self.work, "alt.mod")
            open(alt, "w").write(open(os.path.join(h, "go.mod")).read().replace("=> /repo", "=> " + os.path.realpath(REPO)))
            shutil.copy(src, os.path.join(self.work, "alt.sum"))
            extra = ["-modfile=" + alt]
            exe = os.path.join(self.work, "vh_" + cmd)
        rc, out, dt = sh(["go", "build", "-tags", "verif"] + extra + ["-o", exe, "./cmd/" + cmd], cwd=h, timeout=1500)
        if rc != 0:
            return None, out
        return exe, out

    # ---------------------------------------------------------- reporting --
    def violation(self, detail, replay_obj, no_input=False):
        os.makedirs(os.path.join(OUT, "replays"), exist_ok=True)
        path = os.path.join(OUT, "replays", "%s-%s-%d.json" % (self.prop, self.seed, len(self.violations)))
        with open(path, "w") as f:
            json.dump({"property": self.prop, "seed": self.seed, "tier": self.tier, "detail": detail,
                       "no_failing_input_found": no_input, "replay": replay_obj}, f, indent=1, default=str)
        self.violations.append({"detail": detail, "replay": path, "no_input": no_input})

    def finding(self, signature, detail, replay_obj):
        """a spec-level failure on the implementation: excused only by an open known finding"""
        kf = known_findings(self.prop)
        for k in kf:
            if k["status"] == "open" and k["signature"] == signature:
                self.known_hits.setdefault(k["id"], k["what"])
                return
        self.violation("%s: %s" % (signature, detail), replay_obj)

    def finish(self, level="proof"):
        wall = time.time() - self.t0
        cov = dict(self.coverage)
        cov.setdefault("trusted_base", self.trusted)
        ev = {
            "property_id": self.prop, "tier": self.tier, "seed": self.seed, "level": level,
            "coverage": cov, "assumptions": self.notes, "wall_s": round(wall, 2),
            "violations": len(self.violations),
        }
        os.makedirs(os.path.join(OUT, "evidence"), exist_ok=True)
        with open(os.path.join(OUT, "evidence", self.prop + ".json"), "w") as f:
            json.dump(ev, f, indent=1, default=str)
            f.write("\n")
        for fid, what in sorted(self.known_hits.items()):
            print("KNOWN-FINDING: property=%s %s %s" % (self.prop, fid, what))
        for v in self.violations:
            print("VIOLATION property=%s replay=%s%s" % (self.prop, v["replay"],
                                                         " no-failing-input-found" if v["no_input"] else ""))
            print("  " + v["detail"][:600])
        print("%s %s tier=%s seed=%s wall=%.1fs violations=%d known=%d" % (
            "FAIL" if self.violations else "OK", self.prop, self.tier, self.seed, wall,
            len(self.violations), len(self.known_hits)))
        return 1 if self.violations else 0


# ------------------------------------------------------------------ helpers --
def strip_coq_comments(s):
    out = []
    depth = 0
    i = 0
    instr = False
    while i < len(s):
        if depth == 0 and s[i] == '"':
            instr = not instr
            out.append(s[i])
            i += 1
        elif not instr and s.startswith("(*", i):
            depth += 1
            i += 2
        elif not instr and depth > 0 and s.startswith("*)", i):
            depth -= 1
            i += 2
        else:
            if depth == 0:
                out.append(s[i])
            elif s[i] == "\n":
                out.append("\n")
            i += 1
    return "".join(out)


def section_local(txt, word):
    """Variable/Hypothesis are allowed only inside a Section; we forbid them outright
    except `Context`, so this always answers False (kept for clarity)."""
    return False


def parse_assumptions(out):
    """collect the blocks Coq prints for `Print Assumptions`"""
    res = []
    lines = out.split("\n")
    i = 0
    while i < len(lines):
        ln = lines[i]
        if "Closed under the global context" in ln:
            res.append("Closed under the global context")
        elif ln.startswith("Axioms:"):
            j = i + 1
            blk = []
            while j < len(lines) and (lines[j].startswith(" ") or re.match(r"^[A-Za-z_][\w.']*\s*:", lines[j])):
                if re.match(r"^[A-Za-z_][\w.']*\s*:", lines[j]) or re.match(r"^[A-Za-z_][\w.']*$", lines[j].strip()):
                    blk.append(lines[j].split(":")[0].strip())
                j += 1
            res.append("Axioms: " + ", ".join(blk))
            i = j - 1
        i += 1
    return res


_dep_cache = {}


def coq_deps(vfile):
    """transitive closure (within coq/) of the .v files a file requires, via coqdep"""
    if vfile in _dep_cache:
        return _dep_cache[vfile]
    regen_coqproject()
    rc, out, _ = sh("coqdep -f _CoqProject 2>/dev/null", cwd=COQ, timeout=120)
    graph = {}
    for ln in out.split("\n"):
        if ":" not in ln:
            continue
        lhs, rhs = ln.split(":", 1)
        tgt = [t for t in lhs.split() if t.endswith(".vo")]
        if not tgt:
            continue
        src = tgt[0][:-1]
        graph[src] = [d[:-1] for d in rhs.split() if d.endswith(".vo") and not d.startswith("/")]
    seen = []
    stack = [vfile]
    while stack:
        x = stack.pop()
        if x in seen:
            continue
        seen.append(x)
        stack.extend(graph.get(x, []))
    _dep_cache[vfile] = sorted(seen)
    return _dep_cache[vfile]


def regen_coqproject():
    """_CoqProject lists every .v under coq/ except cases/ (written only when the set changes)"""
    files = []
    for d, _, fs in os.walk(COQ):
        if "/cases" in d or "/." in d:
            continue
        for f in fs:
            if f.endswith(".v") and not f.startswith("."):
                files.append(os.path.relpath(os.path.join(d, f), COQ))
    txt = "-Q . OC\n-arg -w -arg -notation-overridden,-deprecated-hint-without-locality,-deprecated-instance-without-locality,-ambiguous-paths\n" + "\n".join(sorted(files)) + "\n"
    p = os.path.join(COQ, "_CoqProject")
    if not os.path.exists(p) or open(p).read() != txt:
        open(p, "w").write(txt)


def translate_tables():
    """tools/translate regenerates coq/Gen/*.v from /repo's Go sources (only rewritten when changed)"""
    tdir = os.path.join(ROOT, "tools", "translate")
    if not os.path.exists(os.path.join(tdir, "main.go")):
        return
    exe = os.path.join(BIN, "translate")
    os.makedirs(BIN, exist_ok=True)
    # checks of several properties may run side by side: private executable and output directory per process
    exe = exe + ".%d" % os.getpid()
    rc, out, _ = sh(["go", "build", "-o", exe, "."], cwd=tdir, timeout=600, env={"GOFLAGS": "-mod=mod"})
    if rc != 0:
        raise CheckError("translator build failed:\n" + out)
    gen = os.path.join(COQ, "Gen")
    tmp = os.path.join(WORK, "gen_tmp.%d" % os.getpid())
    shutil.rmtree(tmp, ignore_errors=True)
    os.makedirs(tmp)
    try:
        rc, out, _ = sh([exe, REPO, tmp], timeout=120)
        if rc != 0:
            raise CheckError("translator failed on /repo:\n" + out)
        os.makedirs(gen, exist_ok=True)
        for f in os.listdir(tmp):
            a, b = os.path.join(tmp, f), os.path.join(gen, f)
            if not os.path.exists(b) or open(a).read() != open(b).read():
                shutil.copy(a, b + ".new.%d" % os.getpid())
                os.replace(b + ".new.%d" % os.getpid(), b)
    finally:
        shutil.rmtree(tmp, ignore_errors=True)
        try:
            os.remove(exe)
        except OSError:
            pass


_kf = None


def known_findings(prop=None):
    """known_findings.jsonl (committed; never written at run time) + findings/*.jsonl (per-property files)"""
    global _kf
    if _kf is None:
        _kf = []
        files = [os.path.join(ROOT, "known_findings.jsonl")]
        fd = os.path.join(ROOT, "findings")
        if os.path.isdir(fd):
            files += [os.path.join(fd, f) for f in sorted(os.listdir(fd)) if f.endswith(".jsonl")]
        seen = set()
        for p in files:
            if not os.path.exists(p):
                continue
            for ln in open(p):
                ln = ln.strip()
                if ln and not ln.startswith("#"):
                    k = json.loads(ln)
                    if k.get("id") in seen:
                        continue
                    seen.add(k.get("id"))
                    _kf.append(k)
    return [k for k in _kf if prop is None or k["property"] == prop]


def hexs(b):
    if isinstance(b, str):
        b = b.encode("utf8")
    return b.hex() if b else "-"


def coq_bytes(b):
    """Coq literal (list N) for a byte string"""
    if isinstance(b, str):
        b = b.encode("utf8")
    return "[" + ";".join(str(x) for x in b) + "]"


def coq_eval(ctx, name, body, timeout=900):
    """write .work/<prop>/<name>.v with `body`, compile it with coqc against the built
    development and return (rc, output)."""
    d = os.path.join(ctx.work, "cases")
    os.makedirs(d, exist_ok=True)
    p = os.path.join(d, name + ".v")
    open(p, "w").write(body)
    rc, out, dt = sh(["timeout", str(timeout), "coqc", "-Q", COQ, "OC", "-w", "none", p], cwd=d, timeout=timeout + 30)
    return rc, out


def sha(s):
    return hashlib.sha1(s.encode("utf8", "replace")).hexdigest()[:12]


# ------------------------------------------------------------- standard flow --
STD_TRUSTED = [
    "Coq 8.16.1 kernel (coqc); vm_compute used in Examples/refutation witnesses and cases files; native_compute not used",
    "no axioms declared; Print Assumptions output of every property theorem recorded under 'print_assumptions'",
    "extraction: ExtrOcamlBasic only (bool, option, unit, list, prod, sumbool, sumor -> OCaml natives); nat/N/Z/positive stay extracted inductives; OCaml 4.13.1",
    "correspondence: ocaml/mlib.ml + per-property driver, Go harness (harness/, fakes for topo service, device, model plugin client), lib/vlib.py orchestration",
    "hand-written Gallina transcription of the Go functions named in the property's model file; tied to /repo on every run by differential execution of the real code",
]


def proof_step(ctx):
    """(re)build the property's closure and its theorem file; a failure is a broken obligation"""
    ok, thms, assum, log = ctx.coq_property_file()
    bad_ax = [a for a in assum if a.startswith("Axioms:")]
    ctx.coverage.update({
        "obligations": max(1, len(thms)) if ok else max(1, len(re.findall(r"^\s*(?:Theorem|Corollary)\s", strip_coq_comments(open(os.path.join(COQ, "Properties/%s.v" % ctx.prop)).read()), re.M))),
        "discharged": len(thms) if ok else 0,
        "theorems": thms,
        "closure_lemmas": ctx.closure_stats() if ok else 0,
        "closure_files": getattr(ctx, "closure", []),
        "print_assumptions": assum,
        "checker_cmd": "make -C coq -j%s Properties/%s.vo  (coq_makefile full .vo build, coqc 8.16.1; property file recompiled on every run)" % (NPROC, ctx.prop),
    })
    ctx.proof_ok = ok
    ctx.proof_log = log
    if ok and bad_ax:
        allowed = ("functional_extensionality", "proof_irrelevance", "classic", "JMeq_eq", "Eqdep.Eq_rect_eq",
                   "propositional_extensionality", "constructive_definite_description")
        for a in bad_ax:
            names = [x.strip() for x in a[len("Axioms:"):].split(",") if x.strip()]
            for nme in names:
                if not any(al in nme for al in allowed):
                    ctx.proof_ok = False
                    ctx.proof_log = "theorem depends on an axiom that is not a standard-library axiom: " + nme
    if ctx.proof_ok and ctx.tier == "thorough":
        coqchk_step(ctx)
    return ctx.proof_ok


def coqchk_step(ctx):
    """thorough tier: the independent checker re-checks the compiled property file and everything it depends on and lists
    the axioms of that closure; it must accept, with no axiom outside the standard library's and nothing assumed about
    guards / positivity / universes"""
    t0 = time.time()
    import fcntl
    with open(os.path.join(WORK, "coq.lock"), "w") as lk:
        fcntl.flock(lk, fcntl.LOCK_SH)
        rc, out, _ = sh(["coqchk", "-silent", "-o", "-Q", ".", "OC", "OC.Properties.%s" % ctx.prop], cwd=COQ, timeout=5400)
    summary = out[out.find("CONTEXT SUMMARY"):] if "CONTEXT SUMMARY" in out else out[-1500:]

    def section(title):
        m = re.search(r"\* " + re.escape(title) + r":(.*?)(?=\n\s*\n\* |\Z)", summary, re.S)
        if not m:
            return None
        txt = " ".join(m.group(1).split())
        return [] if txt in ("<none>", "") else [x for x in re.split(r"\s+", txt) if x]
    axioms = section("Axioms")
    tit = section("Constants/Inductives relying on type-in-type")
    unsafe = section("Constants/Inductives relying on unsafe (co)fixpoints")
    pos = section("Inductives whose positivity is assumed")
    allowed = ("functional_extensionality", "proof_irrelevance", "classic", "JMeq_eq", "Eq_rect_eq", "eq_rect_eq",
               "propositional_extensionality", "constructive_definite_description", "constructive_indefinite_description")
    foreign = [a for a in (axioms or []) if not any(al in a for al in allowed)]
    ok = rc == 0 and axioms is not None and not foreign and not tit and not unsafe and not pos
    ctx.coverage["coqchk"] = {"cmd": "coqchk -silent -o -Q coq OC OC.Properties.%s" % ctx.prop, "accepted": rc == 0,
                              "axioms_of_closure": axioms, "type_in_type": tit, "unsafe_fixpoints": unsafe,
                              "assumed_positivity": pos, "wall_s": round(time.time() - t0, 1)}
    try:
        # kept beside the evidence (which the next quick run rewrites): what the independent checker said last time
        os.makedirs(os.path.join(ROOT, "coqchk"), exist_ok=True)
        json.dump(dict(ctx.coverage["coqchk"], property=ctx.prop, checked_at=time.strftime("%Y-%m-%dT%H:%M:%SZ", time.gmtime())),
                  open(os.path.join(ROOT, "coqchk", ctx.prop + ".json"), "w"), indent=1)
    except Exception:
        pass
    if not ok:
        ctx.proof_ok = False
        ctx.proof_log = "coqchk does not accept the compiled closure of Properties/%s.v (rc=%s, foreign axioms %s):\n%s" % (
            ctx.prop, rc, foreign, summary[-1500:])


def run_pipeline(ctx, harness_exe, harness_args, mcheck_exe, timeout=3000, env=None, keep_lines=None):
    """harness | mcheck; returns dict(stats, mismatches, specviols, samples, nlines)"""
    lines_path = os.path.join(ctx.work, "lines.tsv")
    rc, so, se = sh2([harness_exe] + [str(a) for a in harness_args], timeout=timeout, env=env)
    if rc != 0:
        raise CheckError("harness %s failed rc=%s\n%s\n%s" % (harness_exe, rc, so[-2000:], se[-3000:]))
    open(lines_path, "w").write(so)
    rc, mo, me = sh2([mcheck_exe], inp=so, timeout=timeout)
    if rc != 0:
        raise CheckError("mcheck failed rc=%s\n%s\n%s" % (rc, mo[-2000:], me[-2000:]))
    return parse_mcheck(mo, so)


def parse_mcheck(mo, so=""):
    res = {"stats": {}, "mismatches": [], "specviols": [], "samples": [], "nlines": so.count("\n")}
    for ln in mo.split("\n"):
        f = ln.split("\t")
        if f[0] == "MISMATCH" and len(f) >= 3:
            res["mismatches"].append({"id": f[1], "detail": "\t".join(f[2:])})
        elif f[0] == "SPECVIOL" and len(f) >= 4:
            res["specviols"].append({"id": f[1], "signature": f[2], "detail": "\t".join(f[3:])})
        elif f[0] == "STAT" and len(f) == 3:
            res["stats"][f[1]] = int(f[2])
        elif f[0] == "SAMPLE":
            res["samples"].append("\t".join(f[1:]))
    return res


def find_line(so_path, case_id):
    try:
        for ln in open(so_path):
            f = ln.split("\t")
            if len(f) > 1 and f[1] == case_id:
                return ln.rstrip("\n")
    except OSError:
        pass
    return None


def judge(ctx, res, what):
    """turn pipeline results + proof status into violations / known findings"""
    lines_path = os.path.join(ctx.work, "lines.tsv")
    seen_sig = set()
    concrete = 0
    for v in res["specviols"]:
        key = v["signature"]
        kf = [k for k in known_findings(ctx.prop) if k["status"] == "open" and k["signature"] == key]
        if kf:
            ctx.known_hits.setdefault(kf[0]["id"], kf[0]["what"])
            continue
        concrete += 1
        if key in seen_sig:
            continue
        seen_sig.add(key)
        ctx.violation("property monitor %s failed on the implementation: %s" % (key, v["detail"]),
                      {"case": v["id"], "line": find_line(lines_path, v["id"]), "signature": key, "detail": v["detail"],
                       "how": "re-run ./check %s --seed %s; the line is the harness observation of the real code" % (ctx.prop, ctx.seed)})
    if res["mismatches"]:
        m = res["mismatches"][0]
        ctx.violation("correspondence %s no longer checks: %d disagreement(s) between the Coq model and the implementation, first: %s"
                      % (what, len(res["mismatches"]), m["detail"]),
                      {"broken": "correspondence " + what, "case": m["id"], "line": find_line(lines_path, m["id"]),
                       "all": res["mismatches"][:20]}, no_input=(concrete == 0))
    if not getattr(ctx, "proof_ok", True):
        ctx.violation("proof obligation of Properties/%s.v no longer checks:\n%s" % (ctx.prop, ctx.proof_log[-1500:]),
                      {"broken": "theorems of coq/Properties/%s.v" % ctx.prop, "log": ctx.proof_log[-4000:]},
                      no_input=(concrete == 0))


def std_coverage(ctx, res, rule):
    st = res["stats"]
    ctx.coverage.update({
        "evaluations": res["nlines"],
        "distinct_nontrivial": st.get("distinct", 0),
        "rule": rule,
        "samples": res["samples"][:8] or ["(none)"],
        "input_distribution": {k: v for k, v in sorted(st.items()) if k not in ("distinct", "mismatches", "specviol")},
        "model_impl_mismatches": st.get("mismatches", 0),
        "monitor_failures_on_impl": st.get("specviol", 0),
        "traces_validated_against_impl": res["nlines"],
    })

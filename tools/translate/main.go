// translate: regenerates coq/Gen/Tables.v from the Go sources of onos-config.
//
//	translate <repo> <outdir>
//
// It reads (go/ast only, nothing is executed):
//
//	pkg/northbound/gnmi/v2/set.go         Set: the wait loop (success condition, failure condition,
//	                                      failure type -> errors constructor switch)
//	pkg/northbound/admin/admin.go         RollbackTransaction: the same loop
//	pkg/controller/v2/proposal/controller.go  reconcileApply: classification of device error codes
//	pkg/pluginregistry/registry.go        chunkSize
//
// and writes plain Gallina match tables over the enumerations of coq/Model/Failure.v.
// The boolean conditions are evaluated symbolically for every (synchronicity, state) pair, so any
// rewriting of the condition that keeps to comparisons of these two fields with enum constants is
// followed; anything else (another shape of the loop, an unknown operand, a missing switch) makes the
// translator exit non-zero: a stale table is never reused.
//
// Trusted, fixed knowledge embedded here (not read from /repo): the numeric values of the onos-api
// enums (TransactionStatus_State, TransactionStrategy_Synchronicity), and onos-lib-go's
// errors.Status mapping from error constructor to gRPC code (the harness re-observes that mapping
// on the real library on every run, domain "h.status").
package main

import (
	"fmt"
	"go/ast"
	"go/parser"
	"go/token"
	"os"
	"path/filepath"
	"sort"
	"strconv"
	"strings"
)

func die(format string, a ...interface{}) {
	fmt.Fprintf(os.Stderr, "translate: "+format+"\n", a...)
	os.Exit(3)
}

var stateVal = map[string]int{"PENDING": 0, "VALIDATED": 1, "COMMITTED": 2, "APPLIED": 3, "FAILED": 4}
var stateNames = []string{"PENDING", "VALIDATED", "COMMITTED", "APPLIED", "FAILED"}
var syncVal = map[string]int{"ASYNCHRONOUS": 0, "SYNCHRONOUS": 1}
var syncNames = []string{"ASYNCHRONOUS", "SYNCHRONOUS"}
var failureNames = []string{"UNKNOWN", "CANCELED", "NOT_FOUND", "ALREADY_EXISTS", "UNAUTHORIZED", "FORBIDDEN",
	"CONFLICT", "INVALID", "UNAVAILABLE", "NOT_SUPPORTED", "TIMEOUT", "INTERNAL"}
var ctorNames = []string{"Unknown", "Canceled", "NotFound", "AlreadyExists", "Unauthorized", "Forbidden",
	"Conflict", "Invalid", "Unavailable", "NotSupported", "Timeout", "Internal"}
var codeNames = []string{"OK", "Canceled", "Unknown", "InvalidArgument", "DeadlineExceeded", "NotFound",
	"AlreadyExists", "PermissionDenied", "ResourceExhausted", "FailedPrecondition", "Aborted", "OutOfRange",
	"Unimplemented", "Internal", "Unavailable", "DataLoss", "Unauthenticated"}

// onos-lib-go pkg/errors errors.Status: constructor -> gRPC code (fixed, see header)
var libStatus = map[string]string{
	"Unknown": "Unknown", "Canceled": "Canceled", "NotFound": "NotFound", "AlreadyExists": "AlreadyExists",
	"Unauthorized": "Unauthenticated", "Forbidden": "PermissionDenied", "Conflict": "FailedPrecondition",
	"Invalid": "InvalidArgument", "Unavailable": "Unavailable", "NotSupported": "Unimplemented",
	"Timeout": "DeadlineExceeded", "Internal": "Internal",
}

func has(l []string, s string) bool {
	for _, x := range l {
		if x == s {
			return true
		}
	}
	return false
}

type file struct {
	fset *token.FileSet
	f    *ast.File
	path string
}

func parse(repo, rel string) *file {
	p := filepath.Join(repo, rel)
	fset := token.NewFileSet()
	f, err := parser.ParseFile(fset, p, nil, parser.ParseComments)
	if err != nil {
		die("cannot parse %s: %v", p, err)
	}
	return &file{fset, f, rel}
}

func (fl *file) pos(n ast.Node) string {
	return fmt.Sprintf("%s:%d", fl.path, fl.fset.Position(n.Pos()).Line)
}

func (fl *file) funcDecl(name string) *ast.FuncDecl {
	for _, d := range fl.f.Decls {
		if fd, ok := d.(*ast.FuncDecl); ok && fd.Name.Name == name && fd.Body != nil {
			return fd
		}
	}
	die("%s: function %s not found", fl.path, name)
	return nil
}

// selector chain a.b.c -> ["a","b","c"]; nil if not a pure chain
func chain(e ast.Expr) []string {
	switch x := e.(type) {
	case *ast.Ident:
		return []string{x.Name}
	case *ast.SelectorExpr:
		c := chain(x.X)
		if c == nil {
			return nil
		}
		return append(c, x.Sel.Name)
	case *ast.ParenExpr:
		return chain(x.X)
	}
	return nil
}

func suffix(c []string, s ...string) bool {
	if len(c) < len(s) {
		return false
	}
	for i := range s {
		if c[len(c)-len(s)+i] != s[i] {
			return false
		}
	}
	return true
}

// ---------------------------------------------------------------- condition evaluation

type val struct {
	isBool bool
	b      bool
	kind   string // "sync" | "state" for integers
	i      int
}

// aliases introduced in the loop body before the if statement: x := ev.Transaction.Status (pure selector chains only)
var aliases = map[string][]string{}

func resolve(c []string) []string {
	for n := 0; n < 8 && c != nil && len(c) > 0; n++ {
		a, ok := aliases[c[0]]
		if !ok {
			break
		}
		c = append(append([]string{}, a...), c[1:]...)
	}
	return c
}

type condEnv struct {
	fl      *file
	evVar   string
	sync    int
	state   int
	usesSyn bool
}

func (ce *condEnv) eval(e ast.Expr) val {
	switch x := e.(type) {
	case *ast.ParenExpr:
		return ce.eval(x.X)
	case *ast.UnaryExpr:
		if x.Op == token.NOT {
			v := ce.eval(x.X)
			if !v.isBool {
				die("%s: '!' applied to a non-boolean", ce.fl.pos(e))
			}
			return val{isBool: true, b: !v.b}
		}
		die("%s: unsupported unary operator %s in wait condition", ce.fl.pos(e), x.Op)
	case *ast.BinaryExpr:
		switch x.Op {
		case token.LAND, token.LOR:
			a, b := ce.eval(x.X), ce.eval(x.Y)
			if !a.isBool || !b.isBool {
				die("%s: boolean operator on non-boolean operands", ce.fl.pos(e))
			}
			if x.Op == token.LAND {
				return val{isBool: true, b: a.b && b.b}
			}
			return val{isBool: true, b: a.b || b.b}
		case token.EQL, token.NEQ, token.LSS, token.LEQ, token.GTR, token.GEQ:
			a, b := ce.eval(x.X), ce.eval(x.Y)
			if a.isBool || b.isBool || a.kind != b.kind {
				die("%s: comparison of unrelated operands in wait condition", ce.fl.pos(e))
			}
			var r bool
			switch x.Op {
			case token.EQL:
				r = a.i == b.i
			case token.NEQ:
				r = a.i != b.i
			case token.LSS:
				r = a.i < b.i
			case token.LEQ:
				r = a.i <= b.i
			case token.GTR:
				r = a.i > b.i
			case token.GEQ:
				r = a.i >= b.i
			}
			return val{isBool: true, b: r}
		}
		die("%s: unsupported operator %s in wait condition", ce.fl.pos(e), x.Op)
	case *ast.SelectorExpr, *ast.Ident:
		c := resolve(chain(e))
		if c == nil {
			die("%s: unsupported operand in wait condition", ce.fl.pos(e))
		}
		if len(c) == 2 && c[0] == "configapi" {
			if strings.HasPrefix(c[1], "TransactionStatus_") {
				n := strings.TrimPrefix(c[1], "TransactionStatus_")
				v, ok := stateVal[n]
				if !ok {
					die("%s: unknown transaction state constant %s", ce.fl.pos(e), c[1])
				}
				return val{kind: "state", i: v}
			}
			if strings.HasPrefix(c[1], "TransactionStrategy_") {
				n := strings.TrimPrefix(c[1], "TransactionStrategy_")
				v, ok := syncVal[n]
				if !ok {
					die("%s: unknown synchronicity constant %s", ce.fl.pos(e), c[1])
				}
				return val{kind: "sync", i: v}
			}
		}
		if c[0] == ce.evVar && len(c) >= 2 && c[1] == "Transaction" {
			if suffix(c, "Transaction", "Status", "State") && len(c) == 4 {
				return val{kind: "state", i: ce.state}
			}
			if suffix(c, "Transaction", "TransactionStrategy", "Synchronicity") && len(c) == 4 {
				ce.usesSyn = true
				return val{kind: "sync", i: ce.sync}
			}
		}
		die("%s: operand %s of the wait condition is not the event's state/synchronicity nor an enum constant",
			ce.fl.pos(e), strings.Join(c, "."))
	case *ast.CallExpr:
		// getters: ev.Transaction.Status.GetState() etc. are not used by the code; refuse
		die("%s: call expression in wait condition is not supported", ce.fl.pos(e))
	}
	die("%s: unsupported expression in wait condition", ce.fl.pos(e))
	return val{}
}

func table(fl *file, evVar string, cond ast.Expr) [2][5]bool {
	var t [2][5]bool
	for sy := 0; sy < 2; sy++ {
		for st := 0; st < 5; st++ {
			ce := &condEnv{fl: fl, evVar: evVar, sync: sy, state: st}
			v := ce.eval(cond)
			if !v.isBool {
				die("%s: wait condition is not boolean", fl.pos(cond))
			}
			t[sy][st] = v.b
		}
	}
	return t
}

// ---------------------------------------------------------------- handler loop

type handlerTables struct {
	name     string
	where    string
	ok       [2][5]bool
	failed   [2][5]bool
	ctorOf   map[string]string // failure name -> ctor; "OTHER" for default
	nilCtor  string
	defaultC string
}

func isNilIdent(e ast.Expr) bool {
	id, ok := e.(*ast.Ident)
	return ok && id.Name == "nil"
}

// errors.NewX(...) -> X
func ctorOfCall(fl *file, e ast.Expr) string {
	ce, ok := e.(*ast.CallExpr)
	if !ok {
		die("%s: expected errors.NewX(...) call", fl.pos(e))
	}
	c := chain(ce.Fun)
	if len(c) != 2 || c[0] != "errors" || !strings.HasPrefix(c[1], "New") {
		die("%s: expected errors.NewX(...) call, found %s", fl.pos(e), strings.Join(c, "."))
	}
	n := strings.TrimPrefix(c[1], "New")
	if !has(ctorNames, n) {
		die("%s: unknown errors constructor New%s", fl.pos(e), n)
	}
	return n
}

// body must be a single `err = errors.NewX(...)`
func singleErrAssign(fl *file, body []ast.Stmt, at ast.Node) string {
	if len(body) != 1 {
		die("%s: expected exactly one statement `err = errors.NewX(...)`", fl.pos(at))
	}
	as, ok := body[0].(*ast.AssignStmt)
	if !ok || len(as.Lhs) != 1 || len(as.Rhs) != 1 || as.Tok != token.ASSIGN {
		die("%s: expected `err = errors.NewX(...)`", fl.pos(body[0]))
	}
	if id, ok := as.Lhs[0].(*ast.Ident); !ok || id.Name != "err" {
		die("%s: expected assignment to err", fl.pos(body[0]))
	}
	return ctorOfCall(fl, as.Rhs[0])
}

func handlerLoop(fl *file, fn string, label string) *handlerTables {
	fd := fl.funcDecl(fn)
	var loops []*ast.RangeStmt
	ast.Inspect(fd.Body, func(n ast.Node) bool {
		if rs, ok := n.(*ast.RangeStmt); ok {
			if id, ok := rs.X.(*ast.Ident); ok && id.Name == "eventCh" {
				loops = append(loops, rs)
			}
		}
		return true
	})
	if len(loops) != 1 {
		die("%s: %s: expected exactly one `for ... := range eventCh` loop, found %d", fl.path, fn, len(loops))
	}
	rs := loops[0]
	evID, ok := rs.Key.(*ast.Ident)
	if !ok || rs.Value != nil {
		die("%s: range over eventCh must bind exactly one variable", fl.pos(rs))
	}
	aliases = map[string][]string{}
	body := rs.Body.List
	for len(body) > 1 {
		as, ok := body[0].(*ast.AssignStmt)
		if !ok || as.Tok != token.DEFINE || len(as.Lhs) != 1 || len(as.Rhs) != 1 {
			break
		}
		id, ok := as.Lhs[0].(*ast.Ident)
		c := chain(as.Rhs[0])
		if !ok || c == nil {
			break
		}
		aliases[id.Name] = resolve(c)
		body = body[1:]
	}
	if len(body) != 1 {
		die("%s: the wait loop body must be a single if / else-if statement (after plain aliases; found %d statements)", fl.pos(rs), len(body))
	}
	if1, ok := body[0].(*ast.IfStmt)
	if !ok || if1.Init != nil {
		die("%s: the wait loop body must be an if statement", fl.pos(body[0]))
	}
	if2, ok := if1.Else.(*ast.IfStmt)
	if !ok || if2.Init != nil {
		die("%s: the wait loop must have the shape if <success> {...} else if <failed> {...}", fl.pos(if1))
	}
	if if2.Else != nil {
		die("%s: unexpected third branch in the wait loop", fl.pos(if2.Else))
	}
	// the statement after the loop must be `return nil, ctx.Err()`
	ht := &handlerTables{name: label, where: fl.pos(rs), ctorOf: map[string]string{}}
	ht.ok = table(fl, evID.Name, if1.Cond)
	ht.failed = table(fl, evID.Name, if2.Cond)

	// success branch: must end in `return <non-nil>, nil`
	b1 := if1.Body.List
	if len(b1) == 0 {
		die("%s: empty success branch", fl.pos(if1))
	}
	r1, ok := b1[len(b1)-1].(*ast.ReturnStmt)
	if !ok || len(r1.Results) != 2 || isNilIdent(r1.Results[0]) || !isNilIdent(r1.Results[1]) {
		die("%s: the success branch must end with `return response, nil`", fl.pos(b1[len(b1)-1]))
	}
	// no break/continue/goto anywhere in the loop
	ast.Inspect(rs.Body, func(n ast.Node) bool {
		if br, ok := n.(*ast.BranchStmt); ok {
			die("%s: unexpected %s in the wait loop", fl.pos(br), br.Tok)
		}
		return true
	})

	// failure branch: `var err error`, if Failure != nil { switch Failure.Type {...} } else { err = NewX }, log, return nil, errors.Status(err).Err()
	b2 := if2.Body.List
	if len(b2) < 2 {
		die("%s: failure branch too short", fl.pos(if2))
	}
	r2, ok := b2[len(b2)-1].(*ast.ReturnStmt)
	okShape := false
	if ok && len(r2.Results) == 2 && isNilIdent(r2.Results[0]) {
		// errors.Status(err).Err()
		if c1, ok := r2.Results[1].(*ast.CallExpr); ok && len(c1.Args) == 0 {
			if se, ok := c1.Fun.(*ast.SelectorExpr); ok && se.Sel.Name == "Err" {
				if c2, ok := se.X.(*ast.CallExpr); ok && len(c2.Args) == 1 {
					cc := chain(c2.Fun)
					if len(cc) == 2 && cc[0] == "errors" && cc[1] == "Status" {
						if id, ok := c2.Args[0].(*ast.Ident); ok && id.Name == "err" {
							okShape = true
						}
					}
				}
			}
		}
	}
	if !okShape {
		die("%s: the failure branch must end with `return nil, errors.Status(err).Err()`", fl.pos(b2[len(b2)-1]))
	}
	var ifNil *ast.IfStmt
	for _, s := range b2[:len(b2)-1] {
		switch x := s.(type) {
		case *ast.IfStmt:
			if ifNil != nil {
				die("%s: more than one if statement in the failure branch", fl.pos(x))
			}
			ifNil = x
		case *ast.DeclStmt:
			// var err error
		case *ast.ExprStmt:
			// logging call
			if ce, ok := x.X.(*ast.CallExpr); ok {
				c := chain(ce.Fun)
				if len(c) == 2 && c[0] == "log" {
					continue
				}
			}
			die("%s: unexpected statement in the failure branch", fl.pos(x))
		default:
			die("%s: unexpected statement in the failure branch", fl.pos(s))
		}
	}
	if ifNil == nil {
		die("%s: failure branch lacks the `if ...Failure != nil` statement", fl.pos(if2))
	}
	// condition: <ev>.Transaction.Status.Failure != nil
	be, ok := ifNil.Cond.(*ast.BinaryExpr)
	if !ok || be.Op != token.NEQ || !isNilIdent(be.Y) || !suffix(resolve(chain(be.X)), evID.Name, "Transaction", "Status", "Failure") {
		die("%s: expected `if %s.Transaction.Status.Failure != nil`", fl.pos(ifNil), evID.Name)
	}
	els, ok := ifNil.Else.(*ast.BlockStmt)
	if !ok {
		die("%s: expected an else branch for a nil Failure", fl.pos(ifNil))
	}
	ht.nilCtor = singleErrAssign(fl, els.List, els)
	if len(ifNil.Body.List) != 1 {
		die("%s: expected a single switch over Failure.Type", fl.pos(ifNil.Body))
	}
	sw, ok := ifNil.Body.List[0].(*ast.SwitchStmt)
	if !ok || sw.Init != nil || !suffix(resolve(chain(sw.Tag)), evID.Name, "Transaction", "Status", "Failure", "Type") {
		die("%s: expected `switch %s.Transaction.Status.Failure.Type`", fl.pos(ifNil.Body.List[0]), evID.Name)
	}
	for _, cs := range sw.Body.List {
		cc := cs.(*ast.CaseClause)
		ctor := singleErrAssign(fl, cc.Body, cc)
		if cc.List == nil {
			if ht.defaultC != "" {
				die("%s: two default clauses", fl.pos(cc))
			}
			ht.defaultC = ctor
			continue
		}
		for _, e := range cc.List {
			c := chain(e)
			if len(c) != 2 || c[0] != "configapi" || !strings.HasPrefix(c[1], "Failure_") {
				die("%s: case label is not a configapi.Failure_X constant", fl.pos(e))
			}
			n := strings.TrimPrefix(c[1], "Failure_")
			if !has(failureNames, n) {
				die("%s: unknown failure type %s", fl.pos(e), n)
			}
			if _, dup := ht.ctorOf[n]; dup {
				die("%s: duplicate case %s", fl.pos(e), n)
			}
			ht.ctorOf[n] = ctor
		}
	}
	if ht.defaultC == "" {
		die("%s: the switch over Failure.Type has no default clause (err would stay nil: status OK on a failed transaction)", fl.pos(sw))
	}
	return ht
}

func b2s(b bool) string {
	if b {
		return "true"
	}
	return "false"
}

func (ht *handlerTables) emit(sb *strings.Builder) {
	fmt.Fprintf(sb, "(* %s: wait loop at %s *)\n", ht.name, ht.where)
	for _, t := range []struct {
		n string
		t [2][5]bool
		c string
	}{{"wait_ok", ht.ok, "the loop returns the success response on this event"},
		{"wait_failed", ht.failed, "(tested only when wait_ok is false) the loop returns the failure status on this event"}} {
		fmt.Fprintf(sb, "(* %s *)\nDefinition %s_%s (sy : synchronicity) (st : tx_state) : bool :=\n  match sy, st with\n", t.c, ht.name, t.n)
		for sy := 0; sy < 2; sy++ {
			for st := 0; st < 5; st++ {
				fmt.Fprintf(sb, "  | %s, %s => %s\n", syncNames[sy], stateNames[st], b2s(t.t[sy][st]))
			}
		}
		sb.WriteString("  end.\n")
	}
	fmt.Fprintf(sb, "(* switch over Failure.Type -> errors constructor (default clause for every other value) *)\nDefinition %s_failure_ctor (f : failure_type) : err_ctor :=\n  match f with\n", ht.name)
	for _, n := range failureNames {
		c, ok := ht.ctorOf[n]
		if !ok {
			c = ht.defaultC
		}
		fmt.Fprintf(sb, "  | F_%s => E_%s\n", n, c)
	}
	fmt.Fprintf(sb, "  | F_OTHER => E_%s\n  end.\n", ht.defaultC)
	fmt.Fprintf(sb, "(* Failure == nil *)\nDefinition %s_nil_failure_ctor : err_ctor := E_%s.\n\n", ht.name, ht.nilCtor)
}

// ---------------------------------------------------------------- proposal controller (C11)

type applyTables struct {
	where string
	class map[string]string // code -> Retry|Wait|Fail
	deflt string
	ftype map[string]string // code -> failure name
}

func codesOf(fl *file, cc *ast.CaseClause) []string {
	var r []string
	for _, e := range cc.List {
		c := chain(e)
		if len(c) != 2 || c[0] != "codes" || !has(codeNames, c[1]) {
			die("%s: case label is not a codes.X constant", fl.pos(e))
		}
		r = append(r, c[1])
	}
	return r
}

func applySwitch(fl *file) *applyTables {
	fd := fl.funcDecl("reconcileApply")
	at := &applyTables{class: map[string]string{}, ftype: map[string]string{}}
	var outer *ast.SwitchStmt
	n := 0
	ast.Inspect(fd.Body, func(nd ast.Node) bool {
		blk, ok := nd.(*ast.BlockStmt)
		if !ok {
			return true
		}
		for i, s := range blk.List {
			as, ok := s.(*ast.AssignStmt)
			if !ok || as.Tok != token.DEFINE || len(as.Lhs) != 1 || len(as.Rhs) != 1 {
				continue
			}
			id, ok := as.Lhs[0].(*ast.Ident)
			if !ok || id.Name != "code" {
				continue
			}
			// errors.Status(err).Code()
			good := false
			if c1, ok := as.Rhs[0].(*ast.CallExpr); ok {
				if se, ok := c1.Fun.(*ast.SelectorExpr); ok && se.Sel.Name == "Code" {
					if c2, ok := se.X.(*ast.CallExpr); ok {
						cc := chain(c2.Fun)
						if len(cc) == 2 && cc[0] == "errors" && cc[1] == "Status" {
							good = true
						}
					}
				}
			}
			if !good {
				die("%s: `code :=` is not errors.Status(err).Code()", fl.pos(as))
			}
			if i+1 >= len(blk.List) {
				die("%s: no switch after `code :=`", fl.pos(as))
			}
			sw, ok := blk.List[i+1].(*ast.SwitchStmt)
			if !ok || sw.Init != nil {
				die("%s: no switch after `code :=`", fl.pos(as))
			}
			if tid, ok := sw.Tag.(*ast.Ident); !ok || tid.Name != "code" {
				die("%s: switch after `code :=` is not over code", fl.pos(sw))
			}
			outer = sw
			n++
		}
		return true
	})
	if n != 1 {
		die("%s: reconcileApply: expected exactly one `code := errors.Status(err).Code()` followed by a switch, found %d", fl.path, n)
	}
	at.where = fl.pos(outer)
	classify := func(cc *ast.CaseClause) (string, *ast.SwitchStmt) {
		if len(cc.Body) == 0 {
			die("%s: empty case in the device error switch", fl.pos(cc))
		}
		ret, ok := cc.Body[len(cc.Body)-1].(*ast.ReturnStmt)
		// a case ends in `return result, err` or - the failing case - in `return r.f(...)` (a call yielding both)
		tailCall := ok && len(ret.Results) == 1
		if tailCall {
			_, tailCall = ret.Results[0].(*ast.CallExpr)
		}
		if !ok || (len(ret.Results) != 2 && !tailCall) {
			die("%s: case of the device error switch does not end in a return", fl.pos(cc))
		}
		var inner *ast.SwitchStmt
		setsFailed := false
		for _, s := range cc.Body {
			if sw, ok := s.(*ast.SwitchStmt); ok {
				if tid, ok := sw.Tag.(*ast.Ident); ok && tid.Name == "code" {
					inner = sw
				}
			}
			ast.Inspect(s, func(nd ast.Node) bool {
				if as, ok := nd.(*ast.AssignStmt); ok && len(as.Rhs) == 1 {
					c := chain(as.Rhs[0])
					if len(c) == 2 && c[1] == "ProposalApplyPhase_FAILED" {
						setsFailed = true
					}
				}
				return true
			})
		}
		if setsFailed {
			if inner == nil {
				die("%s: failing case without the code -> Failure_Type switch", fl.pos(cc))
			}
			return "Fail", inner
		}
		if tailCall {
			die("%s: only the failing case of the device error switch may end in a call", fl.pos(cc))
		}
		if id, ok := ret.Results[1].(*ast.Ident); ok && id.Name == "err" {
			return "Retry", nil
		}
		if isNilIdent(ret.Results[1]) {
			return "Wait", nil
		}
		die("%s: cannot classify this case of the device error switch", fl.pos(cc))
		return "", nil
	}
	var inner *ast.SwitchStmt
	for _, cs := range outer.Body.List {
		cc := cs.(*ast.CaseClause)
		cl, in := classify(cc)
		if in != nil {
			if inner != nil {
				die("%s: two code -> Failure_Type switches", fl.pos(in))
			}
			inner = in
		}
		if cc.List == nil {
			at.deflt = cl
			continue
		}
		for _, c := range codesOf(fl, cc) {
			if _, dup := at.class[c]; dup {
				die("%s: duplicate case codes.%s", fl.pos(cc), c)
			}
			at.class[c] = cl
		}
	}
	if at.deflt == "" {
		die("%s: device error switch has no default clause", fl.pos(outer))
	}
	if inner == nil {
		die("%s: code -> Failure_Type switch not found", fl.pos(outer))
	}
	for _, cs := range inner.Body.List {
		cc := cs.(*ast.CaseClause)
		if cc.List == nil {
			die("%s: unexpected default clause in the code -> Failure_Type switch", fl.pos(cc))
		}
		if len(cc.Body) != 1 {
			die("%s: expected `failureType = configapi.Failure_X`", fl.pos(cc))
		}
		as, ok := cc.Body[0].(*ast.AssignStmt)
		if !ok || len(as.Lhs) != 1 || len(as.Rhs) != 1 {
			die("%s: expected `failureType = configapi.Failure_X`", fl.pos(cc))
		}
		if id, ok := as.Lhs[0].(*ast.Ident); !ok || id.Name != "failureType" {
			die("%s: expected assignment to failureType", fl.pos(as))
		}
		c := chain(as.Rhs[0])
		if len(c) != 2 || c[0] != "configapi" || !strings.HasPrefix(c[1], "Failure_") || !has(failureNames, strings.TrimPrefix(c[1], "Failure_")) {
			die("%s: expected configapi.Failure_X", fl.pos(as))
		}
		for _, code := range codesOf(fl, cc) {
			if _, dup := at.ftype[code]; dup {
				die("%s: duplicate case codes.%s", fl.pos(cc), code)
			}
			at.ftype[code] = strings.TrimPrefix(c[1], "Failure_")
		}
	}
	return at
}

func (at *applyTables) emit(sb *strings.Builder) {
	fmt.Fprintf(sb, "(* proposal controller reconcileApply: device error switch at %s *)\n", at.where)
	sb.WriteString("(* AC_Retry: the reconcile returns the error (retried with back-off); AC_Wait: returns nil, nothing recorded;\n   AC_Fail: the proposal's apply phase is marked FAILED with apply_failure_of_code *)\n")
	sb.WriteString("Definition apply_code_class (c : grpc_code) : apply_class :=\n  match c with\n")
	for _, c := range codeNames {
		cl, ok := at.class[c]
		if !ok {
			cl = at.deflt
		}
		fmt.Fprintf(sb, "  | G_%s => AC_%s\n", c, cl)
	}
	sb.WriteString("  end.\n")
	sb.WriteString("(* code -> Failure_Type (a code without a case keeps the zero value Failure_UNKNOWN) *)\n")
	sb.WriteString("Definition apply_failure_of_code (c : grpc_code) : failure_type :=\n  match c with\n")
	for _, c := range codeNames {
		f, ok := at.ftype[c]
		if !ok {
			f = "UNKNOWN"
		}
		fmt.Fprintf(sb, "  | G_%s => F_%s\n", c, f)
	}
	sb.WriteString("  end.\n\n")
}

// ---------------------------------------------------------------- constants

func intConst(fl *file, name string) int64 {
	for _, d := range fl.f.Decls {
		gd, ok := d.(*ast.GenDecl)
		if !ok || gd.Tok != token.CONST {
			continue
		}
		for _, sp := range gd.Specs {
			vs := sp.(*ast.ValueSpec)
			for i, n := range vs.Names {
				if n.Name == name && i < len(vs.Values) {
					if bl, ok := vs.Values[i].(*ast.BasicLit); ok && bl.Kind == token.INT {
						v, err := strconv.ParseInt(strings.ReplaceAll(bl.Value, "_", ""), 0, 64)
						if err != nil {
							die("%s: constant %s: %v", fl.path, name, err)
						}
						return v
					}
					die("%s: constant %s is not an integer literal", fl.path, name)
				}
			}
		}
	}
	die("%s: constant %s not found", fl.path, name)
	return 0
}

func main() {
	if len(os.Args) != 3 {
		die("usage: translate <repo> <outdir>")
	}
	repo, out := os.Args[1], os.Args[2]
	setF := parse(repo, "pkg/northbound/gnmi/v2/set.go")
	admF := parse(repo, "pkg/northbound/admin/admin.go")
	propF := parse(repo, "pkg/controller/v2/proposal/controller.go")
	regF := parse(repo, "pkg/pluginregistry/registry.go")

	var sb strings.Builder
	sb.WriteString("(* GENERATED by tools/translate from the Go sources of onos-config - do not edit.\n")
	sb.WriteString("   Regenerated on every check; only plain data (match tables over Model/Failure.v). *)\n")
	sb.WriteString("From Coq Require Import NArith.\nFrom OC Require Import Model.Failure.\n\n")
	handlerLoop(setF, "Set", "set").emit(&sb)
	handlerLoop(admF, "RollbackTransaction", "rollback").emit(&sb)
	sb.WriteString("(* onos-lib-go errors.Status: constructor -> gRPC code (fixed table embedded in the translator,\n   re-observed on the real library by the harness) *)\n")
	sb.WriteString("Definition lib_status (e : err_ctor) : grpc_code :=\n  match e with\n")
	keys := make([]string, 0)
	for k := range libStatus {
		keys = append(keys, k)
	}
	sort.Strings(keys)
	for _, c := range ctorNames {
		fmt.Fprintf(&sb, "  | E_%s => G_%s\n", c, libStatus[c])
	}
	sb.WriteString("  end.\n\n")
	applySwitch(propF).emit(&sb)
	fmt.Fprintf(&sb, "(* pkg/pluginregistry/registry.go *)\nDefinition plugin_chunk_size : N := %d%%N.\n", intConst(regF, "chunkSize"))

	if err := os.MkdirAll(out, 0o755); err != nil {
		die("%v", err)
	}
	if err := os.WriteFile(filepath.Join(out, "Tables.v"), []byte(sb.String()), 0o644); err != nil {
		die("%v", err)
	}
}

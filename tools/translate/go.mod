module translate

go 1.19

#!/usr/bin/env python3
"""Regenerates the table between <!-- SEEDS:BEGIN --> and <!-- SEEDS:END --> in DESIGN.md from seeded/*/meta.json."""
import json, os, re
ROOT = os.path.dirname(os.path.dirname(os.path.abspath(__file__)))
rows = []
for sid in sorted(os.listdir(os.path.join(ROOT, "seeded"))):
    mp = os.path.join(ROOT, "seeded", sid, "meta.json")
    if not os.path.exists(mp):
        continue
    m = json.load(open(mp))
    what = m.get("summary") or ""
    if not what:
        rp = os.path.join(ROOT, "seeded", sid, "README.md")
        if os.path.exists(rp):
            for ln in open(rp):
                ln = ln.strip()
                if ln and not ln.startswith("#") and len(ln) > 30:
                    what = ln[:160]
                    break
    caught = []
    missed = []
    for p, c in sorted(m.get("checks", {}).items()):
        if not isinstance(c, dict):
            continue
        if c.get("caught"):
            caught.append(p + (" (input)" if c.get("concrete_input") else " (corr.)"))
        elif c.get("exit") == 0:
            missed.append(p)
    if m.get("retired"):
        what = "RETIRED (no longer a violation): " + m["retired"][:260]
    rows.append("| %s | %s | %s | %s | %s |" % (sid, m.get("breaks_property"), what.replace("|", "/"), ", ".join(caught) or "-", ", ".join(missed) or "-"))
tbl = "| seeded change | property | what it does | caught by (input = concrete failing input, corr. = correspondence only) | checks run that stayed green |\n|---|---|---|---|---|\n" + "\n".join(rows)
p = os.path.join(ROOT, "DESIGN.md")
s = open(p).read()
if "<!-- SEEDS:BEGIN -->" in s:
    s = re.sub(r"<!-- SEEDS:BEGIN -->.*?<!-- SEEDS:END -->", "<!-- SEEDS:BEGIN -->\n" + tbl + "\n<!-- SEEDS:END -->", s, flags=re.S)
    open(p, "w").write(s)
print(tbl)

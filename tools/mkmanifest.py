#!/usr/bin/env python3
"""Regenerates /verif/MANIFEST.json from tools/manifest_src.json + the set of props/Cxx.py present.

A property is claimed iff props/<ID>.py exists and manifest_src.json has an entry for it; every other
property of properties.jsonl is listed under not_applicable with the reason recorded in
manifest_src.json["pending"] (default: not built yet)."""
import json
import os
import subprocess

ROOT = os.path.dirname(os.path.dirname(os.path.abspath(__file__)))


def main():
    src = json.load(open(os.path.join(ROOT, "tools", "manifest_src.json")))
    ids = [json.loads(l)["id"] for l in open(os.path.join(ROOT, "properties.jsonl")) if l.strip()]
    try:
        hooks = subprocess.run(["git", "-C", "/repo", "log", "--format=%H %s"], stdout=subprocess.PIPE, text=True).stdout
        hook_commits = [l.split()[0] for l in hooks.split("\n") if l[41:].startswith("verif:")]
    except Exception:
        hook_commits = []
    checks = []
    na = []
    for i in ids:
        c = src["checks"].get(i)
        snip = os.path.join(ROOT, "props", i + ".manifest.json")
        if os.path.exists(snip):
            c = json.load(open(snip))
        if c and i in src.get("ready", []) and os.path.exists(os.path.join(ROOT, "props", i + ".py")):
            checks.append({
                "property_id": i,
                "quick_cmd": "./check %s --tier quick" % i,
                "thorough_cmd": "./check %s --tier thorough" % i,
                "evidence_file": "/verif/evidence/%s.json" % i,
                "replay_cmd_template": "./check %s --replay {path}" % i,
                "engine": "coq-model+correspondence",
                "level_claimed": {"category": "proof", "text": c["text"], "design_ref": c.get("design_ref", "DESIGN.md section 5, " + i)},
                "level_note": c["note"],
                "technique": c.get("technique", "machine-checked proof in Coq 8.16 over a hand-written executable Gallina model; model tied to /repo on every run by differential execution (extracted OCaml model vs the real Go code) with property monitors on implementation traces"),
            })
        else:
            na.append({"property_id": i, "reason": src.get("pending", {}).get(i, "not claimed yet: the model, theorems and correspondence harness for this property are still being built (see DESIGN.md section 9); nothing about the technique rules it out")})
    m = {
        "version": 1,
        "setup_cmd": "./setup",
        "hooks": {
            "guard": "verif",
            "enable": "go build -tags verif (harness module in /verif/harness with `replace github.com/onosproject/onos-config => /repo`)",
            "baseline_off_cmd": "cd /repo && GOFLAGS=-mod=mod go test -json -vet=off -count=1 -timeout 25m ./...",
            "source_commits": hook_commits,
            "add_only": True,
        },
        "engines": [{
            "name": "coq-model+correspondence",
            "path": "/verif/check",
            "serves_properties": [c["property_id"] for c in checks],
            "kind_free_text": "Coq 8.16.1 development under coq/ (Model/, Proofs/, Properties/), extracted to OCaml (ocaml/*_check.ml drivers), Go harness under harness/ built against /repo with -tags verif; orchestrated by ./check (lib/vlib.py, props/<ID>.py)",
        }],
        "checks": checks,
        "notes": src.get("notes", ""),
        "not_applicable": na,
    }
    with open(os.path.join(ROOT, "MANIFEST.json"), "w") as f:
        json.dump(m, f, indent=1)
        f.write("\n")
    print("claimed:", [c["property_id"] for c in checks])


if __name__ == "__main__":
    main()

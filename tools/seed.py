#!/usr/bin/env python3
"""tools/seed.py verify  <prop> <mutation-dir> <seed-id>   confirm a seeded change (scratch worktree) and store it under seeded/<seed-id>/
   tools/seed.py run     <seed-id> [<prop> ...]            apply seeded/<seed-id>/patch.diff to /repo, run the checks, undo, record the verdict

A seeded change is kept only if, in a scratch worktree of /repo: the patch applies, the project builds, the repository's
test suite passes with it, the demonstration FAILS with it and PASSES without it."""
import json
import os
import shutil
import subprocess
import sys
import time

ROOT = os.path.dirname(os.path.dirname(os.path.abspath(__file__)))
ENV = dict(os.environ, GOFLAGS="-mod=mod", GOPROXY="off", GOSUMDB="off", GOTOOLCHAIN="local")


def sh(cmd, cwd=None, timeout=3000):
    p = subprocess.run(cmd, cwd=cwd, shell=isinstance(cmd, str), env=ENV, stdout=subprocess.PIPE, stderr=subprocess.STDOUT, text=True, timeout=timeout)
    return p.returncode, p.stdout


def demo_files(mdir):
    return [f for f in sorted(os.listdir(mdir)) if f.endswith("_test.go") or (f.endswith(".go") and f != "patch.diff")]


def place_demo(mdir, wt):
    """copies the demonstration test(s) into the worktree: the target package is read from the file's package clause
    and a `// place in:` / path hint in its header or the README; a delivery with a demo/ sub-tree is copied as it is"""
    placed = []
    dd = os.path.join(mdir, "demo")
    if os.path.isdir(dd):
        for root, _, fs in os.walk(dd):
            for f in fs:
                rel = os.path.relpath(root, dd)
                os.makedirs(os.path.join(wt, rel), exist_ok=True)
                shutil.copy(os.path.join(root, f), os.path.join(wt, rel, f))
                placed.append((rel, f))
        return placed
    readme = open(os.path.join(mdir, "README.md")).read() if os.path.exists(os.path.join(mdir, "README.md")) else ""
    for f in demo_files(mdir):
        src = open(os.path.join(mdir, f)).read()
        target = None
        import re
        for text in (src[:3000], readme):
            m = re.search(r"(pkg/[A-Za-z0-9_/\-\.]+?)/?(?:%s|\s|`|\)|,|$)" % re.escape(f), text)
            if m and os.path.isdir(os.path.join(wt, m.group(1))):
                target = m.group(1)
                break
        if target is None:
            cands = re.findall(r"pkg/[A-Za-z0-9_/\-]+", src[:3000] + readme)
            for c in cands:
                if os.path.isdir(os.path.join(wt, c)):
                    target = c
                    break
        if target is None:
            raise SystemExit("cannot find the package for demonstration %s" % f)
        shutil.copy(os.path.join(mdir, f), os.path.join(wt, target, f))
        placed.append((target, f))
    return placed


def verify(prop, mdir, sid):
    wt = "/tmp/seedwt-%s" % sid
    sh(["git", "-C", "/repo", "worktree", "remove", "--force", wt])
    rc, out = sh(["git", "-C", "/repo", "worktree", "add", "--detach", wt, "HEAD"])
    if rc != 0:
        raise SystemExit(out)
    res = {"property": prop, "seed": sid, "source": mdir, "verified_at": time.strftime("%Y-%m-%dT%H:%M:%SZ", time.gmtime())}
    try:
        patch = os.path.join(mdir, "patch.diff")
        placed = place_demo(mdir, wt)
        pkgs = sorted(set("./" + t for t, _ in placed))
        def src_of(t, f):
            p1 = os.path.join(mdir, f)
            return p1 if os.path.exists(p1) else os.path.join(mdir, "demo", t, f)
        tags = ["-tags", "verif"] if any("verif" in open(src_of(t, f)).read()[:400] for t, f in placed) else []
        names = []
        import re
        for t, f in placed:
            if f.endswith("_test.go"):
                names += re.findall(r"^func (Test\w+)\(", open(src_of(t, f)).read(), re.M)
        runarg = ["-run", "^(" + "|".join(names) + ")$"] if names else []
        democmd = ["go", "test", "-vet=off", "-count=1"] + tags + runarg + pkgs
        rc0, out0 = sh(democmd, cwd=wt)
        res["demo_without_change"] = "pass" if rc0 == 0 else "FAIL"
        rc, out = sh(["git", "apply", patch], cwd=wt)
        if rc != 0:
            raise SystemExit("patch does not apply: " + out)
        rcb, outb = sh(["go", "build", "./..."], cwd=wt)
        res["builds"] = rcb == 0
        rc1, out1 = sh(democmd, cwd=wt)
        res["demo_with_change"] = "fail" if rc1 != 0 else "PASS"
        # the repository's suite, demonstration excluded
        for t, f in placed:
            os.remove(os.path.join(wt, t, f))
        rcs, outs = sh(["go", "test", "-vet=off", "-count=1", "./pkg/..."], cwd=wt)
        for _ in range(3):
            if rcs == 0:
                break
            # the store / southbound tests are load-sensitive: re-run only the packages that failed, alone
            import re as _re
            failed = sorted(set(_re.findall(r"^FAIL\s+(github.com/onosproject/onos-config/\S+)", outs, _re.M)))
            if not failed:
                break
            rcs, outs = sh(["go", "test", "-vet=off", "-count=1", "-p", "1"] + [f.replace("github.com/onosproject/onos-config", ".") for f in failed], cwd=wt)
        res["suite_with_change"] = "pass" if rcs == 0 else "FAIL"
        res["demo_cmd"] = " ".join(democmd)
        res["demo_placed_in"] = [t for t, _ in placed]
        ok = res["demo_without_change"] == "pass" and res["builds"] and res["demo_with_change"] == "fail" and res["suite_with_change"] == "pass"
        res["confirmed"] = ok
        print(json.dumps(res, indent=1))
        if not ok:
            print((out0 if rc0 != 0 else "") [-1500:], (out1 if rc1 == 0 else "")[-500:], (outs if rcs != 0 else "")[-1500:])
            mp = os.path.join(ROOT, "seeded", sid, "meta.json")
            if os.path.abspath(mdir) == os.path.abspath(os.path.join(ROOT, "seeded", sid)) and os.path.exists(mp):
                old = json.load(open(mp))
                old["reverify_failed"] = res
                json.dump(old, open(mp, "w"), indent=1)
            return 1
        d = os.path.join(ROOT, "seeded", sid)
        os.makedirs(d, exist_ok=True)
        if os.path.abspath(mdir) != os.path.abspath(d):
            shutil.copy(patch, os.path.join(d, "patch.diff"))
            for t, f in placed:
                if os.path.exists(os.path.join(mdir, f)):
                    shutil.copy(os.path.join(mdir, f), os.path.join(d, f))
                else:
                    os.makedirs(os.path.join(d, "demo", t), exist_ok=True)
                    shutil.copy(os.path.join(mdir, "demo", t, f), os.path.join(d, "demo", t, f))
            if os.path.exists(os.path.join(mdir, "README.md")):
                shutil.copy(os.path.join(mdir, "README.md"), os.path.join(d, "README.md"))
        meta = {"id": sid, "breaks_property": prop, "needs_to_manifest": "see README.md", "confirmation": res, "checks": {}}
        mp = os.path.join(d, "meta.json")
        if os.path.exists(mp):
            old = json.load(open(mp))
            meta["checks"] = old.get("checks", {})
            for k in ("summary", "needs_to_manifest"):
                if old.get(k):
                    meta[k] = old[k]
        res["repo_head"] = sh(["git", "-C", "/repo", "rev-parse", "--short", "HEAD"])[1].strip()
        json.dump(meta, open(mp, "w"), indent=1)
        return 0
    finally:
        sh(["git", "-C", "/repo", "worktree", "remove", "--force", wt])


def run(sid, props):
    """the checks are run against a scratch worktree of /repo with the seeded change applied (VERIF_REPO), so that
    /repo itself - which other work may be reading - is never modified; equivalent to `git -C /repo apply` + checkout"""
    d = os.path.join(ROOT, "seeded", sid)
    meta = json.load(open(os.path.join(d, "meta.json")))
    if not props:
        props = [meta["breaks_property"]]
    wt = "/tmp/seedrun-%s-%d" % (sid, os.getpid())
    sh(["git", "-C", "/repo", "worktree", "remove", "--force", wt])
    rc, out = sh(["git", "-C", "/repo", "worktree", "add", "--detach", wt, "HEAD"])
    if rc != 0:
        raise SystemExit(out)
    mine = {}
    try:
        rc, out = sh(["git", "-C", wt, "apply", os.path.join(d, "patch.diff")])
        if rc != 0:
            mine["_apply"] = "patch no longer applies to /repo HEAD: " + out[:300]
            print("patch does not apply:", out[:300])
            return
        head = sh(["git", "-C", "/repo", "rev-parse", "--short", "HEAD"])[1].strip()
        for p in props:
            t0 = time.time()
            pr = subprocess.run([os.path.join(ROOT, "check"), p], cwd=ROOT, env=dict(ENV, VERIF_REPO=wt), stdout=subprocess.PIPE,
                                stderr=subprocess.STDOUT, text=True, timeout=6000)
            rc, out = pr.returncode, pr.stdout
            viol = [l for l in out.split("\n") if l.startswith("VIOLATION")]
            detail = [l.strip()[:500] for l in out.split("\n") if l.startswith("  ")][:3]
            mine[p] = {"exit": rc, "caught": rc == 1 and bool(viol), "violation_lines": viol[:4], "detail": detail,
                                 "concrete_input": any("no-failing-input-found" not in v for v in viol), "wall_s": round(time.time() - t0, 1),
                                 "repo_head": head}
            print(p, "exit", rc, viol[:2], detail[:1])
    finally:
        sh(["git", "-C", "/repo", "worktree", "remove", "--force", wt])
        # another run of the same seeded change (another property) may have finished meanwhile: merge, do not overwrite
        meta = json.load(open(os.path.join(d, "meta.json")))
        meta.setdefault("checks", {}).update(mine)
        if "_apply" not in mine:
            meta["checks"].pop("_apply", None)
        json.dump(meta, open(os.path.join(d, "meta.json"), "w"), indent=1)


if __name__ == "__main__":
    if sys.argv[1] == "verify":
        sys.exit(verify(sys.argv[2], sys.argv[3], sys.argv[4]))
    elif sys.argv[1] == "run":
        run(sys.argv[2], sys.argv[3:])
    elif sys.argv[1] == "reverify":
        # confirm a stored seeded change again against /repo's current HEAD
        sid = sys.argv[2]
        m = json.load(open(os.path.join(ROOT, "seeded", sid, "meta.json")))
        sys.exit(verify(m["breaks_property"], os.path.join(ROOT, "seeded", sid), sid))

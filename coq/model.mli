
val negb : bool -> bool

type nat =
| O
| S of nat

val option_map : ('a1 -> 'a2) -> 'a1 option -> 'a2 option

val fst : ('a1 * 'a2) -> 'a1

val snd : ('a1 * 'a2) -> 'a2

val length : 'a1 list -> nat

val app : 'a1 list -> 'a1 list -> 'a1 list

type comparison =
| Eq
| Lt
| Gt

val compOpp : comparison -> comparison

val add : nat -> nat -> nat

val sub : nat -> nat -> nat

module Nat :
 sig
  val eqb : nat -> nat -> bool

  val leb : nat -> nat -> bool

  val ltb : nat -> nat -> bool
 end

val in_dec : ('a1 -> 'a1 -> bool) -> 'a1 -> 'a1 list -> bool

val removelast : 'a1 list -> 'a1 list

val rev : 'a1 list -> 'a1 list

val map : ('a1 -> 'a2) -> 'a1 list -> 'a2 list

val flat_map : ('a1 -> 'a2 list) -> 'a1 list -> 'a2 list

val fold_left : ('a1 -> 'a2 -> 'a1) -> 'a2 list -> 'a1 -> 'a1

val fold_right : ('a2 -> 'a1 -> 'a1) -> 'a1 -> 'a2 list -> 'a1

val existsb : ('a1 -> bool) -> 'a1 list -> bool

val forallb : ('a1 -> bool) -> 'a1 list -> bool

val filter : ('a1 -> bool) -> 'a1 list -> 'a1 list

val find : ('a1 -> bool) -> 'a1 list -> 'a1 option

val firstn : nat -> 'a1 list -> 'a1 list

val skipn : nat -> 'a1 list -> 'a1 list

val nodup : ('a1 -> 'a1 -> bool) -> 'a1 list -> 'a1 list

type positive =
| XI of positive
| XO of positive
| XH

type n =
| N0
| Npos of positive

type z =
| Z0
| Zpos of positive
| Zneg of positive

module Pos :
 sig
  type mask =
  | IsNul
  | IsPos of positive
  | IsNeg
 end

module Coq_Pos :
 sig
  val succ : positive -> positive

  val add : positive -> positive -> positive

  val add_carry : positive -> positive -> positive

  val pred_double : positive -> positive

  type mask = Pos.mask =
  | IsNul
  | IsPos of positive
  | IsNeg

  val succ_double_mask : mask -> mask

  val double_mask : mask -> mask

  val double_pred_mask : positive -> mask

  val sub_mask : positive -> positive -> mask

  val sub_mask_carry : positive -> positive -> mask

  val mul : positive -> positive -> positive

  val size : positive -> positive

  val compare_cont : comparison -> positive -> positive -> comparison

  val compare : positive -> positive -> comparison

  val eqb : positive -> positive -> bool

  val iter_op : ('a1 -> 'a1 -> 'a1) -> positive -> 'a1 -> 'a1

  val to_nat : positive -> nat

  val of_succ_nat : nat -> positive

  val eq_dec : positive -> positive -> bool
 end

module N :
 sig
  val succ_double : n -> n

  val double : n -> n

  val add : n -> n -> n

  val sub : n -> n -> n

  val mul : n -> n -> n

  val compare : n -> n -> comparison

  val eqb : n -> n -> bool

  val leb : n -> n -> bool

  val ltb : n -> n -> bool

  val size : n -> n

  val pos_div_eucl : positive -> n -> n * n

  val div_eucl : n -> n -> n * n

  val div : n -> n -> n

  val modulo : n -> n -> n

  val to_nat : n -> nat

  val of_nat : nat -> n

  val eq_dec : n -> n -> bool
 end

type ascii =
| Ascii of bool * bool * bool * bool * bool * bool * bool * bool

val n_of_digits : bool list -> n

val n_of_ascii : ascii -> n

module Z :
 sig
  val double : z -> z

  val succ_double : z -> z

  val pred_double : z -> z

  val pos_sub : positive -> positive -> z

  val add : z -> z -> z

  val opp : z -> z

  val sub : z -> z -> z

  val compare : z -> z -> comparison

  val leb : z -> z -> bool

  val ltb : z -> z -> bool

  val eqb : z -> z -> bool

  val abs_N : z -> n

  val to_nat : z -> nat

  val of_nat : nat -> z

  val of_N : n -> z
 end

type string =
| EmptyString
| String of ascii * string

type str = n list

val b : string -> str

val eqb_str : str -> str -> bool

val str_eq_dec : str -> str -> bool

val prefixb : str -> str -> bool

val suffixb : str -> str -> bool

val index_byte : n -> str -> nat option

val last_index_byte : n -> str -> nat option

val split_on : n -> str -> str list

val join : str -> str list -> str

val ltb_str : str -> str -> bool

val leb_str : str -> str -> bool

val c_slash : n

val c_bslash : n

val c_lbr : n

val c_rbr : n

val c_eq : n

val c_comma : n

val c_star : n

val insert_sorted : ('a1 -> 'a1 -> bool) -> 'a1 -> 'a1 list -> 'a1 list

val isort : ('a1 -> 'a1 -> bool) -> 'a1 list -> 'a1 list

type 'a outcome =
| Ok of 'a
| Err of n
| Panic of n

val bind : 'a1 outcome -> ('a1 -> 'a2 outcome) -> 'a2 outcome

val is_panic : 'a1 outcome -> bool

val w_slice : n

val w_index : n

val w_nil : n

val w_regexp : n

val w_fuel : n

val c_unknown : n

val c_invalid : n

val c_notfound : n

val c_internal : n

val c_some : n

val zlen : str -> z

val slice : str -> z -> z -> str outcome

val zindex : n -> str -> z

val zlast_index : n -> str -> z

val has_byte : n -> str -> bool

val replace_first : str -> str -> str -> str

val replace_all_aux : str -> str -> nat -> str -> str

val replace_all : str -> str -> str -> str

val c_nl : n

type elem = { e_name : str; e_keys : (str * str) list }

type gpath = { p_target : str; p_elem : elem option list; p_element : str list }

type scalar =
| SStr of str
| SAscii of str
| SInt of z
| SUint of n
| SBool of bool
| SBytes of str
| SDecimal of (z * n) option
| SFloat of bool
| SOther

type tval =
| TScalar of scalar
| TJson of str
| TLeaflist of scalar option list

type plugin_answer =
| PErr of n
| PPaths of str list

type update = { u_path : gpath option; u_val : tval option;
                u_plugin : plugin_answer }

type ext_payload =
| XBad
| XStrategy of bool
| XOverrides of (str * (str * str) option) list

type extension =
| ERegistered of (n * ext_payload) option
| EOther

type rwpath = { rw_path : str; rw_iskey : bool; rw_attr : str }

type plugin = { pl_type : str; pl_version : str; pl_rw : rwpath list }

type target = { tg_id : str; tg_type : str; tg_version : str }

type nval = { nv_type : n; nv_blen : n; nv_opts : z list; nv_str : str option }

type stored = { sv_path : str; sv_deleted : bool; sv_val : nval }

type config = { cf_id : str; cf_values : stored list }

type env = { en_topo : target list; en_plugins : plugin list;
             en_size_limit : n }

type state = config list

val pair_leb : (str * str) -> (str * str) -> bool

val safe_string : n -> str -> str

val str_keys : (str * str) list -> str

val str_path_elem : elem option list -> str outcome

val root : str

val str_path : gpath option -> str outcome

val index_matches_aux : str option -> str -> str list

val index_matches : str -> str list

val remove_indices : str -> str

val anonymize_match : str -> str

val anonymize_indices : str -> str

val extract_one : str -> (str * str) outcome

val extract_all : str list -> (str * str) list outcome

val extract_index_names : str -> (str * str) list outcome

val last_elem : 'a1 list -> 'a1 outcome

val lookup_rw : str -> rwpath list -> rwpath option

val find_path_from_model :
  str -> rwpath list -> bool -> (bool * rwpath option) outcome

val is_alnum : n -> bool

val index_char_ok : n -> bool

val index_value_ok : str -> bool

val get_parent_path : str -> str outcome

val check_key_value : str -> rwpath -> nval -> unit outcome

val path_char_ok : n -> bool

val is_path_valid : str -> bool

val json_base_path : str -> str outcome

val mag_len : n -> n

val zsign_opt : z -> z

val dec_digits_pos : nat -> n -> str -> str

val dec_n : n -> str

val dec_z : z -> str

val vt_string : n

val vt_int : n

val vt_uint : n

val vt_bool : n

val vt_decimal : n

val vt_float : n

val vt_bytes : n

val vt_ll_string : n

val vt_ll_int : n

val vt_ll_uint : n

val vt_ll_bool : n

val vt_ll_decimal : n

val vt_ll_float : n

val vt_ll_bytes : n

val lenN : str -> n

val sumN : n list -> n

type ll_acc = { la_str : str list; la_int : z list; la_uint : n list;
                la_bool : bool list; la_bytes : str list; la_dec : z list;
                la_float : nat }

val la_empty : ll_acc

val leaf_list_collect : scalar option list -> ll_acc -> ll_acc outcome

val has_nil_elem : scalar option list -> bool

val mk_nval : n -> n -> z list -> str option -> nval

val handle_leaf_list : scalar option list -> nval outcome

val to_native : tval option -> nval outcome

val run_slices : nat -> z list -> z -> z -> unit outcome

val take_pairs : z list -> z list

val ll_bytes_walk : nat -> z -> z -> z list -> unit outcome

val leaf_guard : nval -> unit outcome

val next_token : bool -> bool -> str -> str * str

val strip_slash : str -> str

val split_path_aux : nat -> str -> str list

val split_path : str -> str list

val key_loop : nat -> str -> unit outcome

val tree_guard_aux : nat -> str -> unit outcome

val tree_guard : str -> unit outcome

val is_meta : n -> bool

val quote_meta : str -> str

val legal_class : str

val wildcard_regexp : str -> bool -> str

type tok =
| TLit of n
| TAny
| TLegal

type rend =
| EndExact
| EndOpen
| EndBoundary

val re_atoms : nat -> str -> (tok list * rend) option

val must_compile : str -> (tok list * rend) outcome

val legal_char : n -> bool

val re_match : tok list -> rend -> str -> bool

val extract_ext : n -> extension list -> ext_payload option outcome

val id_strategy : n

val id_overrides : n

val get_overrides : extension list -> (str * (str * str) option) list outcome

val get_strategy : extension list -> bool outcome

val find_target : env -> str -> target option

val find_plugin : env -> str -> str -> plugin option

val lookup_override :
  (str * (str * str) option) list -> str -> (str * str) option option

val resolve_target :
  env -> (str * (str * str) option) list -> str -> plugin outcome

type set_req = { s_prefix : gpath option; s_delete : gpath option list;
                 s_replace : update option list;
                 s_update : update option list; s_ext : extension list }

val path_target : gpath option -> str

val full_path : gpath option -> gpath option -> str outcome

val do_delete : rwpath list -> gpath option -> gpath option -> str outcome

val do_update :
  rwpath list -> gpath option -> update option -> str list outcome

type tinfo = { ti_id : str; ti_plugin : plugin; ti_updates : str list;
               ti_removes : str list }

val set_target_id : gpath option -> str -> str

val get_tinfo :
  env -> (str * (str * str) option) list -> tinfo list -> str ->
  (tinfo * tinfo list) outcome

val put_tinfo : tinfo -> tinfo list -> tinfo list

val set_deletes :
  env -> (str * (str * str) option) list -> gpath option -> gpath option list
  -> tinfo list -> tinfo list outcome

val set_updates :
  env -> (str * (str * str) option) list -> gpath option -> update option
  list -> tinfo list -> tinfo list outcome

val dedup_count : str list -> n

val set_handler : env -> set_req -> bool outcome

type get_req = { g_prefix : gpath option; g_path : gpath option list;
                 g_encoding : n; g_type : n; g_ext : extension list }

val enc_json : n

val enc_proto : n

val enc_json_ietf : n

val c_dash : n

val config_id : str -> str -> str -> str

val find_config : state -> str -> str -> str -> config option

val add_target :
  env -> state -> (str * (str * str) option) list -> str -> config outcome

val forall_guard : ('a1 -> unit outcome) -> 'a1 list -> unit outcome

val get_update : config -> n -> str -> bool outcome

val trim_slash : str -> str

val prefix_has_elems : gpath option -> bool

val get_paths :
  env -> state -> (str * (str * str) option) list -> gpath option -> gpath
  option list -> (str * config) list -> (str * str) list -> ((str * config)
  list * (str * str) list) option outcome

val get_updates :
  (str * config) list -> n -> (str * str) list -> bool -> bool outcome

val get_handler : env -> state -> get_req -> bool outcome

type sub_msg =
| MSubscribe of gpath option * gpath option list
| MPoll
| MOther

val subscribe_step : bool -> sub_msg -> bool outcome

val subscribe_handler : bool -> sub_msg list -> bool outcome

type lsq_req = { l_target : str; l_type : str; l_version : str;
                 l_ctx : set_req option }

val lsq_updates :
  rwpath list -> gpath option -> update option list -> str list -> str list
  outcome

val lsq_deletes :
  rwpath list -> gpath option -> gpath option list -> str list -> str list
  outcome

val lsq_merge : stored list -> str list -> str list -> stored list

val below_deleted : str list -> str -> bool

val prune : stored list -> stored list

val build_tree_guard : stored list -> unit outcome

val lsq_handler : env -> state -> lsq_req -> bool outcome

val capabilities_handler : bool outcome

val list_models_handler : bool outcome

val rollback_handler : n -> bool outcome

val admin_store_handler : bool outcome

val elems_ok : gpath -> bool

val opath_ok : gpath option -> bool

val scalar_ok : scalar -> bool

val tval_ok : tval -> bool

val update_ok : update option -> bool

val ext_ok : extension -> bool

val set_wire_ok : set_req -> bool

val get_wire_ok : get_req -> bool

val lsq_wire_ok : lsq_req -> bool

val stored_ok : stored -> bool

val state_ok : state -> bool

(* Model of pkg/utils/v2/tree/tree.go and pkg/utils/v3/tree/tree.go (the two files differ only in
   []*PathValue vs []PathValue), of utils.SplitPath / nextTokenIndex and of utils.IsPathBelow
   (pkg/utils/gnmiPathUtils.go).  Executable transcription, bugs included; no proofs here.

   Go value                         model
   map[string]interface{}           amap = association list (unique names; a write to an existing name
                                    replaces in place, a new name goes to the end; JSON output sorts names,
                                    so the order is never observable)
   []interface{} of a YANG list     NArr (entries in insertion order - observable in the JSON)
   leaf put by handleLeafValue      NLeaf gov: only the Go type class matters here (convertBasicType and the
                                    JSON kind); contents of decimal/float/bytes/leaf-list leaves belong to C17
   panic (slice bounds, index, nil map write)   Panic;   returned error   Err *)
From Coq Require Import List NArith ZArith Bool Ascii String.
From OC Require Import Base.Bytes.
Import ListNotations.
Open Scope N_scope.

Inductive outcome (A : Type) : Type := Ok (a : A) | Err | Panic.
Arguments Ok {A} a.
Arguments Err {A}.
Arguments Panic {A}.

Definition bind {A C} (x : outcome A) (f : A -> outcome C) : outcome C :=
  match x with Ok a => f a | Err => Err | Panic => Panic end.

(* configapi.TypedValue / configapi.PathValue *)
Record tv := { tv_type : N; tv_bytes : str; tv_opts : list Z }.
Record pv := { pv_path : str; pv_del : bool; pv_val : tv }.

(* ------------------------------------------------------------------ paths *)

(* nextTokenIndex: index of the first '/' that is neither inside [...] nor escaped; len(path) if none.
   The Go loop ranges over runes; all the characters it tests are ASCII, so it is byte-wise. *)
Fixpoint next_token_go (inb esc : bool) (i : nat) (p : str) : nat :=
  match p with
  | [] => i
  | c :: p' =>
    if c =? c_lbr then next_token_go true false (S i) p'
    else if c =? c_rbr then next_token_go (if esc then inb else false) false (S i) p'
    else if c =? c_bslash then next_token_go inb (negb esc) (S i) p'
    else if c =? c_slash then
      if negb inb && negb esc then i else next_token_go inb false (S i) p'
    else next_token_go inb false (S i) p'
  end.

Definition next_token_index (p : str) : nat := next_token_go false false O p.

Definition strip_slash (p : str) : str :=
  match p with
  | c :: r => if c =? c_slash then r else p
  | [] => []
  end.

(* the loop of SplitPath; every round consumes at least one byte, so len(path) rounds are enough *)
Fixpoint split_loop (fuel : nat) (p : str) : list str :=
  match fuel, p with
  | _, [] => []
  | O, _ => []
  | S f, _ =>
    let i := next_token_index p in
    firstn i p :: split_loop f (strip_slash (skipn i p))
  end.

Definition split_path (p : str) : list str :=
  let q := strip_slash p in split_loop (List.length q) q.

Definition is_root (p : str) : bool := eqb_str p [] || eqb_str p [c_slash].

Definition boundary (c : N) : bool := (c =? c_slash) || (c =? c_lbr).

(* utils.IsPathBelow(path, ancestor) *)
Definition is_path_below (p a : str) : bool :=
  if is_root a then negb (eqb_str p a) && negb (is_root p)
  else
    (List.length a <? List.length p)%nat && prefixb a p &&
    match nth_error p (List.length a) with
    | Some c => boundary c
    | None => false
    end.

Definition mem (x : str) (l : list str) : bool := existsb (eqb_str x) l.

(* the loop of isBelowDeletedPath: pre = path[:i], rest = path[i:] *)
Fixpoint below_scan (dels : list str) (pre rest : str) : bool :=
  match rest with
  | [] => false
  | c :: r => (boundary c && mem pre dels) || below_scan dels (pre ++ [c]) r
  end.

(* isBelowDeletedPath(path, deletedPaths); dels = the keys of the Go set *)
Definition below_deleted (path : str) (dels : list str) : bool :=
  match dels with
  | [] => false
  | _ =>
    (negb (eqb_str path [c_slash]) && (mem [c_slash] dels || mem [] dels)) ||
    match path with
    | [] => false
    | c :: r => below_scan dels [c] r
    end
  end.

(* ------------------------------------------------------------------ prune *)

Definition pv_leb (a b : pv) : bool := leb_str (pv_path a) (pv_path b).

(* PrunePathValues(paths, leaveTopDeletedPaths).  sort.Slice is modelled by a stable insertion sort:
   with distinct paths the result is the unique sorted permutation. *)
Definition prune (leave : bool) (pvs : list pv) : list pv :=
  let sorted := isort pv_leb pvs in
  let dels := map pv_path (filter pv_del sorted) in
  filter (fun p => negb (below_deleted (pv_path p) dels) && (negb (pv_del p) || leave)) sorted.

(* PrunePathMap: the map is an association list path -> value; the result map is keyed by path, so the
   sorted list of the survivors is a faithful view of it *)
Definition prune_map (leave : bool) (m : list pv) : list pv := prune leave m.

(* ------------------------------------------------------------------ leaves *)

(* what handleLeafValue stores, by Go type class *)
Inductive gov :=
| GStr (s : str)        (* string *)
| GInt (z : Z)          (* int *)
| GUint (n : N)         (* uint *)
| GBool (b : bool)
| GOpq (ty : str).      (* any other Go type, named as reflect prints it; content not modelled *)

Inductive leafres := LNone | LVal (g : gov) | LPanic.

Definition be_nat (bs : str) : N := fold_left (fun acc b => acc * 256 + b) bs 0.

Definition wrap64 (z : Z) : Z :=
  let m := Z.modulo z 18446744073709551616%Z in
  if Z.geb m 9223372036854775808%Z then (m - 18446744073709551616)%Z else m.

(* TypedInt.Int(): SetBytes, Neg when TypeOpts[1] == 1, int(x.Int64()) *)
Definition int_val (v : tv) : Z :=
  let z := wrap64 (Z.of_N (be_nat (tv_bytes v))) in
  match tv_opts v with
  | _ :: 1%Z :: _ => wrap64 (- z)
  | _ => z
  end.

(* TypedUint.Uint() *)
Definition uint_val (v : tv) : N := N.modulo (be_nat (tv_bytes v)) 18446744073709551616.

(* fmt "%d" *)
Fixpoint dec_digits (fuel : nat) (n : N) (acc : str) : str :=
  match fuel with
  | O => acc
  | S f =>
    let acc' := (48 + N.modulo n 10) :: acc in
    if N.div n 10 =? 0 then acc' else dec_digits f (N.div n 10) acc'
  end.

Definition dec_of_N (n : N) : str := dec_digits (S (N.to_nat (N.log2 n))) n [].

Definition dec_of_Z (z : Z) : str :=
  if Z.ltb z 0 then 45 :: dec_of_N (Z.abs_N z) else dec_of_N (Z.to_N z).

(* utils.StrDecimal64(Decimal64()) (repo commit 0d53a20): the sign, at least one integer digit and exactly
   <precision> fraction digits of |digits| (as uint64, so MinInt64 prints as 9223372036854775808 scaled);
   precision 0 prints the integer alone.  The precision is TypeOpts[0] truncated to uint8. *)
Definition pad_zeros (w : nat) (s : str) : str := repeat 48 (w - List.length s) ++ s.

Definition dec_str (v : tv) : option str :=
  match tv_opts v with
  | [] => Some [48]
  | p :: rest =>
    let prec := Z.to_nat (Z.modulo p 256) in
    let d0 := wrap64 (Z.of_N (be_nat (tv_bytes v))) in
    let digits := match rest with 1%Z :: _ => wrap64 (- d0) | _ => d0 end in
    match prec with
    | O => Some (dec_of_Z digits)
    | _ =>
      let text := pad_zeros (S prec) (dec_of_N (Z.abs_N digits)) in
      let k := (List.length text - prec)%nat in
      let body := firstn k text ++ [46] ++ skipn k text in
      Some (if Z.ltb digits 0 then 45 :: body else body)
    end
  end.

Definition wide (v : tv) : bool :=
  match tv_opts v with
  | w :: _ => Z.ltb 32 w
  | [] => false
  end.

(* handleLeafValue: LNone = nothing stored (ValueType_EMPTY) *)
Definition leaf_of (rfc : bool) (v : tv) : leafres :=
  match tv_type v with
  | 0 => LNone
  | 1 => LVal (GStr (tv_bytes v))
  | 2 => if rfc && wide v then LVal (GStr (dec_of_Z (int_val v))) else LVal (GInt (int_val v))
  | 3 => if rfc && wide v then LVal (GStr (dec_of_N (uint_val v))) else LVal (GUint (uint_val v))
  | 4 => match tv_bytes v with
         | [] => LPanic
         | b :: _ => LVal (GBool (b =? 1))
         end
  | 5 => if rfc then match dec_str v with Some s => LVal (GStr s) | None => LVal (GOpq (B "string")) end
         else LVal (GOpq (B "float64"))
  | 6 => LVal (GOpq (if rfc then B "string" else B "float32"))
  | 7 => LVal (GOpq (B "[]uint8"))
  | 8 => LVal (GOpq (B "[]string"))
  | 9 => match tv_opts v with
         | [] => LPanic
         | _ => LVal (GOpq (if rfc && wide v then B "[]string" else B "[]int64"))
         end
  | 10 => match tv_opts v with
          | [] => LPanic
          | _ => LVal (GOpq (if rfc && wide v then B "[]string" else B "[]uint64"))
          end
  | 11 => LVal (GOpq (B "[]bool"))
  | 12 => LVal (GOpq (if rfc then B "[]string" else B "[]float64"))
  | 13 => LVal (GOpq (B "[]float32"))
  | 14 => LVal (GOpq (B "[][]uint8"))
  | t => LVal (GStr (B "unexpected " ++ dec_of_N t))
  end.

(* ------------------------------------------------------------------ tree *)

Inductive node :=
| NLeaf (g : gov)
| NMap (m : list (str * node))
| NArr (l : list node).

Definition amap := list (str * node).

Fixpoint mget (k : str) (m : amap) : option node :=
  match m with
  | [] => None
  | (k', v) :: m' => if eqb_str k k' then Some v else mget k m'
  end.

Fixpoint mset (k : str) (v : node) (m : amap) : amap :=
  match m with
  | [] => [(k, v)]
  | (k', v') :: m' => if eqb_str k k' then (k, v) :: m' else (k', v') :: mset k v m'
  end.

(* convertBasicType *)
Definition conv_gov (g : gov) : str :=
  match g with
  | GStr s => s
  | GInt z => dec_of_Z z
  | GUint n => dec_of_N n
  | GBool b => if b then B "true" else B "false"
  | GOpq ty => B "<" ++ ty ++ B " Value>"
  end.

Definition conv (n : node) : str :=
  match n with
  | NLeaf g => conv_gov g
  | NMap _ => B "<map[string]interface {} Value>"
  | NArr _ => B "<[]interface {} Value>"
  end.

(* keyMap[keyName] = keyVal *)
Fixpoint kset (k v : str) (K : list (str * str)) : list (str * str) :=
  match K with
  | [] => [(k, v)]
  | (k', v') :: K' => if eqb_str k k' then (k, v) :: K' else (k', v') :: kset k v K'
  end.

(* s[lo:hi]; None = slice bounds out of range *)
Definition slice (s : str) (lo hi : nat) : option str :=
  if (lo <=? hi)%nat && (hi <=? List.length s)%nat then Some (firstn (hi - lo) (skipn lo s)) else None.

(* the key loop: for strings.Contains(keyString, "=") { ... } *)
Fixpoint parse_keys (fuel : nat) (ks : str) (K : list (str * str)) : outcome (list (str * str)) :=
  match fuel with
  | O => Ok K
  | S f =>
    match index_byte c_eq ks with
    | None => Ok K
    | Some e =>
      let lo := match index_byte c_lbr ks with Some b => S b | None => O end in
      match slice ks lo e with
      | None => Panic
      | Some kname =>
        match index_byte c_rbr ks with
        | None => Panic
        | Some b2 =>
          match slice ks (S e) b2 with
          | None => Panic
          | Some kval => parse_keys f (skipn (S b2) ks) (kset kname kval K)
          end
        end
      end
    end
  end.

(* list name and key map of a path element that contains '=' *)
Definition parse_elem (e : str) : outcome (str * list (str * str)) :=
  match index_byte c_lbr e with
  | None => Panic
  | Some b =>
    bind (parse_keys (S (List.length e)) (skipn b e) []) (fun K => Ok (firstn b e, K))
  end.

(* the inner loop over keyMap for one existing entry (Go ranges over the map in an unspecified order;
   the final counter and the final listItemMap do not depend on it, see TreeProofs) *)
Fixpoint scan_entry (K : list (str * str)) (em : amap) (i cnt : nat) (last : option nat) : nat * option nat :=
  match K with
  | [] => (cnt, last)
  | (k, v) :: K' =>
    match mget k em with
    | None => scan_entry K' em i cnt last
    | Some l =>
      if eqb_str (conv l) v then scan_entry K' em i (S cnt) (Some i)
      else (O, last)                                  (* foundkeys = 0; continue existingListItemsLoop *)
    end
  end.

(* existingListItemsLoop: foundkeys is not reset between entries *)
Fixpoint search (K : list (str * str)) (l : list node) (i cnt : nat) (last : option nat)
  : outcome (nat * option nat) :=
  match l with
  | [] => Ok (cnt, last)
  | NMap em :: l' => let r := scan_entry K em i cnt last in search K l' (S i) (fst r) (snd r)
  | _ :: _ => Err
  end.

Fixpoint replace_nth {A} (i : nat) (x : A) (l : list A) : list A :=
  match l, i with
  | [], _ => []
  | _ :: l', O => x :: l'
  | y :: l', S j => y :: replace_nth j x l'
  end.

Definition keymap_node (K : list (str * str)) : amap := map (fun kv => (fst kv, NLeaf (GStr (snd kv)))) K.

(* refinePath is re-split at the next level *)
Definition resplit (rest : list str) : list str := split_path (c_slash :: join [c_slash] rest).

(* one level of addPathToTree.  nil = the node is a nil map (listItemMap left nil when the key map is
   empty): reads succeed, any write panics.  rec = the recursive call. *)
Definition add_level (rec : list str -> tv -> bool -> amap -> outcome amap)
           (rfc : bool) (elems : list str) (v : tv) (nil : bool) (m : amap) : outcome amap :=
  match elems with
  | [] => Panic                                        (* pathelems[0] on an empty slice *)
  | [e] =>
    match leaf_of rfc v with
    | LNone => Ok m
    | LPanic => Panic
    | LVal g => if nil then Panic else Ok (mset e (NLeaf g) m)
    end
  | e :: rest =>
    if contains e [c_eq] then
      match join [c_slash] rest with
      | [] => Ok m
      | _ =>
        bind (parse_elem e) (fun nk =>
          let name := fst nk in
          let K := snd nk in
          let cont (m1 : amap) (l : list node) :=
            bind (search K l O O None) (fun r =>
              if (fst r <? List.length K)%nat then
                bind (rec (resplit rest) v false (keymap_node K)) (fun en =>
                  Ok (mset name (NArr (l ++ [NMap en])) m1))
              else
                match snd r with
                | Some i =>
                  match nth_error l i with
                  | Some (NMap em) =>
                    bind (rec (resplit rest) v false em) (fun en =>
                      Ok (mset name (NArr (replace_nth i (NMap en) l)) m1))
                  | _ => Panic                          (* unreachable: a matched entry is a map *)
                  end
                | None => bind (rec (resplit rest) v true []) (fun _ => Ok m1)
                end) in
          match mget name m with
          | None => if nil then Panic else cont (mset name (NArr []) m) []
          | Some (NArr l) => cont m l
          | Some _ => Err
          end)
      end
    else
      match join [c_slash] rest with
      | [] => Ok m
      | _ =>
        match mget e m with
        | None =>
          bind (rec (resplit rest) v false []) (fun c => if nil then Panic else Ok (mset e (NMap c) m))
        | Some (NMap c) => bind (rec (resplit rest) v false c) (fun c' => Ok (mset e (NMap c') m))
        | Some _ => Err
        end
      end
  end.

Fixpoint add_fuel (fuel : nat) (rfc : bool) (elems : list str) (v : tv) (nil : bool) (m : amap) : outcome amap :=
  match fuel with
  | O => Panic
  | S f => add_level (add_fuel f rfc) rfc elems v nil m
  end.

(* addPathToTree on the split path; re-splitting never lengthens the element list *)
Definition add_elems (rfc : bool) (elems : list str) (v : tv) (nil : bool) (m : amap) : outcome amap :=
  add_fuel (List.length elems) rfc elems v nil m.

Definition add_path (rfc : bool) (path : str) (v : tv) (m : amap) : outcome amap :=
  add_elems rfc (split_path path) v false m.

Fixpoint add_all (rfc : bool) (pvs : list pv) (m : amap) : outcome amap :=
  match pvs with
  | [] => Ok m
  | p :: pvs' => bind (add_path rfc (pv_path p) (pv_val p) m) (add_all rfc pvs')
  end.

(* BuildTree(values, jsonRFC7951): the document before json.MarshalIndent *)
Definition build_tree (rfc : bool) (pvs : list pv) : outcome node :=
  bind (add_all rfc (prune false pvs) []) (fun m => Ok (NMap m)).

(* Model of the textual path codec of onos-config (property C16).

   Transcribed from /repo:
     pkg/utils/gnmiPathUtils.go   StrPath, StrPathElem, strPathV03, writeSafeString, SplitPath,
                                  nextTokenIndex, ParseGNMIElements, parseElement, parseKey,
                                  findUnescaped
     pkg/utils/path/path.go       GetParentPath, IndexAllowedChars / CheckPathIndexIsValid,
                                  validPathRegexp / IsPathValid
     pkg/utils/v2/values/gnmi_change.go  PathValuesToGnmiChange  (path construction only)
     pkg/northbound/gnmi/v2/set_utils.go newUpdateResult         (path construction only)
     pkg/northbound/gnmi/v2/get_utils.go createUpdate, PROTO branch (path reconstruction only)
     pkg/northbound/gnmi/v2/set.go       doUpdateOrReplace / doDelete: the stored text is
                                         StrPath(prefix) ++ StrPath(path) (prefix skipped when "/")

   Conventions.  Go strings are byte lists.  Every special character of the codec is ASCII and the
   functions that range over runes (writeSafeString, nextTokenIndex) are byte-equivalent on valid
   UTF-8 (writeSafeString re-encodes each rune; an invalid byte would become U+FFFD - protobuf
   refuses invalid UTF-8 in string fields, the harness generates valid UTF-8 only).

   A Go map[string]string (PathElem.Key) is an association list kept SORTED by key name without
   duplicates: that is the canonical form of the map, `map_put` is `m[k] = v` on it and the
   harness prints maps in that order.  StrPathElem sorts the key names itself (sort.Strings), which
   the model does too (`isort`), so str_path_elem is defined on every association list.

   Positions.  findUnescaped returns (unescaped text, index i of the match or -1).  The callers use
   the index only to slice the rest of the input (pathElement[keyStart:], s[1+iEq+1:],
   rhs[iClosBr+1:]); the model returns that rest directly: `Some rest` with rest = s[i+1:], `None`
   for -1.  No slice expression of these functions can go out of range; the one indexing that could
   (s[0] in parseKey) is modelled with an explicit RPanic outcome and shown unreachable. *)
From Coq Require Import List NArith Bool.
From OC Require Import Base.Bytes.
Import ListNotations.
Open Scope N_scope.

(* ------------------------------------------------------------------ data -- *)
Definition kmap := list (str * str).
Record elem := mkElem { e_name : str; e_keys : kmap }.
Definition gpath := list elem.

Definition has (c : N) (s : str) : bool := existsb (fun x => x =? c) s.
Definition is_empty (s : str) : bool := match s with [] => true | _ => false end.

(* ------------------------------------------------------- writeSafeString -- *)
(* for _, c := range s { if c == esc || c == '\\' { WriteRune('\\') }; WriteRune(c) } *)
Fixpoint safe (esc : N) (s : str) : str :=
  match s with
  | [] => []
  | c :: s' => if (c =? esc) || (c =? c_bslash) then c_bslash :: c :: safe esc s' else c :: safe esc s'
  end.

(* ----------------------------------------------------------- StrPathElem -- *)
Definition key_leb (a b : str * str) : bool := leb_str (fst a) (fst b).

(* '[' k '=' safe(v, ']') ']'  - the key NAME is written raw (b.WriteString(k)) *)
Definition render_key (kv : str * str) : str :=
  c_lbr :: fst kv ++ c_eq :: safe c_rbr (snd kv) ++ [c_rbr].

(* keys := sorted key names; for each ... ; nothing at all when len(elm.Key) == 0 *)
Definition render_keys (ks : kmap) : str := concat (map render_key (isort key_leb ks)).

(* the text of one element without its leading '/' *)
Definition render (e : elem) : str := safe c_slash (e_name e) ++ render_keys (e_keys e).

Definition str_path_elem (p : gpath) : str := concat (map (fun e => c_slash :: render e) p).

(* strPathV03: "/" + strings.Join(path.Element, "/") *)
Definition str_path_v03 (element : list str) : str := c_slash :: join [c_slash] element.

(* StrPath: nil -> "/"; len(Elem) != 0 -> v04; len(Element) != 0 -> v03; else "/" *)
Definition str_path_msg (p : gpath) (element : list str) : str :=
  match p, element with
  | _ :: _, _ => str_path_elem p
  | [], _ :: _ => str_path_v03 element
  | [], [] => [c_slash]
  end.
Definition str_path (p : gpath) : str := str_path_msg p [].

(* -------------------------------------------------------- nextTokenIndex -- *)
(* one iteration of the switch; None = "return i" *)
Definition tok_step (inb esc : bool) (c : N) : option (bool * bool) :=
  if c =? c_lbr then Some (true, false)
  else if c =? c_rbr then Some ((if esc then inb else false), false)
  else if c =? c_bslash then Some (inb, negb esc)
  else if c =? c_slash then (if negb inb && negb esc then None else Some (inb, false))
  else Some (inb, false).

(* (path[:i], path[i:]) for i = nextTokenIndex(path), started in state (inb, esc) *)
Fixpoint next_token (inb esc : bool) (path : str) : str * str :=
  match path with
  | [] => ([], [])
  | c :: rest =>
    match tok_step inb esc c with
    | None => ([], path)
    | Some (inb', esc') => let (t, r) := next_token inb' esc' rest in (c :: t, r)
    end
  end.

(* ------------------------------------------------------------- SplitPath -- *)
Definition strip_slash (s : str) : str :=
  match s with c :: s' => if c =? c_slash then s' else s | [] => [] end.

(* the for-loop; every iteration shortens `path`, fuel = bound on the number of iterations *)
Fixpoint split_loop (fuel : nat) (path : str) : list str :=
  match fuel with
  | O => []
  | S f =>
    match path with
    | [] => []
    | _ => let (part, rest) := next_token false false path in part :: split_loop f (strip_slash rest)
    end
  end.

Definition split_path (path : str) : list str :=
  let p := strip_slash path in split_loop (S (List.length p)) p.

(* --------------------------------------------------------- findUnescaped -- *)
(* the fast track: no backslash anywhere in s *)
Fixpoint find_fast (c : N) (s : str) : str * option str :=
  match s with
  | [] => ([], None)
  | ch :: s' => if ch =? c then ([], Some s') else let (u, r) := find_fast c s' in (ch :: u, r)
  end.

(* the loop: a backslash that is not the last byte is dropped and the next byte copied verbatim *)
Fixpoint find_slow (c : N) (s : str) : str * option str :=
  match s with
  | [] => ([], None)
  | ch :: s' =>
    if ch =? c then ([], Some s')
    else if ch =? c_bslash then
      match s' with
      | [] => ([ch], None)
      | ch2 :: s'' => let (u, r) := find_slow c s'' in (ch2 :: u, r)
      end
    else let (u, r) := find_slow c s' in (ch :: u, r)
  end.

Definition find_unescaped (c : N) (s : str) : str * option str :=
  if has c_bslash s then find_slow c s else find_fast c s.

(* ---------------------------------------------------- parseKey / Element -- *)
Inductive perr := ENoElemName | ENoOpen | ENoEq | ENoKeyName | ENoClose | ENoKeyValue.
Inductive res (A : Type) := ROk (a : A) | RErr (e : perr) | RPanic | RFuel.
Arguments ROk {A} a.
Arguments RErr {A} e.
Arguments RPanic {A}.
Arguments RFuel {A}.

(* keys[k] = v on the canonical (sorted, duplicate-free) association list *)
Fixpoint map_put (k v : str) (m : kmap) : kmap :=
  match m with
  | [] => [(k, v)]
  | (k', v') :: m' =>
    if eqb_str k k' then (k, v) :: m'
    else if ltb_str k k' then (k, v) :: m
    else (k', v') :: map_put k v m'
  end.

Definition parse_key (s : str) : res (str * str * str) :=
  match s with
  | [] => RPanic                                   (* s[0] *)
  | c0 :: s1 =>
    if negb (c0 =? c_lbr) then RErr ENoOpen
    else
      let (k, r) := find_unescaped c_eq s1 in
      match r with
      | None => RErr ENoEq
      | Some rhs =>
        if is_empty k then RErr ENoKeyName
        else
          let (v, r2) := find_unescaped c_rbr rhs in
          match r2 with
          | None => RErr ENoClose
          | Some next => if is_empty v then RErr ENoKeyValue else ROk (k, v, next)
          end
      end
  end.

(* for keyPart != "" { k, v, nextKey, err := parseKey(keyPart); ...; keys[k] = v; keyPart = nextKey } *)
Fixpoint parse_keys (fuel : nat) (keyPart : str) (keys : kmap) : res kmap :=
  match keyPart with
  | [] => ROk keys
  | _ =>
    match fuel with
    | O => RFuel
    | S f =>
      match parse_key keyPart with
      | ROk (k, v, next) => parse_keys f next (map_put k v keys)
      | RErr e => RErr e
      | RPanic => RPanic
      | RFuel => RFuel
      end
    end
  end.

Definition parse_element (pe : str) : res elem :=
  let (name, r) := find_unescaped c_lbr pe in
  match r with
  | None => ROk (mkElem name [])
  | Some rest =>
    if is_empty name then RErr ENoElemName
    else
      let keyPart := c_lbr :: rest in               (* pathElement[keyStart:] *)
      match parse_keys (List.length keyPart) keyPart [] with
      | ROk ks => ROk (mkElem name ks)
      | RErr e => RErr e
      | RPanic => RPanic
      | RFuel => RFuel
      end
  end.

(* ParseGNMIElements *)
Fixpoint parse_gnmi_elements (elms : list str) : res gpath :=
  match elms with
  | [] => ROk []
  | e :: es =>
    match parse_element e with
    | ROk pe =>
      match parse_gnmi_elements es with
      | ROk ps => ROk (pe :: ps)
      | other => other
      end
    | RErr x => RErr x
    | RPanic => RPanic
    | RFuel => RFuel
    end
  end.

(* newUpdateResult, PathValuesToGnmiChange: ParseGNMIElements(SplitPath(text)) *)
Definition parse_path (s : str) : res gpath := parse_gnmi_elements (split_path s).

(* --------------------------------------------------------- GetParentPath -- *)
(* i := strings.LastIndex(path, "/"); if i <= 0 { return "" }; return path[0:i] *)
Definition get_parent (path : str) : str :=
  match last_index_byte c_slash path with
  | Some (S i) => firstn (S i) path
  | _ => []
  end.

(* --------------------------------------- createUpdate's path reconstruction -- *)
Fixpoint trim_left_slash (s : str) : str :=
  match s with
  | c :: s' => if c =? c_slash then trim_left_slash s' else s
  | [] => []
  end.
Fixpoint trim_right_slash (s : str) : str :=
  match s with
  | [] => []
  | c :: s' =>
    match trim_right_slash s' with
    | [] => if c =? c_slash then [] else [c]
    | t => c :: t
    end
  end.
(* strings.Trim(p, "/") *)
Definition trim_slashes (s : str) : str := trim_right_slash (trim_left_slash s).

(* ParseGNMIElements(strings.Split(strings.Trim(cv.Path, "/"), "/")) *)
Definition create_update_path (s : str) : res gpath :=
  parse_gnmi_elements (split_on c_slash (trim_slashes s)).

(* ----------------------------------------- the alphabets of accepted texts -- *)
Definition between (lo hi c : N) : bool := (lo <=? c) && (c <=? hi).
Definition alnum (c : N) : bool := between 97 122 c || between 65 90 c || between 48 57 c.

(* IndexAllowedChars = ^([a-zA-Z0-9\*\-\._])+$   (CheckPathIndexIsValid: true = accepted) *)
Definition index_char (c : N) : bool := alnum c || (c =? 42) || (c =? 45) || (c =? 46) || (c =? 95).
Definition index_allowed (s : str) : bool := negb (is_empty s) && forallb index_char s.

(* validPathRegexp = (/[a-zA-Z0-9:=\-\._[\]]+)+ ; IsPathValid: FindString(path) == path *)
Definition valid_char (c : N) : bool :=
  alnum c || (c =? 58) || (c =? 61) || (c =? 45) || (c =? 46) || (c =? 95) || (c =? 91) || (c =? 93).
(* seg = have we seen at least one class character since the last '/' *)
Fixpoint valid_from (seg : bool) (s : str) : bool :=
  match s with
  | [] => seg
  | c :: s' => if c =? c_slash then seg && valid_from false s'
               else valid_char c && valid_from true s'
  end.
Definition is_path_valid (s : str) : bool :=
  match s with
  | c :: s' => (c =? c_slash) && valid_from false s'
  | [] => true                                     (* FindString finds nothing: "" == "" *)
  end.

(* YANG identifiers, optionally module-prefixed: letters, digits, '_', '-', '.', ':' *)
Definition ident_char (c : N) : bool := alnum c || (c =? 95) || (c =? 45) || (c =? 46) || (c =? 58).
Definition ident (s : str) : bool := negb (is_empty s) && forallb ident_char s.

(* the path text the Set handler works with: StrPath(prefix) ++ StrPath(path) unless the prefix text is "/" *)
Definition set_path_text (prefix p : gpath) : str :=
  match prefix with
  | [] => str_path p
  | _ => str_path prefix ++ str_path p
  end.

(* ------------------------------------------------- property predicates -- *)
(* The hypotheses of the C16 theorems, as boolean predicates; extracted and used as the guards of
   the monitors that run on the implementation's observations. *)

(* the tokenizer's bracket state across the raw text of a key (no backslash in a key name; in a
   value a ']' is written escaped and does not close): None = a '/' met outside brackets *)
Fixpoint scan_open (closes : bool) (inb : bool) (s : str) : option bool :=
  match s with
  | [] => Some inb
  | c :: s' =>
    if c =? c_lbr then scan_open closes true s'
    else if c =? c_rbr then scan_open closes (if closes then false else inb) s'
    else if c =? c_slash then (if inb then scan_open closes inb s' else None)
    else scan_open closes inb s'
  end.

Definition key_unsplit (k v : str) : bool :=
  match scan_open true true k with
  | Some b => match scan_open false b v with Some _ => true | None => false end
  | None => false
  end.

(* a key/value pair that survives rendering and re-parsing: the key NAME is written raw, so it must
   not contain what parseKey interprets ('=' ends it, '\' is dropped by findUnescaped); a ']' in it
   closes the bracket for the tokenizer, which is harmless unless a '/' follows before the next '['
   (key_unsplit; always true when the name has no ']') *)
Definition key_ok (kv : str * str) : bool :=
  negb (is_empty (fst kv)) && negb (has c_eq (fst kv)) && negb (has c_bslash (fst kv))
  && negb (is_empty (snd kv))
  && key_unsplit (fst kv) (snd kv).

(* strictly ascending key names: the canonical form of a Go map *)
Fixpoint keys_sorted (ks : kmap) : bool :=
  match ks with
  | kv1 :: (kv2 :: _) as t => ltb_str (fst kv1) (fst kv2) && keys_sorted t
  | _ => true
  end.

Definition no_keys (e : elem) : bool := match e_keys e with [] => true | _ => false end.

(* last = the element is the last one of its path *)
Definition elem_ok (last : bool) (e : elem) : bool :=
  negb (has c_lbr (e_name e))
  && forallb key_ok (e_keys e) && keys_sorted (e_keys e)
  && (negb (is_empty (e_name e)) || (negb last && no_keys e)).

Fixpoint wf_gpath (p : gpath) : bool :=
  match p with
  | [] => true
  | [e] => elem_ok true e
  | e :: p' => elem_ok false e && wf_gpath p'
  end.

(* no '/' anywhere in the text of the element *)
Definition slash_free (e : elem) : bool :=
  negb (has c_slash (e_name e))
  && forallb (fun kv => negb (has c_slash (fst kv)) && negb (has c_slash (snd kv))) (e_keys e).

(* what the Set handler lets through (a superset of it): YANG identifiers as element and key
   names, key values over IndexAllowedChars, canonical key order *)
Definition accepted_elem (e : elem) : bool :=
  ident (e_name e)
  && forallb (fun kv => ident (fst kv) && index_allowed (snd kv)) (e_keys e)
  && keys_sorted (e_keys e).
Definition accepted_gpath (p : gpath) : bool :=
  match p with [] => false | _ => forallb accepted_elem p end.

(* Model of pkg/store/v2/configuration/configuration.go as far as path values are concerned:
     store()     - writes a map of path values into the Atomix map "configurations-<id>"
     populate()  - loads the committed map into Configuration.Values and the applied map into
                   Status.Applied.Values (two Atomix maps since the repair 6c3f66e)
     Update / UpdateStatus - path-value write first, version-checked entry write afterwards
   plus the two writers of the proposal controller (commit, apply).  No proofs here. *)
From Coq Require Import List NArith Bool.
From OC Require Import Base.Bytes Model.Merge.
Import ListNotations.
Open Scope N_scope.

(* store(ctx, store, values) (repaired, 3126412):
     pruned := tree.PrunePathMap(values, true)
     for _, pv := range values {
        entry, err := store.Get(pv.Path)
        not found:            if pruned has pv.Path { Insert(pv.Path, pv); clearDeletedAncestors(pv) }
        found, not in pruned: Remove(pv.Path)
        found, in pruned:     if pv.Index != entry.Value.Index { Update(pv.Path, pv); clearDeletedAncestors(pv) }
     }
     Commit()
   clearDeletedAncestors(pv): for a live pv, every ancestor at a path element boundary that is not a key of
   `values` and is stored as a tombstone is removed.
   All reads see the map as it was before the transaction; other keys are not touched *)
Definition clear_deleted_ancestors (atomix values : cfgmap) (pv : path_value) (acc : cfgmap) : cfgmap :=
  if pv_deleted pv then acc else
  fold_left (fun a anc =>
               if map_has anc values then a else
               match map_get anc atomix with
               | Some e => if pv_deleted e then map_del anc a else a
               | None => a
               end) (boundary_ancestors (pv_path pv)) acc.

Definition store_step (atomix pruned values : cfgmap) (acc : cfgmap) (pv : path_value) : cfgmap :=
  match map_get (pv_path pv) atomix with
  | None => if map_has (pv_path pv) pruned
            then clear_deleted_ancestors atomix values pv (map_set (pv_path pv) pv acc) else acc
  | Some e =>
    if negb (map_has (pv_path pv) pruned) then map_del (pv_path pv) acc
    else if negb (pv_index pv =? pv_index e)
         then clear_deleted_ancestors atomix values pv (map_set (pv_path pv) pv acc)
    else acc
  end.

Definition store_write (atomix values : cfgmap) : cfgmap :=
  fold_left (store_step atomix (prune_path_map values true) values) (map snd values) atomix.

(* reconcileCommit + configurations.Update on the committed map alone (inline copies left aside) *)
Definition persist_commit (atomix : cfgmap) (index : N) (change : cfgmap) : cfgmap :=
  store_write atomix (commit_merge index change atomix).

(* The configuration ENTRY (map "configurations") is the whole Configuration message.  Update() clears
   Values before writing it but leaves Status.Applied.Values as populated; UpdateStatus() clears
   Status.Applied.Values but leaves Values as populated.  So the entry carries a stale inline copy of one of the
   two maps, and populate() only ADDS the Atomix maps' entries on top of it.
     cs_map   the Atomix map configurations-<id>          (committed path values)
     cs_amap  the Atomix map configurations-<id>-applied  (applied path values; its own map since 6c3f66e)
     cs_ev    Values inline in the entry              cs_ea   Status.Applied.Values inline in the entry *)
Record cfg_state := mkCfg { cs_map : cfgmap; cs_amap : cfgmap; cs_ev : cfgmap; cs_ea : cfgmap }.

Definition overlay (embedded atomix : cfgmap) : cfgmap :=
  fold_left (fun acc kv => map_set (fst kv) (snd kv) acc) atomix embedded.

(* configurations.Get: what a reader sees *)
Definition view_values (s : cfg_state) : cfgmap := overlay (cs_ev s) (cs_map s).
Definition view_applied (s : cfg_state) : cfgmap := overlay (cs_ea s) (cs_amap s).

(* Get; config.Values = values; Update(config) - the writer did not touch Status.Applied.Values *)
Definition cfg_update (s : cfg_state) (values : cfgmap) : cfg_state :=
  mkCfg (store_write (cs_map s) values) (cs_amap s) [] (view_applied s).

(* Get; UpdateStatus(config) by a writer that touched neither map (proposal initialize / abort, configuration
   and mastership controllers) *)
Definition status_update (s : cfg_state) : cfg_state :=
  mkCfg (cs_map s) (store_write (cs_amap s) (view_applied s)) (view_values s) [].

(* proposal reconcileCommit *)
Definition commit_update (s : cfg_state) (index : N) (change : cfgmap) : cfg_state :=
  cfg_update s (commit_merge index change (view_values s)).

(* proposal reconcileApply after a successful device Set *)
Definition apply_update (s : cfg_state) (index : N) (change : cfgmap) : cfg_state :=
  let upd := apply_values index change (view_values s) in
  mkCfg (cs_map s)
        (store_write (cs_amap s) (fold_left (fun acc kv => map_set (fst kv) (snd kv) acc) upd (view_applied s)))
        (view_values s) [].

(* one acknowledged Set on a target that already has a configuration: proposal initialize advances
   Status.Proposed.Index (UpdateStatus), then the commit *)
Definition set_cycle (s : cfg_state) (index : N) (change : cfgmap) : cfg_state :=
  commit_update (status_update s) index change.

(* a write whose version check fails has written the path values all the same (entry untouched) *)
Definition stale_update (s : cfg_state) (values : cfgmap) : cfg_state :=
  mkCfg (store_write (cs_map s) values) (cs_amap s) (cs_ev s) (cs_ea s).

(* what a Get of the target can see: the live entries (getUpdate skips Deleted values, nothing is pruned) *)
Definition live_entries (atomix : cfgmap) : list (str * str) :=
  map (fun kv => (pv_path (snd kv), pv_val (snd kv))) (filter (fun kv => negb (pv_deleted (snd kv))) atomix).

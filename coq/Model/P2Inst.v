(* The executable protocol model: Model/Proto2.v instantiated with the concrete pure layer Model/P2Pure.v,
   plus conversions between association lists (what the harness dumps) and the model's finite maps. *)
From stdpp Require Import gmap.
From Coq Require Import NArith.
From OC Require Import Base.Bytes Model.P2Pure Model.Proto2.
Open Scope N_scope.

Notation Wd := (@world cmap cmap req dstate).
Notation Txn := (@txn cmap).
Notation Prop2 := (@prop cmap).
Notation Cfg := (@config cmap).
Notation Dev := (@dev dstate).
Notation Eff := (@eff cmap cmap req).
Notation Label := (@label cmap).

Definition p2_reconcile : oracle -> Wd -> ctrl -> list Eff * result :=
  reconcile candidate candidate_rb rollback_of overlay commit_merge payload record_applied touched restore resync_payload doc_ok stamp nil nil nil.
Definition p2_apply_eff : Wd -> Eff -> Wd := apply_eff dev_apply nil.
Definition p2_step : Wd -> Label -> Wd :=
  step candidate candidate_rb rollback_of overlay commit_merge payload record_applied touched restore resync_payload doc_ok dev_apply stamp nil nil nil.
Definition p2_init : Wd := init.

Definition mk_world (ts : list (N * Txn)) (next : N) (ps : list ((N * N) * Prop2)) (cs : list (N * Cfg))
           (tg : list (N * bool)) (rl : list (N * (N * bool))) (cn : list (N * N)) (ds : list (N * Dev))
           (dl : list (@devev req)) : Wd :=
  mkW (list_to_map ts) next (list_to_map ps) (list_to_map cs) (list_to_map tg) (list_to_map rl) (list_to_map cn)
      (list_to_map ds) dl.

Definition w_txs (w : Wd) := map_to_list (txs w).
Definition w_props (w : Wd) := map_to_list (props w).
Definition w_cfgs (w : Wd) := map_to_list (cfgs w).
Definition w_targets (w : Wd) := map_to_list (targets w).
Definition w_rels (w : Wd) := map_to_list (rels w).
Definition w_conns (w : Wd) := map_to_list (conns w).
Definition w_devs (w : Wd) := map_to_list (devs w).

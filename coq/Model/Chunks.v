(* Chunked streaming of the validation document to the model plugin:
     pkg/pluginregistry/registry.go  (p *ModelPluginInfo) Validate

       jsonLen := len(jsonData); position := 0
       for position < jsonLen {
           if position+chunkSize < jsonLen { chunk = jsonData[position : position+chunkSize]; position += chunkSize }
           else                            { chunk = jsonData[position:];                     position = jsonLen }
           sender.Send(&ValidateConfigRequestChunk{Json: chunk})
       }

   The loop state of the model is [rest] = jsonData[position:], so  position+chunkSize < jsonLen  is
   chunkSize < len(rest).  Every iteration with 0 < chunkSize consumes at least one byte, so len(jsonData)
   iterations of fuel are enough (with chunkSize = 0 the Go loop would not terminate; chunkSize is the constant
   100000, Gen/Tables.v plugin_chunk_size).  An empty document produces no chunk at all.  NO proofs in this file. *)
From Coq Require Import List NArith.
Import ListNotations.
Open Scope N_scope.

Section Chunks.
  Context {A : Type}.

  Fixpoint chunks_loop (fuel : nat) (n : N) (rest : list A) : list (list A) :=
    match fuel with
    | O => []
    | S f =>
      match rest with
      | [] => []                                                  (* position < jsonLen is false *)
      | _ :: _ =>
        if n <? N.of_nat (length rest)
        then firstn (N.to_nat n) rest :: chunks_loop f n (skipn (N.to_nat n) rest)
        else [rest]
      end
    end.

  Definition chunks (n : N) (doc : list A) : list (list A) := chunks_loop (length doc) n doc.
End Chunks.

(* Model of pkg/utils/wildcards.go MatchWildcardRegexp (current version) and of the filter in
   pkg/northbound/gnmi/v2/get.go getUpdate.

     regexpQuery := regexp.QuoteMeta(query)
     regexpQuery = ReplaceAll(regexpQuery, `\.\.\.`, `.*`)
     regexpQuery = ReplaceAll(regexpQuery, `\*`, `[a-zA-Z0-9_:,\-\.]*?`)
     exact:                                  ^re$
     query ends in "/" or "...":             ^re
     otherwise:                              ^re(?:$|[/\[])

   After QuoteMeta the only regexp operators left are the two wildcards, so the regular expression is a
   list of tokens {literal byte, legal-char*, any*}.  `.` does not match a newline.  No proofs here. *)
From Coq Require Import List NArith Bool.
From OC Require Import Base.Bytes Model.Merge.
Import ListNotations.
Open Scope N_scope.

Inductive rtok := RLit (c : N) | RLegalStar | RAnyStar.
Inductive rend := EndExact | EndOpen | EndBoundary.

(* left to right, non overlapping: "..." first (as ReplaceAll on the quoted text does), then "*" *)
Fixpoint compile_toks (q : str) : list rtok :=
  match q with
  | [] => []
  | c :: q' =>
    match q' with
    | c2 :: c3 :: q3 =>
      if (c =? c_dot) && (c2 =? c_dot) && (c3 =? c_dot) then RAnyStar :: compile_toks q3
      else if c =? c_star then RLegalStar :: compile_toks q' else RLit c :: compile_toks q'
    | _ => if c =? c_star then RLegalStar :: compile_toks q' else RLit c :: compile_toks q'
    end
  end.

Definition ends_with (suf s : str) : bool := suffixb suf s.

Definition compile_end (q : str) (exact : bool) : rend :=
  if exact then EndExact
  else if ends_with [c_slash] q || ends_with [c_dot; c_dot; c_dot] q then EndOpen
  else EndBoundary.

(* [a-zA-Z0-9_:,\-\.] *)
Definition legal_char (c : N) : bool :=
  ((97 <=? c) && (c <=? 122)) || ((65 <=? c) && (c <=? 90)) || ((48 <=? c) && (c <=? 57))
  || (c =? 95) || (c =? 58) || (c =? 44) || (c =? 45) || (c =? 46).

Definition end_ok (e : rend) (s : str) : bool :=
  match e with
  | EndExact => match s with [] => true | _ => false end
  | EndOpen => true
  | EndBoundary => match s with [] => true | c :: _ => is_boundary c end
  end.

(* anchored backtracking matcher (lazy or greedy does not matter for a yes/no answer) *)
Fixpoint rmatch (toks : list rtok) (e : rend) (s : str) : bool :=
  match toks with
  | [] => end_ok e s
  | RLit c :: ts => match s with x :: s' => (x =? c) && rmatch ts e s' | [] => false end
  | RLegalStar :: ts =>
    (fix star (s : str) : bool :=
       rmatch ts e s || match s with x :: s' => legal_char x && star s' | [] => false end) s
  | RAnyStar :: ts =>
    (fix star (s : str) : bool :=
       rmatch ts e s || match s with x :: s' => negb (x =? 10) && star s' | [] => false end) s
  end.

(* utils.MatchWildcardRegexp(query, exact).MatchString(path) *)
Definition match_wildcard (query : str) (exact : bool) (path : str) : bool :=
  rmatch (compile_toks query) (compile_end query exact) path.

(* getUpdate: for every stored value: pathRegexp.MatchString(cv.Path) && !cv.Deleted *)
Definition get_filter (values : cfgmap) (query : str) : list path_value :=
  filter (fun pv => match_wildcard query false (pv_path pv) && negb (pv_deleted pv)) (map snd values).

(* processRequest: pathAsString = StrPath(prefix)+StrPath(path) without a trailing "/" *)
Definition trim_slash (q : str) : str :=
  if ends_with [c_slash] q then removelast q else q.

Definition get_leaves (values : cfgmap) (path_as_string : str) : list (str * str) :=
  map (fun pv => (pv_path pv, pv_val pv)) (get_filter values (trim_slash path_as_string)).

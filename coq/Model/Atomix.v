(* The Atomix primitives the stores are built on (trusted substrate), as the simplest versioned
   map / indexed log:  atomix/protocols/rsm pkg/statemachine/{map,indexedmap}/v1.
     - every accepted write stamps the entry with a fresh, globally increasing version
       (the proposal id of the replicated state machine);
     - Insert / Append refuse an existing key (AlreadyExists); Append hands out lastIndex+1;
     - Update refuses a missing key (NotFound) and, with IfVersion v, a version other than v (Conflict);
       an entry keeps its index for life;
     - the INDEXED map's Update is a no-op (old entry returned, no event) when the new bytes equal
       the stored bytes; the plain map's Update has no such rule.
   No removal: none of the five stores exposes one. *)
From Coq Require Import List NArith Bool.
From OC Require Import Base.Bytes.
Import ListNotations.
Open Scope N_scope.

(* the serialised record: what the stores put into the value bytes (payload stands for every
   field the store does not interpret; stamp for Updated = time.Now()) *)
Record value := { v_payload : N; v_revision : N; v_stamp : N }.

Definition value_eqb (a b : value) : bool :=
  N.eqb (v_payload a) (v_payload b) && N.eqb (v_revision a) (v_revision b) && N.eqb (v_stamp a) (v_stamp b).

Record entry := { e_key : str; e_index : N; e_version : N; e_val : value }.

Record alog := { l_entries : list entry; l_last : N }.

Definition empty_log : alog := {| l_entries := []; l_last := 0 |}.

Inductive code := COk | CInvalid | CNotFound | CExists | CConflict.

Definition code_eqb (a b : code) : bool :=
  match a, b with
  | COk, COk | CInvalid, CInvalid | CNotFound, CNotFound | CExists, CExists | CConflict, CConflict => true
  | _, _ => false
  end.

Fixpoint find_entry (k : str) (l : list entry) : option entry :=
  match l with
  | [] => None
  | e :: r => if eqb_str (e_key e) k then Some e else find_entry k r
  end.

Fixpoint replace_entry (e' : entry) (l : list entry) : list entry :=
  match l with
  | [] => []
  | e :: r => if eqb_str (e_key e) (e_key e') then e' :: r else e :: replace_entry e' r
  end.

(* indexedmap.Append (indexed = true) / map.Insert (indexed = false; entries carry index 0).
   nv is the version the state machine assigns to this command. *)
Definition al_append (indexed : bool) (lg : alog) (k : str) (v : value) (nv : N) : code * alog * option entry :=
  match find_entry k (l_entries lg) with
  | Some _ => (CExists, lg, None)
  | None =>
    let idx := if indexed then l_last lg + 1 else 0 in
    let e := {| e_key := k; e_index := idx; e_version := nv; e_val := v |} in
    (COk, {| l_entries := l_entries lg ++ [e]; l_last := if indexed then l_last lg + 1 else l_last lg |}, Some e)
  end.

(* Update(key, value, IfVersion(ifv)); ifv = 0 means no condition.  The boolean tells whether the
   entry was rewritten (an event is published exactly then). *)
Definition al_update (indexed : bool) (lg : alog) (k : str) (v : value) (ifv nv : N) : code * alog * option entry * bool :=
  match find_entry k (l_entries lg) with
  | None => (CNotFound, lg, None, false)
  | Some old =>
    if negb (N.eqb ifv 0) && negb (N.eqb (e_version old) ifv) then (CConflict, lg, None, false)
    else if indexed && value_eqb (e_val old) v then (COk, lg, Some old, false)
    else
      let e := {| e_key := k; e_index := e_index old; e_version := nv; e_val := v |} in
      (COk, {| l_entries := replace_entry e (l_entries lg); l_last := l_last lg |}, Some e, true)
  end.

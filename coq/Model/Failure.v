(* Failure classes, error constructors and gRPC status codes (hand-written enumerations).

   The decision tables over these enumerations (which failure type yields which error
   constructor in set.go / admin.go, which status code the proposal controller retries on, ...)
   are NOT written here: they are regenerated from /repo's Go source by tools/translate into
   Gen/Tables.v on every run.  This file only fixes the vocabulary and states, independently of
   the code, which status code the property expects for each failure class ([status_of]).

   No proofs here. *)
From Coq Require Import List NArith Bool.
Import ListNotations.

(* configapi.TransactionStrategy_Synchronicity (onos-api): ASYNCHRONOUS = 0, SYNCHRONOUS = 1 *)
Inductive synchronicity := ASYNCHRONOUS | SYNCHRONOUS.

(* configapi.TransactionStatus_State: PENDING = 0 .. FAILED = 4 *)
Inductive tx_state := PENDING | VALIDATED | COMMITTED | APPLIED | FAILED.

(* configapi.Failure_Type: UNKNOWN = 0 .. INTERNAL = 11; F_OTHER stands for every other int32
   value (a switch over the type sends it to the default branch) *)
Inductive failure_type :=
| F_UNKNOWN | F_CANCELED | F_NOT_FOUND | F_ALREADY_EXISTS | F_UNAUTHORIZED | F_FORBIDDEN
| F_CONFLICT | F_INVALID | F_UNAVAILABLE | F_NOT_SUPPORTED | F_TIMEOUT | F_INTERNAL | F_OTHER.

(* onos-lib-go errors.NewX constructors *)
Inductive err_ctor :=
| E_Unknown | E_Canceled | E_NotFound | E_AlreadyExists | E_Unauthorized | E_Forbidden
| E_Conflict | E_Invalid | E_Unavailable | E_NotSupported | E_Timeout | E_Internal.

(* google.golang.org/grpc/codes *)
Inductive grpc_code :=
| G_OK | G_Canceled | G_Unknown | G_InvalidArgument | G_DeadlineExceeded | G_NotFound
| G_AlreadyExists | G_PermissionDenied | G_ResourceExhausted | G_FailedPrecondition | G_Aborted
| G_OutOfRange | G_Unimplemented | G_Internal | G_Unavailable | G_DataLoss | G_Unauthenticated.

(* what the proposal controller does with a device error of a given code (property C11) *)
Inductive apply_class := AC_Retry | AC_Wait | AC_Fail.

Definition all_sync : list synchronicity := [ASYNCHRONOUS; SYNCHRONOUS].
Definition all_states : list tx_state := [PENDING; VALIDATED; COMMITTED; APPLIED; FAILED].
Definition all_failure_types : list failure_type :=
  [F_UNKNOWN; F_CANCELED; F_NOT_FOUND; F_ALREADY_EXISTS; F_UNAUTHORIZED; F_FORBIDDEN; F_CONFLICT;
   F_INVALID; F_UNAVAILABLE; F_NOT_SUPPORTED; F_TIMEOUT; F_INTERNAL; F_OTHER].
Definition named_failure_types : list failure_type :=
  [F_UNKNOWN; F_CANCELED; F_NOT_FOUND; F_ALREADY_EXISTS; F_UNAUTHORIZED; F_FORBIDDEN; F_CONFLICT;
   F_INVALID; F_UNAVAILABLE; F_NOT_SUPPORTED; F_TIMEOUT; F_INTERNAL].
Definition all_ctors : list err_ctor :=
  [E_Unknown; E_Canceled; E_NotFound; E_AlreadyExists; E_Unauthorized; E_Forbidden; E_Conflict;
   E_Invalid; E_Unavailable; E_NotSupported; E_Timeout; E_Internal].
Definition all_codes : list grpc_code :=
  [G_OK; G_Canceled; G_Unknown; G_InvalidArgument; G_DeadlineExceeded; G_NotFound; G_AlreadyExists;
   G_PermissionDenied; G_ResourceExhausted; G_FailedPrecondition; G_Aborted; G_OutOfRange;
   G_Unimplemented; G_Internal; G_Unavailable; G_DataLoss; G_Unauthenticated].

(* numeric values, as on the wire (used by the driver to decode harness lines) *)
Definition sync_of_N (n : N) : option synchronicity :=
  match n with 0%N => Some ASYNCHRONOUS | 1%N => Some SYNCHRONOUS | _ => None end.
Definition state_of_N (n : N) : option tx_state :=
  match n with
  | 0%N => Some PENDING | 1%N => Some VALIDATED | 2%N => Some COMMITTED | 3%N => Some APPLIED
  | 4%N => Some FAILED | _ => None
  end.
Definition failure_of_N (n : N) : failure_type :=
  match n with
  | 0%N => F_UNKNOWN | 1%N => F_CANCELED | 2%N => F_NOT_FOUND | 3%N => F_ALREADY_EXISTS
  | 4%N => F_UNAUTHORIZED | 5%N => F_FORBIDDEN | 6%N => F_CONFLICT | 7%N => F_INVALID
  | 8%N => F_UNAVAILABLE | 9%N => F_NOT_SUPPORTED | 10%N => F_TIMEOUT | 11%N => F_INTERNAL
  | _ => F_OTHER
  end.
Definition code_of_N (n : N) : option grpc_code :=
  match n with
  | 0%N => Some G_OK | 1%N => Some G_Canceled | 2%N => Some G_Unknown | 3%N => Some G_InvalidArgument
  | 4%N => Some G_DeadlineExceeded | 5%N => Some G_NotFound | 6%N => Some G_AlreadyExists
  | 7%N => Some G_PermissionDenied | 8%N => Some G_ResourceExhausted | 9%N => Some G_FailedPrecondition
  | 10%N => Some G_Aborted | 11%N => Some G_OutOfRange | 12%N => Some G_Unimplemented
  | 13%N => Some G_Internal | 14%N => Some G_Unavailable | 15%N => Some G_DataLoss
  | 16%N => Some G_Unauthenticated | _ => None
  end.
Definition N_of_code (c : grpc_code) : N :=
  match c with
  | G_OK => 0 | G_Canceled => 1 | G_Unknown => 2 | G_InvalidArgument => 3 | G_DeadlineExceeded => 4
  | G_NotFound => 5 | G_AlreadyExists => 6 | G_PermissionDenied => 7 | G_ResourceExhausted => 8
  | G_FailedPrecondition => 9 | G_Aborted => 10 | G_OutOfRange => 11 | G_Unimplemented => 12
  | G_Internal => 13 | G_Unavailable => 14 | G_DataLoss => 15 | G_Unauthenticated => 16
  end%N.
Definition N_of_ctor (e : err_ctor) : N :=
  match e with
  | E_Unknown => 0 | E_Canceled => 1 | E_NotFound => 2 | E_AlreadyExists => 3 | E_Unauthorized => 4
  | E_Forbidden => 5 | E_Conflict => 6 | E_Invalid => 7 | E_Unavailable => 8 | E_NotSupported => 9
  | E_Timeout => 10 | E_Internal => 11
  end%N.

Definition code_eqb (a b : grpc_code) : bool := N.eqb (N_of_code a) (N_of_code b).
Definition state_eqb (a b : tx_state) : bool :=
  match a, b with
  | PENDING, PENDING | VALIDATED, VALIDATED | COMMITTED, COMMITTED | APPLIED, APPLIED | FAILED, FAILED => true
  | _, _ => false
  end.
Definition failure_eqb (a b : failure_type) : bool :=
  match a, b with
  | F_UNKNOWN, F_UNKNOWN | F_CANCELED, F_CANCELED | F_NOT_FOUND, F_NOT_FOUND
  | F_ALREADY_EXISTS, F_ALREADY_EXISTS | F_UNAUTHORIZED, F_UNAUTHORIZED | F_FORBIDDEN, F_FORBIDDEN
  | F_CONFLICT, F_CONFLICT | F_INVALID, F_INVALID | F_UNAVAILABLE, F_UNAVAILABLE
  | F_NOT_SUPPORTED, F_NOT_SUPPORTED | F_TIMEOUT, F_TIMEOUT | F_INTERNAL, F_INTERNAL
  | F_OTHER, F_OTHER => true
  | _, _ => false
  end.

(* THE SPECIFICATION of "an error carrying the failure class": the gRPC status code that stands
   for each failure class.  Written from the meaning of the classes (gRPC's own vocabulary), not
   from the code; the generated tables are proved to agree with it (C08_roundtrip_table).
   A failure type outside the named ones carries no class: Unknown. *)
Definition status_of (f : failure_type) : grpc_code :=
  match f with
  | F_UNKNOWN => G_Unknown
  | F_CANCELED => G_Canceled
  | F_NOT_FOUND => G_NotFound
  | F_ALREADY_EXISTS => G_AlreadyExists
  | F_UNAUTHORIZED => G_Unauthenticated
  | F_FORBIDDEN => G_PermissionDenied
  | F_CONFLICT => G_FailedPrecondition
  | F_INVALID => G_InvalidArgument
  | F_UNAVAILABLE => G_Unavailable
  | F_NOT_SUPPORTED => G_Unimplemented
  | F_TIMEOUT => G_DeadlineExceeded
  | F_INTERNAL => G_Internal
  | F_OTHER => G_Unknown
  end.

(* the class a client reads back from a status code (inverse direction of the round trip) *)
Definition class_of_code (c : grpc_code) : option failure_type :=
  match c with
  | G_Unknown => Some F_UNKNOWN
  | G_Canceled => Some F_CANCELED
  | G_NotFound => Some F_NOT_FOUND
  | G_AlreadyExists => Some F_ALREADY_EXISTS
  | G_Unauthenticated => Some F_UNAUTHORIZED
  | G_PermissionDenied => Some F_FORBIDDEN
  | G_FailedPrecondition => Some F_CONFLICT
  | G_InvalidArgument => Some F_INVALID
  | G_Unavailable => Some F_UNAVAILABLE
  | G_Unimplemented => Some F_NOT_SUPPORTED
  | G_DeadlineExceeded => Some F_TIMEOUT
  | G_Internal => Some F_INTERNAL
  | _ => None
  end.

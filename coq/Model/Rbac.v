(* Model of pkg/utils/rbacevaluate.go (TemporaryEvaluate, HasIdentity), of the RBAC gate at the
   top of pkg/northbound/gnmi/v2/set.go and of the target filter in
   pkg/northbound/gnmi/v2/get.go (Get's group extraction, reportAllTargets). *)
From Coq Require Import List NArith Bool.
From OC Require Import Base.Bytes.
Import ListNotations.
Open Scope N_scope.

(* request metadata as the handlers read it: md.Get(k) is "" for an absent key *)
Record md := { md_name : str; md_pref : str; md_groups : str }.

Definition nonempty (s : str) : bool := negb (eqb_str s []).

(* utils.HasIdentity *)
Definition has_identity (m : md) : bool :=
  nonempty (md_name m) || nonempty (md_pref m) || nonempty (md_groups m).

(* utils.TemporaryEvaluate: true = allowed.
   for g in Split(groups, ";"): skip ""; for ag in Split(ADMINGROUPS, ","): g == ag *)
Definition temporary_evaluate (admin groups : str) : bool :=
  existsb (fun g => nonempty g && existsb (fun ag => eqb_str g ag) (split_on c_comma admin))
          (split_on c_semi groups).

(* the gate in Set: true = the request goes on to be resolved and logged *)
Definition set_gate (admin : str) (m : md) : bool :=
  if has_identity m then temporary_evaluate admin (md_groups m) else true.

(* Get: groups are read only when the request carries a name *)
Definition get_groups (m : md) : list str :=
  if nonempty (md_name m) then split_on c_semi (md_groups m) else [].

(* reportAllTargets: oidc = OIDC_SERVER_URL is set; roc = AetherROCAdmin or its override *)
Definition default_roc : str := B "AetherROCAdmin".
Definition roc_group (override : str) : str := if nonempty override then override else default_roc.

Definition report_targets (oidc : bool) (override : str) (groups : list str) (targets : list str) : list str :=
  if oidc then
    filter (fun t => existsb (fun g => eqb_str t g || eqb_str g (roc_group override)) groups) targets
  else targets.

Definition get_all_targets (oidc : bool) (override : str) (m : md) (targets : list str) : list str :=
  report_targets oidc override (get_groups m) targets.

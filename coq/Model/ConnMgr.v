(* The southbound connection manager of onos-config as a state machine over channel-state samples.
   Transcription of /repo/pkg/southbound/gnmi/conn_manager.go (NO proofs here; see Proofs/ConnMgrProofs.v,
   Proofs/ConnMgrRefine.v, Properties/C10_conn.v).

   What is modelled
   ----------------
   * connManager.Connect: the target is entered in m.targets and ONE goroutine is started for the gRPC channel
     (grpc.DialContext without WithBlock: the dial itself does not wait, does not fail for an unreachable address);
   * that goroutine:
         var conn Conn
         state := clientConn.GetState()
         switch state { case connectivity.Ready: conn = newConn(..); m.addConn(conn) }
         for clientConn.WaitForStateChange(context.Background(), state) {
             state = clientConn.GetState()
             switch state {
             case connectivity.Ready: if conn == nil { conn = newConn(..); m.addConn(conn) }
             case connectivity.Idle:  if conn != nil { m.removeConn(conn.ID()); conn = nil }; clientConn.Connect()
             default:                 if conn != nil { m.removeConn(conn.ID()); conn = nil }
             }
             switch state { case connectivity.Shutdown: return }
         }
     An event [ESample g s] is ONE value returned by clientConn.GetState() to goroutine g - the first one is the
     read before the loop, every later one a read after WaitForStateChange returned.  The goroutine does not see the
     channel's states, it sees SAMPLES of them: WaitForStateChange(ctx, state) returns as soon as the channel's state
     differs (or differed) from [state], and GetState() then returns whatever the state is by then; states the channel
     passed through between two reads are never seen ([sampling] below says exactly which sample sequences a channel
     trace allows).
   * addConn / removeConn: the m.conns map and the event sent to the watchers (outputs [Added] / [Removed]; a Conn is
     delivered on Watch channels once when added and once when removed, removeConn only notifies if the id was present);
   * newConnID: uuid.New() - modelled as a counter [next]: a fresh id per Conn (the freshness of UUIDs is the one
     thing assumed about them);
   * Disconnect: removes the target from m.targets and closes the channel; the channel then reports SHUTDOWN, which the
     goroutine sees as a later sample (a new Connect of the same target may start a second goroutine before that).
   Not modelled: the checks of Connect on the topo object (kind, aspects, TLS material), GetByTarget, the delivery of
   the current connections to a new watcher. *)
From Coq Require Import List NArith Bool.
Import ListNotations.
Open Scope N_scope.

(** google.golang.org/grpc/connectivity.State *)
Inductive chan_state := Idle | Connecting | Ready | TransientFailure | Shutdown.

Definition chan_state_eqb (a b : chan_state) : bool :=
  match a, b with
  | Idle, Idle | Connecting, Connecting | Ready, Ready | TransientFailure, TransientFailure | Shutdown, Shutdown => true
  | _, _ => false
  end.

(** the goroutine started by one successful Connect *)
Record gor := mkGor {
  g_target : N;            (* target.ID *)
  g_conn : option N;       (* var conn Conn (its id) *)
  g_started : bool;        (* the read before the loop has happened *)
  g_alive : bool }.        (* has not returned *)

Inductive out :=
| Added (g : nat) (t id : N)        (* m.addConn(conn): m.conns[id] = conn, conn sent to the watchers *)
| Removed (g : nat) (t id : N)      (* m.removeConn(id): deleted from m.conns, conn sent to the watchers *)
| CallConnect (g : nat)             (* clientConn.Connect() *)
| ErrAlreadyExists (t : N)
| ErrNotFound (t : N).

Inductive event :=
| EConnect (t : N)                  (* Connect(ctx, target) with a well-formed target *)
| EDisconnect (t : N)               (* Disconnect(ctx, target.ID) *)
| ESample (g : nat) (s : chan_state).   (* goroutine g reads the state of its channel *)

Record mgr := mkMgr {
  m_targets : list (N * nat);       (* m.targets: target id -> (the channel of) goroutine *)
  m_gors : list gor;
  m_conns : list (N * N);           (* m.conns: connection id -> target id *)
  m_next : N }.                     (* supply of fresh connection ids *)

Definition init (n0 : N) : mgr := mkMgr [] [] [] n0.

Fixpoint lookup {A : Type} (k : N) (l : list (N * A)) : option A :=
  match l with
  | [] => None
  | (k', v) :: r => if k' =? k then Some v else lookup k r
  end.

Definition remove_key {A : Type} (k : N) (l : list (N * A)) : list (N * A) :=
  filter (fun p => negb (fst p =? k)) l.

Fixpoint set_nth {A : Type} (n : nat) (x : A) (l : list A) : list A :=
  match l, n with
  | [], _ => []
  | _ :: r, O => x :: r
  | y :: r, S n' => y :: set_nth n' x r
  end.

(** Get(ctx, id) *)
Definition get (m : mgr) (id : N) : option N := lookup id (m_conns m).

(** conn = newConn(target.ID, gnmiClient); m.addConn(conn) *)
Definition add_conn (m : mgr) (g : nat) (go : gor) : mgr * list out :=
  let id := m_next m in
  (mkMgr (m_targets m) (set_nth g (mkGor (g_target go) (Some id) true (g_alive go)) (m_gors m))
         ((id, g_target go) :: m_conns m) (id + 1),
   [Added g (g_target go) id]).

(** m.removeConn(conn.ID()); conn = nil *)
Definition remove_conn (m : mgr) (g : nat) (go : gor) (id : N) : mgr * list out :=
  let gs := set_nth g (mkGor (g_target go) None true (g_alive go)) (m_gors m) in
  match lookup id (m_conns m) with
  | Some _ => (mkMgr (m_targets m) gs (remove_key id (m_conns m)) (m_next m), [Removed g (g_target go) id])
  | None => (mkMgr (m_targets m) gs (m_conns m) (m_next m), [])
  end.

Definition set_gor (m : mgr) (g : nat) (go : gor) : mgr :=
  mkMgr (m_targets m) (set_nth g go (m_gors m)) (m_conns m) (m_next m).

(** the switch on the sampled state (first switch of the loop body, or the one before the loop).
    [fx = true] is the code as it is (since /repo ac94f55, fixes/CONN-1.patch): IDLE after READY means the transport is
    gone - the Conn is removed there, before clientConn.Connect() starts the next attempt.  [fx = false] is the loop
    before that repair, which left the Conn alone on IDLE and waited to see CONNECTING (kept for the regression witness
    of finding F-CONN-1; the invariants are proved for both). *)
Definition on_state (fx : bool) (m : mgr) (g : nat) (go : gor) (s : chan_state) : mgr * list out :=
  if g_started go then
    match s with
    | Ready => match g_conn go with
               | None => add_conn m g go
               | Some _ => (m, [])
               end
    | Idle => if fx then
                match g_conn go with
                | Some id => let '(m1, o) := remove_conn m g go id in (m1, o ++ [CallConnect g])
                | None => (m, [CallConnect g])
                end
              else (m, [CallConnect g])
    | _ => match g_conn go with
           | Some id => remove_conn m g go id
           | None => (m, [])
           end
    end
  else
    match s with
    | Ready => add_conn m g go
    | _ => (set_gor m g (mkGor (g_target go) (g_conn go) true (g_alive go)), [])
    end.

(** the second switch of the loop body: case connectivity.Shutdown: return (not reached by the read before the loop) *)
Definition after_state (m : mgr) (g : nat) (was_started : bool) (s : chan_state) : mgr :=
  match s, was_started, nth_error (m_gors m) g with
  | Shutdown, true, Some go => set_gor m g (mkGor (g_target go) (g_conn go) (g_started go) false)
  | _, _, _ => m
  end.

Definition sample (fx : bool) (m : mgr) (g : nat) (s : chan_state) : mgr * list out :=
  match nth_error (m_gors m) g with
  | None => (m, [])
  | Some go =>
    if g_alive go then
      let '(m1, o) := on_state fx m g go s in (after_state m1 g (g_started go) s, o)
    else (m, [])
  end.

Definition step (fx : bool) (m : mgr) (e : event) : mgr * list out :=
  match e with
  | EConnect t =>
    match lookup t (m_targets m) with
    | Some _ => (m, [ErrAlreadyExists t])
    | None => (mkMgr ((t, length (m_gors m)) :: m_targets m) (m_gors m ++ [mkGor t None false true]) (m_conns m) (m_next m), [])
    end
  | EDisconnect t =>
    match lookup t (m_targets m) with
    | None => (m, [ErrNotFound t])
    | Some _ => (mkMgr (remove_key t (m_targets m)) (m_gors m) (m_conns m) (m_next m), [])
    end
  | ESample g s => sample fx m g s
  end.

Fixpoint run_from (fx : bool) (m : mgr) (es : list event) : mgr * list out :=
  match es with
  | [] => (m, [])
  | e :: r => let '(m1, o1) := step fx m e in let '(m2, o2) := run_from fx m1 r in (m2, o1 ++ o2)
  end.

(** [current]: the variant of the loop that is in /repo *)
Definition current : bool := true.

(** the code as it is / as it was before ac94f55, from the empty manager whose first connection id will be n0 *)
Definition run (n0 : N) (es : list event) : mgr * list out := run_from current (init n0) es.
Definition run_before_repair (n0 : N) (es : list event) : mgr * list out := run_from false (init n0) es.

(** * Channel traces and what the goroutine can see of them *)

(** the transitions of a gRPC channel with one address (grpc-go 1.54, pick_first mirrors its only sub-channel:
    clientconn.go resetTransport / createTransport.onClose / tearDown) *)
Definition chan_next (a b : chan_state) : bool :=
  match a, b with
  | Idle, Connecting => true               (* Connect() or an RPC on the idle channel *)
  | Connecting, Ready => true
  | Connecting, TransientFailure => true
  | Connecting, Idle => true               (* connected and closed again before the channel was set READY *)
  | TransientFailure, Idle => true         (* after the back-off *)
  | Ready, Idle => true                    (* the transport was lost *)
  | Shutdown, _ => false
  | _, Shutdown => true                    (* Close() *)
  | _, _ => false
  end.

Fixpoint chan_ok (l : list chan_state) : bool :=
  match l with
  | a :: ((b :: _) as r) => chan_next a b && chan_ok r
  | _ => true
  end.

(** [sampled cs ss]: ss is what a goroutine alternating WaitForStateChange / GetState can read of the channel trace cs
    (consecutive states of cs differ, so WaitForStateChange returns after any later position): a subsequence of cs *)
Fixpoint sampled (cs ss : list chan_state) : bool :=
  match ss, cs with
  | [], _ => true
  | _ :: _, [] => false
  | s :: ss', c :: cs' => (chan_state_eqb s c && sampled cs' ss') || sampled cs' ss
  end.

(** samples of goroutine g in an event sequence *)
Fixpoint samples_of (g : nat) (es : list event) : list chan_state :=
  match es with
  | [] => []
  | ESample g' s :: r => if Nat.eqb g' g then s :: samples_of g r else samples_of g r
  | _ :: r => samples_of g r
  end.

(** the samples at which the goroutine notices that the transport is gone: every state but READY (and, before the
    repair, but IDLE) *)
Definition loss_seen (fx : bool) (s : chan_state) : bool :=
  match s with Ready => false | Idle => fx | _ => true end.

(** * The trace as the manager's Watch shows it *)
Definition is_conn_out (o : out) : bool :=
  match o with Added _ _ _ | Removed _ _ _ => true | _ => false end.

Definition added_ids (os : list out) : list N :=
  flat_map (fun o => match o with Added _ _ id => [id] | _ => [] end) os.

(** walks the Added / Removed outputs of goroutine g: Added only when g has no connection, Removed only of g's current one *)
Fixpoint alternates (g : nat) (cur : option N) (os : list out) : option (option N) :=
  match os with
  | [] => Some cur
  | Added g' _ id :: r =>
    if Nat.eqb g' g then match cur with None => alternates g (Some id) r | Some _ => None end else alternates g cur r
  | Removed g' _ id :: r =>
    if Nat.eqb g' g then match cur with Some id' => if id' =? id then alternates g None r else None | None => None end
    else alternates g cur r
  | _ :: r => alternates g cur r
  end.

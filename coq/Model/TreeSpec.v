(* Specification side of C18: what "the JSON document is the configuration" means.
   - trie: a set of split paths organised by shared leading elements; dfs enumerates it depth first.
     A sorted set of canonical paths is exactly such an enumeration (entries contiguous).
   - render: the document one expects for a trie (one member per child, one list entry per keyed child,
     the entry's keys injected as strings unless an explicit key leaf says the same thing).
   - flatten: reads a document back into (path, leaf) pairs; list entries are named by their key values.
   - wf_trie: the well-formedness the theorems need, as a boolean.
   No proofs here (Proofs/TreeBuildProofs.v). *)
From Coq Require Import List NArith ZArith Bool Ascii String.
From OC Require Import Base.Bytes Model.Tree.
Import ListNotations.
Open Scope N_scope.

Inductive trie := TLeaf (v : tv) | TNode (cs : list (str * trie)).

Fixpoint dfs (t : trie) : list (list str * tv) :=
  match t with
  | TLeaf v => [([], v)]
  | TNode cs => flat_map (fun et => map (fun p => (fst et :: fst p, snd p)) (dfs (snd et))) cs
  end.

(* how addPathToTree reads a non-final path element *)
Inductive ekind := EPlain | EKeyed (name : str) (K : list (str * str)) | EBad.

Definition classify (e : str) : ekind :=
  if contains e [c_eq] then
    match parse_elem e with
    | Ok nk => EKeyed (fst nk) (snd nk)
    | _ => EBad
    end
  else EPlain.

Definition leaf_put (rfc : bool) (e : str) (v : tv) (m : amap) : amap :=
  match leaf_of rfc v with
  | LVal g => mset e (NLeaf g) m
  | _ => m
  end.

Definition arr_append (n : str) (x : node) (m : amap) : amap :=
  match mget n m with
  | Some (NArr l) => mset n (NArr (l ++ [x])) m
  | _ => mset n (NArr [x]) m
  end.

(* the children of t rendered into the member map m *)
Fixpoint render_cs (rfc : bool) (t : trie) (m : amap) : amap :=
  match t with
  | TLeaf _ => m
  | TNode cs =>
    fold_left
      (fun m et =>
         match snd et with
         | TLeaf v => leaf_put rfc (fst et) v m
         | TNode _ =>
           match classify (fst et) with
           | EPlain => mset (fst et) (NMap (render_cs rfc (snd et) [])) m
           | EKeyed n K => arr_append n (NMap (render_cs rfc (snd et) (keymap_node K))) m
           | EBad => m
           end
         end)
      cs m
  end.

Definition render (rfc : bool) (t : trie) : node := NMap (render_cs rfc t []).

(* ------------------------------------------------------------------ reading a document back *)

(* a flattened path: (element name, key values) per element; no keys for containers and leaves *)
Definition fpath := list (str * list (str * str)).

Definition entry_keys (knames : list str) (e : node) : list (str * str) :=
  match e with
  | NMap em => map (fun k => (k, match mget k em with Some c => conv c | None => [] end)) knames
  | _ => []
  end.

Definition pre (s : str * list (str * str)) (x : fpath * gov) : fpath * gov := (s :: fst x, snd x).

(* ks: schema path (names) of a list -> its key names *)
Fixpoint flatten (ks : list str -> list str) (sp : list str) (n : node) {struct n} : list (fpath * gov) :=
  match n with
  | NLeaf g => [([], g)]
  | NArr _ => []
  | NMap m =>
    flat_map
      (fun kc : str * node =>
         let (k, c) := kc in
         match c with
         | NArr l => flat_map (fun e => map (pre (k, entry_keys (ks (sp ++ [k])) e)) (flatten ks (sp ++ [k]) e)) l
         | NLeaf g => [([(k, [])], g)]
         | NMap _ => map (pre (k, [])) (flatten ks (sp ++ [k]) c)
         end)
      m
  end.

(* ------------------------------------------------------------------ what a trie says the leaves are *)

Definition child_name (et : str * trie) : str :=
  match snd et with
  | TLeaf _ => fst et
  | TNode _ => match classify (fst et) with EKeyed n _ => n | _ => fst et end
  end.

(* the key leaves of an entry that no explicit (valued) leaf child restates *)
Definition overridden (rfc : bool) (cs : list (str * trie)) (k : str) : bool :=
  existsb (fun et => match snd et with
                     | TLeaf v => eqb_str (fst et) k && match leaf_of rfc v with LVal _ => true | _ => false end
                     | TNode _ => false
                     end) cs.

Fixpoint trie_leaves (rfc : bool) (t : trie) (K0 : list (str * str)) : list (fpath * gov) :=
  match t with
  | TLeaf _ => []
  | TNode cs =>
    map (fun kv => ([(fst kv, [])], GStr (snd kv))) (filter (fun kv => negb (overridden rfc cs (fst kv))) K0) ++
    flat_map
      (fun et =>
         match snd et with
         | TLeaf v => match leaf_of rfc v with LVal g => [([(fst et, [])], g)] | _ => [] end
         | TNode _ =>
           match classify (fst et) with
           | EPlain => map (pre (fst et, [])) (trie_leaves rfc (snd et) [])
           | EKeyed n K => map (pre (n, K)) (trie_leaves rfc (snd et) K)
           | EBad => []
           end
         end)
      cs
  end.

(* only the key leaves among trie_leaves: per list entry, its keys as strings unless a valued leaf restates them *)
Fixpoint key_leaves (rfc : bool) (t : trie) (K0 : list (str * str)) : list (fpath * gov) :=
  match t with
  | TLeaf _ => []
  | TNode cs =>
    map (fun kv => ([(fst kv, [])], GStr (snd kv))) (filter (fun kv => negb (overridden rfc cs (fst kv))) K0) ++
    flat_map
      (fun et =>
         match snd et with
         | TLeaf _ => []
         | TNode _ =>
           match classify (fst et) with
           | EPlain => map (pre (fst et, [])) (key_leaves rfc (snd et) [])
           | EKeyed n K => map (pre (n, K)) (key_leaves rfc (snd et) K)
           | EBad => []
           end
         end)
      cs
  end.

(* ------------------------------------------------------------------ well-formedness *)

Fixpoint list_eqb (a b : list str) : bool :=
  match a, b with
  | [], [] => true
  | x :: a', y :: b' => eqb_str x y && list_eqb a' b'
  | _, _ => false
  end.

Fixpoint kv_eqb (a b : list (str * str)) : bool :=
  match a, b with
  | [], [] => true
  | x :: a', y :: b' => eqb_str (fst x) (fst y) && eqb_str (snd x) (snd y) && kv_eqb a' b'
  | _, _ => false
  end.

(* re-joining and re-splitting the rest of the path gives the rest back, at every level; no empty element *)
Fixpoint normalb (elems : list str) : bool :=
  match elems with
  | [] => true
  | e :: rest =>
    negb (eqb_str e []) &&
    match rest with
    | [] => true
    | _ => list_eqb (resplit rest) rest
    end && normalb rest
  end.

Definition kget (k : str) (K : list (str * str)) : option str :=
  match find (fun kv => eqb_str (fst kv) k) K with
  | Some kv => Some (snd kv)
  | None => None
  end.

(* two children of one node may share a member name only as two entries of one list with different keys *)
Definition compat (a b : str * trie) : bool :=
  if eqb_str (child_name a) (child_name b) then
    match snd a, snd b with
    | TNode _, TNode _ =>
      match classify (fst a), classify (fst b) with
      | EKeyed _ Ka, EKeyed _ Kb => negb (kv_eqb Ka Kb)
      | _, _ => false
      end
    | _, _ => false
    end
  else true.

Fixpoint nodupb (l : list str) : bool :=
  match l with
  | [] => true
  | x :: l' => negb (mem x l') && nodupb l'
  end.

Fixpoint pairwise {A} (f : A -> A -> bool) (l : list A) : bool :=
  match l with
  | [] => true
  | x :: l' => forallb (f x) l' && pairwise f l'
  end.

(* K0 = the key map of the entry the node renders into ([] for a container or the root) *)
Fixpoint wf_trie (rfc : bool) (ks : list str -> list str) (sp : list str) (K0 : list (str * str)) (t : trie) : bool :=
  match t with
  | TLeaf _ => false
  | TNode cs =>
    negb (match cs with [] => true | _ => false end) &&
    pairwise compat cs &&
    forallb
      (fun et =>
         match snd et with
         | TLeaf v =>
           match leaf_of rfc v with
           | LPanic => false
           | LNone => true
           | LVal g => match kget (fst et) K0 with Some kv => eqb_str (conv_gov g) kv | None => true end
           end
         | TNode _ =>
           match classify (fst et) with
           | EPlain => negb (mem (fst et) (map fst K0)) && wf_trie rfc ks (sp ++ [fst et]) [] (snd et)
           | EKeyed n K =>
             negb (mem n (map fst K0)) && negb (match K with [] => true | _ => false end) && nodupb (map fst K) &&
             list_eqb (map fst K) (ks (sp ++ [n])) && wf_trie rfc ks (sp ++ [n]) K (snd et)
           | EBad => false
           end
         end)
      cs
  end.

(* ------------------------------------------------------------------ from a sorted list of split paths to a trie *)

(* insert one path: it continues the last child when it starts with the same element, else it opens a new child
   (this is how a depth-first enumeration is folded back; for a list that is not such an enumeration
   dfs (trie_of l) differs from l, which wf_paths detects) *)
Fixpoint tinsert (fuel : nat) (elems : list str) (v : tv) (t : trie) : trie :=
  match fuel with
  | O => t
  | S f =>
    match elems with
    | [] => TLeaf v
    | e :: rest =>
      let cs := match t with TNode cs => cs | TLeaf _ => [] end in
      match rev cs with
      | (e', c) :: before =>
        if eqb_str e e' then TNode (rev before ++ [(e, tinsert f rest v c)])
        else TNode (cs ++ [(e, tinsert f rest v (TNode []))])
      | [] => TNode [(e, tinsert f rest v (TNode []))]
      end
    end
  end.

Definition trie_of (paths : list (list str * tv)) : trie :=
  fold_left (fun t p => tinsert (S (List.length (fst p))) (fst p) (snd p) t) paths (TNode []).

Definition tv_eqb (a b : tv) : bool :=
  (tv_type a =? tv_type b) && eqb_str (tv_bytes a) (tv_bytes b) &&
  (fix zl (x y : list Z) : bool :=
     match x, y with
     | [], [] => true
     | p :: x', q :: y' => Z.eqb p q && zl x' y'
     | _, _ => false
     end) (tv_opts a) (tv_opts b).

Fixpoint paths_eqb (a b : list (list str * tv)) : bool :=
  match a, b with
  | [], [] => true
  | x :: a', y :: b' => list_eqb (fst x) (fst y) && tv_eqb (snd x) (snd y) && paths_eqb a' b'
  | _, _ => false
  end.

(* the key names of the lists, read off the paths: first use wins (wf_trie then demands every use agrees) *)
Fixpoint names_of (elems : list str) : list str :=
  match elems with
  | [] => []
  | [e] => [e]
  | e :: rest => (match classify e with EKeyed n _ => n | _ => e end) :: names_of rest
  end.

Fixpoint schema_find (sp : list str) (names : list str) (elems : list str) : option (list str) :=
  match sp, elems with
  | [s], e :: _ :: _ =>
    match classify e with
    | EKeyed n K => if eqb_str n s then Some (map fst K) else None
    | _ => None
    end
  | s :: sp', e :: ((_ :: _) as rest) =>
    if eqb_str (match classify e with EKeyed n _ => n | _ => e end) s then schema_find sp' names rest else None
  | _, _ => None
  end.

Definition schema_of (paths : list (list str * tv)) (sp : list str) : list str :=
  match flat_map (fun p => match schema_find sp [] (fst p) with Some k => [k] | None => [] end) paths with
  | k :: _ => k
  | [] => []
  end.

Definition live_paths (pvs : list pv) : list (list str * tv) :=
  map (fun p => (split_path (pv_path p), pv_val p)) (prune false pvs).

(* the hypothesis of C18_flatten_build, decidable: the live paths, in the order BuildTree processes them, are
   the depth-first enumeration of a well-formed trie (entries contiguous, canonical keys, one key-name list per
   list, no leaf above a leaf, explicit key leaves agree with the path) and re-splitting is harmless *)
Definition wf_set (rfc : bool) (pvs : list pv) : bool :=
  let lp := live_paths pvs in
  let t := trie_of lp in
  match lp with
  | [] => true                                  (* nothing is live: the empty document *)
  | _ => forallb (fun p => normalb (fst p)) lp && paths_eqb (dfs t) lp && wf_trie rfc (schema_of lp) [] [] t
  end.

(* the leaves the live paths stand for: every live valued leaf, and for every list entry on some live path its
   key values as string leaves unless an explicit leaf restates the key *)
Definition felem (e : str) : str * list (str * str) :=
  match classify e with EKeyed n K => (n, K) | _ => (e, []) end.

Fixpoint fpath_of (elems : list str) : fpath :=
  match elems with
  | [] => []
  | [e] => [(e, [])]
  | e :: rest => felem e :: fpath_of rest
  end.

Definition explicit_leaves (rfc : bool) (lp : list (list str * tv)) : list (fpath * gov) :=
  flat_map (fun p => match leaf_of rfc (snd p) with LVal g => [(fpath_of (fst p), g)] | _ => [] end) lp.

(* key leaves implied by one path: for every keyed element before the last, its keys *)
Fixpoint implied_of (before : fpath) (elems : list str) : list (fpath * gov) :=
  match elems with
  | [] | [_] => []
  | e :: rest =>
    (match classify e with
     | EKeyed n K => map (fun kv => (before ++ [(n, K); (fst kv, [])], GStr (snd kv))) K
     | _ => []
     end) ++ implied_of (before ++ [felem e]) rest
  end.

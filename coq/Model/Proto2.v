(* Model of the v2 transaction protocol of onos-config: branch-for-branch transcription of
     pkg/controller/v2/transaction/controller.go   (rec_tx)
     pkg/controller/v2/proposal/controller.go      (rec_prop)
     pkg/controller/v2/configuration/controller.go (rec_cfg)
     pkg/controller/v2/mastership/controller.go    (rec_master)
     pkg/controller/connection/controller.go       (rec_conn)
   One reconcile invocation = a function from a snapshot of the stores to an ordered list of
   effects (store writes, device requests) and a result.  The step relation executes any PREFIX
   of the effects (crash / swallowed write conflict / error between two persisted effects).
   The pure layer (how values are merged, what is sent to the device) is a parameter: the protocol
   invariants do not depend on strings.  NO proofs in this file. *)
From stdpp Require Import gmap.
From RecordUpdate Require Import RecordUpdate.
From Coq Require Import NArith.
Open Scope N_scope.

(** * Enumerations *)
Inductive tstate := TPending | TValidated | TCommitted | TApplied | TFailed.
Inductive ftype := FUnknown | FCanceled | FNotFound | FAlreadyExists | FUnauthorized | FForbidden
                 | FConflict | FInvalid | FUnavailable | FNotSupported | FTimeout | FInternal.
(* one three-valued state per phase: in progress / done / failed; [option ph] = phase absent or present *)
Inductive ph := Doing | Done | Failed.
Inductive cstate := CUnknown | CSynchronizing | CSynchronized | CPersisted.
(* the gRPC status codes *)
Inductive code := COk | CCanceled | CUnknownC | CInvalidArgument | CDeadlineExceeded | CNotFound | CAlreadyExists
                | CPermissionDenied | CResourceExhausted | CFailedPrecondition | CAborted | COutOfRange
                | CUnimplemented | CInternal | CUnavailable | CDataLoss | CUnauthenticated.

#[global] Instance tstate_eq : EqDecision tstate. Proof. solve_decision. Defined.
#[global] Instance ftype_eq : EqDecision ftype. Proof. solve_decision. Defined.
#[global] Instance ph_eq : EqDecision ph. Proof. solve_decision. Defined.
#[global] Instance cstate_eq : EqDecision cstate. Proof. solve_decision. Defined.
#[global] Instance code_eq : EqDecision code. Proof. solve_decision. Defined.

Definition tstate_rank (s : tstate) : N :=
  match s with TPending => 0 | TValidated => 1 | TCommitted => 2 | TApplied => 3 | TFailed => 4 end.

(* what the proposal controller sees of a device error: the southbound client converts the gRPC status
   with errors.FromGRPC (codes it does not know become Unknown) and the controller converts it back with
   errors.Status(err).Code() *)
Definition observed (c : code) : code :=
  match c with
  | CResourceExhausted | CAborted | COutOfRange | CDataLoss => CUnknownC
  | _ => c
  end.

Inductive cls := ClsRetry | ClsWait | ClsFail (f : ftype).
(* reconcileApply's switch on the observed code *)
Definition classify (c : code) : cls :=
  match c with
  | CUnavailable | CCanceled | CDeadlineExceeded => ClsRetry
  | CPermissionDenied => ClsWait
  | CUnknownC => ClsFail FUnknown
  | CNotFound => ClsFail FNotFound
  | CAlreadyExists => ClsFail FAlreadyExists
  | CUnauthenticated => ClsFail FUnauthorized
  | CFailedPrecondition => ClsFail FConflict
  | CInvalidArgument => ClsFail FInvalid
  | CUnimplemented => ClsFail FNotSupported
  | CInternal => ClsFail FInternal
  | _ => ClsFail FUnknown     (* failureType keeps its zero value, Failure_UNKNOWN *)
  end.

Definition is_none {A} (o : option A) : bool := match o with None => true | Some _ => false end.

Section Proto2.
  Context {V Ch Req D : Type}.
  Context (candidate : V -> Ch -> V)              (* validate path: change applied to a copy, no cascade *)
          (candidate_rb : V -> Ch -> V)           (* validate path of a rollback: overwrite with rollback values *)
          (rollback_of : V -> Ch -> Ch)           (* rollback values captured at validation *)
          (overlay : V -> V -> V)                 (* what Get loads: the entry's inline values overlaid by the path-value map *)
          (commit_merge : N -> N -> V -> V -> Ch -> V) (* order -> index -> stored map -> loaded view -> change -> stored
                                                     map: AddDeleteChildren + applyChangeToConfig (in the Go map order
                                                     picked by [order]) + store *)
          (payload : N -> V -> Ch -> option Req)  (* SetRequest built at apply from the loaded view; None = build error *)
          (record_applied : N -> N -> V -> V -> V -> Ch -> V) (* order -> index -> stored map -> loaded applied values -> loaded view -> change
                                                     -> stored map: Applied.Values += upd; store (same Atomix map) *)
          (touched : N -> V -> Ch -> V)           (* the loaded view after AddDeleteChildren mutated it (apply) *)
          (restore : V -> V -> V)                 (* UpdateStatus stores the loaded applied values again: store m va *)
          (resync_payload : V -> list (option Req)) (* re-push of the loaded applied values: one request per index *)
          (doc_ok : V -> bool)                    (* BuildTree succeeds on the candidate *)
          (dev_apply : D -> Req -> D)             (* gNMI Set on the device *)
          (stamp : N -> Ch -> Ch)                 (* changeValue.Index = transaction.Index *)
          (v_empty : V) (d_empty : D).

  Inductive tdetails := TChange (chs : list (N * Ch)) | TRollback (ri : N).
  Record txn := mkTxn {
    t_details : tdetails; t_serializable : bool; t_sync : bool;
    t_state : tstate; t_failure : option ftype;
    t_init : option ph; t_validate : option ph; t_commit : option ph; t_apply : option ph; t_abort : option ph;
    t_props : option (list N) }.
  #[global] Instance eta_txn : Settable _ :=
    settable! mkTxn <t_details; t_serializable; t_sync; t_state; t_failure; t_init; t_validate; t_commit; t_apply; t_abort; t_props>.

  Inductive pdetails := PChange (c : Ch) | PRollback (ri : N).
  Record prop := mkProp {
    p_details : pdetails; p_prev : N; p_next : N; p_rbindex : N; p_rbvalues : option Ch;
    p_init : option ph; p_validate : option ph; p_commit : option ph; p_apply : option ph; p_abort : option ph;
    p_vfail : option ftype; p_afail : option ftype; p_term : N }.
  #[global] Instance eta_prop : Settable _ :=
    settable! mkProp <p_details; p_prev; p_next; p_rbindex; p_rbvalues; p_init; p_validate; p_commit; p_apply; p_abort; p_vfail; p_afail; p_term>.

  Record config := mkCfg {
    c_index : N;
    c_values : V (* the Atomix map of committed path values *); c_avalues : V (* the Atomix map of applied path values *);
    c_inline : V (* Values inlined in the entry *); c_ainline : V (* Status.Applied.Values inlined in the entry *);
    c_proposed : N; c_committed : N; c_applied : N; c_state : cstate;
    c_master : option N; c_term : N; c_amaster : option N; c_aterm : N }.
  #[global] Instance eta_cfg : Settable _ :=
    settable! mkCfg <c_index; c_values; c_avalues; c_inline; c_ainline; c_proposed; c_committed; c_applied; c_state; c_master; c_term; c_amaster; c_aterm>.

  Record dev := mkDev { d_state : D; d_max : N }.

  (* a Set request as seen by the device: target, connection, election id, issuing proposal index
     (None = re-push by the configuration controller), request, answer *)
  Inductive devev := DevSet (t conn term : N) (origin : option N) (r : Req) (answer : code).

  Record world := mkW {
    txs : gmap N txn; next_index : N;
    props : gmap (N * N) prop;          (* (target, index) *)
    cfgs : gmap N config;
    targets : gmap N bool;              (* configurable topo entities -> persistent? *)
    rels : gmap N (N * bool);           (* CONTROLS relation id -> (target, source is this node) *)
    conns : gmap N N;                   (* live connection id -> target *)
    devs : gmap N dev;
    devlog : list devev }.
  #[global] Instance eta_w : Settable _ :=
    settable! mkW <txs; next_index; props; cfgs; targets; rels; conns; devs; devlog>.

  (** * Effects *)
  Inductive eff :=
  | EPutTx (i : N) (t : txn)
  | ECreateProp (k : N * N) (p : prop)
  | EPutProp (k : N * N) (p : prop)
  | ECreateCfg (t : N) (c : config)
  | EPutCfg (t : N) (c : config)           (* version-checked entry write (status and index fields) *)
  | EPutValues (t : N) (v : V)             (* committed path-value map write; happens BEFORE the entry write *)
  | EPutAValues (t : N) (v : V)            (* applied path-value map write; happens BEFORE the entry write *)
  | ERelCreate (c : N) (t : N)
  | ERelDelete (c : N)
  | EDev (e : devev).

  Inductive result := RDone | RRequeueTx (i : N) | RRequeueProp (k : N * N) | RRetry.

  (* what the store's Get returns as Values: the inline values of the entry overlaid by the path-value map *)
  Definition view (C : config) : V := overlay (c_inline C) (c_values C).
  (* ... and as Status.Applied.Values *)
  Definition aview (C : config) : V := overlay (c_ainline C) (c_avalues C).
  (* UpdateStatus: the loaded applied values are stored again, then the entry is written with the loaded Values
     inline (they are not cleared on this path) and without inline applied values *)
  Definition upd_status (t : N) (C C' : config) : list eff :=
    [EPutAValues t (restore (c_avalues C) (aview C)); EPutCfg t (C' <| c_inline := view C |> <| c_ainline := v_empty |>)].

  Definition dev_of (w : world) (t : N) : dev := default (mkDev d_empty 0) (devs w !! t).

  Definition apply_eff (w : world) (e : eff) : world :=
    match e with
    | EPutTx i t => w <| txs := <[i := t]> (txs w) |>
    | ECreateProp k p => match props w !! k with Some _ => w | None => w <| props := <[k := p]> (props w) |> end
    | EPutProp k p => w <| props := <[k := p]> (props w) |>
    | ECreateCfg t c => match cfgs w !! t with Some _ => w | None => w <| cfgs := <[t := c]> (cfgs w) |> end
    | EPutCfg t c =>
      (* the entry write does not touch the path-value maps (it does carry the inline values) *)
      match cfgs w !! t with
      | Some c0 => w <| cfgs := <[t := c <| c_values := c_values c0 |> <| c_avalues := c_avalues c0 |> ]> (cfgs w) |>
      | None => w
      end
    | EPutValues t v =>
      match cfgs w !! t with
      | Some c0 => w <| cfgs := <[t := c0 <| c_values := v |> ]> (cfgs w) |>
      | None => w
      end
    | EPutAValues t v =>
      match cfgs w !! t with
      | Some c0 => w <| cfgs := <[t := c0 <| c_avalues := v |> ]> (cfgs w) |>
      | None => w
      end
    | ERelCreate c t => match rels w !! c with Some _ => w | None => w <| rels := <[c := (t, true)]> (rels w) |> end
    | ERelDelete c => w <| rels := delete c (rels w) |>
    | EDev (DevSet t c term o r a as ev) =>
      let w1 := w <| devlog := devlog w ++ [ev] |> in
      match a with
      | COk => let d := dev_of w t in
               w1 <| devs := <[t := mkDev (dev_apply (d_state d) r) (N.max (d_max d) term)]> (devs w) |>
      | _ => w1
      end
    end.

  (** * Transaction reconciler *)
  Definition new_change_prop (c : Ch) : prop :=
    mkProp (PChange c) 0 0 0 None None None None None None None None 0.
  Definition new_rollback_prop (ri : N) : prop :=
    mkProp (PRollback ri) 0 0 0 None None None None None None None None 0.

  Definition fail_init (i : N) (T : txn) (f : ftype) : list eff :=
    [EPutTx i (T <| t_state := TFailed |> <| t_failure := Some f |> <| t_abort := Some Doing |> <| t_init := Some Failed |>)].

  (* blocked by a SERIALIZABLE predecessor (found through the proposals' PrevIndex) whose state rank is below [need] *)
  Definition blocked_by_prev (w : world) (i : N) (tgts : list N) (need : N) : bool :=
    existsb (fun t =>
      match props w !! (t, i) with
      | Some p =>
        (0 <? p_prev p) &&
        match txs w !! p_prev p with
        | Some pt => t_serializable pt && (tstate_rank (t_state pt) <? need)
        | None => false
        end
      | None => false
      end) tgts.

  (* Some b: every proposal exists and b = all satisfy f; None: some proposal is missing *)
  Definition all_props (w : world) (i : N) (tgts : list N) (f : prop -> bool) : option bool :=
    foldr (fun t acc => match acc, props w !! (t, i) with
                        | Some b, Some p => Some (b && f p)
                        | _, _ => None end) (Some true) tgts.

  (* the scan loops: first proposal (list order) that is missing (-> inl tt: return) or satisfies f *)
  Fixpoint scan_props (w : world) (i : N) (tgts : list N) (f : prop -> bool) : option (unit + N * prop) :=
    match tgts with
    | [] => None
    | t :: ts => match props w !! (t, i) with
                 | None => Some (inl tt)
                 | Some p => if f p then Some (inr (t, p)) else scan_props w i ts f
                 end
    end.

  Definition phase_scan (w : world) (i : N) (T : txn) (tg : list N)
             (get : prop -> option ph) (start : prop -> prop) (stop_on_failed : bool)
             (on_failed : prop -> txn) (on_all_done : txn) : list eff * result :=
    match scan_props w i tg (fun p => is_none (get p) || (stop_on_failed && bool_decide (get p = Some Failed))) with
    | Some (inl _) => ([], RDone)
    | Some (inr (t, p)) =>
      if is_none (get p) then ([EPutProp (t, i) (start p)], RDone)
      else ([EPutTx i (on_failed p)], RDone)
    | None =>
      if default false (all_props w i tg (fun p => negb (bool_decide (get p = Some Doing))))
      then ([EPutTx i on_all_done], RDone) else ([], RDone)
    end.

  Definition gate (w : world) (i : N) (T : txn) (tg : list N) (need : N) (next : txn) (r : result) : list eff * result :=
    match all_props w i tg (fun _ => true) with
    | None => ([], RDone)
    | Some _ => if blocked_by_prev w i tg need then ([], RDone) else ([EPutTx i next], r)
    end.

  Definition create_props (w : world) (i : N) (l : list (N * prop)) : list eff :=
    flat_map (fun tp => match props w !! (fst tp, i) with
                        | Some _ => []
                        | None => [ECreateProp (fst tp, i) (snd tp)] end) l.

  Definition rec_tx (w : world) (i : N) : list eff * result :=
    match txs w !! i with
    | None => ([], RDone)
    | Some T =>
      let tg := default [] (t_props T) in
      match t_apply T, t_abort T, t_commit T, t_validate T, t_init T with
      | Some a, _, _, _, _ =>
        match a with
        | Doing =>
          (* the apply phase is started on EVERY proposal before any outcome is looked at *)
          match scan_props w i tg (fun p => is_none (p_apply p)) with
          | Some (inl _) => ([], RDone)
          | Some (inr (t, p)) => ([EPutProp (t, i) (p <| p_apply := Some Doing |>)], RDone)
          | None =>
            phase_scan w i T tg p_apply (fun p => p <| p_apply := Some Doing |>) true
                       (fun p => T <| t_state := TFailed |> <| t_failure := p_afail p |> <| t_apply := Some Failed |>)
                       (T <| t_state := TApplied |> <| t_apply := Some Done |>)
          end
        | _ => ([], RDone)
        end
      | None, Some ab, _, _, _ =>
        match ab with
        | Doing =>
          phase_scan w i T tg p_abort (fun p => p <| p_abort := Some Doing |>) false
                     (fun _ => T) (T <| t_abort := Some Done |>)
        | _ => ([], RDone)
        end
      | None, None, Some c, _, _ =>
        match c with
        | Doing =>
          phase_scan w i T tg p_commit (fun p => p <| p_commit := Some Doing |>) false
                     (fun _ => T) (T <| t_state := TCommitted |> <| t_commit := Some Done |>)
        | Done => gate w i T tg 3 (T <| t_apply := Some Doing |>) RDone
        | Failed => ([], RDone)
        end
      | None, None, None, Some v, _ =>
        match v with
        | Doing =>
          phase_scan w i T tg p_validate (fun p => p <| p_validate := Some Doing |>) true
                     (fun p => T <| t_state := TFailed |> <| t_failure := p_vfail p |> <| t_abort := Some Doing |> <| t_validate := Some Failed |>)
                     (T <| t_state := TValidated |> <| t_validate := Some Done |>)
        | Done => gate w i T tg 2 (T <| t_commit := Some Doing |>) RDone
        | Failed => ([], RDone)
        end
      | None, None, None, None, Some ini =>
        match ini with
        | Doing =>
          let prev_blocks :=
            match txs w !! (i - 1) with
            | Some P => (is_none (t_init P) || bool_decide (t_init P = Some Doing))
            | None => false end in
          if prev_blocks then ([], RDone)
          else match t_props T with
          | None =>
            match t_details T with
            | TChange chs =>
              (* list order stands for the Go map order of the targets *)
              (* the values of a target are stamped with the index only when its proposal is created here *)
              let chs' := map (fun tc => match props w !! (fst tc, i) with
                                         | Some _ => tc
                                         | None => (fst tc, stamp i (snd tc)) end) chs in
              (create_props w i (map (fun tc => (fst tc, new_change_prop (snd tc))) chs')
                 ++ [EPutTx i (T <| t_details := TChange chs' |> <| t_props := Some (map fst chs) |>)], RDone)
            | TRollback ri =>
              match txs w !! ri with
              | None => (fail_init i T FNotFound, RRequeueTx (i + 1))
              | Some R =>
                match t_details R with
                | TChange chs =>
                  (create_props w i (map (fun tc => (fst tc, new_rollback_prop ri)) chs)
                     ++ [EPutTx i (T <| t_props := Some (map fst chs) |>)], RDone)
                | TRollback _ => (fail_init i T FForbidden, RRequeueTx (i + 1))
                end
              end
            end
          | Some tg' =>
            match all_props w i tg' (fun p => negb (is_none (p_init p) || bool_decide (p_init p = Some Doing))) with
            | Some true => ([EPutTx i (T <| t_init := Some Done |>)], RDone)
            | _ => ([], RDone)
            end
          end
        | Done => gate w i T tg 1 (T <| t_validate := Some Doing |>) (RRequeueTx (i + 1))
        | Failed => ([], RDone)
        end
      | None, None, None, None, None => ([EPutTx i (T <| t_init := Some Doing |>)], RDone)
      end
    end.

  (** * Proposal reconciler *)
  (* the environment's answers for one reconcile invocation *)
  Record oracle := mkOracle { o_plugin : bool; o_verdict : bool; o_answer : code; o_choice : N;
                              o_order : N (* which Go map iteration order the invocation sees *) }.

  (* the device refuses requests carrying an election id below the highest it has seen *)
  Definition dev_answer (w : world) (t term : N) (o : oracle) : code :=
    if term <? d_max (dev_of w t) then CPermissionDenied else o_answer o.

  Definition rb_change (ch_empty : Ch) (P : prop) : Ch :=
    match p_details P with PChange c => c | PRollback _ => default ch_empty (p_rbvalues P) end.

  Context (ch_empty : Ch).

  (* requeueNext: the successor of a proposal waits for it in every phase and is only looked at again when re-queued *)
  Definition requeue_next (t : N) (P : prop) : result :=
    if p_next P =? 0 then RDone else RRequeueProp (t, p_next P).

  Definition vfail (k : N * N) (P : prop) (f : ftype) : list eff * result :=
    ([EPutProp k (P <| p_validate := Some Failed |> <| p_vfail := Some f |>)], RDone).

  Definition rec_prop (o : oracle) (w : world) (k : N * N) : list eff * result :=
    let '(t, i) := k in
    match props w !! k with
    | None => ([], RDone)
    | Some P =>
      match p_apply P, p_abort P, p_commit P, p_validate P, p_init P with
      | Some a, _, _, _, _ =>
        match a, cfgs w !! t with
        | Doing, Some C =>
          if i <=? c_applied C then ([EPutProp k (P <| p_apply := Some Done |> <| p_term := c_aterm C |>)], requeue_next t P)
          else if negb (p_prev P =? 0) && negb (c_applied C =? p_prev P) then ([], RRequeueProp (t, p_prev P))
          else if bool_decide (c_state C = CSynchronizing) then ([], RDone)
          else if is_none (targets w !! t) then ([], RDone)
          else if c_aterm C <? c_term C then ([], RDone)
          else match c_master C with
          | None => ([], RDone)
          | Some m =>
            match rels w !! m with
            | Some (_, true) =>
              match conns w !! m with
              | None => ([], RDone)
              | Some _ =>
                let ch := rb_change ch_empty P in
                match payload i (view C) ch with
                | None => ([], RDone)
                | Some req =>
                  let a := dev_answer w t (c_term C) o in
                  let ev := EDev (DevSet t m (c_term C) (Some i) req a) in
                  match a with
                  | COk =>
                    ([ev; EPutAValues t (record_applied (o_order o) i (c_avalues C) (aview C) (view C) ch);
                      EPutCfg t (C <| c_applied := i |> <| c_inline := touched i (view C) ch |> <| c_ainline := v_empty |>);
                      EPutProp k (P <| p_apply := Some Done |> <| p_term := c_term C |>)], requeue_next t P)
                  | _ =>
                    match classify (observed a) with
                    | ClsRetry => ([ev], RRetry)
                    | ClsWait => ([ev], RDone)
                    | ClsFail f =>
                      (* the failure is recorded on the proposal first, then the applied index passes it *)
                      ([ev; EPutProp k (P <| p_apply := Some Failed |> <| p_afail := Some f |> <| p_term := c_term C |>);
                        EPutAValues t (restore (c_avalues C) (aview C));
                        EPutCfg t (C <| c_applied := i |> <| c_inline := touched i (view C) ch |> <| c_ainline := v_empty |>)],
                       requeue_next t P)
                    end
                  end
                end
              end
            | _ => ([], RDone)
            end
          end
        | Done, _ => ([], requeue_next t P)
        | Failed, Some C =>
          (* passFailedProposal: the applied index moves past a proposal whose apply failed *)
          ((if c_applied C <? i then upd_status t C (C <| c_applied := i |>) else []), requeue_next t P)
        | _, _ => ([], RDone)
        end
      | None, Some ab, _, _, _ =>
        match ab, cfgs w !! t with
        | Doing, Some C =>
          if (c_committed C =? p_prev P) && (c_applied C =? p_prev P) then
            (upd_status t C (C <| c_committed := i |> <| c_applied := i |>) ++ [EPutProp k (P <| p_abort := Some Done |>)], requeue_next t P)
          else if c_committed C =? p_prev P then
            (upd_status t C (C <| c_committed := i |>), RDone)
          else if (c_applied C =? p_prev P) && (i <=? c_committed C) then
            (upd_status t C (C <| c_applied := i |>) ++ [EPutProp k (P <| p_abort := Some Done |>)], requeue_next t P)
          else if (i <=? c_committed C) && (i <=? c_applied C) then
            (* both indexes have already passed the proposal: only its status is left to write *)
            ([EPutProp k (P <| p_abort := Some Done |>)], requeue_next t P)
          else
            (* neither index can be moved yet: wait for the predecessor *)
            ([], if p_prev P =? 0 then RDone else RRequeueProp (t, p_prev P))
        | Done, _ => ([], requeue_next t P)
        | _, _ => ([], RDone)
        end
      | None, None, Some c, _, _ =>
        match c, cfgs w !! t with
        | Doing, Some C =>
          let merge :=
            if c_committed C =? p_prev P then
              [EPutValues t (commit_merge (o_order o) i (c_values C) (view C) (rb_change ch_empty P));
               EPutCfg t (C <| c_index := match p_details P with PChange _ => i | PRollback _ => p_rbindex P end |>
                            <| c_committed := i |> <| c_inline := v_empty |> <| c_ainline := aview C |>)]
            else [] in
          (merge ++ [EPutProp k (P <| p_commit := Some Done |>)], requeue_next t P)
        | Done, _ => ([], requeue_next t P)
        | _, _ => ([], RDone)
        end
      | None, None, None, Some v, _ =>
        match v, cfgs w !! t with
        | Doing, Some C =>
          if negb (p_prev P =? 0) && negb (c_committed C =? p_prev P) then ([], RRequeueProp (t, p_prev P))
          else if negb (o_plugin o) then vfail k P FInvalid
          else
            let finish (cand : V) (rbi : N) (rbv : option Ch) :=
              if negb (doc_ok cand) then ([], RRetry)
              else if o_verdict o
              then ([EPutProp k (P <| p_rbindex := rbi |> <| p_rbvalues := rbv |> <| p_validate := Some Done |>)], RDone)
              else vfail k P FInvalid in
            match p_details P with
            | PChange ch => finish (candidate (view C) ch) (c_index C) (Some (rollback_of (view C) ch))
            | PRollback ri =>
              if negb (c_index C =? ri) then vfail k P FForbidden
              else match props w !! (t, ri) with
              | None => vfail k P FNotFound
              | Some Q =>
                match p_details Q with
                | PChange _ => finish (candidate_rb (view C) (default ch_empty (p_rbvalues Q))) (p_rbindex Q) (p_rbvalues Q)
                | PRollback _ => vfail k P FForbidden
                end
              end
            end
        | _, _ => ([], RDone)
        end
      | None, None, None, None, Some ini =>
        match ini with
        | Doing =>
          match cfgs w !! t with
          | None =>
            ([ECreateCfg t (mkCfg 0 v_empty v_empty v_empty v_empty i 0 0 CUnknown None 0 None 0)], RRequeueProp k)
          | Some C =>
            if c_proposed C <? i then
              let link :=
                if 0 <? c_proposed C then
                  match props w !! (t, c_proposed C) with
                  | Some Q =>
                    if p_next Q =? 0 then Some (EPutProp (t, c_proposed C) (Q <| p_next := i |>))
                    else if p_prev P =? 0 then Some (EPutProp k (P <| p_prev := c_proposed C |>))
                    else None
                  | None => None
                  end
                else None in
              match link with
              | Some e => ([e], RRequeueProp k)
              | None => (upd_status t C (C <| c_proposed := i |>), RRequeueProp k)
              end
            else ([EPutProp k (P <| p_init := Some Done |>)], RDone)
          end
        | _ => ([], RDone)
        end
      | None, None, None, None, None => ([EPutProp k (P <| p_init := Some Doing |>)], RDone)
      end
    end.

  (** * Configuration, mastership and connection reconcilers *)
  (* the re-push loop: requests are sent in order until one is not answered OK *)
  Fixpoint resync_effs (t m term : N) (a : code) (reqs : list (option Req)) : list eff * option result :=
    match reqs with
    | [] => ([], None)
    | None :: _ => ([], Some RDone)                    (* request could not be built: return nil *)
    | Some r :: rest =>
      let ev := EDev (DevSet t m term None r a) in
      match a with
      | COk => let '(es, res) := resync_effs t m term a rest in (ev :: es, res)
      | CPermissionDenied => ([ev], Some RDone)        (* errors.IsForbidden: wait for the mastership change *)
      | _ => ([ev], Some RRetry)
      end
    end.

  Definition rec_cfg (o : oracle) (w : world) (t : N) : list eff * result :=
    match cfgs w !! t, targets w !! t with
    | Some C, Some persistent =>
      if (persistent : bool) then
        if bool_decide (c_state C = CPersisted) && negb (c_aterm C <? c_term C) then ([], RDone)
        else (upd_status t C (C <| c_state := CPersisted |> <| c_amaster := c_master C |> <| c_aterm := c_term C |>), RDone)
      else if negb (bool_decide (c_state C = CSynchronizing)) then
        if c_aterm C <? c_term C then (upd_status t C (C <| c_state := CSynchronizing |>), RDone) else ([], RDone)
      else match c_master C with
      | None => ([], RDone)
      | Some m =>
        let synced := C <| c_state := CSynchronized |> <| c_amaster := c_master C |> <| c_aterm := c_term C |> in
        if c_applied C =? 0 then (upd_status t C synced, RDone)
        else match rels w !! m, conns w !! m with
        | Some (_, true), Some _ =>
          let '(es, res) := resync_effs t m (c_term C) (dev_answer w t (c_term C) o) (resync_payload (aview C)) in
          match res with
          | None => (es ++ upd_status t C synced, RDone)
          | Some r => (es, r)
          end
        | _, _ => ([], RDone)
        end
      end
    | _, _ => ([], RDone)
    end.

  Definition my_rels (w : world) (t : N) : list N :=
    map fst (filter (fun kv => bool_decide (snd kv = (t, true))) (map_to_list (rels w))).

  Definition rec_master (o : oracle) (w : world) (t : N) : list eff * result :=
    match cfgs w !! t with
    | None => ([], RDone)
    | Some C =>
      let current_ok := match c_master C with Some m => bool_decide (rels w !! m = Some (t, true)) | None => false end in
      if current_ok then ([], RDone)
      else match my_rels w t with
      | [] => match c_master C with None => ([], RDone) | Some _ => (upd_status t C (C <| c_master := None |>), RDone) end
      | mine =>
        match mine !! (N.to_nat (o_choice o) mod length mine)%nat with
        | Some m => (upd_status t C (C <| c_term := c_term C + 1 |> <| c_master := Some m |>), RDone)
        | None => ([], RDone)
        end
      end
    end.

  Definition rec_conn (w : world) (c : N) : list eff * result :=
    match conns w !! c, rels w !! c with
    | Some t, None => ([ERelCreate c t], RDone)
    | None, Some _ => ([ERelDelete c], RDone)
    | _, _ => ([], RDone)
    end.

  (** * Labels and steps *)
  Inductive ctrl := CtlTx (i : N) | CtlProp (k : N * N) | CtlCfg (t : N) | CtlMaster (t : N) | CtlConn (c : N).
  Inductive label :=
  | LChange (chs : list (N * Ch)) (sync ser : bool)
  | LRollback (ri : N)
  | LRec (c : ctrl) (k : nat) (o : oracle)      (* the first k effects of one reconcile invocation *)
  | LConnUp (c t : N) | LConnDown (c : N)
  | LForeignRel (c t : N)                        (* a CONTROLS relation owned by another node *)
  | LTarget (t : N) (persistent : bool) | LTargetGone (t : N)
  | LDevRestart (t : N).

  Definition reconcile (o : oracle) (w : world) (c : ctrl) : list eff * result :=
    match c with
    | CtlTx i => rec_tx w i
    | CtlProp k => rec_prop o w k
    | CtlCfg t => rec_cfg o w t
    | CtlMaster t => rec_master o w t
    | CtlConn c => rec_conn w c
    end.

  Definition new_txn (d : tdetails) (sync ser : bool) : txn :=
    mkTxn d ser sync TPending None None None None None None None.

  Definition step (w : world) (l : label) : world :=
    match l with
    | LChange chs sync ser =>
      w <| txs := <[next_index w := new_txn (TChange chs) sync ser]> (txs w) |> <| next_index := next_index w + 1 |>
    | LRollback ri =>
      w <| txs := <[next_index w := new_txn (TRollback ri) true false]> (txs w) |> <| next_index := next_index w + 1 |>
    | LRec c k o => fold_left apply_eff (firstn k (fst (reconcile o w c))) w
    | LConnUp c t => match conns w !! c with Some _ => w | None => w <| conns := <[c := t]> (conns w) |> end
    | LConnDown c => w <| conns := delete c (conns w) |>
    | LForeignRel c t => match rels w !! c with Some _ => w | None => w <| rels := <[c := (t, false)]> (rels w) |> end
    | LTarget t pers => w <| targets := <[t := pers]> (targets w) |>
    | LTargetGone t => w <| targets := delete t (targets w) |>
    | LDevRestart t => w <| devs := <[t := mkDev d_empty 0]> (devs w) |>
    end.

  Definition init : world := mkW ∅ 1 ∅ ∅ ∅ ∅ ∅ ∅ [].
  Definition run (ls : list label) : world := fold_left step ls init.
  Definition reach (w : world) : Prop := exists ls, w = run ls.
End Proto2.

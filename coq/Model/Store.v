(* The five store wrappers of /repo over the Atomix primitives:
     pkg/store/v2/transaction/store.go   (TxV2:  indexed map "transactions")
     pkg/store/v2/proposal/store.go      (PropV2: map "proposals")
     pkg/store/v2/configuration/configuration.go (CfgV2: map "configurations" + one path-value map per id)
     pkg/store/v3/transaction/store.go   (TxV3:  one indexed map per target)
     pkg/store/v3/configuration/store.go (CfgV3: map + one path-value map per id)
   Create / Update / UpdateStatus / Get / List, transcribed with their order of effects:
     - field validation first (any failure: Invalid, nothing touched);
     - the configuration stores write the path values BEFORE they try the entry (Insert / Update IfVersion),
       so a refused write has already changed the path values (finding F-08);
     - Create sets Revision = 1 and Update does Revision++ on the CALLER's object before the Atomix call,
       also when that call then fails;
     - the committed path values of a configuration live in the Atomix map "configurations-<id>", the applied
       ones in "configurations-<id>-applied" (Create / Update write the former, UpdateStatus the latter);
     - Updated = time.Now(): the stamp; the store's clock s_now is strictly increasing between two
       calls (modelling assumption, see the manifest) - it is what keeps the indexed map's
       equal-bytes no-op from ever applying to an UpdateStatus.
   One whole store call is one step (the harness issues whole calls sequentially).
   Path values: pairwise unrelated paths only, for which tree.PrunePathMap(values, true) is the identity
   (the pruning of descendants of a tombstone belongs to C03). *)
From Coq Require Import List NArith Bool.
From OC Require Import Base.Bytes Model.Atomix.
Import ListNotations.
Open Scope N_scope.

Inductive kind := TxV2 | PropV2 | CfgV2 | TxV3 | CfgV3.

Definition indexed (k : kind) : bool := match k with TxV2 | TxV3 => true | _ => false end.
Definition has_values (k : kind) : bool := match k with CfgV2 | CfgV3 => true | _ => false end.

Record pv := { pv_val : N; pv_idx : N; pv_del : bool }.
Definition pvmap := list (str * pv).

(* the caller's object *)
Record obj := {
  o_key : str;          (* ID (v2) / Key (v3 tx) / target id (v3 cfg) *)
  o_log : str;          (* v3 transactions: the target whose log holds the record; [] otherwise *)
  o_idok : bool;        (* ID / Key not empty *)
  o_tgtok : bool;       (* TargetID (v2) / Target.ID, Type, Version (v3) not empty *)
  o_txok : bool;        (* proposals: TransactionIndex <> 0 *)
  o_version : N;
  o_revision : N;
  o_index : N;
  o_payload : N;
  o_vals : option pvmap; (* the values the call passes: Values / Committed.Values (Create, Update), Status.Applied.Values /
                            Applied.Values (UpdateStatus); None = nil.  In Get's answer: the committed values *)
  o_avals : option pvmap;(* in Get's answer: the applied values *)
  o_last : str          (* oracle: the path Go's map iteration visits LAST in configurationStore.store (v3 only) *)
}.

Record sstate := {
  s_logs : list (str * alog);
  s_pvs : list (str * pvmap);   (* committed path values, per configuration id *)
  s_apvs : list (str * pvmap);  (* applied path values, per configuration id *)
  s_clock : N;          (* last version handed out by Atomix *)
  s_now : N             (* time.Now() *)
}.

Definition init : sstate := {| s_logs := []; s_pvs := []; s_apvs := []; s_clock := 0; s_now := 0 |}.

Inductive opk := OCreate | OUpdate | OStatus.

Fixpoint get_log (name : str) (l : list (str * alog)) : alog :=
  match l with
  | [] => empty_log
  | (n, lg) :: r => if eqb_str n name then lg else get_log name r
  end.

Fixpoint set_log (name : str) (lg : alog) (l : list (str * alog)) : list (str * alog) :=
  match l with
  | [] => [(name, lg)]
  | (n, x) :: r => if eqb_str n name then (n, lg) :: r else (n, x) :: set_log name lg r
  end.

Fixpoint get_pvs (id : str) (l : list (str * pvmap)) : pvmap :=
  match l with
  | [] => []
  | (n, m) :: r => if eqb_str n id then m else get_pvs id r
  end.

Fixpoint set_pvs (id : str) (m : pvmap) (l : list (str * pvmap)) : list (str * pvmap) :=
  match l with
  | [] => [(id, m)]
  | (n, x) :: r => if eqb_str n id then (n, m) :: r else (n, x) :: set_pvs id m r
  end.

(* configurationStore.store for one path: absent -> Insert; present with another Index -> Update;
   present with the same Index -> untouched *)
Fixpoint put_path (p : str) (v : pv) (m : pvmap) : pvmap :=
  match m with
  | [] => [(p, v)]
  | (q, w) :: r => if eqb_str q p then (if N.eqb (pv_idx v) (pv_idx w) then (q, w) :: r else (q, v) :: r)
                   else (q, w) :: put_path p v r
  end.

Definition store_vals (vals : pvmap) (m : pvmap) : pvmap :=
  fold_left (fun acc x => put_path (fst x) (snd x) acc) vals m.

(* The v3 configuration store ranges `for _, pv := range values` and hands `&pv` to transaction.Insert /
   Update, whose encoding is deferred to Commit: with the loop variable shared by all iterations (go 1.19
   semantics of this module) every path WRITTEN by one call receives the value visited last.  The decision
   whether a path is written still uses its own Index. *)
Fixpoint put_path_as (p : str) (own stored : pv) (m : pvmap) : pvmap :=
  match m with
  | [] => [(p, stored)]
  | (q, w) :: r => if eqb_str q p then (if N.eqb (pv_idx own) (pv_idx w) then (q, w) :: r else (q, stored) :: r)
                   else (q, w) :: put_path_as p own stored r
  end.

Fixpoint find_pv (p : str) (l : pvmap) : option pv :=
  match l with [] => None | (q, v) :: r => if eqb_str q p then Some v else find_pv p r end.

Definition last_visited (vals : pvmap) (oracle : str) : option pv :=
  match find_pv oracle vals with
  | Some v => Some v
  | None => match rev vals with (_, v) :: _ => Some v | [] => None end
  end.

(* oracle = [] : every iteration has its own copy (go >= 1.22 loop variables, or the repaired code) *)
Definition store_vals_v3 (oracle : str) (vals : pvmap) (m : pvmap) : pvmap :=
  if eqb_str oracle [] then store_vals vals m else
  match last_visited vals oracle with
  | Some lastv => fold_left (fun acc x => put_path_as (fst x) (snd x) lastv acc) vals m
  | None => m
  end.

(* which request fields each store checks, per operation *)
Definition valid (k : kind) (op : opk) (o : obj) : bool :=
  let fields :=
    match k, op with
    | TxV2, _ => true
    | PropV2, OCreate => o_idok o && o_tgtok o
    | PropV2, _ => o_idok o && o_txok o && o_tgtok o
    | CfgV2, _ => o_idok o && o_tgtok o
    | TxV3, OCreate => o_tgtok o
    | TxV3, OUpdate => o_idok o && o_tgtok o
    | TxV3, OStatus => true
    | CfgV3, _ => o_tgtok o
    end in
  match op with
  | OCreate => fields && N.eqb (o_version o) 0 && N.eqb (o_revision o) 0
  | _ => fields && negb (N.eqb (o_revision o) 0) && negb (N.eqb (o_version o) 0)
  end.

Definition with_meta (o : obj) (ver rev idx : N) : obj :=
  {| o_key := o_key o; o_log := o_log o; o_idok := o_idok o; o_tgtok := o_tgtok o; o_txok := o_txok o;
     o_version := ver; o_revision := rev; o_index := idx; o_payload := o_payload o; o_vals := o_vals o; o_avals := o_avals o; o_last := o_last o |}.

Definition tick (st : sstate) : sstate :=
  {| s_logs := s_logs st; s_pvs := s_pvs st; s_apvs := s_apvs st; s_clock := s_clock st; s_now := s_now st + 1 |}.

(* the path-value write that precedes the entry write in the configuration stores *)
Definition write_vals (k : kind) (op : opk) (o : obj) (st : sstate) : sstate :=
  if has_values k then
    match o_vals o with
    | Some vs =>
      let wr := (match k with CfgV3 => store_vals_v3 (o_last o) | _ => store_vals end) vs in
      match op with
      | OStatus => {| s_logs := s_logs st; s_pvs := s_pvs st;
                      s_apvs := set_pvs (o_key o) (wr (get_pvs (o_key o) (s_apvs st))) (s_apvs st);
                      s_clock := s_clock st; s_now := s_now st |}
      | _ => {| s_logs := s_logs st;
                s_pvs := set_pvs (o_key o) (wr (get_pvs (o_key o) (s_pvs st))) (s_pvs st); s_apvs := s_apvs st;
                s_clock := s_clock st; s_now := s_now st |}
      end
    | None => st
    end
  else st.

Definition put_log (st : sstate) (name : str) (lg : alog) (nv : N) : sstate :=
  {| s_logs := set_log name lg (s_logs st); s_pvs := s_pvs st; s_apvs := s_apvs st; s_clock := nv; s_now := s_now st |}.

(* one store call: new state, result code, the caller's object afterwards, and whether an event was published *)
Definition step (k : kind) (op : opk) (o : obj) (st0 : sstate) : sstate * code * obj * bool :=
  let st := tick st0 in
  if negb (valid k op o) then (st, CInvalid, o, false)
  else
    let st1 := write_vals k op o st in
    let lg := get_log (o_log o) (s_logs st1) in
    let nv := s_clock st1 + 1 in
    match op with
    | OCreate =>
      let v := {| v_payload := o_payload o; v_revision := 1; v_stamp := s_now st |} in
      match al_append (indexed k) lg (o_key o) v nv with
      | (COk, lg', Some e) => (put_log st1 (o_log o) lg' nv, COk, with_meta o (e_version e) 1 (if indexed k then e_index e else o_index o), true)
      | (c, _, _) => (st1, c, with_meta o (o_version o) 1 (o_index o), false)
      end
    | OUpdate | OStatus =>
      let rev := match op with OUpdate => o_revision o + 1 | _ => o_revision o end in
      let v := {| v_payload := o_payload o; v_revision := rev; v_stamp := s_now st |} in
      match al_update (indexed k) lg (o_key o) v (o_version o) nv with
      | (COk, lg', Some e, changed) =>
        ((if changed then put_log st1 (o_log o) lg' nv else st1), COk,
         with_meta o (e_version e) rev (if indexed k then e_index e else o_index o), changed)
      | (c, _, _, _) => (st1, c, with_meta o (o_version o) rev (o_index o), false)
      end
    end.

(* Get: the stored record with Version / Index from the entry and, for configurations, the path values *)
Definition get (k : kind) (log key : str) (st : sstate) : option obj :=
  match find_entry key (l_entries (get_log log (s_logs st))) with
  | None => None
  | Some e => Some {| o_key := key; o_log := log; o_idok := true; o_tgtok := true; o_txok := true;
                      o_version := e_version e; o_revision := v_revision (e_val e); o_index := e_index e;
                      o_payload := v_payload (e_val e);
                      o_vals := if has_values k then Some (get_pvs key (s_pvs st)) else None;
                      o_avals := if has_values k then Some (get_pvs key (s_apvs st)) else None; o_last := [] |}
  end.

(* List of one log (all records of the store except for v3 transactions, whose List returns after the
   first target's log - the driver accepts any single log there) *)
Definition list_log (k : kind) (log : str) (st : sstate) : list obj :=
  flat_map (fun e => match get k log (e_key e) st with Some o => [o] | None => [] end)
           (l_entries (get_log log (s_logs st))).

(* current version / index of a record; 0 = absent *)
Definition cur (st : sstate) (log key : str) : N :=
  match find_entry key (l_entries (get_log log (s_logs st))) with Some e => e_version e | None => 0 end.
Definition idx_of (st : sstate) (log key : str) : N :=
  match find_entry key (l_entries (get_log log (s_logs st))) with Some e => e_index e | None => 0 end.

(* histories *)
Record call := { c_op : opk; c_obj : obj }.

Fixpoint run (k : kind) (st : sstate) (cs : list call) : sstate * list (code * obj) :=
  match cs with
  | [] => (st, [])
  | c :: r =>
    match step k (c_op c) (c_obj c) st with
    | (st', cd, o', _) => let (stf, res) := run k st' r in (stf, (cd, o') :: res)
    end
  end.

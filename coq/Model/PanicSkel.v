(* C12 - panic skeleton of the northbound entry points.

   For every handler of pkg/northbound/gnmi/v2 (Capabilities, Get, Set, Subscribe) and
   pkg/northbound/admin (RollbackTransaction, LeafSelectionQuery, ListRegisteredModels, the
   transaction / configuration list-get-watch services) this file transcribes, in program order,
   the operations that can panic on request-derived data - slices with computed bounds, indexing,
   dereferences of optional sub-messages, regexp.MustCompile on request text, big.NewFloat(NaN),
   typed-value accessors on stored values - together with exactly the guards the code performs,
   composed in the outcome monad  Ok | Err code | Panic why.

   Transcribed helpers: utils.StrPath / StrPathElem / SplitPath / nextTokenIndex,
   pathutils.RemovePathIndices / AnonymizePathIndices / ExtractIndexNames / FindPathFromModel /
   CheckKeyValue / CheckPathIndexIsValid / IsPathValid / GetParentPath, jsonBasePath, doDelete,
   doUpdateOrReplace, GnmiTypedValueToNativeType / handleLeafList (outcome class + the resulting
   TypedValue layout), utils.MatchWildcardRegexp (as text, then a recogniser of the regexp fragment
   it may emit - anything else is a MustCompile panic), the slicing of tree.addPathToTree, the
   accessors used by tree.handleLeafValue / NativeTypeToGnmiTypedValue, getTargetInfo / addTarget,
   splitSubscribeRequest.

   The code modelled is /repo with fixes/C12-1.patch and fixes/C12-2.patch applied.
   External parties are oracles: the model plugin's answer to GetPathValues is a field of the update
   (u_plugin), the gogo decoding of a registered extension is a field of the extension.
   No proofs in this file. *)
From Coq Require Import List NArith ZArith Bool.
From OC Require Import Base.Bytes.
Import ListNotations.
Open Scope N_scope.

(* ------------------------------------------------------------------ outcome monad *)
Inductive outcome (A : Type) : Type :=
| Ok (a : A)
| Err (code : N)      (* gRPC status code as the caller sees it; 0 = some status, code not modelled *)
| Panic (why : N).
Arguments Ok {A} a.
Arguments Err {A} code.
Arguments Panic {A} why.

Definition bind {A B} (o : outcome A) (k : A -> outcome B) : outcome B :=
  match o with Ok a => k a | Err c => Err c | Panic w => Panic w end.
Notation "x <- e ;; k" := (bind e (fun x => k)) (at level 61, e at next level, right associativity).

Definition is_panic {A} (o : outcome A) : bool := match o with Panic _ => true | _ => false end.

(* panic sites *)
Definition w_slice : N := 1.     (* slice bounds out of range *)
Definition w_index : N := 2.     (* index out of range *)
Definition w_nil : N := 3.       (* nil pointer dereference *)
Definition w_regexp : N := 4.    (* regexp.MustCompile *)
Definition w_nan : N := 5.       (* big.NewFloat(NaN) *)
Definition w_nilmap : N := 6.    (* assignment to entry in nil map *)
Definition w_fuel : N := 7.
Definition w_div : N := 8.      (* integer divide by zero *)      (* model recursion bound exhausted (never on inputs shorter than the bound) *)

(* status codes *)
Definition c_unknown : N := 2.
Definition c_invalid : N := 3.
Definition c_notfound : N := 5.
Definition c_internal : N := 13.
Definition c_unavailable : N := 14.
Definition c_some : N := 0.

(* ------------------------------------------------------------------ Go slices and searches *)
Definition zlen (s : str) : Z := Z.of_nat (List.length s).

(* s[lo:hi] *)
Definition slice (s : str) (lo hi : Z) : outcome str :=
  if ((0 <=? lo)%Z && (lo <=? hi)%Z && (hi <=? zlen s)%Z)%bool
  then Ok (firstn (Z.to_nat (hi - lo)) (skipn (Z.to_nat lo) s))
  else Panic w_slice.

(* strings.Index / strings.LastIndex for a one-byte needle, -1 when absent *)
Definition zindex (c : N) (s : str) : Z :=
  match index_byte c s with Some i => Z.of_nat i | None => (-1)%Z end.
Definition zlast_index (c : N) (s : str) : Z :=
  match last_index_byte c s with Some i => Z.of_nat i | None => (-1)%Z end.

Definition has_byte (c : N) (s : str) : bool := existsb (fun x => x =? c) s.

(* strings.Replace(s, old, new, 1), old non-empty *)
Fixpoint replace_first (old new s : str) : str :=
  if prefixb old s then new ++ skipn (List.length old) s
  else match s with
       | [] => []
       | c :: s' => c :: replace_first old new s'
       end.

(* strings.ReplaceAll(s, old, new), old non-empty: left to right, non-overlapping *)
Fixpoint replace_all_aux (old new : str) (skip : nat) (s : str) : str :=
  match s with
  | [] => []
  | c :: s' =>
    match skip with
    | S k => replace_all_aux old new k s'
    | O => if prefixb old s then new ++ replace_all_aux old new (List.length old - 1) s'
           else c :: replace_all_aux old new O s'
    end
  end.
Definition replace_all (old new s : str) : str := replace_all_aux old new O s.

Definition c_nl : N := 10.

(* ------------------------------------------------------------------ request messages *)
(* Optional sub-messages are options.  Positions that Go represents by pointers but that a wire
   decoder never leaves nil (elements of repeated message fields, the message inside a set oneof)
   are options too, so that the content of "decodable from the wire" can be stated (wire_ok). *)
Record elem := { e_name : str; e_keys : list (str * str) }.
Record gpath := { p_target : str; p_elem : list (option elem); p_element : list str }.

Inductive scalar :=
| SStr (s : str) | SAscii (s : str) | SInt (z : Z) | SUint (n : N) | SBool (b : bool) | SBytes (b : str)
| SDecimal (d : option (Z * N))       (* DecimalVal message: digits, precision *)
| SFloat (isnan : bool)
| SOther.                              (* json_ietf, any, proto_bytes, double, nested leaf-list, unset oneof *)

Inductive tval :=
| TScalar (s : scalar)
| TJson (j : str)
| TLeaflist (l : list (option scalar)).   (* elements of ScalarArray.element *)

(* the model plugin's answer to GetPathValues(base path, json) for one update *)
Inductive plugin_answer := PErr (code : N) | PPaths (ps : list str).

Record update := { u_path : option gpath; u_val : option tval; u_plugin : plugin_answer }.

(* gogo decoding of the message carried by a registered extension *)
Inductive ext_payload :=
| XBad                                                   (* proto.Unmarshal fails *)
| XStrategy (sync : bool)
| XOverrides (m : list (str * option (str * str))).       (* target -> type, version; None = entry without value *)

Inductive extension :=
| ERegistered (r : option (N * ext_payload))   (* RegisteredExt message: id, decoded payload *)
| EOther.                                       (* master arbitration, history, unset oneof *)

(* ------------------------------------------------------------------ environment and state *)
(* rw_opts: the TypeOpts of the model entry (width / precision); most entries have none *)
Record rwpath := { rw_path : str; rw_iskey : bool; rw_attr : str; rw_opts : list N }.
Record plugin := { pl_type : str; pl_version : str; pl_rw : list rwpath }.
Record target := { tg_id : str; tg_type : str; tg_version : str }.

(* layout of an onos-api TypedValue: Type, len(Bytes), TypeOpts; nv_str = ValueToString where the
   model computes it (None: a text that is never a legal index value) *)
Record nval := { nv_type : N; nv_blen : N; nv_opts : list Z; nv_str : option str }.

Record stored := { sv_path : str; sv_deleted : bool; sv_val : nval }.
(* configuration of a target; its id is configuration.NewID = "<target>-<plugin name>-<plugin version>" *)
Record config := { cf_id : str; cf_values : list stored }.

Record env := { en_topo : list target; en_plugins : list plugin; en_size_limit : N }.
Definition state := list config.

(* YANG decimal64 has at most 18 fraction digits *)
Definition max_decimal_precision : N := 18.

(* onos-api strDecimal64 (TypedDecimal.String / Float, TypedLeafListDecimal.ListFloat): div = 10^precision in
   int64 arithmetic; from precision 64 on div is 0 and digits / div panics.  The precision is uint8(TypeOpts[0]) *)
Definition dec_guard (v : nval) : outcome unit :=
  if (nv_type v =? 5) || (nv_type v =? 12) then
    match nv_opts v with
    | p :: _ => if (p mod 256 <? 64)%Z then Ok tt else Panic w_div
    | [] => Ok tt
    end
  else Ok tt.


(* ------------------------------------------------------------------ utils.StrPath *)
Definition pair_leb (a b : str * str) : bool := leb_str (fst a) (fst b).

(* writeSafeString *)
Definition safe_string (esc : N) (s : str) : str :=
  flat_map (fun c => if (c =? esc) || (c =? c_bslash) then [c_bslash; c] else [c]) s.

Definition str_keys (ks : list (str * str)) : str :=
  flat_map (fun kv => [c_lbr] ++ fst kv ++ [c_eq] ++ safe_string c_rbr (snd kv) ++ [c_rbr]) (isort pair_leb ks).

(* StrPathElem: elm.Name on a nil element is a nil dereference *)
Fixpoint str_path_elem (es : list (option elem)) : outcome str :=
  match es with
  | [] => Ok []
  | None :: _ => Panic w_nil
  | Some e :: es' =>
    rest <- str_path_elem es' ;;
    Ok ([c_slash] ++ safe_string c_slash (e_name e) ++ str_keys (e_keys e) ++ rest)
  end.

Definition root : str := [c_slash].

Definition str_path (p : option gpath) : outcome str :=
  match p with
  | None => Ok root
  | Some p =>
    match p_elem p, p_element p with
    | _ :: _, _ => str_path_elem (p_elem p)
    | [], _ :: _ => Ok ([c_slash] ++ join [c_slash] (p_element p))
    | [], [] => Ok root
    end
  end.

(* ------------------------------------------------------------------ pkg/utils/path *)
(* rOnIndex = (\[.*?]).*?  FindAllStringSubmatch: leftmost '[' then nearest ']' with no newline between *)
Fixpoint index_matches_aux (cur : option str) (s : str) : list str :=
  match s with
  | [] => []
  | c :: s' =>
    match cur with
    | None => if c =? c_lbr then index_matches_aux (Some []) s' else index_matches_aux None s'
    | Some acc =>
      if c =? c_rbr then ([c_lbr] ++ rev acc ++ [c_rbr]) :: index_matches_aux None s'
      else if c =? c_nl then index_matches_aux None s'
      else index_matches_aux (Some (c :: acc)) s'
    end
  end.
Definition index_matches (s : str) : list str := index_matches_aux None s.

(* RemovePathIndices *)
Definition remove_indices (path : str) : str :=
  fold_left (fun p m => replace_first m [] p) (index_matches path) path.

(* AnonymizePathIndices: Split(m, "="), last part := "*]", Join *)
Definition anonymize_match (m : str) : str :=
  join [c_eq] (removelast (split_on c_eq m) ++ [[c_star; c_rbr]]).
Definition anonymize_indices (path : str) : str :=
  fold_left (fun p m => replace_first m (anonymize_match m) p) (index_matches path) path.

(* ExtractIndexNames (repaired: an index without '=' is a name with an empty value) *)
Definition extract_one (m : str) : outcome (str * str) :=
  let eq := zlast_index c_eq m in
  if (eq <? 0)%Z then
    n <- slice m 1 (zlen m - 1) ;; Ok (n, [])
  else
    n <- slice m 1 eq ;;
    v <- slice m (eq + 1) (zlen m - 1) ;;
    Ok (n, v).

Fixpoint extract_all (ms : list str) : outcome (list (str * str)) :=
  match ms with
  | [] => Ok []
  | m :: ms' => nv <- extract_one m ;; rest <- extract_all ms' ;; Ok (nv :: rest)
  end.
Definition extract_index_names (path : str) : outcome (list (str * str)) := extract_all (index_matches path).

(* nth element of a slice: indices[len(indices)-1] *)
Definition last_elem {A} (l : list A) : outcome A :=
  match rev l with [] => Panic w_index | x :: _ => Ok x end.

Definition lookup_rw (p : str) (rw : list rwpath) : option rwpath := find (fun r => eqb_str (rw_path r) p) rw.

(* FindPathFromModel: (isExactMatch, rwPath when exact) *)
Definition find_path_from_model (path : str) (rw : list rwpath) (exact : bool) : outcome (bool * option rwpath) :=
  let search := remove_indices path in
  match lookup_rw (anonymize_indices path) rw with
  | Some r => Ok (true, Some r)
  | None =>
    if exact then Err c_internal       (* status.Errorf is not a typed error: errors.Status makes it Internal *)
    else
      search' <- (if suffixb [c_rbr] path then
                    idx <- extract_index_names path ;;
                    match idx with
                    | [] => Ok search
                    | _ :: _ => l <- last_elem idx ;; Ok (search ++ [c_slash] ++ fst l)
                    end
                  else Ok search) ;;
      if existsb (fun r => prefixb search' (remove_indices (rw_path r))) rw then Ok (false, None)
      else Err c_invalid
  end.

(* IndexAllowedChars = ^([a-zA-Z0-9\*\-\._])+$ *)
Definition is_alnum (c : N) : bool :=
  ((48 <=? c) && (c <=? 57)) || ((65 <=? c) && (c <=? 90)) || ((97 <=? c) && (c <=? 122)).
Definition index_char_ok (c : N) : bool := is_alnum c || (c =? 42) || (c =? 45) || (c =? 46) || (c =? 95).
Definition index_value_ok (v : str) : bool := negb (eqb_str v []) && forallb index_char_ok v.

(* GetParentPath *)
Definition get_parent_path (path : str) : outcome str :=
  let i := zlast_index c_slash path in
  if (i <=? 0)%Z then Ok [] else slice path 0 i.

(* CheckKeyValue (repaired: every index value is validated; a key is compared with its parent entry) *)
Definition check_key_value (path : str) (r : rwpath) (v : nval) : outcome unit :=
  idx <- extract_index_names path ;;
  match idx with
  | [] => Ok tt
  | _ :: _ =>
    if negb (forallb (fun nv => index_value_ok (snd nv)) idx) then Err c_invalid
    else if negb (rw_iskey r) then Ok tt
    else
      _ <- (if nv_type v =? 5 then dec_guard v else Ok tt) ;;     (* val.ValueToString() is evaluated from here on *)
      parent <- get_parent_path path ;;
      last_seg <- slice parent (zlast_index c_slash parent + 1) (zlen parent) ;;
      pidx <- extract_index_names last_seg ;;
      if existsb (fun nv => eqb_str (rw_attr r) (fst nv) &&
                            match nv_str v with Some s => eqb_str (snd nv) s | None => false end) pidx
      then Ok tt else Err c_invalid
  end.

(* validPathRegexp = (/[a-zA-Z0-9:=\-\._[\]]+)+ must match the whole path *)
Definition path_char_ok (c : N) : bool :=
  is_alnum c || (c =? 58) || (c =? 61) || (c =? 45) || (c =? 46) || (c =? 95) || (c =? 91) || (c =? 93).
Definition is_path_valid (path : str) : bool :=
  match path with
  | [] => false
  | c :: rest => (c =? c_slash) && forallb (fun seg => negb (eqb_str seg []) && forallb path_char_ok seg) (split_on c_slash rest)
  end.

(* jsonBasePath *)
Definition json_base_path (path : str) : outcome str :=
  if (1 <? zlen path)%Z && suffixb [c_slash] path then slice path 0 (zlen path - 1) else Ok path.

(* ------------------------------------------------------------------ values *)
(* len(big.Int.Bytes()) of a magnitude *)
Definition mag_len (n : N) : N := (N.size n + 7) / 8.
Definition zsign_opt (z : Z) : Z := if (z <? 0)%Z then 1%Z else 0%Z.

Fixpoint dec_digits_pos (fuel : nat) (n : N) (acc : str) : str :=
  match fuel with
  | O => acc
  | S f => let acc' := (48 + n mod 10) :: acc in if n <? 10 then acc' else dec_digits_pos f (n / 10) acc'
  end.
Definition dec_n (n : N) : str := dec_digits_pos (S (N.to_nat (N.size n))) n [].
Definition dec_z (z : Z) : str := if (z <? 0)%Z then 45 :: dec_n (Z.abs_N z) else dec_n (Z.abs_N z).

(* onos-api strDecimal64 for precisions the int64 power does not overflow on: "%d" when the precision is 0,
   otherwise "%d.%0<p>d" of the truncated quotient and the absolute remainder (the sign of a value in (-1,0) is lost) *)
Fixpoint pad_zeros (n : nat) (s : str) : str :=
  match n with O => s | S k => if (List.length s <? n)%nat then 48 :: pad_zeros k s else s end.
Definition dec_str (d : Z) (p : N) : str :=
  if p =? 0 then dec_z d
  else let pow := (10 ^ Z.of_N p)%Z in
       dec_z (Z.quot d pow) ++ [c_dot] ++ pad_zeros (N.to_nat p) (dec_n (Z.abs_N (Z.rem d pow))).

Definition vt_string : N := 1.  Definition vt_int : N := 2.  Definition vt_uint : N := 3.
Definition vt_bool : N := 4.    Definition vt_decimal : N := 5.  Definition vt_float : N := 6.
Definition vt_bytes : N := 7.   Definition vt_ll_string : N := 8.  Definition vt_ll_int : N := 9.
Definition vt_ll_uint : N := 10. Definition vt_ll_bool : N := 11. Definition vt_ll_decimal : N := 12.
Definition vt_ll_float : N := 13. Definition vt_ll_bytes : N := 14.

Definition lenN (s : str) : N := N.of_nat (List.length s).
Definition sumN (l : list N) : N := fold_right N.add 0 l.

(* classification of leaf-list elements, in the order handleLeafList tests the collected lists *)
Record ll_acc := { la_str : list str; la_int : list Z; la_uint : list N; la_bool : list bool;
                   la_bytes : list str; la_dec : list Z; la_float : nat }.
Definition la_empty : ll_acc := Build_ll_acc [] [] [] [] [] [] O.

Fixpoint leaf_list_collect (l : list (option scalar)) (a : ll_acc) : outcome ll_acc :=
  match l with
  | [] => Ok a
  | None :: _ => Ok a  (* unreachable on decoded messages; GetValue() of a nil element is nil: default arm *)
  | Some s :: l' =>
    match s with
    | SStr x | SAscii x => leaf_list_collect l' (Build_ll_acc (la_str a ++ [x]) (la_int a) (la_uint a) (la_bool a) (la_bytes a) (la_dec a) (la_float a))
    | SInt z => leaf_list_collect l' (Build_ll_acc (la_str a) (la_int a ++ [z]) (la_uint a) (la_bool a) (la_bytes a) (la_dec a) (la_float a))
    | SUint n => leaf_list_collect l' (Build_ll_acc (la_str a) (la_int a) (la_uint a ++ [n]) (la_bool a) (la_bytes a) (la_dec a) (la_float a))
    | SBool b => leaf_list_collect l' (Build_ll_acc (la_str a) (la_int a) (la_uint a) (la_bool a ++ [b]) (la_bytes a) (la_dec a) (la_float a))
    | SBytes b => leaf_list_collect l' (Build_ll_acc (la_str a) (la_int a) (la_uint a) (la_bool a) (la_bytes a ++ [b]) (la_dec a) (la_float a))
    | SDecimal None => Panic w_nil                                  (* u.DecimalVal.Digits *)
    | SDecimal (Some (d, p)) =>
      if max_decimal_precision <? p then Err c_internal      (* repaired (fixes/C12-3) *)
      else leaf_list_collect l' (Build_ll_acc (la_str a) (la_int a) (la_uint a) (la_bool a) (la_bytes a) (la_dec a ++ [d]) (la_float a))
    | SFloat _ => leaf_list_collect l' (Build_ll_acc (la_str a) (la_int a) (la_uint a) (la_bool a) (la_bytes a) (la_dec a) (S (la_float a)))
    | SOther => Err c_internal
    end
  end.

Definition has_nil_elem (l : list (option scalar)) : bool := existsb (fun o => match o with None => true | Some _ => false end) l.

Definition mk_nval (t : N) (blen : N) (opts : list Z) (s : option str) : nval := Build_nval t blen opts s.

Definition handle_leaf_list (l : list (option scalar)) : outcome nval :=
  if has_nil_elem l then Err c_internal else
  a <- leaf_list_collect l la_empty ;;
  match la_str a, la_int a, la_uint a, la_bool a, la_bytes a, la_dec a, la_float a with
  | _ :: _, _, _, _, _, _, _ =>
    Ok (mk_nval vt_ll_string (sumN (map lenN (la_str a)) + N.of_nat (List.length (la_str a) - 1)) []
                (Some (join [c_comma] (la_str a))))
  | [], _ :: _, _, _, _, _, _ =>
    Ok (mk_nval vt_ll_int (sumN (map (fun z => mag_len (Z.abs_N z)) (la_int a)))
                (32%Z :: flat_map (fun z => [Z.of_N (mag_len (Z.abs_N z)); zsign_opt z]) (la_int a)) None)
  | [], [], _ :: _, _, _, _, _ =>
    Ok (mk_nval vt_ll_uint (sumN (map mag_len (la_uint a))) (32%Z :: map (fun n => Z.of_N (mag_len n)) (la_uint a)) None)
  | [], [], [], _ :: _, _, _, _ => Ok (mk_nval vt_ll_bool (N.of_nat (List.length (la_bool a))) [] None)
  | [], [], [], [], _ :: _, _, _ =>
    Ok (mk_nval vt_ll_bytes (sumN (map lenN (la_bytes a))) (map (fun b => Z.of_N (lenN b)) (la_bytes a)) None)
  | [], [], [], [], [], _ :: _, _ =>
    Ok (mk_nval vt_ll_decimal (sumN (map (fun z => mag_len (Z.abs_N z)) (la_dec a)))
                (0%Z :: flat_map (fun z => [Z.of_N (mag_len (Z.abs_N z)); zsign_opt z]) (la_dec a)) None)
  | [], [], [], [], [], [], S n => Ok (mk_nval vt_ll_float (8 * N.of_nat (S n)) [] None)
  | [], [], [], [], [], [], O => Err c_internal
  end.

(* GnmiTypedValueToNativeType (repaired: NaN refused).  Widths / precisions that depend on the model
   path's TypeOpts only change option values that no accessor uses as a bound. *)
Definition to_native (v : option tval) : outcome nval :=
  match v with
  | None => Err c_internal                                   (* GetValue() of nil: default arm *)
  | Some (TJson _) => Err c_internal                         (* not reached: JSON values take the other branch *)
  | Some (TLeaflist l) => handle_leaf_list l
  | Some (TScalar s) =>
    match s with
    | SStr x | SAscii x => Ok (mk_nval vt_string (lenN x) [] (Some x))
    | SInt z => Ok (mk_nval vt_int (mag_len (Z.abs_N z)) [32%Z; zsign_opt z] (Some (dec_z z)))
    | SUint n => Ok (mk_nval vt_uint (mag_len n) [32%Z] (Some (dec_n n)))
    | SBool b => Ok (mk_nval vt_bool 1 [] (Some (if b then B "true" else B "false")))
    | SBytes b => Ok (mk_nval vt_bytes (lenN b) [Z.of_N (lenN b)] None)
    | SDecimal None => Panic w_nil                            (* v.DecimalVal.Digits *)
    | SDecimal (Some (d, p)) =>
      if max_decimal_precision <? p then Err c_internal      (* repaired (fixes/C12-3): precisions above 18 are refused *)
      else Ok (mk_nval vt_decimal (mag_len (Z.abs_N d)) [Z.of_N (p mod 256); zsign_opt d] (Some (dec_str d p)))
    | SFloat true => Err c_internal                           (* math.IsNaN guard; without it big.NewFloat panics *)
    | SFloat false => Ok (mk_nval vt_float 10 [] None)
    | SOther => Err c_internal
    end
  end.

(* modelPath.TypeOpts[0]: the int, uint and leaf-list arms read it for the width / precision, under the guard
   `modelPath != nil && len(modelPath.TypeOpts) > 0` (guarded = true); without the guard an entry that has no
   type options - every string, bool, bytes leaf - makes the read an index out of range.  The arm is chosen by
   the WIRE type of the value, whatever the leaf's model type is *)
Definition type_opt0 (guarded : bool) (opts : list N) : outcome (option N) :=
  match opts with
  | x :: _ => Ok (Some x)
  | [] => if guarded then Ok None else Panic w_index
  end.

Definition reads_type_opts (v : option tval) : bool :=
  match v with
  | Some (TScalar (SInt _)) | Some (TScalar (SUint _)) | Some (TLeaflist _) => true
  | _ => false
  end.

(* GnmiTypedValueToNativeType(u.Val, rwPathElem) *)
Definition to_native_at (r : rwpath) (v : option tval) : outcome nval :=
  _ <- (if reads_type_opts v then type_opt0 true (rw_opts r) else Ok None) ;;
  to_native v.

(* accessors of a stored TypedValue as used by tree.handleLeafValue and NativeTypeToGnmiTypedValue:
   TypedBool.Bool (Bytes[0]); TypedLeafList{Int,Decimal}.List (TypeOpts[0], pairs, running slice of
   Bytes); TypedLeafListUint.List; TypedLeafListBytes.List (TypeOpts[idx] per byte) *)
Fixpoint run_slices (step : nat) (opts : list Z) (pos : Z) (blen : Z) : outcome unit :=
  match opts with
  | [] => Ok tt
  | o :: rest =>
    if ((0 <=? pos)%Z && (pos <=? pos + o)%Z && (pos + o <=? blen)%Z)%bool then
      match step, rest with
      | S O, _ :: rest' => run_slices step rest' (pos + o)%Z blen     (* pairs: skip the sign option *)
      | S O, [] => Ok tt
      | _, _ => run_slices step rest (pos + o)%Z blen
      end
    else Panic w_slice
  end.

(* the pair form reads TypeOpts[1+i*2+1]: count = (len-1)/2 full pairs only *)
Fixpoint take_pairs (opts : list Z) : list Z :=
  match opts with
  | a :: b :: rest => a :: b :: take_pairs rest
  | _ => []
  end.

Fixpoint ll_bytes_walk (nbytes : nat) (i : Z) (start : Z) (opts : list Z) : outcome unit :=
  match nbytes with
  | O => Ok tt
  | S k =>
    match opts with
    | [] => Panic w_index                                   (* tv.TypeOpts[idx] *)
    | vl :: rest =>
      if (i - start =? vl)%Z then ll_bytes_walk k (i + 1)%Z (start + vl)%Z rest
      else ll_bytes_walk k (i + 1)%Z start opts
    end
  end.

Definition leaf_guard (v : nval) : outcome unit :=
  let t := nv_type v in
  if t =? vt_bool then (if 1 <=? nv_blen v then Ok tt else Panic w_index)
  else if (t =? vt_ll_int) || (t =? vt_ll_decimal) then
    match nv_opts v with
    | [] => Panic w_index
    | _ :: rest => run_slices 1 (take_pairs rest) 0%Z (Z.of_N (nv_blen v))
    end
  else if t =? vt_ll_uint then
    match nv_opts v with
    | [] => Panic w_index
    | _ :: rest => run_slices 0 rest 0%Z (Z.of_N (nv_blen v))
    end
  else if t =? vt_ll_bytes then ll_bytes_walk (N.to_nat (nv_blen v)) 0%Z 0%Z (nv_opts v)
  else Ok tt.

(* tree.handleLeafValue additionally renders decimals as text / float *)
Definition json_leaf_guard (v : nval) : outcome unit := _ <- leaf_guard v ;; dec_guard v.

(* ------------------------------------------------------------------ utils.SplitPath and tree.addPathToTree *)
(* nextTokenIndex: end of the first token (a '/' outside brackets and not escaped) *)
Fixpoint next_token (inbr esc : bool) (s : str) : str * str :=
  match s with
  | [] => ([], [])
  | c :: s' =>
    if (c =? c_slash) && negb inbr && negb esc then ([], s)
    else
      let '(inbr', esc') :=
        if c =? c_lbr then (true, false)
        else if c =? c_rbr then ((if esc then inbr else false), false)
        else if c =? c_bslash then (inbr, negb esc)
        else (inbr, false) in
      let '(tok, rest) := next_token inbr' esc' s' in (c :: tok, rest)
  end.

Definition strip_slash (s : str) : str :=
  match s with c :: s' => if c =? c_slash then s' else s | [] => [] end.

Fixpoint split_path_aux (fuel : nat) (s : str) : list str :=
  match fuel with
  | O => []
  | S f =>
    match s with
    | [] => []
    | _ => let '(tok, rest) := next_token false false s in tok :: split_path_aux f (strip_slash rest)
    end
  end.
Definition split_path (p : str) : list str := split_path_aux (S (List.length p)) (strip_slash p).

(* the key loop of addPathToTree on keyString *)
Fixpoint key_loop (fuel : nat) (ks : str) : outcome unit :=
  match fuel with
  | O => Panic w_fuel
  | S f =>
    if has_byte c_eq ks then
      let b1 := zindex c_lbr ks in
      let e := zindex c_eq ks in
      let b2 := zindex c_rbr ks in
      _ <- slice ks (b1 + 1) e ;;
      _ <- slice ks (e + 1) b2 ;;
      ks' <- slice ks (b2 + 1) (zlen ks) ;;
      key_loop f ks'
    else Ok tt
  end.

(* slicing and indexing of addPathToTree along its recursion (type assertions there are comma-ok) *)
Fixpoint tree_guard_aux (fuel : nat) (path : str) : outcome unit :=
  match fuel with
  | O => Panic w_fuel
  | S f =>
    match split_path path with
    | [] => Panic w_index                                     (* pathelems[0] of an empty path *)
    | [_] => Ok tt
    | e0 :: rest =>
      let refine := join [c_slash] rest in
      if has_byte c_eq e0 then
        if eqb_str refine [] then Ok tt else
        let b := zindex c_lbr e0 in
        _ <- slice e0 0 b ;;
        ks <- slice e0 b (zlen e0) ;;
        _ <- key_loop (S (List.length ks)) ks ;;
        tree_guard_aux f (c_slash :: refine)
      else
        if eqb_str refine [] then Ok tt else tree_guard_aux f (c_slash :: refine)
    end
  end.
Definition tree_guard (path : str) : outcome unit := tree_guard_aux (S (List.length path)) path.

(* ------------------------------------------------------------------ utils.MatchWildcardRegexp *)
Definition is_meta (c : N) : bool :=   (* regexp.QuoteMeta: \.+*?()|[]{}^$ *)
  existsb (fun m => c =? m) [92; 46; 43; 42; 63; 40; 41; 124; 91; 93; 123; 125; 94; 36].
Definition quote_meta (s : str) : str := flat_map (fun c => if is_meta c then [c_bslash; c] else [c]) s.

Definition legal_class : str := B "[a-zA-Z0-9_:,\-\.]*?".

Definition wildcard_regexp (query : str) (exact : bool) : str :=
  let q1 := replace_all (B "\.\.\.") (B ".*") (quote_meta query) in
  let q2 := replace_all (B "\*") legal_class q1 in
  if exact then B "^" ++ q2 ++ B "$"
  else if suffixb [c_slash] query || suffixb (B "...") query then B "^" ++ q2
  else B "^" ++ q2 ++ B "(?:$|[/\[])".

(* the regexp fragment the function can emit; anything else is treated as a MustCompile panic *)
Inductive tok := TLit (c : N) | TAny | TLegal.
Inductive rend := EndExact | EndOpen | EndBoundary.

Fixpoint re_atoms (fuel : nat) (s : str) : option (list tok * rend) :=
  match fuel with
  | O => None
  | S f =>
    if eqb_str s [] then Some ([], EndOpen)
    else if eqb_str s (B "$") then Some ([], EndExact)
    else if eqb_str s (B "(?:$|[/\[])") then Some ([], EndBoundary)
    else if prefixb legal_class s then
      option_map (fun r => (TLegal :: fst r, snd r)) (re_atoms f (skipn (List.length legal_class) s))
    else match s with
         | c :: s' =>
           if c =? 92 then            (* an escaped metacharacter *)
             match s' with
             | c2 :: s'' => if is_meta c2 then option_map (fun r => (TLit c2 :: fst r, snd r)) (re_atoms f s'') else None
             | [] => None
             end
           else if c =? 46 then       (* only as ".*" *)
             match s' with
             | c2 :: s'' => if c2 =? 42 then option_map (fun r => (TAny :: fst r, snd r)) (re_atoms f s'') else None
             | [] => None
             end
           else if is_meta c then None
           else option_map (fun r => (TLit c :: fst r, snd r)) (re_atoms f s')
         | [] => None
         end
  end.

Definition must_compile (re : str) : outcome (list tok * rend) :=
  match re with
  | 94 :: body => match re_atoms (S (List.length body)) body with Some r => Ok r | None => Panic w_regexp end
  | _ => Panic w_regexp
  end.

Definition legal_char (c : N) : bool := is_alnum c || (c =? 95) || (c =? 58) || (c =? 44) || (c =? 45) || (c =? 46).

(* MatchString of the compiled expression (anchored at the start) *)
Fixpoint re_match (toks : list tok) (e : rend) (s : str) : bool :=
  match toks with
  | [] => match e with
          | EndOpen => true
          | EndExact => eqb_str s []
          | EndBoundary => match s with [] => true | c :: _ => (c =? c_slash) || (c =? c_lbr) end
          end
  | TLit c :: t => match s with x :: s' => (x =? c) && re_match t e s' | [] => false end
  | TAny :: t =>
    (fix go (s : str) : bool :=
       re_match t e s || match s with x :: s' => negb (x =? c_nl) && go s' | [] => false end) s
  | TLegal :: t =>
    (fix go (s : str) : bool :=
       re_match t e s || match s with x :: s' => legal_char x && go s' | [] => false end) s
  end.

(* ------------------------------------------------------------------ extensions *)
(* extractExtension: the first registered extension with the id; ex.Ext on a registered oneof whose
   message is nil dereferences it *)
Fixpoint extract_ext (id : N) (exts : list extension) : outcome (option ext_payload) :=
  match exts with
  | [] => Ok None
  | EOther :: rest => extract_ext id rest
  | ERegistered None :: _ => Panic w_nil
  | ERegistered (Some (i, p)) :: rest => if i =? id then Ok (Some p) else extract_ext id rest
  end.

Definition id_strategy : N := 111.
Definition id_overrides : N := 112.

Definition get_overrides (exts : list extension) : outcome (list (str * option (str * str))) :=
  x <- extract_ext id_overrides exts ;;
  match x with
  | None => Ok []
  | Some (XOverrides m) => Ok m
  | Some _ => Err c_invalid
  end.

Definition get_strategy (exts : list extension) : outcome bool :=
  x <- extract_ext id_strategy exts ;;
  match x with
  | None => Ok false
  | Some (XStrategy b) => Ok b
  | Some _ => Err c_invalid
  end.

(* ------------------------------------------------------------------ targets *)
Definition find_target (e : env) (id : str) : option target := find (fun t => eqb_str (tg_id t) id) (en_topo e).
Definition find_plugin (e : env) (ty ver : str) : option plugin :=
  find (fun p => eqb_str (pl_type p) ty && eqb_str (pl_version p) ver) (en_plugins e).
Definition lookup_override (m : list (str * option (str * str))) (id : str) : option (option (str * str)) :=
  option_map snd (find (fun kv => eqb_str (fst kv) id) m).

(* common part of getTargetInfo (Set) and addTarget (Get): topo lookup, override, plugin *)
Definition resolve_target (e : env) (ov : list (str * option (str * str))) (id : str) : outcome plugin :=
  match find_target e id with
  | None => Err c_notfound
  | Some t =>
    tv <- match lookup_override ov id with
          | Some None => Err c_invalid            (* repaired (fixes/C12-1): was ttv.TargetType on a nil entry *)
          | Some (Some tv) => Ok tv
          | None => Ok (tg_type t, tg_version t)
          end ;;
    match find_plugin e (fst tv) (snd tv) with
    | None => Err c_notfound
    | Some p => Ok p
    end
  end.

(* ------------------------------------------------------------------ Set *)
Record set_req := { s_prefix : option gpath; s_delete : list (option gpath);
                    s_replace : list (option update); s_update : list (option update);
                    s_ext : list extension }.

Definition path_target (p : option gpath) : str := match p with Some p => p_target p | None => [] end.

Definition full_path (prefix p : option gpath) : outcome str :=
  pp <- str_path prefix ;;
  s <- str_path p ;;
  Ok (if eqb_str pp root then s else pp ++ s).

(* doDelete: the path recorded in target.removes.  check_idx: the gNMI copy validates the index values of
   the path with CheckPathIndexIsValid (the admin copy used by LeafSelectionQuery does not) *)
Definition do_delete (check_idx : bool) (rw : list rwpath) (prefix p : option gpath) : outcome str :=
  path <- full_path prefix p ;;
  r <- find_path_from_model path rw false ;;
  path' <- match r with
           | (true, Some rp) =>
             if rw_iskey rp && negb (suffixb [c_rbr] path) then slice path 0 (zlast_index c_slash path) else Ok path
           | _ => Ok path
           end ;;
  if check_idx then
    idx <- extract_index_names path' ;;
    if forallb (fun nv => index_value_ok (snd nv)) idx then Ok path' else Err c_invalid
  else Ok path'.

(* doUpdateOrReplace: the paths recorded in target.updates *)
Definition do_update (rw : list rwpath) (prefix : option gpath) (u : option update) : outcome (list str) :=
  match u with
  | None => Panic w_nil                                       (* u.Path of a nil update *)
  | Some u =>
    path <- full_path prefix (u_path u) ;;
    match u_val u with
    | Some (TJson _) =>
      _ <- json_base_path path ;;
      match u_plugin u with
      | PErr c => Err c
      | PPaths ps => Ok ps
      end
    | v =>
      r <- find_path_from_model path rw true ;;
      match r with
      | (_, Some rp) =>
        nv <- to_native_at rp v ;;
        _ <- check_key_value path rp nv ;;
        Ok [path]
      | (_, None) => Panic w_nil                               (* not reached: exact lookups return the element *)
      end
    end
  end.

(* per-request accumulation: target id -> plugin, updates, removes *)
Record tinfo := { ti_id : str; ti_plugin : plugin; ti_updates : list str; ti_removes : list str }.

Definition set_target_id (prefix : option gpath) (path_tgt : str) : str :=
  let pt := path_target prefix in if eqb_str pt [] then path_tgt else pt.

Definition get_tinfo (e : env) (ov : list (str * option (str * str))) (ts : list tinfo) (id : str) : outcome (tinfo * list tinfo) :=
  match find (fun t => eqb_str (ti_id t) id) ts with
  | Some t => Ok (t, ts)
  | None => p <- resolve_target e ov id ;; let t := Build_tinfo id p [] [] in Ok (t, t :: ts)
  end.

Definition put_tinfo (t : tinfo) (ts : list tinfo) : list tinfo :=
  map (fun x => if eqb_str (ti_id x) (ti_id t) then t else x) ts.

Fixpoint set_deletes (e : env) ov (prefix : option gpath) (ds : list (option gpath)) (ts : list tinfo) : outcome (list tinfo) :=
  match ds with
  | [] => Ok ts
  | d :: ds' =>
    r <- get_tinfo e ov ts (set_target_id prefix (path_target d)) ;;
    let '(t, ts1) := r in
    path <- do_delete true (pl_rw (ti_plugin t)) prefix d ;;
    set_deletes e ov prefix ds' (put_tinfo (Build_tinfo (ti_id t) (ti_plugin t) (ti_updates t) (ti_removes t ++ [path])) ts1)
  end.

Fixpoint set_updates (e : env) ov (prefix : option gpath) (us : list (option update)) (ts : list tinfo) : outcome (list tinfo) :=
  match us with
  | [] => Ok ts
  | u :: us' =>
    tgt <- match u with None => Panic w_nil | Some u => Ok (path_target (u_path u)) end ;;
    r <- get_tinfo e ov ts (set_target_id prefix tgt) ;;
    let '(t, ts1) := r in
    ps <- do_update (pl_rw (ti_plugin t)) prefix u ;;
    set_updates e ov prefix us' (put_tinfo (Build_tinfo (ti_id t) (ti_plugin t) (ti_updates t ++ ps) (ti_removes t)) ts1)
  end.

Definition dedup_count (l : list str) : N := N.of_nat (List.length (nodup str_eq_dec l)).

(* Set up to and including newTransaction; Ok = the transaction is created and the answer is the
   back-end's (response or failure status) *)
Definition set_handler (e : env) (r : set_req) : outcome bool :=
  ov <- get_overrides (s_ext r) ;;
  _ <- get_strategy (s_ext r) ;;
  if (List.length (s_update r) + List.length (s_replace r) + List.length (s_delete r) <? 1)%nat then Err c_invalid else
  ts <- set_deletes e ov (s_prefix r) (s_delete r) [] ;;
  ts <- set_updates e ov (s_prefix r) (s_replace r) ts ;;
  ts <- set_updates e ov (s_prefix r) (s_update r) ts ;;
  if (0 <? en_size_limit e) &&
     (negb (List.length ts =? 1)%nat ||
      existsb (fun t => en_size_limit e <? dedup_count (ti_updates t) + N.of_nat (List.length (ti_removes t))) ts)
  then Err c_invalid
  else if forallb (fun t => forallb is_path_valid (ti_updates t) && forallb is_path_valid (ti_removes t)) ts
  then Ok false                                              (* repaired (fixes/C12-2): invalid delete paths are refused too *)
  else Err c_invalid.

(* ------------------------------------------------------------------ Get *)
Record get_req := { g_prefix : option gpath; g_path : list (option gpath); g_encoding : N; g_type : N;
                    g_ext : list extension }.

Definition enc_json : N := 0.  Definition enc_proto : N := 2.  Definition enc_json_ietf : N := 4.

Definition c_dash : N := 45.
Definition config_id (id ty ver : str) : str := id ++ [c_dash] ++ ty ++ [c_dash] ++ ver.
Definition find_config (st : state) (id ty ver : str) : option config :=
  find (fun c => eqb_str (cf_id c) (config_id id ty ver)) st.

(* addTarget *)
Definition add_target (e : env) (st : state) ov (id : str) : outcome config :=
  p <- resolve_target e ov id ;;
  match find_config st id (pl_type p) (pl_version p) with
  | None => Err c_notfound
  | Some c => Ok c
  end.

Fixpoint forall_guard {A} (f : A -> outcome unit) (l : list A) : outcome unit :=
  match l with
  | [] => Ok tt
  | x :: l' => _ <- f x ;; forall_guard f l'
  end.

(* getUpdate + createUpdate: compile the query, filter, encode *)
Definition get_update (c : config) (enc : N) (query : str) : outcome bool :=
  re <- must_compile (wildcard_regexp query false) ;;
  let sel := filter (fun v => re_match (fst re) (snd re) (sv_path v) && negb (sv_deleted v)) (cf_values c) in
  match sel with
  | [] => Ok true
  | _ :: _ =>
    if (enc =? enc_json) || (enc =? enc_json_ietf) then
      _ <- forall_guard (fun v => _ <- tree_guard (sv_path v) ;; json_leaf_guard (sv_val v)) sel ;;
      Ok false                                                  (* BuildTree may still refuse (leaf/container clash) *)
    else if enc =? enc_proto then
      _ <- forall_guard (fun v => leaf_guard (sv_val v)) sel ;;
      Ok false                                                  (* ParseGNMIElements may refuse a stored path *)
    else Err c_invalid
  end.

Definition trim_slash (s : str) : str := if suffixb [c_slash] s then removelast s else s.

Definition prefix_has_elems (prefix : option gpath) : bool :=
  match prefix with Some p => match p_elem p with [] => false | _ => true end | None => false end.

(* the path loop of processRequest: (target id, query text) per path, or the all-targets report *)
Fixpoint get_paths (e : env) (st : state) ov (prefix : option gpath) (ps : list (option gpath))
         (seen : list (str * config)) (acc : list (str * str)) : outcome (option (list (str * config) * list (str * str))) :=
  match ps with
  | [] => Ok (Some (seen, acc))
  | None :: _ => Panic w_nil                                  (* path.Target of a nil path *)
  | Some p :: ps' =>
    if eqb_str (p_target p) (B "*") || eqb_str (path_target prefix) (B "*") then Ok None
    else
      let id := if eqb_str (p_target p) [] then path_target prefix else p_target p in
      if eqb_str id [] then Err c_invalid else
      seen' <- match find (fun sc => eqb_str (fst sc) id) seen with
               | Some _ => Ok seen
               | None => c <- add_target e st ov id ;; Ok ((id, c) :: seen)
               end ;;
      s <- str_path (Some p) ;;
      s <- (if prefix_has_elems prefix then pp <- str_path prefix ;; Ok (pp ++ s) else Ok s) ;;
      get_paths e st ov prefix ps' seen' (acc ++ [(id, trim_slash s)])
  end.

Fixpoint get_updates (seen : list (str * config)) (enc : N) (qs : list (str * str)) (definite : bool) : outcome bool :=
  match qs with
  | [] => Ok definite
  | (id, q) :: qs' =>
    match find (fun sc => eqb_str (fst sc) id) seen with
    | None => get_updates seen enc qs' definite
    | Some (_, c) => d <- get_update c enc q ;; get_updates seen enc qs' (definite && d)
    end
  end.

Definition get_handler (e : env) (st : state) (r : get_req) : outcome bool :=
  if negb ((g_encoding r =? enc_proto) || (g_encoding r =? enc_json_ietf) || (g_encoding r =? enc_json)) then Err c_invalid else
  sync <- get_strategy (g_ext r) ;;
  if (g_type r =? 2) || (g_type r =? 3) then
    (* processStateOrOperationalRequest: targets are resolved, then asked over the southbound *)
    (fix go (ps : list (option gpath)) (any : bool) : outcome bool :=
       match ps with
       | [] => if any then Err c_some else Ok true
       | None :: _ => Panic w_nil
       | Some p :: ps' =>
         let id := if eqb_str (p_target p) [] then path_target (g_prefix r) else p_target p in
         if eqb_str id [] then Err c_invalid else go ps' true
       end) (g_path r) false
  else
    (* processRequest wraps this refusal into a status, Get wraps the status once more: Internal *)
    ov <- match get_overrides (g_ext r) with Err _ => Err c_internal | o => o end ;;
    x <- get_paths e st ov (g_prefix r) (g_path r) [] [] ;;
    match x with
    | None => Ok true                                           (* reportAllTargets *)
    | Some (seen, qs) =>
      r1 <- match g_path r, g_prefix r with
            | [], Some pf =>
              if eqb_str (p_target pf) [] then Err c_invalid else
              c <- match add_target e st ov (p_target pf) with
                   | Ok c => Ok c | Err _ => Err c_invalid | Panic w => Panic w end ;;
              q <- str_path (Some pf) ;;
              d <- get_update c (g_encoding r) q ;;
              Ok (d, [(p_target pf, c)])
            | _, _ => Ok (true, seen)
            end ;;
      d <- get_updates seen (g_encoding r) qs (fst r1) ;;
      (* a synchronous Get then waits for the targets over the southbound: some status or a response *)
      if sync && negb (match snd r1 with [] => true | _ => false end) then Ok false else Ok d
    end.

(* ------------------------------------------------------------------ Subscribe *)
Inductive sub_msg :=
| MSubscribe (prefix : option gpath) (subs : list (option gpath))   (* sub.Path of each subscription *)
| MPoll
| MOther.

(* processSubscribeRequest for one message; state = a subscription was already received.
   (repaired: the prefix and the subscription paths are read through nil-safe getters) *)
Definition subscribe_step (subscribed : bool) (m : sub_msg) : outcome bool :=
  match m with
  | MSubscribe prefix subs =>
    if subscribed then Err c_unknown
    else if negb (eqb_str (path_target prefix) []) then Ok true
    else if existsb (fun s => negb (eqb_str (path_target s) [])) subs then Ok true
    else Err c_unknown
  | MPoll => if subscribed then Ok true else Err c_unknown
  | MOther => Err c_unknown
  end.

(* the stream loop: the first refused message ends the call *)
Fixpoint subscribe_handler (subscribed : bool) (ms : list sub_msg) : outcome bool :=
  match ms with
  | [] => Ok true
  | m :: ms' => _ <- subscribe_step subscribed m ;;
                subscribe_handler (subscribed || match m with MSubscribe _ _ => true | _ => false end) ms'
  end.

(* ------------------------------------------------------------------ admin *)
Record lsq_req := { l_target : str; l_type : str; l_version : str;
                    l_ctx : option set_req }.         (* ChangeContext is a gnmi.SetRequest *)

Fixpoint lsq_updates (rw : list rwpath) (prefix : option gpath) (us : list (option update)) (acc : list str) : outcome (list str) :=
  match us with
  | [] => Ok acc
  | u :: us' => ps <- do_update rw prefix u ;; lsq_updates rw prefix us' (acc ++ ps)
  end.

Fixpoint lsq_deletes (rw : list rwpath) (prefix : option gpath) (ds : list (option gpath)) (acc : list str) : outcome (list str) :=
  match ds with
  | [] => Ok acc
  | d :: ds' => p <- do_delete false rw prefix d ;; lsq_deletes rw prefix ds' (acc ++ [p])
  end.

(* the configuration BuildTree sees: deleted entries marked, accepted updates overwrite / extend *)
Definition lsq_merge (vals : list stored) (ups dels : list str) : list stored :=
  let marked := map (fun v => if existsb (eqb_str (sv_path v)) dels then Build_stored (sv_path v) true (sv_val v) else v) vals in
  filter (fun v => negb (existsb (eqb_str (sv_path v)) ups)) marked
  ++ map (fun p => Build_stored p false (mk_nval vt_string 0 [] None)) ups.

(* tree.PrunePathValues(values, false): entries that are deleted or lie below a deleted path are dropped *)
Definition below_deleted (dels : list str) (p : str) : bool :=
  (negb (eqb_str p root) && existsb (fun d => eqb_str d root || eqb_str d []) dels) ||
  existsb (fun d => negb (eqb_str d []) && negb (eqb_str d root) && prefixb d p &&
                    match skipn (List.length d) p with c :: _ => (c =? c_slash) || (c =? c_lbr) | [] => false end) dels.
Definition prune (vals : list stored) : list stored :=
  let dels := map sv_path (filter sv_deleted vals) in
  filter (fun v => negb (sv_deleted v) && negb (below_deleted dels (sv_path v))) vals.

Definition build_tree_guard (vals : list stored) : outcome unit :=
  forall_guard (fun v => _ <- tree_guard (sv_path v) ;; json_leaf_guard (sv_val v)) (prune vals).

(* `config.Values[path] = value` for every accepted update.  A configuration without values is read back from
   the store with a nil Values map ([] here); a write to it panics unless the map was allocated first, which the
   handler does (`if config.Values == nil { config.Values = make(...) }`, allocated = true) *)
Definition merge_writes (allocated : bool) (vals : list stored) (ups : list str) : outcome unit :=
  if negb allocated && match vals with [] => true | _ => false end && match ups with [] => false | _ => true end
  then Panic w_nilmap else Ok tt.

(* LeafSelectionQuery *)
Definition lsq_handler (e : env) (st : state) (r : lsq_req) : outcome bool :=
  match find_config st (l_target r) (l_type r) (l_version r) with
  | None => Err c_notfound
  | Some c =>
    match find_plugin e (l_type r) (l_version r) with
    | None => Err c_invalid
    | Some p =>
      vals <- match l_ctx r with
              | Some cx =>
                if (0 <? List.length (s_update cx) + List.length (s_replace cx) + List.length (s_delete cx))%nat then
                  ups <- lsq_updates (pl_rw p) (s_prefix cx) (s_update cx) [] ;;
                  ups <- lsq_updates (pl_rw p) (s_prefix cx) (s_replace cx) ups ;;
                  dels <- lsq_deletes (pl_rw p) (s_prefix cx) (s_delete cx) [] ;;
                  if forallb is_path_valid ups then
                    _ <- merge_writes true (cf_values c) ups ;; Ok (lsq_merge (cf_values c) ups dels)
                  else Err c_unknown                       (* NewChangeValue's error is returned unwrapped *)
                else Ok (cf_values c)
              | None => Ok (cf_values c)
              end ;;
      _ <- build_tree_guard vals ;;
      Ok false
    end
  end.

(* the remaining entry points read scalar request fields only and hand them to a store / the registry *)
Definition capabilities_handler : outcome bool := Ok true.
Definition list_models_handler : outcome bool := Ok true.
Definition rollback_handler (index : N) : outcome bool := Ok false.
Definition admin_store_handler : outcome bool := Ok false.   (* Get/List/Watch Transaction(s) / Configuration(s) *)

(* ------------------------------------------------------------------ decodable from the wire *)
Definition elems_ok (p : gpath) : bool := forallb (fun o => match o with Some _ => true | None => false end) (p_elem p).
Definition opath_ok (p : option gpath) : bool := match p with Some p => elems_ok p | None => true end.
Definition scalar_ok (s : scalar) : bool := match s with SDecimal None => false | _ => true end.
Definition tval_ok (v : tval) : bool :=
  match v with
  | TScalar s => scalar_ok s
  | TJson _ => true
  | TLeaflist l => forallb (fun o => match o with Some s => scalar_ok s | None => false end) l
  end.
Definition update_ok (u : option update) : bool :=
  match u with
  | Some u => opath_ok (u_path u) && match u_val u with Some v => tval_ok v | None => true end
  | None => false
  end.
Definition ext_ok (x : extension) : bool := match x with ERegistered None => false | _ => true end.

Definition set_wire_ok (r : set_req) : bool :=
  opath_ok (s_prefix r) && forallb opath_ok (s_delete r) && forallb (fun d => match d with Some _ => true | None => false end) (s_delete r)
  && forallb update_ok (s_replace r) && forallb update_ok (s_update r) && forallb ext_ok (s_ext r).
Definition get_wire_ok (r : get_req) : bool :=
  opath_ok (g_prefix r) && forallb opath_ok (g_path r) && forallb (fun d => match d with Some _ => true | None => false end) (g_path r)
  && forallb ext_ok (g_ext r).
Definition sub_wire_ok (ms : list sub_msg) : bool := true.   (* every accessor on the path is nil-safe *)
Definition lsq_wire_ok (r : lsq_req) : bool := match l_ctx r with Some cx => set_wire_ok cx | None => true end.

(* what Get / LeafSelectionQuery need of the stored configurations: the tree builder and the value
   accessors do not panic on the live entries (monitored on the implementation's store after every Set) *)
Definition stored_ok (v : stored) : bool :=
  sv_deleted v || (negb (is_panic (tree_guard (sv_path v))) && negb (is_panic (json_leaf_guard (sv_val v)))).
Definition state_ok (st : state) : bool := forallb (fun c => forallb stored_ok (cf_values c)) st.

(* The executable queued protocol model: Model/Proto2Queue.v over the concrete instance Model/P2Inst.v. *)
From stdpp Require Import gmap.
From Coq Require Import NArith.
From OC Require Import Base.Bytes Model.P2Pure Model.Proto2 Model.P2Inst Model.Proto2Queue.
Open Scope N_scope.

Notation QWd := (@qworld cmap cmap req dstate).
Notation QLabel := (@qlabel cmap).

Definition q_step : QWd -> QLabel -> QWd :=
  qstep candidate candidate_rb rollback_of overlay commit_merge payload record_applied touched restore resync_payload doc_ok
        dev_apply stamp nil nil nil.
Definition q_init : QWd := qinit.
Definition q_run (ls : list QLabel) : QWd := fold_left q_step ls q_init.
Definition q_enabled (o : oracle) (w : Wd) : list ctrl :=
  enabled_list candidate candidate_rb rollback_of overlay commit_merge payload record_applied touched restore resync_payload doc_ok
               stamp nil nil nil o w.
Definition q_all_ctrls (w : Wd) : list ctrl := all_ctrls w.
(* the accepting plugin and the healthy device *)
Definition o_quiet : oracle := mkOracle true true COk 0 0.

(* a printable summary of the protocol state *)
Definition q_summary (w : Wd) :=
  (map (fun kv => (fst kv, t_state (snd kv), (t_init (snd kv), t_validate (snd kv), t_commit (snd kv)), (t_apply (snd kv), t_abort (snd kv)),
                   t_serializable (snd kv))) (map_to_list (txs w)),
   map (fun kv => (fst kv, (p_prev (snd kv), p_next (snd kv)), (p_init (snd kv), p_validate (snd kv), p_commit (snd kv)),
                   (p_apply (snd kv), p_abort (snd kv)))) (map_to_list (props w)),
   map (fun kv => (fst kv, c_index (snd kv), (c_proposed (snd kv), c_committed (snd kv), c_applied (snd kv)), c_state (snd kv),
                   (c_master (snd kv), c_term (snd kv), c_aterm (snd kv)))) (map_to_list (cfgs w))).

(* Model of the typed-value journey (property C17):
     pkg/utils/v2/values/gnmi_value.go   GnmiTypedValueToNativeType, handleLeafList, NativeTypeToGnmiTypedValue
     pkg/utils/v3/values/gnmi_value.go   (identical code over the v3 API types)
     pkg/utils/v2/tree/tree.go           handleLeafValue (v3 copy is textually identical)
     pkg/utils/gnmiPathUtils.go          strDecimal64 (used by StrVal)
     onos-api go/onos/config/v2/typedvalue.go (v3 identical)  the TypedValue constructors and accessors
   Executable definitions only; proofs are in Proofs/ValueProofs*.v.

   Conventions
     * bytes are N (< 256), Go integers are Z with the wrap-around written out where Go converts
       (64-bit platform: int = int64, uint = uint64);
     * float32 values are carried as their 32-bit pattern.  The trips
         float32 -> float64 -> big.Float -> gob -> big.Float -> float32     (scalar FLOAT)
         float32 -> float64 bits (8 bytes) -> float64 -> float32            (LEAFLIST_FLOAT)
       are the identity on non-NaN patterns and set the quiet bit of a NaN; the stored bytes of
       FLOAT / LEAFLIST_FLOAT values are represented here by the 4 big-endian bytes of each pattern
       (the harness canonicalises the real bytes the same way).  IEEE conversions and gob are trusted
       and covered by the correspondence run;
     * a slice expression b[i:j] panics when j > len(b) (the harness builds byte slices with
       cap = len);
     * [fx = true] is the code as it is now in /repo, i.e. with the repairs 0d53a20 (decimal text), f016b97
       (decimal precision above 18 refused) and 951349c (empty bytes in JSON); the correspondence run compares
       the implementation with this variant.  [fx = false] is the code before those repairs, kept for the
       `_before_repair` regression witnesses. *)
From Coq Require Import List NArith ZArith Bool Lia.
From OC Require Import Base.Bytes.
Import ListNotations.
Open Scope Z_scope.

(* ------------------------------------------------------------------ results *)
Inductive res (A : Type) : Type :=
| Ok (a : A)
| Err          (* the function returned an error *)
| Panic.       (* the Go code panics (index / slice out of range, integer divide by zero) *)
Arguments Ok {A} a.
Arguments Err {A}.
Arguments Panic {A}.

Definition bind {A B} (r : res A) (f : A -> res B) : res B :=
  match r with Ok a => f a | Err => Err | Panic => Panic end.

(* ------------------------------------------------------------ Go integers *)
Definition wrap64 (z : Z) : Z := (z + 9223372036854775808) mod 18446744073709551616 - 9223372036854775808.
Definition u64 (z : Z) : Z := z mod 18446744073709551616.
Definition wrap32 (z : Z) : Z := (z + 2147483648) mod 4294967296 - 2147483648.
Definition u8 (z : Z) : Z := z mod 256.

(* big.Int.Bytes(): big-endian magnitude without leading zero bytes.  Only magnitudes below 2^64
   are ever encoded (big.NewInt(int64), SetUint64(uint64)): 8 rounds suffice *)
Fixpoint le_bytes (fuel : nat) (n : N) : list N :=
  match fuel with
  | O => []
  | S f => if (n =? 0)%N then [] else (n mod 256)%N :: le_bytes f (n / 256)%N
  end.
Definition be_bytes (n : N) : list N := rev (le_bytes 8 n).

(* big.Int.SetBytes: any length *)
Fixpoint from_le (l : list N) : N :=
  match l with
  | [] => 0%N
  | b :: r => (b + 256 * from_le r)%N
  end.
Definition from_be (l : list N) : N := from_le (rev l).

(* big.Int.Int64() after an optional Neg: low 64 bits of the magnitude as int64, then negated *)
Definition int64_of_mag (m : N) (neg : bool) : Z :=
  let v := wrap64 (Z.of_N m) in if neg then wrap64 (- v) else v.
(* big.Int.Uint64() *)
Definition uint64_of_mag (m : N) : Z := u64 (Z.of_N m).

Definition neg_opt (v : Z) : Z := if v <? 0 then 1 else 0.
Definition zlen {A} (l : list A) : Z := Z.of_nat (length l).

(* --------------------------------------------------------------- the types *)
Inductive vtype :=
| VEmpty | VString | VInt | VUint | VBool | VDecimal | VFloat | VBytes
| VLLString | VLLInt | VLLUint | VLLBool | VLLDecimal | VLLFloat | VLLBytes
| VDouble | VLLDouble | VOther.

(* configapi.TypedValue *)
Record tv := { tv_bytes : list N; tv_type : vtype; tv_opts : list Z }.

(* gnmi.TypedValue (the oneof).  GAny = any_val, GOther = every member the code does not handle
   (json, json_ietf, double, proto_bytes, a nil value) *)
Inductive gval :=
| GString (s : str)
| GAscii (s : str)
| GInt (v : Z)
| GUint (v : Z)
| GBool (b : bool)
| GBytes (b : list N)
| GDecimal (digits : Z) (precision : Z)
| GFloat (bits : N)
| GLeafList (l : list gval)
| GAny
| GOther.

(* ------------------------------------------------- float32 bit patterns *)
Definition f32_is_nan (b : N) : bool :=
  ((N.land (N.shiftr b 23) 255 =? 255) && negb (N.land b 8388607 =? 0))%N.
(* what a float32 -> float64 -> float32 conversion does to the pattern *)
Definition f32_trip (b : N) : N := if f32_is_nan b then N.lor b 4194304 else b.

Definition be4 (b : N) : list N :=
  [(N.shiftr b 24 mod 256)%N; (N.shiftr b 16 mod 256)%N; (N.shiftr b 8 mod 256)%N; (b mod 256)%N].

(* ------------------------------------- onos-api constructors (typedvalue.go) *)
Definition new_string (s : str) : tv := {| tv_bytes := s; tv_type := VString; tv_opts := [] |}.
(* NewTypedValueInt(value int, width): width is stored as int32(width) *)
Definition new_int (v w : Z) : tv :=
  {| tv_bytes := be_bytes (Z.abs_N v); tv_type := VInt; tv_opts := [wrap32 w; neg_opt v] |}.
Definition new_uint (v w : Z) : tv :=
  {| tv_bytes := be_bytes (Z.to_N v); tv_type := VUint; tv_opts := [wrap32 w] |}.
Definition new_bool (b : bool) : tv :=
  {| tv_bytes := [if b then 1%N else 0%N]; tv_type := VBool; tv_opts := [] |}.
Definition new_decimal (digits precision : Z) : tv :=
  {| tv_bytes := be_bytes (Z.abs_N digits); tv_type := VDecimal; tv_opts := [precision; neg_opt digits] |}.
Definition new_float (bits : N) : tv :=
  {| tv_bytes := be4 (f32_trip bits); tv_type := VFloat; tv_opts := [] |}.
Definition new_bytes (b : list N) : tv :=
  {| tv_bytes := b; tv_type := VBytes; tv_opts := [zlen b] |}.

Definition new_ll_string (l : list str) : tv :=
  {| tv_bytes := join [29%N] l; tv_type := VLLString; tv_opts := [] |}.
Definition new_ll_int (l : list Z) (w : Z) : tv :=
  {| tv_bytes := concat (map (fun v => be_bytes (Z.abs_N v)) l); tv_type := VLLInt;
     tv_opts := wrap32 w :: flat_map (fun v => [zlen (be_bytes (Z.abs_N v)); neg_opt v]) l |}.
Definition new_ll_uint (l : list Z) (w : Z) : tv :=
  {| tv_bytes := concat (map (fun v => be_bytes (Z.to_N v)) l); tv_type := VLLUint;
     tv_opts := wrap32 w :: map (fun v => zlen (be_bytes (Z.to_N v))) l |}.
Definition new_ll_bool (l : list bool) : tv :=
  {| tv_bytes := map (fun b : bool => if b then 1%N else 0%N) l; tv_type := VLLBool; tv_opts := [] |}.
Definition new_ll_decimal (l : list Z) (precision : Z) : tv :=
  {| tv_bytes := concat (map (fun v => be_bytes (Z.abs_N v)) l); tv_type := VLLDecimal;
     tv_opts := precision :: flat_map (fun v => [zlen (be_bytes (Z.abs_N v)); neg_opt v]) l |}.
Definition new_ll_float (l : list N) : tv :=
  {| tv_bytes := concat (map (fun b => be4 (f32_trip b)) l); tv_type := VLLFloat; tv_opts := [] |}.
Definition new_ll_bytes (l : list (list N)) : tv :=
  {| tv_bytes := concat l; tv_type := VLLBytes; tv_opts := map zlen l |}.

(* --------------------------------------------------- onos-api accessors *)
(* TypedInt.Int() *)
Definition tv_int (t : tv) : Z :=
  int64_of_mag (from_be (tv_bytes t))
               (match tv_opts t with _ :: o1 :: _ => o1 =? 1 | _ => false end).
(* TypedUint.Uint() *)
Definition tv_uint (t : tv) : Z := uint64_of_mag (from_be (tv_bytes t)).
(* TypedBool.Bool(): tv.Bytes[0] == 1 *)
Definition tv_bool (t : tv) : res bool :=
  match tv_bytes t with [] => Panic | b :: _ => Ok (b =? 1)%N end.
(* TypedDecimal.Decimal64(): value.Int64() * multiplier, uint8(precision) *)
Definition tv_decimal (t : tv) : Z * Z :=
  match tv_opts t with
  | [] => (0, 0)
  | p :: rest =>
    let mult := match rest with o1 :: _ => if o1 =? 1 then -1 else 1 | [] => 1 end in
    (wrap64 (int64_of_mag (from_be (tv_bytes t)) false * mult), u8 p)
  end.

Fixpoint take_be4 (l : list N) : option (N * list N) :=
  match l with
  | a :: b :: c :: d :: r => Some ((((a * 256 + b) * 256 + c) * 256 + d)%N, r)
  | _ => None
  end.
(* TypedFloat.Float32(): 0.0 for empty bytes *)
Definition tv_float (t : tv) : N :=
  match take_be4 (tv_bytes t) with Some (b, _) => f32_trip b | None => 0%N end.

(* b[0:n] and the rest; panics like the slice expression *)
Definition take_slice (n : Z) (b : list N) : res (list N * list N) :=
  if (n <? 0) || (zlen b <? n) then Panic
  else Ok (firstn (Z.to_nat n) b, skipn (Z.to_nat n) b).

(* the loop of TypedLeafListInt.List / TypedLeafListDecimal.List over the [len, negative] pairs;
   count = (len(opts)-1)/2, a trailing odd option is ignored *)
Fixpoint ll_signed_loop (pairs : list Z) (b : list N) : res (list Z) :=
  match pairs with
  | l :: ng :: more =>
    bind (take_slice l b) (fun vr =>
      bind (ll_signed_loop more (snd vr)) (fun tl =>
        Ok (int64_of_mag (from_be (fst vr)) (negb (ng =? 0)) :: tl)))
  | _ => Ok []
  end.
(* TypedLeafListInt.List(): (values, width); TypeOpts[0] is read unconditionally *)
Definition ll_int_list (t : tv) : res (list Z * Z) :=
  match tv_opts t with
  | [] => Panic
  | w :: pairs => bind (ll_signed_loop pairs (tv_bytes t)) (fun l => Ok (l, w))
  end.
(* TypedLeafListDecimal.List(): (digits, uint8 precision) *)
Definition ll_decimal_list (t : tv) : res (list Z * Z) :=
  match tv_opts t with
  | [] => Panic
  | p :: pairs => bind (ll_signed_loop pairs (tv_bytes t)) (fun l => Ok (l, u8 p))
  end.
Fixpoint ll_unsigned_loop (lens : list Z) (b : list N) : res (list Z) :=
  match lens with
  | l :: more =>
    bind (take_slice l b) (fun vr =>
      bind (ll_unsigned_loop more (snd vr)) (fun tl => Ok (uint64_of_mag (from_be (fst vr)) :: tl)))
  | [] => Ok []
  end.
Definition ll_uint_list (t : tv) : res (list Z * Z) :=
  match tv_opts t with
  | [] => Panic
  | w :: lens => bind (ll_unsigned_loop lens (tv_bytes t)) (fun l => Ok (l, w))
  end.
(* TypedLeafListString.List(): the buffer loop is strings.Split on 0x1D *)
Definition ll_string_list (t : tv) : list str := split_on 29%N (tv_bytes t).
Definition ll_bool_list (t : tv) : list bool := map (fun b => (b =? 1)%N) (tv_bytes t).
(* TypedLeafListFloat.List(): len/8 elements (here: len/4 of the canonical form) *)
Fixpoint ll_float_loop (fuel : nat) (b : list N) : list N :=
  match fuel with
  | O => []
  | S f => match take_be4 b with Some (x, r) => f32_trip x :: ll_float_loop f r | None => [] end
  end.
Definition ll_float_list (t : tv) : list N := ll_float_loop (length (tv_bytes t)) (tv_bytes t).

(* TypedLeafListBytes.List():
     for i, b := range Bytes { valueLen := TypeOpts[idx]
        if i-startAt == valueLen { flush buf; idx++; startAt += valueLen }   -- at most once per byte
        buf = append(buf, b) }
     flush buf *)
Fixpoint ll_bytes_loop (b : list N) (i startAt : Z) (idx : nat) (opts : list Z)
         (buf : list N) (acc : list (list N)) : res (list (list N)) :=
  match b with
  | [] => Ok (acc ++ [buf])
  | x :: r =>
    match nth_error opts idx with
    | None => Panic
    | Some vl =>
      if i - startAt =? vl
      then ll_bytes_loop r (i + 1) (startAt + vl) (S idx) opts [x] (acc ++ [buf])
      else ll_bytes_loop r (i + 1) startAt idx opts (buf ++ [x]) acc
    end
  end.
Definition ll_bytes_list (t : tv) : res (list (list N)) :=
  ll_bytes_loop (tv_bytes t) 0 0 0 (tv_opts t) [] [].

(* ------------------------------------- GnmiTypedValueToNativeType *)
(* modelPath.TypeOpts[0] when modelPath != nil and there are options (uint64) *)
Definition opt0 (opts : option (list Z)) : option Z :=
  match opts with Some (o :: _) => Some o | _ => None end.

Definition ll_strings (l : list gval) : list str :=
  flat_map (fun g => match g with GString s | GAscii s => [s] | _ => [] end) l.
Definition ll_ints (l : list gval) : list Z :=
  flat_map (fun g => match g with GInt v => [v] | _ => [] end) l.
Definition ll_uints (l : list gval) : list Z :=
  flat_map (fun g => match g with GUint v => [v] | _ => [] end) l.
Definition ll_bools (l : list gval) : list bool :=
  flat_map (fun g => match g with GBool v => [v] | _ => [] end) l.
Definition ll_bytess (l : list gval) : list (list N) :=
  flat_map (fun g => match g with GBytes v => [v] | _ => [] end) l.
Definition ll_digits (l : list gval) : list Z :=
  flat_map (fun g => match g with GDecimal d _ => [d] | _ => [] end) l.
Definition ll_floats (l : list gval) : list N :=
  flat_map (fun g => match g with GFloat v => [v] | _ => [] end) l.
(* precision := typeOpt0, overwritten by uint8(precision) of every decimal element in turn *)
Definition ll_precision (l : list gval) (typeOpt0 : Z) : Z :=
  fold_left (fun p g => match g with GDecimal _ pr => u8 pr | _ => p end) l typeOpt0.
Definition ll_supported (g : gval) : bool :=
  match g with GLeafList _ | GAny | GOther => false | _ => true end.
(* repaired code only: a decimal64 has at most 18 fraction digits (RFC 7950 9.3.4) *)
Definition prec_ok (fx : bool) (precision : Z) : bool := negb fx || (precision <=? 18).
Definition ll_prec_ok (fx : bool) (l : list gval) : bool :=
  forallb (fun g => match g with GDecimal _ pr => prec_ok fx pr | _ => true end) l.

Definition isnil {A} (l : list A) : bool := match l with [] => true | _ => false end.

(* handleLeafList(gnmiLl, typeOpt0 uint8) *)
Definition handle_leaf_list (fx : bool) (l : list gval) (typeOpt0 : Z) : res tv :=
  if negb (forallb ll_supported l) then Err
  else if negb (ll_prec_ok fx l) then Err
  else
    let width := if 0 <? typeOpt0 then typeOpt0 else 32 in
    if negb (isnil (ll_strings l)) then Ok (new_ll_string (ll_strings l))
    else if negb (isnil (ll_ints l)) then Ok (new_ll_int (ll_ints l) width)
    else if negb (isnil (ll_uints l)) then Ok (new_ll_uint (ll_uints l) width)
    else if negb (isnil (ll_bools l)) then Ok (new_ll_bool (ll_bools l))
    else if negb (isnil (ll_bytess l)) then Ok (new_ll_bytes (ll_bytess l))
    else if negb (isnil (ll_digits l)) then Ok (new_ll_decimal (ll_digits l) (ll_precision l typeOpt0))
    else if negb (isnil (ll_floats l)) then Ok (new_ll_float (ll_floats l))
    else Err.

(* opts = None: modelPath == nil; Some l: modelPath.TypeOpts = l (uint64 values).
   Width(TypeOpts[0]) then int32(width): together wrap32 *)
Definition to_native (fx : bool) (g : gval) (opts : option (list Z)) : res tv :=
  match g with
  | GString s | GAscii s => Ok (new_string s)
  | GInt v => Ok (new_int (wrap64 v) (match opt0 opts with Some o => wrap64 o | None => 32 end))
  | GUint v => Ok (new_uint (u64 v) (match opt0 opts with Some o => wrap64 o | None => 32 end))
  | GBool b => Ok (new_bool b)
  | GBytes b => Ok (new_bytes b)
  | GDecimal d p => if prec_ok fx p then Ok (new_decimal (wrap64 d) (u8 p)) else Err
  | GFloat b => if f32_is_nan b then Err else Ok (new_float b)
  | GLeafList l => handle_leaf_list fx l (u8 (match opt0 opts with Some o => o | None => 0 end))
  | GAny | GOther => Err
  end.

(* ------------------------------------- NativeTypeToGnmiTypedValue *)
Definition to_gnmi (t : tv) : res gval :=
  match tv_type t with
  | VEmpty => Ok GAny
  | VString => Ok (GString (tv_bytes t))
  | VInt => Ok (GInt (tv_int t))
  | VUint => Ok (GUint (tv_uint t))
  | VBool => bind (tv_bool t) (fun b => Ok (GBool b))
  | VDecimal => let dp := tv_decimal t in Ok (GDecimal (fst dp) (snd dp))
  | VFloat => Ok (GFloat (tv_float t))
  | VBytes => Ok (GBytes (tv_bytes t))
  | VLLString => Ok (GLeafList (map GString (ll_string_list t)))
  | VLLInt => bind (ll_int_list t) (fun lw => Ok (GLeafList (map GInt (fst lw))))
  | VLLUint => bind (ll_uint_list t) (fun lw => Ok (GLeafList (map GUint (fst lw))))
  | VLLBool => Ok (GLeafList (map GBool (ll_bool_list t)))
  | VLLDecimal => bind (ll_decimal_list t) (fun lp => Ok (GLeafList (map (fun d => GDecimal d (snd lp)) (fst lp))))
  | VLLFloat => Ok (GLeafList (map GFloat (ll_float_list t)))
  | VLLBytes => bind (ll_bytes_list t) (fun l => Ok (GLeafList (map GBytes l)))
  | VDouble | VLLDouble | VOther => Err
  end.

(* ------------------------------------------------ decimal text *)
Fixpoint le_digits (fuel : nat) (n : N) : list N :=
  match fuel with
  | O => []
  | S f => if (n =? 0)%N then [] else (n mod 10)%N :: le_digits f (n / 10)%N
  end.
(* %d of a non-negative number below 10^20 (every uint64) *)
Definition show_N (n : N) : str :=
  if (n =? 0)%N then [48%N] else map (fun d => (48 + d)%N) (rev (le_digits 20 n)).
(* %d *)
Definition show_Z (z : Z) : str :=
  if z <? 0 then 45%N :: show_N (Z.abs_N z) else show_N (Z.to_N z).
(* exactly p digits, most significant first, of n mod 10^p *)
Fixpoint le_fixed (p : nat) (n : N) : list N :=
  match p with
  | O => []
  | S q => (n mod 10)%N :: le_fixed q (n / 10)%N
  end.
Definition fixed_digits (p : nat) (n : N) : str := map (fun d => (48 + d)%N) (rev (le_fixed p n)).
(* %0.<p>d of a non-negative number: at least p digits *)
Definition pad_digits (p : nat) (n : N) : str :=
  let s := show_N n in repeat 48%N (p - length s) ++ s.

(* onos-api strDecimal64(digits int64, precision uint8), i.e. TypedDecimal.String():
     div = 10^precision computed in int64 (wraps; 0 from precision 64 on: the division panics)
     i = digits / div; frac = |digits % div|;  "%d" i               when precision = 0
                                               "%d.%0.<precision>d" i frac   otherwise *)
Definition str_decimal64_api (digits precision : Z) : res str :=
  if precision =? 0 then Ok (show_Z digits)
  else
    let div := wrap64 (10 ^ precision) in
    if div =? 0 then Panic
    else
      let i := wrap64 (Z.quot digits div) in
      let frac := Z.rem digits div in
      let frac := if frac <? 0 then wrap64 (- frac) else frac in
      Ok (show_Z i ++ [46%N] ++ (if frac <? 0 then 45%N :: pad_digits (Z.to_nat precision) (Z.abs_N frac)
                                  else pad_digits (Z.to_nat precision) (Z.to_N frac))).

(* repaired rendering (utils.StrDecimal64 of fixes/C17-1.patch): sign, |digits| written with at least
   precision+1 digits, the point inserted before the last [precision] digits *)
Definition str_decimal64_fixed (digits precision : Z) : str :=
  if precision =? 0 then show_Z digits
  else
    let mag := Z.abs_N digits in
    let p := Z.to_nat precision in
    (if digits <? 0 then [45%N] else []) ++ show_N (mag / 10 ^ Z.to_N precision)%N ++ [46%N] ++ fixed_digits p mag.

(* pkg/utils/gnmiPathUtils.go strDecimal64 (of a pb.Decimal64) as used by StrVal (precision is uint32):
   unrepaired: "%d.%d" of i and |frac| - no zero padding of the fraction, sign lost in (-1,0) *)
Definition str_decimal64_utils (fx : bool) (digits precision : Z) : res str :=
  if fx then Ok (if precision =? 0 then show_Z digits ++ [46%N; 48%N] else str_decimal64_fixed digits precision)
  else if 0 <? precision then
    let div := wrap64 (10 ^ precision) in
    if div =? 0 then Panic
    else
      let i := wrap64 (Z.quot digits div) in
      let frac := Z.rem digits div in
      let frac := if frac <? 0 then wrap64 (- frac) else frac in
      Ok (show_Z i ++ [46%N] ++ show_Z frac)
  else Ok (show_Z digits ++ [46%N] ++ show_Z 0).

(* ------------------------------------------------ JSON leaf (handleLeafValue) *)
(* what json.Marshal is handed for the leaf; numbers keep their literal text *)
Inductive jval :=
| JNull
| JStr (s : str)                 (* a JSON string with this content *)
| JNum (lit : str)               (* a JSON number written as this integer literal *)
| JBool (b : bool)
| JB64 (b : list N)              (* a JSON string: standard base64 of b (encoding/json for []byte) *)
| JArr (l : list jval)
| JFloat32 (bits : N)            (* a JSON number: shortest text that reads back as this float32 *)
| JFloatF (bits : N)             (* a JSON string: fmt "%f" of this float32 (6 fraction digits) *)
| JDecFloat (text : str)         (* a JSON number: the float64 nearest to this decimal text (strconv.ParseFloat) *)
| JDivFloat (digits precision : Z). (* a JSON number: float64(digits) / math.Pow(10, precision) *)

Definition wide (rfc : bool) (w : Z) : bool := rfc && (32 <? w).

Definition all_ok {A} (l : list (res A)) : res (list A) :=
  fold_right (fun r acc => bind r (fun a => bind acc (fun tl => Ok (a :: tl)))) (Ok []) l.

(* None: no entry is written (EMPTY).  The TypedValue has been through the store, i.e. through a
   protobuf round trip: empty Bytes are nil, and json.Marshal writes null for a nil []byte *)
Definition json_leaf (fx rfc : bool) (t : tv) : res (option jval) :=
  match tv_type t with
  | VEmpty => Ok None
  | VString => Ok (Some (JStr (tv_bytes t)))
  | VInt =>
    let w := match tv_opts t with w :: _ => w | [] => 0 end in
    Ok (Some (if wide rfc w then JStr (show_Z (tv_int t)) else JNum (show_Z (tv_int t))))
  | VUint =>
    let w := match tv_opts t with w :: _ => w | [] => 0 end in
    Ok (Some (if wide rfc w then JStr (show_Z (tv_uint t)) else JNum (show_Z (tv_uint t))))
  | VDecimal =>
    let dp := tv_decimal t in
    if fx then
      Ok (Some (if rfc then JStr (str_decimal64_fixed (fst dp) (snd dp))
                else JDecFloat (str_decimal64_fixed (fst dp) (snd dp))))
    else
      bind (str_decimal64_api (fst dp) (snd dp)) (fun s => Ok (Some (if rfc then JStr s else JDecFloat s)))
  | VFloat => Ok (Some (if rfc then JFloatF (tv_float t) else JFloat32 (tv_float t)))
  | VBool => bind (tv_bool t) (fun b => Ok (Some (JBool b)))
  | VBytes => Ok (Some (if negb fx && isnil (tv_bytes t) then JNull else JB64 (tv_bytes t)))
  | VLLString => Ok (Some (JArr (map JStr (ll_string_list t))))
  | VLLInt =>
    bind (ll_int_list t) (fun lw =>
      Ok (Some (JArr (map (fun v => if wide rfc (snd lw) then JStr (show_Z v) else JNum (show_Z v)) (fst lw)))))
  | VLLUint =>
    bind (ll_uint_list t) (fun lw =>
      Ok (Some (JArr (map (fun v => if wide rfc (snd lw) then JStr (show_Z v) else JNum (show_Z v)) (fst lw)))))
  | VLLBool => Ok (Some (JArr (map JBool (ll_bool_list t))))
  | VLLDecimal =>
    bind (ll_decimal_list t) (fun lp =>
      Ok (Some (JArr (map (fun d => if fx && rfc then JStr (str_decimal64_fixed d (snd lp))
                                    else JDivFloat d (snd lp)) (fst lp)))))
  | VLLFloat => Ok (Some (JArr (map JFloat32 (ll_float_list t))))
  | VLLBytes => bind (ll_bytes_list t) (fun l => Ok (Some (JArr (map JB64 l))))
  | VDouble | VLLDouble | VOther => Ok (Some (JStr [])) (* "unexpected <n>": outside the property; the driver skips it *)
  end.

(* --------------------------------------------- reading decimal text back *)
Definition is_digit (c : N) : bool := ((48 <=? c) && (c <=? 57))%N.
Fixpoint read_N_acc (s : str) (acc : N) : option N :=
  match s with
  | [] => Some acc
  | c :: r => if is_digit c then read_N_acc r (acc * 10 + (c - 48))%N else None
  end.
(* an unsigned decimal integer literal (at least one digit) *)
Definition read_N (s : str) : option N := match s with [] => None | _ => read_N_acc s 0%N end.
(* an optionally negative decimal integer literal *)
Definition read_Z (s : str) : option Z :=
  match s with
  | c :: r => if (c =? 45)%N then option_map (fun n => - Z.of_N n) (read_N r) else option_map Z.of_N (read_N s)
  | [] => None
  end.
(* "[-]int.frac" -> (digits, number of fraction digits); "[-]int" -> (digits, 0) *)
Definition read_decimal (s : str) : option (Z * Z) :=
  let neg := match s with c :: _ => (c =? 45)%N | [] => false end in
  let body := match s with c :: r => if (c =? 45)%N then r else s | [] => s end in
  match split_on 46%N body with
  | [ip] => option_map (fun n => ((if neg then - Z.of_N n else Z.of_N n), 0)) (read_N ip)
  | [ip; fp] =>
    match read_N ip, read_N fp with
    | Some i, Some f =>
      let m := (i * 10 ^ N.of_nat (length fp) + f)%N in
      Some ((if neg then - Z.of_N m else Z.of_N m), zlen fp)
    | _, _ => None
    end
  | _ => None
  end.

(* --------------------------------------------- what the property compares *)
(* ascii_val is returned as string_val: same text *)
Definition canon (g : gval) : gval :=
  match g with
  | GAscii s => GString s
  | GLeafList l => GLeafList (map (fun e => match e with GAscii s => GString s | _ => e end) l)
  | _ => g
  end.

(* the whole PROTO journey: Set -> stored value -> Get / device request *)
Definition journey (fx : bool) (g : gval) (opts : option (list Z)) : res gval :=
  bind (to_native fx g opts) to_gnmi.

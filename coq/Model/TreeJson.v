(* JSON view of a document built by Model/Tree.v, used by the in-kernel cross-check of C18 (cases files):
   object members sorted by name as encoding/json prints them; leaves whose content is not modelled become JX. *)
From Coq Require Import List NArith ZArith Bool.
From OC Require Import Base.Bytes Model.Tree Model.TreeSpec.
Import ListNotations.
Open Scope N_scope.

Inductive jv := JS (s : str) | JN (z : Z) | JB (b : bool) | JO (m : list (str * jv)) | JA (l : list jv) | JX.

Definition member_leb (a b : str * jv) : bool := leb_str (fst a) (fst b).

Fixpoint to_jv (n : node) : jv :=
  match n with
  | NLeaf (GStr s) => JS s
  | NLeaf (GInt z) => JN z
  | NLeaf (GUint u) => JN (Z.of_N u)
  | NLeaf (GBool b) => JB b
  | NLeaf (GOpq _) => JX
  | NMap m => JO (isort member_leb (map (fun kc => (fst kc, to_jv (snd kc))) m))
  | NArr l => JA (map to_jv l)
  end.

Fixpoint jv_eqb (a b : jv) {struct a} : bool :=
  match a, b with
  | JS x, JS y => eqb_str x y
  | JN x, JN y => Z.eqb x y
  | JB x, JB y => Bool.eqb x y
  | JO m, JO m' =>
    (fix go (m m' : list (str * jv)) : bool :=
       match m, m' with
       | [], [] => true
       | (k, v) :: r, (k', v') :: r' => eqb_str k k' && jv_eqb v v' && go r r'
       | _, _ => false
       end) m m'
  | JA l, JA l' =>
    (fix go (l l' : list jv) : bool :=
       match l, l' with
       | [], [] => true
       | x :: r, y :: r' => jv_eqb x y && go r r'
       | _, _ => false
       end) l l'
  | _, _ => false
  end.

Fixpoint pvs_eqb (a b : list pv) : bool :=
  match a, b with
  | [], [] => true
  | x :: a', y :: b' =>
    eqb_str (pv_path x) (pv_path y) && Bool.eqb (pv_del x) (pv_del y) && tv_eqb (pv_val x) (pv_val y) && pvs_eqb a' b'
  | _, _ => false
  end.

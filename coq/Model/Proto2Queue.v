(* Work-queue layer over the v2 protocol model Model/Proto2.v (property C09).
   Transcribes
     - the watchers: pkg/controller/v2/{transaction,proposal,configuration,mastership}/watcher.go,
       pkg/controller/connection/watcher.go (the target controller of pkg/controller/target is not part of Proto2:
       connections arrive and go as environment labels),
     - the work distribution of onos-lib-go pkg/controller/controller.go: every id written by a watcher is handed to
       the reconciler; Result{Requeue: id} re-enters id; an error re-enters the SAME id (time.AfterFunc back-off);
       otherwise the id is dropped.  There is no de-duplication, so the pending work of the five controllers is a
       multiset of (controller, id); the partitions of the proposal controller only restrict the interleaving and
       are irrelevant for a multiset from which ANY element may be delivered next.
   A queued world = a Proto2 world + the pending (controller, id) multiset (one list; the constructor of [ctrl]
   names the controller).  NO proofs in this file. *)
From stdpp Require Import gmap.
From RecordUpdate Require Import RecordUpdate.
From Coq Require Import NArith.
From OC Require Import Model.Proto2.
Open Scope N_scope.

Section Proto2Queue.
  Context {V Ch Req D : Type}.
  Context (candidate : V -> Ch -> V) (candidate_rb : V -> Ch -> V) (rollback_of : V -> Ch -> Ch)
          (overlay : V -> V -> V) (commit_merge : N -> N -> V -> V -> Ch -> V)
          (payload : N -> V -> Ch -> option Req) (record_applied : N -> N -> V -> V -> V -> Ch -> V)
          (touched : N -> V -> Ch -> V) (restore : V -> V -> V)
          (resync_payload : V -> list (option Req)) (doc_ok : V -> bool)
          (dev_apply : D -> Req -> D) (stamp : N -> Ch -> Ch) (v_empty : V) (d_empty : D) (ch_empty : Ch).

  Notation world := (@world V Ch Req D).
  Notation eff := (@eff V Ch Req).
  Notation apply_eff := (@apply_eff V Ch Req D dev_apply d_empty).
  Notation reconcile := (@reconcile V Ch Req D candidate candidate_rb rollback_of overlay commit_merge payload record_applied
                                    touched restore resync_payload doc_ok stamp v_empty d_empty ch_empty).
  Notation step := (@step V Ch Req D candidate candidate_rb rollback_of overlay commit_merge payload record_applied
                          touched restore resync_payload doc_ok dev_apply stamp v_empty d_empty ch_empty).

  (** * Watchers: the ids a successful store write wakes ([w] = the world BEFORE the write) *)
  (* a configuration event carries the configuration as written:
       proposal.ConfigurationWatcher      -> (target, Index), (target, Status.Applied.Index) and (target, Status.Proposed.Index)
       configuration.Watcher              -> the configuration id
       mastership.ConfigurationStoreWatcher -> the configuration id *)
  (* ... and the first proposal of the target that is not applied yet (3e4ef79): the watcher walks back from
     Status.Proposed.Index through PrevIndex to the first proposal whose PrevIndex <= Status.Applied.Index (it reads the
     proposals when it handles the event; the model reads them at the write) *)
  Fixpoint first_unapplied (fuel : nat) (w : world) (t applied idx : N) : list ctrl :=
    match fuel with
    | O => []
    | S f => if idx <=? applied then [] else
             match props w !! (t, idx) with
             | Some P => if p_prev P <=? applied then [CtlProp (t, idx)]
                         else if idx <=? p_prev P then [] else first_unapplied f w t applied (p_prev P)
             | None => [] end
    end.
  Definition cfg_wakes (w : world) (t : N) (c : @config V) : list ctrl :=
    [CtlProp (t, c_index c); CtlProp (t, c_applied c); CtlProp (t, c_proposed c)]
    ++ first_unapplied (S (N.to_nat (c_proposed c))) w t (c_applied c) (c_proposed c) ++ [CtlCfg t; CtlMaster t].
  (* a proposal event: transaction.ProposalWatcher -> TransactionIndex, proposal.Watcher -> the proposal id *)
  Definition prop_wakes (k : N * N) : list ctrl := [CtlTx (snd k); CtlProp k].
  (* a CONTROLS relation event: connection.TopoWatcher -> the relation id when the source is this node;
     mastership.TopoWatcher -> the configuration of the target entity when the source entity is an onos-config node
     (this node or a foreign one) and the target entity still exists with its Configurable aspect *)
  Definition rel_wakes (w : world) (c t : N) (mine : bool) : list ctrl :=
    (if mine then [CtlConn c] else []) ++ (if is_none (targets w !! t) then [] else [CtlMaster t]).

  (* a transaction event: transaction.Watcher -> the transaction's own index and, for every proposal named in
     Status.Proposals, the NextIndex of that proposal when it is set (the transactions that follow this one on each of
     its targets: they may wait at a SERIALIZABLE gate).  The watcher reads the proposal when it handles the event, i.e.
     at some moment after the write; NextIndex is written once (0 -> n), so a later read can only add an id.  The model
     reads at the moment of the write: the smallest wake-up set any delivery time can produce. *)
  Definition tx_wakes (w : world) (i : N) (T : @txn Ch) : list ctrl :=
    CtlTx i :: flat_map (fun t => match props w !! (t, i) with
                                  | Some P => if p_next P =? 0 then [] else [CtlTx (p_next P)]
                                  | None => [] end) (default [] (t_props T)).

  Definition wakes (w : world) (e : eff) : list ctrl :=
    match e with
    | EPutTx i T => tx_wakes w i T
    | ECreateProp k _ => match props w !! k with Some _ => [] | None => prop_wakes k end   (* AlreadyExists: no event *)
    | EPutProp k _ => prop_wakes k
    | ECreateCfg t c => match cfgs w !! t with Some _ => [] | None => cfg_wakes w t c end
    | EPutCfg t c => match cfgs w !! t with Some _ => cfg_wakes w t c | None => [] end
    | EPutValues _ _ | EPutAValues _ _ => []                     (* the path-value maps are not watched *)
    | ERelCreate c t => match rels w !! c with Some _ => [] | None => rel_wakes w c t true end
    | ERelDelete c => match rels w !! c with Some (t, mine) => rel_wakes w c t mine | None => [] end
    | EDev _ => []
    end.

  (* apply the effects of one invocation in order, collecting the wake-ups of each write *)
  Fixpoint apply_effs (w : world) (es : list eff) : world * list ctrl :=
    match es with
    | [] => (w, [])
    | e :: r => let '(w', q) := apply_effs (apply_eff w e) r in (w', wakes w e ++ q)
    end.

  (* controller.reconcileRequest: what the result of an invocation of [c] re-enters *)
  Definition requeue (c : ctrl) (r : result) : list ctrl :=
    match r with
    | RDone => []
    | RRequeueTx i => [CtlTx i]
    | RRequeueProp k => [CtlProp k]
    | RRetry => [c]
    end.

  (* environment: the ids an environment label wakes ([w] = the world BEFORE the label)
       northbound Set / rollback: transaction.Watcher -> the new index
       topo entity event (Configurable): configuration.TopoWatcher and mastership.TopoWatcher -> the configuration
       connection event: connection.ConnWatcher -> the connection id
       foreign CONTROLS relation: mastership.TopoWatcher *)
  Definition env_wakes (w : world) (l : @label Ch) : list ctrl :=
    match l with
    | LChange _ _ _ | LRollback _ => [CtlTx (next_index w)]
    | LRec _ _ _ => []
    | LConnUp c t => match conns w !! c with Some _ => [] | None => [CtlConn c] end
    | LConnDown c => match conns w !! c with Some _ => [CtlConn c] | None => [] end
    | LForeignRel c t => match rels w !! c with Some _ => [] | None => rel_wakes w c t false end
    | LTarget t _ | LTargetGone t => [CtlCfg t; CtlMaster t]
    | LDevRestart _ => []
    end.

  Record qworld := mkQW { qw : world; queue : list ctrl }.

  Fixpoint remove_nth {A} (n : nat) (l : list A) : list A :=
    match l, n with
    | [], _ => []
    | _ :: r, O => r
    | x :: r, S n' => x :: remove_nth n' r
    end.

  Inductive qlabel :=
  | QDeliver (n : nat) (o : oracle)      (* hand the n-th pending id to its reconciler: any delivery order *)
  | QEnv (l : @label Ch).                (* environment (LRec labels stutter here) *)

  Definition qstep (s : qworld) (l : qlabel) : qworld :=
    match l with
    | QDeliver n o =>
      match nth_error (queue s) n with
      | None => s
      | Some c =>
        let '(es, r) := reconcile o (qw s) c in
        let '(w', q) := apply_effs (qw s) es in
        mkQW w' (remove_nth n (queue s) ++ q ++ requeue c r)
      end
    | QEnv (LRec _ _ _) => s
    | QEnv l => mkQW (step (qw s) l) (queue s ++ env_wakes (qw s) l)
    end.

  Definition qinit : qworld := mkQW init [].
  Definition qrun (ls : list qlabel) : qworld := fold_left qstep ls qinit.
  Definition qreach (s : qworld) : Prop := exists ls, s = qrun ls.

  (** * Observations used by the property *)
  Definition idle (s : qworld) : bool := match queue s with [] => true | _ => false end.
  Definition enabledb (o : oracle) (w : world) (c : ctrl) : bool :=
    match fst (reconcile o w c) with [] => false | _ => true end.
  (* every controller id that names a stored record (all others reconcile to nothing) *)
  Definition all_ctrls (w : world) : list ctrl :=
    map (fun kv => CtlTx (fst kv)) (map_to_list (txs w))
    ++ map (fun kv => CtlProp (fst kv)) (map_to_list (props w))
    ++ map (fun kv => CtlCfg (fst kv)) (map_to_list (cfgs w))
    ++ map (fun kv => CtlMaster (fst kv)) (map_to_list (cfgs w))
    ++ map (fun kv => CtlConn (fst kv)) (map_to_list (conns w))
    ++ map (fun kv => CtlConn (fst kv)) (map_to_list (rels w)).
  Definition enabled_list (o : oracle) (w : world) : list ctrl := filter (enabledb o w) (all_ctrls w).
End Proto2Queue.

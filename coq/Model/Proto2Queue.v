(* Work-queue layer over the v2 protocol model Model/Proto2.v (property C09).
   Transcribes
     - the watchers: pkg/controller/v2/{transaction,proposal,configuration,mastership}/watcher.go,
       pkg/controller/connection/watcher.go (the target controller of pkg/controller/target is not part of Proto2:
       connections arrive and go as environment labels),
     - the work distribution of onos-lib-go pkg/controller/controller.go: every id written by a watcher is handed to
       the reconciler; Result{Requeue: id} re-enters id; an error re-enters the SAME id (time.AfterFunc back-off);
       otherwise the id is dropped.  There is no de-duplication, so the pending work of the five controllers is a
       multiset of (controller, id); the partitions of the proposal controller only restrict the interleaving and
       are irrelevant for a multiset from which ANY element may be delivered next.
   A queued world = a Proto2 world + the pending (controller, id) multiset (one list; the constructor of [ctrl]
   names the controller).  NO proofs in this file. *)
From stdpp Require Import gmap.
From RecordUpdate Require Import RecordUpdate.
From Coq Require Import NArith.
From OC Require Import Model.Proto2.
Open Scope N_scope.

(* Candidate repairs of the lost wake-ups (fixes/C09-*.patch), switchable so that the same definitions give the
   model of the code as it is ([no_fixes]) and of the repaired code ([all_fixes]).  None of them changes an effect:
   they only add re-queue requests / watcher ids, so the underlying Proto2 step relation is untouched.
     fx_next     proposal controller: the invocation that completes a proposal's commit, abort or apply (APPLIED or
                 FAILED) returns Requeue{NextIndex}, and the states ABORTED and apply-FAILED re-queue NextIndex like
                 COMMITTED and APPLIED already do; an ABORTING proposal that has to wait for its predecessor re-queues
                 PrevIndex like a VALIDATING or APPLYING one already does
     fx_initfail transaction controller: the invocation that fails a transaction's initialisation returns
                 Requeue{index+1}
     fx_proposed proposal.ConfigurationWatcher also names (target, Status.Proposed.Index) *)
Record fixes := mkFixes { fx_next : bool; fx_initfail : bool; fx_proposed : bool }.
Definition no_fixes : fixes := mkFixes false false false.
Definition all_fixes : fixes := mkFixes true true true.

Section Proto2Queue.
  Context {V Ch Req D : Type}.
  Context (fx : fixes).
  Context (candidate : V -> Ch -> V) (candidate_rb : V -> Ch -> V) (rollback_of : V -> Ch -> Ch)
          (overlay : V -> V -> V) (commit_merge : N -> N -> V -> V -> Ch -> V)
          (payload : N -> V -> Ch -> option Req) (record_applied : N -> V -> V -> V -> Ch -> V)
          (touched : N -> V -> Ch -> V) (restore : V -> V -> V)
          (resync_payload : V -> list (option Req)) (doc_ok : V -> bool)
          (dev_apply : D -> Req -> D) (stamp : N -> Ch -> Ch) (v_empty : V) (d_empty : D) (ch_empty : Ch).

  Notation world := (@world V Ch Req D).
  Notation eff := (@eff V Ch Req).
  Notation apply_eff := (@apply_eff V Ch Req D dev_apply d_empty).
  Notation reconcile := (@reconcile V Ch Req D candidate candidate_rb rollback_of overlay commit_merge payload record_applied
                                    touched restore resync_payload doc_ok stamp v_empty d_empty ch_empty).
  Notation step := (@step V Ch Req D candidate candidate_rb rollback_of overlay commit_merge payload record_applied
                          touched restore resync_payload doc_ok dev_apply stamp v_empty d_empty ch_empty).

  (** * Watchers: the ids a successful store write wakes ([w] = the world BEFORE the write) *)
  (* a configuration event carries the configuration as written:
       proposal.ConfigurationWatcher      -> (target, Index) and (target, Status.Applied.Index)
       configuration.Watcher              -> the configuration id
       mastership.ConfigurationStoreWatcher -> the configuration id *)
  Definition cfg_wakes (t : N) (c : @config V) : list ctrl :=
    [CtlProp (t, c_index c); CtlProp (t, c_applied c)] ++ (if fx_proposed fx then [CtlProp (t, c_proposed c)] else [])
    ++ [CtlCfg t; CtlMaster t].
  (* a proposal event: transaction.ProposalWatcher -> TransactionIndex, proposal.Watcher -> the proposal id *)
  Definition prop_wakes (k : N * N) : list ctrl := [CtlTx (snd k); CtlProp k].
  (* a CONTROLS relation event: connection.TopoWatcher -> the relation id when the source is this node;
     mastership.TopoWatcher -> the configuration of the target entity when the source entity is an onos-config node
     (this node or a foreign one) and the target entity still exists with its Configurable aspect *)
  Definition rel_wakes (w : world) (c t : N) (mine : bool) : list ctrl :=
    (if mine then [CtlConn c] else []) ++ (if is_none (targets w !! t) then [] else [CtlMaster t]).

  Definition wakes (w : world) (e : eff) : list ctrl :=
    match e with
    | EPutTx i _ => [CtlTx i]                                    (* transaction.Watcher *)
    | ECreateProp k _ => match props w !! k with Some _ => [] | None => prop_wakes k end   (* AlreadyExists: no event *)
    | EPutProp k _ => prop_wakes k
    | ECreateCfg t c => match cfgs w !! t with Some _ => [] | None => cfg_wakes t c end
    | EPutCfg t c => match cfgs w !! t with Some _ => cfg_wakes t c | None => [] end
    | EPutValues _ _ | EPutAValues _ _ => []                     (* the path-value maps are not watched *)
    | ERelCreate c t => match rels w !! c with Some _ => [] | None => rel_wakes w c t true end
    | ERelDelete c => match rels w !! c with Some (t, mine) => rel_wakes w c t mine | None => [] end
    | EDev _ => []
    end.

  (* apply the effects of one invocation in order, collecting the wake-ups of each write *)
  Fixpoint apply_effs (w : world) (es : list eff) : world * list ctrl :=
    match es with
    | [] => (w, [])
    | e :: r => let '(w', q) := apply_effs (apply_eff w e) r in (w', wakes w e ++ q)
    end.

  (* controller.reconcileRequest: what the result of an invocation of [c] re-enters *)
  Definition requeue (c : ctrl) (r : result) : list ctrl :=
    match r with
    | RDone => []
    | RRequeueTx i => [CtlTx i]
    | RRequeueProp k => [CtlProp k]
    | RRetry => [c]
    end.

  (* the repaired results (they replace a plain "done" only) *)
  Definition is_ph (o : option ph) (p : ph) : bool := bool_decide (o = Some p).
  (* the write P -> P' completes the commit, the abort or the apply of the proposal *)
  Definition completes (P P' : @prop Ch) : bool :=
    (is_ph (p_commit P) Doing && is_ph (p_commit P') Done)
    || (is_ph (p_abort P) Doing && is_ph (p_abort P') Done)
    || (is_ph (p_apply P) Doing && (is_ph (p_apply P') Done || is_ph (p_apply P') Failed)).
  (* a proposal parked in ABORTED or in apply-FAILED *)
  Definition dead_end (P : @prop Ch) : bool :=
    is_ph (p_apply P) Failed || (is_none (p_apply P) && is_ph (p_abort P) Done).
  Definition next_of (t : N) (P : @prop Ch) : list ctrl := if p_next P =? 0 then [] else [CtlProp (t, p_next P)].

  Fixpoint last_eff (es : list eff) : option eff :=
    match es with [] => None | [e] => Some e | _ :: r => last_eff r end.

  Definition fix_requeue (w : world) (c : ctrl) (es : list eff) (r : result) : list ctrl :=
    match r, c with
    | RDone, CtlProp (t, i) =>
      if fx_next fx then
        match props w !! (t, i) with
        | Some P =>
          match last_eff es with
          | None => if dead_end P then next_of t P
                    else if is_none (p_apply P) && is_ph (p_abort P) Doing && negb (p_prev P =? 0) then [CtlProp (t, p_prev P)]
                    else []
          | Some (EPutProp k' P') => if bool_decide (k' = (t, i)) && completes P P' then next_of t P' else []
          | Some _ => []
          end
        | None => []
        end
      else []
    | RDone, CtlTx i =>
      if fx_initfail fx then
        match last_eff es with
        | Some (EPutTx i' T') => if bool_decide (i' = i) && is_ph (t_init T') Failed then [CtlTx (i + 1)] else []
        | _ => []
        end
      else []
    | _, _ => []
    end.

  (* environment: the ids an environment label wakes ([w] = the world BEFORE the label)
       northbound Set / rollback: transaction.Watcher -> the new index
       topo entity event (Configurable): configuration.TopoWatcher and mastership.TopoWatcher -> the configuration
       connection event: connection.ConnWatcher -> the connection id
       foreign CONTROLS relation: mastership.TopoWatcher *)
  Definition env_wakes (w : world) (l : @label Ch) : list ctrl :=
    match l with
    | LChange _ _ _ | LRollback _ => [CtlTx (next_index w)]
    | LRec _ _ _ => []
    | LConnUp c t => match conns w !! c with Some _ => [] | None => [CtlConn c] end
    | LConnDown c => match conns w !! c with Some _ => [CtlConn c] | None => [] end
    | LForeignRel c t => match rels w !! c with Some _ => [] | None => rel_wakes w c t false end
    | LTarget t _ | LTargetGone t => [CtlCfg t; CtlMaster t]
    | LDevRestart _ => []
    end.

  Record qworld := mkQW { qw : world; queue : list ctrl }.

  Fixpoint remove_nth {A} (n : nat) (l : list A) : list A :=
    match l, n with
    | [], _ => []
    | _ :: r, O => r
    | x :: r, S n' => x :: remove_nth n' r
    end.

  Inductive qlabel :=
  | QDeliver (n : nat) (o : oracle)      (* hand the n-th pending id to its reconciler: any delivery order *)
  | QEnv (l : @label Ch).                (* environment (LRec labels stutter here) *)

  Definition qstep (s : qworld) (l : qlabel) : qworld :=
    match l with
    | QDeliver n o =>
      match nth_error (queue s) n with
      | None => s
      | Some c =>
        let '(es, r) := reconcile o (qw s) c in
        let '(w', q) := apply_effs (qw s) es in
        mkQW w' (remove_nth n (queue s) ++ q ++ requeue c r ++ fix_requeue (qw s) c es r)
      end
    | QEnv (LRec _ _ _) => s
    | QEnv l => mkQW (step (qw s) l) (queue s ++ env_wakes (qw s) l)
    end.

  Definition qinit : qworld := mkQW init [].
  Definition qrun (ls : list qlabel) : qworld := fold_left qstep ls qinit.
  Definition qreach (s : qworld) : Prop := exists ls, s = qrun ls.

  (** * Observations used by the property *)
  Definition idle (s : qworld) : bool := match queue s with [] => true | _ => false end.
  Definition enabledb (o : oracle) (w : world) (c : ctrl) : bool :=
    match fst (reconcile o w c) with [] => false | _ => true end.
  (* every controller id that names a stored record (all others reconcile to nothing) *)
  Definition all_ctrls (w : world) : list ctrl :=
    map (fun kv => CtlTx (fst kv)) (map_to_list (txs w))
    ++ map (fun kv => CtlProp (fst kv)) (map_to_list (props w))
    ++ map (fun kv => CtlCfg (fst kv)) (map_to_list (cfgs w))
    ++ map (fun kv => CtlMaster (fst kv)) (map_to_list (cfgs w))
    ++ map (fun kv => CtlConn (fst kv)) (map_to_list (conns w))
    ++ map (fun kv => CtlConn (fst kv)) (map_to_list (rels w)).
  Definition enabled_list (o : oracle) (w : world) : list ctrl := filter (enabledb o w) (all_ctrls w).
End Proto2Queue.

(* The part of the gNMI Set handler (pkg/northbound/gnmi/v2/set.go) and of the admin
   RollbackTransaction handler (pkg/northbound/admin/admin.go) that runs after the transaction has
   been built: Create, Watch(WithReplay, WithTransactionID), the wait loop over the delivered events,
   the response construction and the failure -> status switch.  No proofs here.

   The wait predicate and the failure switch are NOT written here: they come from Gen/Tables.v,
   which tools/translate regenerates from the Go source on every run. *)
From Coq Require Import List NArith Arith Bool.
From OC Require Import Base.Bytes Model.Failure Model.Watch2 Gen.Tables.
Import ListNotations.
Local Close Scope N_scope.
Local Open Scope nat_scope.

(* ------------------------------------------------------------------ events and the wait loop *)

(* what the loop reads from a TransactionEvent *)
Record tx_event := mk_event {
  ev_sync : synchronicity;              (* Transaction.TransactionStrategy.Synchronicity *)
  ev_state : tx_state;                  (* Transaction.Status.State *)
  ev_failure : option failure_type      (* Transaction.Status.Failure (nil = None) and its Type *)
}.

Inductive wait_result :=
| Waiting                                (* channel drained without a verdict: the loop keeps waiting *)
| Succeeded                              (* first branch: build the response *)
| Failed_with (c : grpc_code).           (* second branch: return nil, errors.Status(err).Err() *)

Section Loop.
  Context (wait_ok wait_failed : synchronicity -> tx_state -> bool)
          (failure_ctor : failure_type -> err_ctor) (nil_ctor : err_ctor).

  (* one iteration of `for transactionEvent := range eventCh` *)
  Definition on_event (e : tx_event) : wait_result :=
    if wait_ok (ev_sync e) (ev_state e) then Succeeded
    else if wait_failed (ev_sync e) (ev_state e) then
      Failed_with (lib_status (match ev_failure e with
                               | Some f => failure_ctor f
                               | None => nil_ctor
                               end))
    else Waiting.

  Fixpoint wait_loop (evs : list tx_event) : wait_result :=
    match evs with
    | [] => Waiting
    | e :: rest =>
      match on_event e with
      | Waiting => wait_loop rest
      | r => r
      end
    end.
End Loop.

Definition set_wait : list tx_event -> wait_result :=
  wait_loop set_wait_ok set_wait_failed set_failure_ctor set_nil_failure_ctor.
Definition rollback_wait : list tx_event -> wait_result :=
  wait_loop rollback_wait_ok rollback_wait_failed rollback_failure_ctor rollback_nil_failure_ctor.

(* ------------------------------------------------------------------ status histories *)

(* the part of Transaction.Status the handlers look at *)
Record tx_status := mk_status { st_state : tx_state; st_failure : option failure_type }.

Definition events_of (sy : synchronicity) (h : list tx_status) : list tx_event :=
  map (fun s => mk_event sy (st_state s) (st_failure s)) h.

Definition terminal_state (s : tx_state) : bool :=
  match s with APPLIED | FAILED => true | _ => false end.
Definition terminal (s : tx_status) : bool := terminal_state (st_state s).

Definition rank (s : tx_state) : nat :=
  match s with PENDING => 0 | VALIDATED => 1 | COMMITTED => 2 | APPLIED => 3 | FAILED => 4 end.

Definition failure_opt_eqb (a b : option failure_type) : bool :=
  match a, b with
  | None, None => true
  | Some x, Some y => failure_eqb x y
  | _, _ => false
  end.

(* one status write of the transaction controller: stages only move forward, APPLIED is final, a FAILED
   transaction stays FAILED with the failure it recorded (the abort phase writes that follow keep both) *)
Definition step_ok (a b : tx_status) : bool :=
  match st_state a, st_state b with
  | FAILED, FAILED => failure_opt_eqb (st_failure a) (st_failure b)
  | FAILED, _ => false
  | APPLIED, APPLIED => true
  | APPLIED, _ => false
  | _, FAILED => true
  | x, y => rank x <=? rank y
  end.

Fixpoint chain_ok (h : list tx_status) : bool :=
  match h with
  | a :: ((b :: _) as r) => step_ok a b && chain_ok r
  | _ => true
  end.

Definition valid_history (h : list tx_status) : bool :=
  match h with [] => false | _ => chain_ok h end.

Definition last_status (h : list tx_status) : tx_status := last h (mk_status PENDING None).

(* the stage a caller asked to wait for *)
Definition awaited (sy : synchronicity) (s : tx_state) : bool :=
  match sy, s with
  | ASYNCHRONOUS, COMMITTED | ASYNCHRONOUS, APPLIED => true
  | SYNCHRONOUS, APPLIED => true
  | _, _ => false
  end.

Definition reached (sy : synchronicity) (h : list tx_status) : bool :=
  existsb (fun s => awaited sy (st_state s)) h.

Definition status_of_failure (o : option failure_type) : grpc_code :=
  match o with Some f => status_of f | None => G_Unknown end.

(* ------------------------------------------------------------------ response construction *)

(* utils.SplitPath / nextTokenIndex *)
Definition c_slash := 47%N.
Definition c_lbr := 91%N.
Definition c_rbr := 93%N.
Definition c_bsl := 92%N.
Definition c_eq := 61%N.

(* token up to the first '/' outside brackets and not escaped; remainder starts at that '/' *)
Fixpoint next_token (inb esc : bool) (s : str) : str * str :=
  match s with
  | [] => ([], [])
  | c :: r =>
    if (c =? c_lbr)%N then let (t, m) := next_token true false r in (c :: t, m)
    else if (c =? c_rbr)%N then let (t, m) := next_token (if esc then inb else false) false r in (c :: t, m)
    else if (c =? c_bsl)%N then let (t, m) := next_token inb (negb esc) r in (c :: t, m)
    else if (c =? c_slash)%N then
      if negb inb && negb esc then ([], s) else let (t, m) := next_token inb false r in (c :: t, m)
    else let (t, m) := next_token inb false r in (c :: t, m)
  end.

Definition strip_slash (s : str) : str :=
  match s with
  | c :: r => if (c =? c_slash)%N then r else s
  | [] => []
  end.

Fixpoint split_loop (fuel : nat) (path : str) : list str :=
  match fuel with
  | O => []
  | S f =>
    match path with
    | [] => []
    | _ => let (part, rest) := next_token false false path in part :: split_loop f (strip_slash rest)
    end
  end.

Definition split_path (p : str) : list str :=
  let p' := strip_slash p in split_loop (S (length p')) p'.

(* utils.findUnescaped: unescaped text before the first unescaped [c], and what follows that [c] *)
Fixpoint find_unescaped (c : N) (s : str) : str * option str :=
  match s with
  | [] => ([], None)
  | x :: r =>
    if (x =? c)%N then ([], Some r)
    else if (x =? c_bsl)%N then
      match r with
      | y :: r' => let (l, o) := find_unescaped c r' in (y :: l, o)
      | [] => ([x], None)
      end
    else let (l, o) := find_unescaped c r in (x :: l, o)
  end.

Definition is_nil {X} (l : list X) : bool := match l with [] => true | _ => false end.

(* the loop `for keyPart != "" { parseKey }` of utils.parseElement; true = no error *)
Fixpoint parse_keys (fuel : nat) (s : str) : bool :=
  match s with
  | [] => true
  | x :: r =>
    match fuel with
    | O => false
    | S f =>
      if negb (x =? c_lbr)%N then false
      else
        let (k, o) := find_unescaped c_eq r in
        match o with
        | None => false
        | Some rhs =>
          if is_nil k then false
          else
            let (v, o2) := find_unescaped c_rbr rhs in
            match o2 with
            | None => false
            | Some next => if is_nil v then false else parse_keys f next
            end
        end
    end
  end.

Definition elem_parses (e : str) : bool :=
  let (name, o) := find_unescaped c_lbr e in
  match o with
  | None => true
  | Some rest => if is_nil name then false else parse_keys (S (length e)) (c_lbr :: rest)
  end.

(* utils.ParseGNMIElements(utils.SplitPath(p)) returns no error *)
Definition path_parses (p : str) : bool := forallb elem_parses (split_path p).

Inductive res_op := OpUpdate | OpDelete.

(* Transaction.Change.Values : map target -> (map path -> PathValue); iteration order = list order *)
Definition change := (str * bool)%type.                  (* path, Deleted *)
Definition change_map := list (str * list change).       (* target, changes *)
Definition row := (str * str * res_op)%type.             (* target, path, operation *)

Definition op_of (deleted : bool) : res_op := if deleted then OpDelete else OpUpdate.

(* what the request changed, as (target, path, op) *)
Definition rows_of (cm : change_map) : list row :=
  flat_map (fun tc => map (fun c => (fst tc, fst c, op_of (snd c))) (snd tc)) cm.

Definition cm_paths (cm : change_map) : list str := map (fun r => snd (fst r)) (rows_of cm).

(* the nested loops over the change map with newUpdateResult; None = newUpdateResult returned an
   error, which the handler returns as it is (a plain error: gRPC code Unknown) *)
Definition response_rows (cm : change_map) : option (list row) :=
  if forallb path_parses (cm_paths cm) then Some (rows_of cm) else None.

Record set_response := mk_resp {
  resp_rows : list row;       (* SetResponse.Response *)
  resp_id : str;              (* TransactionInfo extension: ID *)
  resp_index : N              (* TransactionInfo extension: Index *)
}.

(* the transaction log as far as Create is concerned: entry i (1-based) holds (id, change map) *)
Definition tx_log := list (str * change_map).
Definition tx_create (log : tx_log) (id : str) (cm : change_map) : tx_log * N :=
  (log ++ [(id, cm)], N.of_nat (S (length log))).
Definition tx_lookup (log : tx_log) (index : N) : option (str * change_map) :=
  match N.to_nat index with
  | O => None
  | S i => nth_error log i
  end.

Inductive set_outcome :=
| SetWaiting
| SetOk (r : set_response)
| SetErr (c : grpc_code).

(* Set, from s.transactions.Create on: [id] is the identifier the handler generated, [log] the
   transaction log at Create, [evs] the events the watch delivers *)
Definition set_handler (log : tx_log) (id : str) (cm : change_map) (evs : list tx_event) : tx_log * set_outcome :=
  let (log', index) := tx_create log id cm in
  (log',
   match set_wait evs with
   | Waiting => SetWaiting
   | Failed_with c => SetErr c
   | Succeeded =>
     match response_rows cm with
     | Some rows => SetOk (mk_resp rows id index)
     | None => SetErr G_Unknown
     end
   end).

(* RollbackTransaction: always SYNCHRONOUS; the response is (id, index) of the rollback transaction *)
Inductive rollback_outcome :=
| RbWaiting
| RbOk (id : str) (index : N)
| RbErr (c : grpc_code).

Definition rollback_handler (nlog : nat) (id : str) (evs : list tx_event) : rollback_outcome :=
  match rollback_wait evs with
  | Waiting => RbWaiting
  | Failed_with c => RbErr c
  | Succeeded => RbOk id (N.of_nat (S nlog))
  end.

(* ------------------------------------------------------------------ driver entry points *)

(* whole pipeline for one observed case: status history, placement, synchronicity *)
Definition set_wait_placed (sy : synchronicity) (h : list tx_status) (j k : nat) : wait_result :=
  set_wait (events_of sy (delivered h j k)).
Definition rollback_wait_placed (sy : synchronicity) (h : list tx_status) (j k : nat) : wait_result :=
  rollback_wait (events_of sy (delivered h j k)).

(* Concrete pure layer plugged into Model/Proto2.v for the executable protocol model:
     pkg/controller/utils/utils.go          AddDeleteChildren (it mutates the stored values it cascades to)
     pkg/controller/v2/proposal/controller.go  applyChangeToConfig, candidate / rollback values, commit merge
     pkg/utils/v2/tree/tree.go               PrunePathValues / PrunePathMap (per-path lookup of deleted ancestors)
     pkg/utils/gnmiPathUtils.go              IsPathBelow
     pkg/store/v2/configuration              store(): only the paths present in the in-memory map are touched;
                                             committed and applied maps are one Atomix map (same name)
     pkg/utils/v2/values/gnmi_change.go      PathValuesToGnmiChange
   Values are canonical strings (the value codec is property C17's business). *)
From Coq Require Import List NArith Bool.
From OC Require Import Base.Bytes.
Import ListNotations.
Open Scope N_scope.

Record pv := mkPV { pv_path : str; pv_val : str; pv_deleted : bool; pv_index : N }.
Definition cmap := list (str * pv).          (* Go map: keys unique; list order = an iteration order *)

Fixpoint lookup (k : str) (m : cmap) : option pv :=
  match m with [] => None | (k', v) :: m' => if eqb_str k k' then Some v else lookup k m' end.
Fixpoint remove (k : str) (m : cmap) : cmap :=
  match m with [] => [] | (k', v) :: m' => if eqb_str k k' then m' else (k', v) :: remove k m' end.
Definition insert (k : str) (v : pv) (m : cmap) : cmap :=
  match lookup k m with
  | Some _ => map (fun kv => if eqb_str k (fst kv) then (k, v) else kv) m
  | None => m ++ [(k, v)]
  end.

(* utils.IsPathBelow *)
Definition is_path_below (path ancestor : str) : bool :=
  if eqb_str ancestor [] || eqb_str ancestor [c_slash] then
    negb (eqb_str path ancestor) && negb (eqb_str path []) && negb (eqb_str path [c_slash])
  else
    (N.of_nat (length ancestor) <? N.of_nat (length path)) && prefixb ancestor path &&
    match nth_error path (length ancestor) with
    | Some c => (c =? c_slash) || (c =? c_lbr)
    | None => false
    end.

(* pkg/utils/path GetParentPath: path[0:LastIndex(path,"/")], "" when the index is <= 0 *)
Fixpoint last_slash (s : str) (i : nat) (acc : option nat) : option nat :=
  match s with [] => acc | c :: s' => last_slash s' (S i) (if c =? c_slash then Some i else acc) end.
Definition get_parent (p : str) : str :=
  match last_slash p 0 None with
  | Some (S i) => firstn (S i) p
  | _ => []
  end.

(* the proper prefixes of a path that end at a path element boundary ('/' or '['), longest first *)
Fixpoint boundary_prefixes (fuel : nat) (p : str) : list str :=
  match fuel with
  | O => []
  | S i =>
    (* i runs from len-1 down to 1 in the Go loop: prefix p[:i] when p[i] is a boundary *)
    match i with
    | O => []
    | _ => match nth_error p i with
           | Some c => if (c =? c_slash) || (c =? c_lbr) then firstn i p :: boundary_prefixes i p else boundary_prefixes i p
           | None => boundary_prefixes i p
           end
    end
  end.
Definition ancestors (p : str) : list str := boundary_prefixes (length p) p.

(* applyChangeToConfig: set; a live value then drops every ancestor (at element boundaries) marked deleted and the
   outermost is returned; a deleted value leaves its ancestors alone (repo 13d170a) *)
Definition apply_change_to_config (m : cmap) (path : str) (v : pv) : cmap * option (str * pv) :=
  if pv_deleted v then (insert path v m, None) else
  fold_left (fun '(acc, dropped) a =>
               match lookup a acc with
               | Some e => if pv_deleted e then (remove a acc, Some (a, e)) else (acc, dropped)
               | None => (acc, dropped)
               end) (ancestors path) (insert path v m, None).

(* AddDeleteChildren: returns the updated change map AND the store as mutated through the shared pointers *)
Definition add_delete_children (index : N) (change store : cmap) : cmap * cmap :=
  fold_left (fun '(upd, st) '(_, cv) =>
    if pv_deleted cv then
      let hit (v : pv) := is_path_below (pv_path v) (pv_path cv) in
      let mark (v : pv) := mkPV (pv_path v) (pv_val v) true index in
      let kids := filter (fun '(_, v) => hit v) st in
      let st' := map (fun '(k, v) => if hit v then (k, mark v) else (k, v)) st in
      let upd' := fold_left (fun u '(_, v) => insert (pv_path v) (mark v) u) kids upd in
      (insert (pv_path cv) cv upd', st')
    else (insert (pv_path cv) cv upd, st)) change ([], store).

(* PrunePathValues *)
Fixpoint insert_sorted (x : pv) (l : list pv) : list pv :=
  match l with
  | [] => [x]
  | y :: l' => if ltb_str (pv_path x) (pv_path y) then x :: l else y :: insert_sorted x l'
  end.
Definition sort_pvs (l : list pv) : list pv := fold_right insert_sorted [] l.

Definition below_deleted (path : str) (dels : list str) : bool :=
  (negb (eqb_str path [c_slash]) && existsb (fun d => eqb_str d [c_slash] || eqb_str d []) dels)
  || existsb (fun d => negb (eqb_str d []) && negb (eqb_str d [c_slash]) && is_path_below path d) dels.

Definition prune_path_values (l : list pv) (keep_top : bool) : list pv :=
  let dels := map pv_path (filter pv_deleted l) in
  filter (fun v => negb (below_deleted (pv_path v) dels) && (negb (pv_deleted v) || keep_top)) (sort_pvs l).
Definition prune_path_map (m : cmap) (keep_top : bool) : cmap :=
  map (fun v => (pv_path v, v)) (prune_path_values (map snd m) keep_top).

(* store(): the paths present in [values] are written; a live value that is inserted or updated also removes the
   stored tombstones among its ancestors that the writer no longer holds (clearDeletedAncestors) *)
Definition clear_ancestors (persisted values : cmap) (v : pv) (st : cmap) : cmap :=
  if pv_deleted v then st else
  fold_left (fun acc a =>
               match lookup a values with
               | Some _ => acc
               | None => match lookup a persisted with
                         | Some e => if pv_deleted e then remove a acc else acc
                         | None => acc
                         end
               end) (ancestors (pv_path v)) st.

Definition store_write (persisted values : cmap) : cmap :=
  let pruned := prune_path_map values true in
  fold_left (fun st '(_, v) =>
    match lookup (pv_path v) persisted, lookup (pv_path v) pruned with
    | None, Some _ => clear_ancestors persisted values v (insert (pv_path v) v st)
    | None, None => st
    | Some _, None => remove (pv_path v) st
    | Some e, Some _ => if pv_index v =? pv_index e then st else clear_ancestors persisted values v (insert (pv_path v) v st)
    end) values persisted.

(* transaction controller: changeValue.Index = transaction.Index *)
Definition stamp (index : N) (change : cmap) : cmap :=
  map (fun '(k, v) => (k, mkPV (pv_path v) (pv_val v) (pv_deleted v) index)) change.

(* what Get loads: the values inlined in the entry, overlaid by the entries of the path-value map *)
Definition overlay (inline m : cmap) : cmap := fold_left (fun acc '(k, v) => insert k v acc) m inline.

(* the [n]-th permutation of a list (factorial number system): stands for a Go map iteration order *)
Fixpoint take_nth {A} (n : nat) (l : list A) : option (A * list A) :=
  match l with
  | [] => None
  | x :: r => match n with
              | O => Some (x, r)
              | S n' => match take_nth n' r with Some (y, r') => Some (y, x :: r') | None => None end
              end
  end.
Fixpoint permute_fuel {A} (fuel : nat) (n : N) (l : list A) : list A :=
  match fuel with
  | O => l
  | S f =>
    match l with
    | [] => []
    | _ => let len := N.of_nat (length l) in
           match take_nth (N.to_nat (n mod len)) l with
           | Some (x, r) => x :: permute_fuel f (n / len) r
           | None => l
           end
    end
  end.
Definition permute {A} (n : N) (l : list A) : list A := permute_fuel (length l) n l.
(* the part of the code [n] that [permute n l] did not consume: picks a second, independent order *)
Fixpoint rest_code (len : nat) (n : N) : N :=
  match len with
  | O => n
  | S k => rest_code k (n / N.of_nat len)
  end.

(* reconcileCommit on the values: [m] the stored map, [vw] the loaded view.  Both loops follow a Go map iteration order,
   picked by [ord]: AddDeleteChildren walks the change values (a value that is also beneath a deleted value of the same
   change ends up as whichever was handled last), then the updated change values are applied (a descendant applied
   after its deleted ancestor drops that ancestor) *)
Definition commit_merge (ord : N) (index : N) (m vw change : cmap) : cmap :=
  let '(upd, st) := add_delete_children index (permute ord change) vw in
  let st' := fold_left (fun acc '(p, v) => fst (apply_change_to_config acc p v)) (permute (rest_code (length change) ord) upd) st in
  store_write m st'.

(* reconcileValidate, Change case *)
Definition candidate (persisted change : cmap) : cmap :=
  fold_left (fun cand '(p, v) => fst (apply_change_to_config cand p v)) change persisted.
Definition rollback_of (persisted change : cmap) : cmap :=
  snd (fold_left (fun '(cand, rb) '(p, v) =>
    let '(cand', dropped) := apply_change_to_config cand p v in
    let rb1 := match dropped with Some (dp, dv) => insert dp dv rb | None => rb end in
    let rb2 := match lookup p persisted with
               | Some old => insert p old rb1
               | None => if pv_deleted v then rb1 else insert p (mkPV p [] true 0) rb1 end in
    (* a delete also removes everything beneath its path: those values are part of the rollback *)
    let rb3 := if pv_deleted v
               then fold_left (fun acc '(k, cv) => if negb (pv_deleted cv) && is_path_below k p then insert k cv acc else acc) persisted rb2
               else rb2 in
    (cand', rb3)) change (persisted, [])).
(* reconcileValidate, Rollback case: the rollback values are applied like any other value (repo 3342112): a restored
   live value removes the deleted ancestors that cover it.  (Before that repair it was a plain overwrite, and the
   document shown to the plugin lacked the subtree a rollback of a container delete brings back - finding F-24.) *)
Definition candidate_rb (persisted rb : cmap) : cmap :=
  fold_left (fun cand '(p, v) => fst (apply_change_to_config cand p v)) rb persisted.

(* gNMI request = deletes, updates (path, value) in request order *)
Record req := mkReq { r_del : list str; r_upd : list (str * str) }.
Definition to_req (l : list pv) : req :=
  mkReq (map pv_path (filter pv_deleted l))
        (map (fun v => (pv_path v, pv_val v)) (filter (fun v => negb (pv_deleted v)) l)).

Definition payload (index : N) (values change : cmap) : option req :=
  Some (to_req (prune_path_values (map snd (fst (add_delete_children index change values))) true)).

(* Applied.Values (loaded from the same Atomix map) += upd; UpdateStatus stores them *)
Definition record_applied (ord : N) (index : N) (m va vw change : cmap) : cmap :=
  let upd := fst (add_delete_children index (permute ord change) vw) in
  store_write m (fold_left (fun acc '(p, v) => fst (apply_change_to_config acc p v)) (permute (rest_code (length change) ord) upd) va).
(* the loaded view as mutated by AddDeleteChildren through the shared pointers *)
Definition touched (index : N) (vw change : cmap) : cmap := snd (add_delete_children index change vw).
(* any other UpdateStatus: the loaded applied values are stored again *)
Definition restore (m va : cmap) : cmap := store_write m va.

(* configuration controller re-push: one request per transaction index (model order: first occurrence) *)
Fixpoint group_by_index (l : list pv) (acc : list (N * list pv)) : list (N * list pv) :=
  match l with
  | [] => acc
  | v :: l' =>
    let acc' := if existsb (fun g => fst g =? pv_index v) acc
                then map (fun g => if fst g =? pv_index v then (fst g, snd g ++ [v]) else g) acc
                else acc ++ [(pv_index v, [v])] in
    group_by_index l' acc'
  end.
Definition resync_payload (values : cmap) : list (option req) :=
  map (fun g => Some (to_req (snd g))) (group_by_index (map snd values) []).

Definition doc_ok (values : cmap) : bool := true.

(* the device: leaf map with gNMI Set semantics (delete = node and everything beneath it at element boundaries) *)
Definition dstate := list (str * str).
Fixpoint d_remove (k : str) (m : dstate) : dstate :=
  match m with [] => [] | (k', v) :: m' => if eqb_str k k' then d_remove k m' else (k', v) :: d_remove k m' end.
Definition dev_apply (d : dstate) (r : req) : dstate :=
  let d1 := fold_left (fun m p => filter (fun kv => negb (eqb_str (fst kv) p || is_path_below (fst kv) p)) m) (r_del r) d in
  fold_left (fun m kv => d_remove (fst kv) m ++ [kv]) (r_upd r) d1.

(* what Get shows: live leaves that are not beneath a tombstone *)
Definition live (m : cmap) : list (str * str) :=
  map (fun v => (pv_path v, pv_val v)) (prune_path_values (map snd m) false).

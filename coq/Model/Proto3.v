(* Proto3: executable transcription of the v3 per-target transaction protocol of onos-config
     pkg/controller/v3/transaction/controller.go   (commitChange, applyChange, commitRollback, applyRollback,
                                                     applyValues, applyChangeToConfig, addDeleteChildren)
     pkg/controller/v3/configuration/controller.go (reconcileConfiguration)
     pkg/controller/v3/mastership/controller.go    (Reconcile)
     pkg/store/v3/configuration/store.go           (Get/populate, UpdateStatus, store)
     pkg/store/v3/transaction/store.go             (append, status update)
   One target (transactions of different targets never touch common records).
   One Reconcile call = function from a snapshot of the stores to an ordered list of effects; the step relation
   executes the effects up to the k-th store write (partial writes / crashes between the records).
   Paths are lists of element ids (key-less elements: "/a/b" = [a;b]); values are numbers.
   No proofs in this file. *)
From Coq Require Import List NArith Bool Arith.
Import ListNotations.
Open Scope N_scope.

(* ------------------------------------------------------------------ paths and path values *)
Definition path := list N.

Fixpoint path_eqb (a b : path) : bool :=
  match a, b with
  | [], [] => true
  | x :: a', y :: b' => (x =? y) && path_eqb a' b'
  | _, _ => false
  end.

(* utils.IsPathBelow p anc (for the non-root ancestors that occur): strict descendant at an element boundary *)
Fixpoint below (p anc : path) : bool :=
  match anc, p with
  | [], [] => false
  | [], _ :: _ => true
  | _ :: _, [] => false
  | y :: anc', x :: p' => (x =? y) && below p' anc'
  end.
Definition is_below (p anc : path) : bool := match anc with [] => false | _ => below p anc end.

(* pathutils.GetParentPath *)
Definition parent (p : path) : path := removelast p.

(* configapi.PathValue: it carries its own path (the store can file it under another key, see store_write) *)
Record pval := { pv_path : path; pv_val : N; pv_del : bool; pv_idx : N }.

Definition pval_eqb (a b : pval) : bool :=
  path_eqb (pv_path a) (pv_path b) && (pv_val a =? pv_val b) && Bool.eqb (pv_del a) (pv_del b) && (pv_idx a =? pv_idx b).

(* Go map[string]PathValue as an association list with unique keys *)
Definition vals := list (path * pval).

Fixpoint vget (k : path) (m : vals) : option pval :=
  match m with
  | [] => None
  | (k', v) :: r => if path_eqb k k' then Some v else vget k r
  end.
Fixpoint vset (k : path) (v : pval) (m : vals) : vals :=
  match m with
  | [] => [(k, v)]
  | (k', v') :: r => if path_eqb k k' then (k, v) :: r else (k', v') :: vset k v r
  end.
Fixpoint vdel (k : path) (m : vals) : vals :=
  match m with
  | [] => []
  | (k', v') :: r => if path_eqb k k' then r else (k', v') :: vdel k r
  end.
(* for k, v := range src { dst[k] = v } *)
Definition overlay (dst src : vals) : vals := fold_left (fun d kv => vset (fst kv) (snd kv) d) src dst.

(* tree.PrunePathValues(_, true): entries below a deleted path are dropped, tomb-stones stay *)
Definition prune_keep_top (l : list pval) : list pval :=
  let dels := map pv_path (filter pv_del l) in
  filter (fun pv => negb (existsb (fun d => is_below (pv_path pv) d) dels)) l.

(* ------------------------------------------------------------------ records *)
Inductive st := Pending | InProgress | Complete | Aborted | Canceled | Failed.
Definition st_code (s : st) : N :=
  match s with Pending => 0 | InProgress => 1 | Complete => 2 | Aborted => 3 | Canceled => 4 | Failed => 5 end.
Definition st_eqb (a b : st) : bool := st_code a =? st_code b.
(* State <= IN_PROGRESS *)
Definition st_le_inprogress (s : st) : bool := st_code s <=? 1.
(* State < COMPLETE *)
Definition st_lt_complete (s : st) : bool := st_code s <? 2.
(* a = b - 1 on unsigned 64-bit numbers below 2^64-1: false when b = 0 (the subtraction wraps) *)
Definition is_pred (a b : N) : bool := negb (b =? 0) && (a =? b - 1).

Record txn := {
  t_rb : bool;                (* Status.Phase = ROLLBACK *)
  t_values : vals;
  t_cc : st; t_ca : st; t_cord : N; t_ccfail : N; t_cafail : N;     (* Status.Change: Commit, Apply, Ordinal, failure types+1 (0 = none) *)
  t_rc : option st; t_ra : option st; t_rord : N; t_ridx : N; t_rvalues : vals; t_rafail : N   (* Status.Rollback *)
}.

Definition tx_set_change (t : txn) cc ca cord ccf caf : txn :=
  {| t_rb := t_rb t; t_values := t_values t; t_cc := cc; t_ca := ca; t_cord := cord; t_ccfail := ccf; t_cafail := caf;
     t_rc := t_rc t; t_ra := t_ra t; t_rord := t_rord t; t_ridx := t_ridx t; t_rvalues := t_rvalues t; t_rafail := t_rafail t |}.
Definition tx_set_rollback (t : txn) rc ra rord ridx rvals raf : txn :=
  {| t_rb := t_rb t; t_values := t_values t; t_cc := t_cc t; t_ca := t_ca t; t_cord := t_cord t; t_ccfail := t_ccfail t;
     t_cafail := t_cafail t; t_rc := rc; t_ra := ra; t_rord := rord; t_ridx := ridx; t_rvalues := rvals; t_rafail := raf |}.

(* Committed / Applied cursors *)
Record cursor := { k_index : N; k_ordinal : N; k_revision : N; k_target : N; k_change : N }.
Definition cur0 := {| k_index := 0; k_ordinal := 0; k_revision := 0; k_target := 0; k_change := 0 |}.

Record config := {
  c_state : N;                (* 0 UNKNOWN, 1 SYNCHRONIZING, 2 SYNCHRONIZED, 3 PERSISTED *)
  c_master : option N; c_mterm : N;
  c_cm : cursor; c_inline : vals;          (* Committed.*, Committed.Values as left inline in the entry *)
  c_ap : cursor; c_apterm : N              (* Applied.*, Applied.Term; Applied.Values live in the path map *)
}.
Definition cfg_with (c : config) state master mterm cm ap apterm : config :=
  {| c_state := state; c_master := master; c_mterm := mterm; c_cm := cm; c_inline := c_inline c; c_ap := ap; c_apterm := apterm |}.
Definition cfg_cm (c : config) cm := cfg_with c (c_state c) (c_master c) (c_mterm c) cm (c_ap c) (c_apterm c).
Definition cfg_ap (c : config) ap := cfg_with c (c_state c) (c_master c) (c_mterm c) (c_cm c) ap (c_apterm c).
Definition cur_with (k : cursor) index ordinal revision target change :=
  {| k_index := index; k_ordinal := ordinal; k_revision := revision; k_target := target; k_change := change |}.

(* ghost history of spec/Config.tla *)
Inductive phase := PhChange | PhRollback.
Inductive stage := StCommit | StApply.
Record event := { e_phase : phase; e_stage : stage; e_index : N; e_status : st }.
Definition ev p s i x := {| e_phase := p; e_stage := s; e_index := i; e_status := x |}.

Record world := {
  w_txs : list txn;                (* transaction i is the i-th element (1-based) *)
  w_cfg : option config;
  w_cmap : vals;                   (* Atomix map "configurations-<id>": committed path values, written by Create only *)
  w_pmap : vals;                   (* Atomix map "configurations-<id>-applied": applied path values *)
  w_target : option bool;          (* topo entity of the target: Some persistent *)
  w_rels : list (N * bool);        (* CONTROLS relations to the target: id, owned by this node *)
  w_conns : list N;                (* live connections (id = relation id) *)
  w_dev : list (path * N);         (* device leaves *)
  w_elect : N;                     (* highest election id the device accepted *)
  w_hist : list event;
  w_panicked : bool
}.

Definition w0 : world :=
  {| w_txs := []; w_cfg := None; w_cmap := []; w_pmap := []; w_target := None; w_rels := []; w_conns := []; w_dev := []; w_elect := 0;
     w_hist := []; w_panicked := false |}.

Definition get_tx (w : world) (i : N) : option txn :=
  if i =? 0 then None else nth_error (w_txs w) (N.to_nat (i - 1)).

Fixpoint set_nth {A} (n : nat) (x : A) (l : list A) : list A :=
  match l, n with
  | [], _ => []
  | _ :: r, O => x :: r
  | y :: r, S n' => y :: set_nth n' x r
  end.

(* configurationStore.Get / populate: committed values = the values left inline in the entry by UpdateStatus, overlaid
   with the committed path map (which only Create / Update write); applied values = the applied path map *)
Definition cview (w : world) (c : config) : vals := overlay (c_inline c) (w_cmap w).
Definition aview (w : world) : vals := w_pmap w.

(* ------------------------------------------------------------------ oracles, effects *)
Inductive verdict := VAccept | VReject | VNoPlugin.
Record oracle := {
  o_verdict : verdict;
  o_code : N;                 (* gRPC code the device answers with (0 = OK) unless its election check refuses *)
  o_last : option pval;       (* configurationStore.store hands &pv of the range variable to the Atomix transaction,
                                 which encodes at Commit: every Insert/Update of one call writes the LAST iterated
                                 value (Go < 1.22 loop variable).  Some l = that value; None = each its own (repaired) *)
  o_master : N;               (* relation picked by rand.Intn in the mastership reconciler *)
  o_alloc : bool              (* false: the code as it is - writing to a nil Committed.Values map panics;
                                 true: the map is allocated first (proposed repair fixes/C20-1.patch) *)
}.

Inductive eff :=
| EPutTx (i : N) (t : txn) (evs : list event)
| EPutCfg (c : config) (cvals : vals) (avals : option vals) (evs : list event)   (* UpdateStatus: Applied.Values -> path map, entry with inline Committed.Values *)
| EDev (elect : N) (req : list pval) (code : N)
| EPanic.

Inductive result := RDone | RRequeue (i : N) | RErr | RPanic.

(* ------------------------------------------------------------------ store and device *)
Definition store_write (last : option pval) (M a : vals) : vals :=
  let pruned := prune_keep_top (map snd a) in
  fold_left (fun M' kv =>
      let pv := snd kv in
      let key := pv_path pv in
      let inpr := existsb (fun q => path_eqb (pv_path q) key) pruned in
      let wv := match last with Some l => l | None => pv end in
      match vget key M with
      | None => if inpr then vset key wv M' else M'
      | Some e => if negb inpr then vdel key M'
                  else if negb (pv_idx pv =? pv_idx e) then vset key wv M' else M'
      end) a M.

(* gNMI Set on the device: deletes (node and descendants) first, then updates *)
Definition dev_apply (d : list (path * N)) (req : list pval) : list (path * N) :=
  let dels := map pv_path (filter pv_del req) in
  let d1 := filter (fun kv => negb (existsb (fun x => path_eqb (fst kv) x || is_below (fst kv) x) dels)) d in
  fold_left (fun d' pv => if pv_del pv then d'
                          else (filter (fun kv => negb (path_eqb (fst kv) (pv_path pv))) d') ++ [(pv_path pv, pv_val pv)]) req d1.

(* what the device answers: a lower election id is refused with PermissionDenied (7) *)
Definition dev_answer (w : world) (elect code : N) : N := if elect <? w_elect w then 7 else code.

(* errors.Status(errors.FromGRPC(status(code))).Code() *)
Definition code_roundtrip (c : N) : N :=
  if existsb (N.eqb c) [0; 1; 2; 3; 4; 5; 6; 7; 9; 12; 13; 14; 16] then c else 2.
(* the failure-type switch of applyChange / applyRollback, +1 (0 = no failure recorded) *)
Definition failure_of_code (c : N) : N :=
  1 + (if c =? 5 then 2 else if c =? 6 then 3 else if c =? 16 then 4 else if c =? 9 then 6 else if c =? 3 then 7
       else if c =? 12 then 9 else if c =? 13 then 11 else 0).

Definition apply_eff (o : oracle) (w : world) (e : eff) : world :=
  match e with
  | EPutTx i t evs =>
      {| w_txs := set_nth (N.to_nat (i - 1)) t (w_txs w); w_cfg := w_cfg w; w_cmap := w_cmap w; w_pmap := w_pmap w; w_target := w_target w;
         w_rels := w_rels w; w_conns := w_conns w; w_dev := w_dev w; w_elect := w_elect w;
         w_hist := w_hist w ++ evs; w_panicked := w_panicked w |}
  | EPutCfg c cvals avals evs =>
      {| w_txs := w_txs w;
         w_cfg := Some {| c_state := c_state c; c_master := c_master c; c_mterm := c_mterm c; c_cm := c_cm c;
                          c_inline := cvals; c_ap := c_ap c; c_apterm := c_apterm c |};
         w_cmap := w_cmap w;
         w_pmap := match avals with None => w_pmap w | Some a => store_write (o_last o) (w_pmap w) a end;
         w_target := w_target w; w_rels := w_rels w; w_conns := w_conns w; w_dev := w_dev w; w_elect := w_elect w;
         w_hist := w_hist w ++ evs; w_panicked := w_panicked w |}
  | EDev elect req code =>
      if code =? 0 then
        {| w_txs := w_txs w; w_cfg := w_cfg w; w_cmap := w_cmap w; w_pmap := w_pmap w; w_target := w_target w; w_rels := w_rels w;
           w_conns := w_conns w; w_dev := dev_apply (w_dev w) req; w_elect := N.max (w_elect w) elect;
           w_hist := w_hist w; w_panicked := w_panicked w |}
      else w
  | EPanic =>
      {| w_txs := w_txs w; w_cfg := w_cfg w; w_cmap := w_cmap w; w_pmap := w_pmap w; w_target := w_target w; w_rels := w_rels w;
         w_conns := w_conns w; w_dev := w_dev w; w_elect := w_elect w; w_hist := w_hist w; w_panicked := true |}
  end.

(* execute effects until k store writes are done (device requests that precede the next write are executed) *)
Fixpoint run_effs (o : oracle) (k : nat) (effs : list eff) (w : world) : world :=
  match effs with
  | [] => w
  | EPanic :: _ => apply_eff o w EPanic
  | (EDev _ _ _ as e) :: r => run_effs o k r (apply_eff o w e)
  | e :: r => match k with O => w | S k' => run_effs o k' r (apply_eff o w e) end
  end.

(* ------------------------------------------------------------------ transaction reconciler *)
Definition aview_opt (w : world) : option vals := match aview w with [] => None | a => Some a end.

(* a status write that leaves the values as they were read *)
Definition put_cfg (w : world) (c : config) (c' : config) (evs : list event) : eff :=
  EPutCfg c' (cview w c) (aview_opt w) evs.

(* applyChangeToConfig: first ancestor of p that is marked deleted in m *)
Fixpoint deleted_parent_from (fuel : nat) (m : vals) (q : path) : option (path * pval) :=
  match fuel with
  | O => None
  | S f => match q with
           | [] => None
           | _ => match vget q m with
                  | Some v => if pv_del v then Some (q, v) else deleted_parent_from f m (parent q)
                  | None => deleted_parent_from f m (parent q)
                  end
           end
  end.
Definition deleted_parent (m : vals) (p : path) : option (path * pval) := deleted_parent_from (length p) m (parent p).

(* Rollback.Values computed by commitChange PENDING *)
Definition rollback_values (cv : vals) (tv : vals) : vals :=
  snd (fold_left (fun (acc : vals * vals) kv =>
          let p := fst kv in
          let chg1 := vset p (snd kv) (fst acc) in
          let cr := match deleted_parent chg1 p with
                    | Some qv => (vdel (fst qv) chg1, vset (fst qv) (snd qv) (snd acc))
                    | None => (chg1, snd acc)
                    end in
          let rbv2 := match vget p cv with
                      | Some v => vset p v (snd cr)
                      | None => vset p {| pv_path := p; pv_val := 0; pv_del := true; pv_idx := 0 |} (snd cr)
                      end in
          (fst cr, rbv2)) tv (cv, [])).

Inductive gate := GGo | GWait | GPanic.

(* prevTransaction gate of commitChange PENDING (State <= IN_PROGRESS waits; an absent Rollback.Commit record is a nil dereference) *)
Definition gate_commit_change (w : world) (cm : cursor) : gate :=
  match get_tx w (k_index cm) with
  | None => GGo
  | Some p =>
      if k_target cm =? k_index cm then (if st_le_inprogress (t_cc p) then GWait else GGo)
      else if k_target cm <? k_index cm then
             match t_rc p with None => GPanic | Some s => if st_le_inprogress s then GWait else GGo end
      else GGo
  end.

(* prevTransaction gate of applyChange PENDING *)
Definition gate_apply_change (w : world) (ap : cursor) : gate :=
  match get_tx w (k_index ap) with
  | None => GGo
  | Some p =>
      if k_target ap =? k_index ap then (if st_le_inprogress (t_ca p) then GWait else GGo)
      else if k_target ap <? k_index ap then
             match t_ra p with None => GPanic | Some s => if st_le_inprogress s then GWait else GGo end
      else GGo
  end.

(* prevTransaction gate of applyRollback / change apply PENDING -> ABORTED (State < COMPLETE waits) *)
Definition gate_abort (w : world) (ap : cursor) : gate :=
  match get_tx w (k_index ap) with
  | None => GGo
  | Some p =>
      if k_target ap =? k_index ap then (if st_lt_complete (t_ca p) then GWait else GGo)
      else if k_target ap <? k_index ap then
             match t_ra p with None => GPanic | Some s => if st_lt_complete s then GWait else GGo end
      else GGo
  end.

(* prevTransaction gate of commitRollback PENDING *)
Definition gate_commit_rollback (w : world) (i : N) (cm : cursor) : gate :=
  match get_tx w (k_index cm) with
  | None => GGo
  | Some p =>
      if k_index cm =? i then (if st_eqb (t_cc p) Complete then GGo else GWait)
      else if i <? k_index cm then
             match t_rc p with None => GPanic | Some s => if st_eqb s Complete then GGo else GWait end
      else GGo
  end.

(* prevTransaction gate of applyRollback PENDING (rollback apply) *)
Definition gate_apply_rollback (w : world) (i : N) (ap : cursor) : gate :=
  match get_tx w (k_index ap) with
  | None => GGo
  | Some p =>
      if k_index ap =? i then (if st_lt_complete (t_ca p) then GWait else GGo)
      else if i <? k_index ap then
             match t_ra p with None => GPanic | Some s => if st_lt_complete s then GWait else GGo end
      else GGo
  end.

Definition set_cc (t : txn) (s : st) : txn := tx_set_change t s (t_ca t) (t_cord t) (t_ccfail t) (t_cafail t).
Definition set_ca (t : txn) (s : st) (f : N) : txn := tx_set_change t (t_cc t) s (t_cord t) (t_ccfail t) f.
Definition set_rc (t : txn) (s : st) (ord : N) : txn :=
  tx_set_rollback t (Some s) (t_ra t) ord (t_ridx t) (t_rvalues t) (t_rafail t).
Definition set_ra (t : txn) (s : st) (f : N) : txn :=
  tx_set_rollback t (t_rc t) (Some s) (t_rord t) (t_ridx t) (t_rvalues t) f.

Definition commit_change (o : oracle) (w : world) (i : N) (t : txn) (c : config) : option (list eff * result) :=
  let cm := c_cm c in
  let cv := cview w c in
  match t_cc t with
  | Pending =>
      if negb (is_pred (k_change cm) i) then None
      else
        let t' := tx_set_rollback (set_cc t InProgress) (t_rc t) (t_ra t) (t_rord t) (k_revision cm)
                    (rollback_values cv (t_values t)) (t_rafail t) in
        if negb (k_target cm =? i) then
          if negb (k_index cm =? k_target cm) then None
          else match gate_commit_change w cm with
               | GWait => None
               | GPanic => Some ([EPanic], RPanic)
               | GGo => let c1 := cfg_cm c (cur_with cm (k_index cm) (k_ordinal cm) (k_revision cm) i (k_change cm)) in
                        Some ([put_cfg w c c1 [ev PhChange StCommit i InProgress]; EPutTx i t' []], RDone)
               end
        else Some ([EPutTx i t' []], RDone)
  | InProgress =>
      if k_change cm =? i then
        Some ([EPutTx i (tx_set_change t Complete (t_ca t) (k_ordinal cm) (t_ccfail t) (t_cafail t)) []], RRequeue (i + 1))
      else
        match o_verdict o with
        | VNoPlugin | VReject =>
            let t' := tx_set_change t Failed Canceled (t_cord t) 8 (t_cafail t) in
            let c1 := cfg_cm c (cur_with cm i (k_ordinal cm) (k_revision cm) (k_target cm) i) in
            Some ([EPutTx i t' [ev PhChange StCommit i Failed]; put_cfg w c c1 []], RDone)
        | VAccept =>
            match (if o_alloc o then [] else [tt]), cv, t_values t with
            | _ :: _, [], _ :: _ => (* configuration.Committed.Values is a nil map: assignment to entry in nil map *)
                Some ([EPanic], RPanic)
            | _, _, _ =>
                let c1 := cfg_cm c (cur_with cm i (k_ordinal cm + 1) i (k_target cm) i) in
                let t' := tx_set_change t Complete (t_ca t) (k_ordinal cm + 1) (t_ccfail t) (t_cafail t) in
                Some ([EPutCfg c1 (overlay cv (t_values t)) (aview_opt w) [ev PhChange StCommit i Complete]; EPutTx i t' []],
                      RRequeue (i + 1))
            end
        end
  | Failed =>
      if k_change cm <? i then
        Some ([put_cfg w c (cfg_cm c (cur_with cm i (k_ordinal cm) (k_revision cm) (k_target cm) i)) []], RDone)
      else None
  | _ => None
  end.

(* addDeleteChildren(index, changeValues, configStore) *)
Definition add_delete_children (index : N) (chg store : vals) : vals :=
  fold_left (fun upd kv =>
      let cvl := snd kv in
      if pv_del cvl then
        let upd1 := fold_left (fun u sv =>
                        let v := snd sv in
                        if is_below (pv_path v) (pv_path cvl)
                        then vset (pv_path v) {| pv_path := pv_path v; pv_val := pv_val v; pv_del := true; pv_idx := index |} u
                        else u) store upd in
        vset (pv_path cvl) cvl upd1
      else vset (pv_path cvl) cvl upd) chg [].

(* applyValues: is the request sent at all?  (ValidateCapabilities = false) *)
Definition sendable (w : world) (c : config) : bool :=
  negb (c_state c =? 1) &&
  match w_target w with None => false | Some _ => true end &&
  negb (c_apterm c <? c_mterm c) &&
  match c_master c with
  | None => false
  | Some m => existsb (fun r => (fst r =? m) && snd r) (w_rels w) && existsb (N.eqb m) (w_conns w)
  end.

Inductive sent := NotSent | Transient | Denied | Refused (ftype : N) | Accepted.
Definition classify (code : N) : sent :=
  let c := code_roundtrip code in
  if c =? 0 then Accepted
  else if (c =? 14) || (c =? 1) || (c =? 4) then Transient
  else if c =? 7 then Denied
  else Refused (failure_of_code c).

Definition apply_change (o : oracle) (w : world) (i : N) (t : txn) (c : config) : option (list eff * result) :=
  let ap := c_ap c in
  let cv := cview w c in
  if negb (st_eqb (t_cc t) Complete) then None else
  match t_ca t with
  | Pending =>
      if negb (is_pred (k_ordinal ap) (t_cord t)) then None
      else if k_target ap =? i then Some ([EPutTx i (set_ca t InProgress (t_cafail t)) []], RDone)
      else match gate_apply_change w ap with
           | GWait => None
           | GPanic => Some ([EPanic], RPanic)
           | GGo =>
               if k_revision ap <? t_ridx t then
                 Some ([EPutTx i (set_ca t Aborted (t_cafail t)) [ev PhChange StApply i Aborted];
                        put_cfg w c (cfg_ap c (cur_with ap i (t_cord t) (k_revision ap) i (k_change ap))) []], RDone)
               else
                 Some ([put_cfg w c (cfg_ap c (cur_with ap (k_index ap) (k_ordinal ap) (k_revision ap) i (k_change ap)))
                          [ev PhChange StApply i InProgress];
                        EPutTx i (set_ca t InProgress (t_cafail t)) []], RDone)
           end
  | InProgress =>
      if (k_ordinal ap =? t_cord t) && (k_revision ap =? i) then
        Some ([EPutTx i (set_ca t Complete (t_cafail t)) []], RRequeue (i + 1))
      else
        let values := add_delete_children i (t_values t) cv in
        if negb (sendable w c) then None else
        let req := prune_keep_top (map snd values) in
        let code := dev_answer w (c_apterm c) (o_code o) in
        let dev := EDev (c_apterm c) req code in
        match classify code with
        | NotSent => None
        | Transient => Some ([dev], RErr)
        | Denied => Some ([dev], RDone)
        | Refused f =>
            Some ([dev; EPutTx i (set_ca t Failed f) [ev PhChange StApply i Failed];
                   put_cfg w c (cfg_ap c (cur_with ap i (t_cord t) (k_revision ap) (k_target ap) (k_change ap))) []], RDone)
        | Accepted =>
            Some ([dev;
                   EPutCfg (cfg_ap c (cur_with ap i (t_cord t) i (k_target ap) (k_change ap))) cv
                           (Some (overlay (aview w) values)) [ev PhChange StApply i Complete];
                   EPutTx i (set_ca t Complete (t_cafail t)) []], RRequeue (i + 1))
        end
  | Aborted | Failed =>
      if k_ordinal ap <? t_cord t then
        Some ([put_cfg w c (cfg_ap c (cur_with ap i (t_cord t) (k_revision ap) i (k_change ap))) []], RDone)
      else None
  | _ => None
  end.

Definition commit_rollback (o : oracle) (w : world) (i : N) (t : txn) (c : config) : option (list eff * result) :=
  let cm := c_cm c in
  let cv := cview w c in
  match t_rc t with
  | None => None
  | Some Pending =>
      if negb (k_revision cm =? i) then None
      else
        let goip := Some ([EPutTx i (set_rc t InProgress (t_rord t)) []], RDone) in
        if k_target cm =? i then
          if negb (k_index cm =? k_target cm) then None
          else match gate_commit_rollback w i cm with
               | GWait => None
               | GPanic => Some ([EPanic], RPanic)
               | GGo =>
                   (* a refused configuration write is swallowed here (return without error): same persisted outcome *)
                   Some ([put_cfg w c (cfg_cm c (cur_with cm (k_index cm) (k_ordinal cm) (k_revision cm) (t_ridx t) (k_change cm)))
                            [ev PhRollback StCommit i InProgress];
                          EPutTx i (set_rc t InProgress (t_rord t)) []], RDone)
               end
        else if k_target cm =? t_ridx t then goip
        else None
  | Some InProgress =>
      if k_revision cm =? i then
        match (if o_alloc o then [] else [tt]), cv, t_rvalues t with
        | _ :: _, [], _ :: _ => Some ([EPanic], RPanic)
        | _, _, _ =>
            Some ([EPutCfg (cfg_cm c (cur_with cm i (k_ordinal cm + 1) (t_ridx t) (k_target cm) (k_change cm)))
                           (overlay cv (t_rvalues t)) (aview_opt w) [ev PhRollback StCommit i Complete];
                   EPutTx i (set_rc t Complete (k_ordinal cm + 1)) []], RDone)
        end
      else Some ([EPutTx i (set_rc t Complete (k_ordinal cm)) []], RDone)
  | Some _ => None
  end.

Definition apply_rollback (o : oracle) (w : world) (i : N) (t : txn) (c : config) : option (list eff * result) :=
  let ap := c_ap c in
  let cv := cview w c in
  match t_rc t, t_ra t with
  | Some Complete, Some Pending =>
      let bump := put_cfg w c (cfg_ap c (cur_with ap i (t_cord t) (k_revision ap) i (k_change ap))) [] in
      let rest :=
        if negb (is_pred (k_ordinal ap) (t_rord t)) then None
        else if k_target ap =? t_ridx t then Some ([EPutTx i (set_ra t InProgress (t_rafail t)) []], RDone)
        else match gate_apply_rollback w i ap with
             | GWait => None
             | GPanic => Some ([EPanic], RPanic)
             | GGo =>
                 Some ([put_cfg w c (cfg_ap c (cur_with ap (k_index ap) (k_ordinal ap) (k_revision ap) (t_ridx t) (k_change ap)))
                          [ev PhRollback StApply i InProgress];
                        EPutTx i (set_ra t InProgress (t_rafail t)) []], RDone)
             end in
      match t_ca t with
      | Pending =>
          if is_pred (k_ordinal ap) (t_cord t) && negb (k_target ap =? i) then
            match gate_abort w ap with
            | GWait => None
            | GPanic => Some ([EPanic], RPanic)
            | GGo => Some ([EPutTx i (set_ca t Aborted (t_cafail t)) [ev PhChange StApply i Aborted]; bump], RDone)
            end
          else None
      | InProgress =>
          if negb (k_ordinal ap =? t_cord t) then
            Some ([EPutTx i (set_ca t Failed 2) [ev PhChange StApply i Failed]; bump], RDone)
          else None
      | Aborted | Failed =>
          if k_ordinal ap <? t_cord t then Some ([bump], RDone) else rest
      | _ => rest
      end
  | Some Complete, Some InProgress =>
      if (k_ordinal ap =? t_rord t) && (k_revision ap =? t_ridx t) then
        Some ([EPutTx i (set_ra t Complete (t_rafail t)) []], RRequeue (i + 1))
      else
        let values := add_delete_children i (t_rvalues t) cv in
        if negb (sendable w c) then None else
        let req := prune_keep_top (map snd values) in
        let code := dev_answer w (c_apterm c) (o_code o) in
        let dev := EDev (c_apterm c) req code in
        match classify code with
        | NotSent => None
        | Transient => Some ([dev], RErr)
        | Denied => Some ([dev], RDone)
        | Refused f =>
            Some ([dev;
                   put_cfg w c (cfg_ap c (cur_with ap i (t_rord t) (k_revision ap) (k_target ap) (k_change ap))) [];
                   EPutTx i (set_ra t Failed f) [ev PhRollback StApply i Failed]], RDone)
        | Accepted =>
            Some ([dev;
                   EPutCfg (cfg_ap c (cur_with ap i (t_rord t) (t_ridx t) (k_target ap) (k_change ap))) cv
                           (Some (overlay (aview w) values)) [ev PhRollback StApply i Complete];
                   EPutTx i (set_ra t Complete (t_rafail t)) []], RRequeue (i + 1))
        end
  | _, _ => None
  end.

Definition orelse {A} (a : option A) (b : option A) : option A := match a with Some x => Some x | None => b end.

(* Reconciler.Reconcile for transaction (target, i) *)
Definition rec_tx (o : oracle) (w : world) (i : N) : list eff * result :=
  match get_tx w i, w_cfg w with
  | Some t, Some c =>
      let r := if t_rb t then orelse (commit_rollback o w i t c) (apply_rollback o w i t c)
               else orelse (commit_change o w i t c) (apply_change o w i t c) in
      match r with Some x => x | None => ([], RDone) end
  | _, _ => ([], RDone)
  end.

(* ------------------------------------------------------------------ configuration reconciler *)
(* the synchronisation pushes Applied.Values grouped by transaction index, one Set per group (Go map order: here
   ascending index); the first refused request ends the call *)
Definition group_indexes (a : vals) : list N :=
  fold_left (fun acc kv => if existsb (N.eqb (pv_idx (snd kv))) acc then acc else acc ++ [pv_idx (snd kv)]) a [].

Definition rec_cfg (o : oracle) (w : world) : list eff * result :=
  match w_cfg w with
  | None => ([], RDone)
  | Some c =>
      match w_target w with
      | None => ([], RDone)
      | Some persistent =>
          let wr c' := put_cfg w c c' [] in
          if persistent then
            (if c_state c =? 3 then ([], RDone)
             else ([wr (cfg_with c 3 (c_master c) (c_mterm c) (c_cm c) (c_ap c) (c_apterm c))], RDone))
          else if negb (c_state c =? 1) then
            (if c_apterm c <? c_mterm c
             then ([wr (cfg_with c 1 (c_master c) (c_mterm c) (c_cm c) (c_ap c) (c_apterm c))], RDone)
             else ([], RDone))
          else match c_master c with
               | None => ([], RDone)
               | Some m =>
                   let done := wr (cfg_with c 2 (c_master c) (c_mterm c) (c_cm c) (c_ap c) (c_mterm c)) in
                   if k_index (c_ap c) =? 0 then ([done], RDone)
                   else if negb (existsb (fun r => (fst r =? m) && snd r) (w_rels w) && existsb (N.eqb m) (w_conns w))
                   then ([], RDone)
                   else
                     let groups := map (fun ix => map snd (filter (fun kv => pv_idx (snd kv) =? ix) (aview w)))
                                       (group_indexes (aview w)) in
                     let code := dev_answer w (c_mterm c) (o_code o) in
                     match groups with
                     | [] => ([done], RDone)
                     | g :: _ =>
                         if code =? 0
                         then (map (fun g' => EDev (c_mterm c) g' 0) groups ++ [done], RDone)
                         else ([EDev (c_mterm c) g code], if code_roundtrip code =? 7 then RDone else RErr)
                     end
               end
      end
  end.

(* ------------------------------------------------------------------ mastership reconciler *)
Definition rec_master (o : oracle) (w : world) : list eff * result :=
  match w_cfg w with
  | None => ([], RDone)
  | Some c =>
      let own := map fst (filter snd (w_rels w)) in
      let wr c' := put_cfg w c c' [] in
      let has := match c_master c with Some m => existsb (N.eqb m) own | None => false end in
      if has then ([], RDone)
      else match own with
           | [] => match c_master c with
                   | None => ([], RDone)
                   | Some _ => ([wr (cfg_with c (c_state c) None (c_mterm c) (c_cm c) (c_ap c) (c_apterm c))], RDone)
                   end
           | _ => if existsb (N.eqb (o_master o)) own
                  then ([wr (cfg_with c (c_state c) (Some (o_master o)) (c_mterm c + 1) (c_cm c) (c_ap c) (c_apterm c))], RDone)
                  else ([], RDone)   (* oracle names no candidate: stutter *)
           end
  end.

(* ------------------------------------------------------------------ labels and steps *)
Inductive label :=
| LCreateCfg (init : vals)                 (* configuration created with initial committed values (index 0) *)
| LAppend (vs : vals)                      (* AppendChange *)
| LRollback (i : N)                        (* RollbackChange (phase := ROLLBACK, rollback phases PENDING) *)
| LRecTx (i : N) (k : nat) (o : oracle)
| LRecCfg (k : nat) (o : oracle)
| LRecMaster (k : nat) (o : oracle)
| LTarget (present persistent : bool)
| LRel (id : N) (up own : bool)
| LConn (id : N) (up : bool)
| LDevRestart.

Definition o0 : oracle := {| o_verdict := VAccept; o_code := 0; o_last := None; o_master := 0; o_alloc := false |}.

Definition new_txn (vs : vals) : txn :=
  {| t_rb := false; t_values := vs; t_cc := Pending; t_ca := Pending; t_cord := 0; t_ccfail := 0; t_cafail := 0;
     t_rc := None; t_ra := None; t_rord := 0; t_ridx := 0; t_rvalues := []; t_rafail := 0 |}.

Definition cfg_new : config :=
  {| c_state := 0; c_master := None; c_mterm := 0; c_cm := cur0; c_inline := []; c_ap := cur0; c_apterm := 0 |}.

Definition upd (w : world) txs cfg pmap target rels conns dev elect : world :=
  {| w_txs := txs; w_cfg := cfg; w_cmap := w_cmap w; w_pmap := pmap; w_target := target; w_rels := rels; w_conns := conns; w_dev := dev;
     w_elect := elect; w_hist := w_hist w; w_panicked := w_panicked w |}.

Definition step (w : world) (l : label) : world :=
  if w_panicked w then w else
  match l with
  | LCreateCfg init =>
      match w_cfg w with
      | Some _ => w
      | None => (* Create stores Committed.Values in the committed path map and clears the inline field *)
          {| w_txs := w_txs w; w_cfg := Some cfg_new;
             w_cmap := match init with [] => w_cmap w | _ => store_write None (w_cmap w) init end;
             w_pmap := w_pmap w; w_target := w_target w; w_rels := w_rels w; w_conns := w_conns w; w_dev := w_dev w;
             w_elect := w_elect w; w_hist := w_hist w; w_panicked := w_panicked w |}
      end
  | LAppend vs => upd w (w_txs w ++ [new_txn vs]) (w_cfg w) (w_pmap w) (w_target w) (w_rels w) (w_conns w) (w_dev w) (w_elect w)
  | LRollback i =>
      match get_tx w i with
      | None => w
      | Some t =>
          let t' := {| t_rb := true; t_values := t_values t; t_cc := t_cc t; t_ca := t_ca t; t_cord := t_cord t;
                       t_ccfail := t_ccfail t; t_cafail := t_cafail t; t_rc := Some Pending; t_ra := Some Pending;
                       t_rord := t_rord t; t_ridx := t_ridx t; t_rvalues := t_rvalues t; t_rafail := 0 |} in
          upd w (set_nth (N.to_nat (i - 1)) t' (w_txs w)) (w_cfg w) (w_pmap w) (w_target w) (w_rels w) (w_conns w) (w_dev w) (w_elect w)
      end
  | LRecTx i k o => run_effs o k (fst (rec_tx o w i)) w
  | LRecCfg k o => run_effs o k (fst (rec_cfg o w)) w
  | LRecMaster k o => run_effs o k (fst (rec_master o w)) w
  | LTarget present persistent =>
      upd w (w_txs w) (w_cfg w) (w_pmap w) (if present then Some persistent else None) (w_rels w) (w_conns w) (w_dev w) (w_elect w)
  | LRel id up own =>
      let others := filter (fun r => negb (fst r =? id)) (w_rels w) in
      upd w (w_txs w) (w_cfg w) (w_pmap w) (w_target w) (if up then others ++ [(id, own)] else others) (w_conns w) (w_dev w) (w_elect w)
  | LConn id up =>
      let others := filter (fun x => negb (x =? id)) (w_conns w) in
      upd w (w_txs w) (w_cfg w) (w_pmap w) (w_target w) (w_rels w) (if up then others ++ [id] else others) (w_dev w) (w_elect w)
  | LDevRestart => (* the device loses its state; its connections and the relations built on them go away *)
      upd w (w_txs w) (w_cfg w) (w_pmap w) (w_target w) [] [] [] 0
  end.

Definition run (ls : list label) : world := fold_left step ls w0.

(* the result class of a reconcile call (what the caller of Reconcile sees) *)
Definition rec_result (w : world) (l : label) : result :=
  match l with
  | LRecTx i k o => snd (rec_tx o w i)
  | LRecCfg k o => snd (rec_cfg o w)
  | LRecMaster k o => snd (rec_master o w)
  | _ => RDone
  end.

(* Small-step model of Watch in the stores with a shared event loop
   (v2 transaction / configuration, v3 transaction / configuration store.go: open(), Watch()):

     store --Atomix event stream (FIFO, unbounded)--> event loop --eventCh (unbuffered)--> watcher goroutine
                                                                              --ch (unbuffered)--> consumer

   event loop:  take the next event, snapshot the listeners (all-records listeners + the listeners of the
                event's record), then send to each of them IN TURN (blocking on each one).
   Watch():     register the listener under the lock (synchronously, before Watch returns); the goroutine then
                takes the replay snapshot (Get / List), forwards it event by event - testing ctx.Err() before
                each - and enters `select { event := <-eventCh: ch <- event ; <-ctx.Done(): close(ch); drain }`.
                A cancelled context seen DURING the replay ends the goroutine with close(ch) and NO drainer
                (finding F-10); [fixed = true] models the repaired code, which starts the drainer there too.
   consumer:    always willing to receive (a send on ch = a delivery).

   The proposal store has no event loop: every Watch owns an Atomix stream opened before the replay
   snapshot; that is this model with the loop serving one listener.

   [swapped = true] is the hypothetical wrong order (replay snapshot BEFORE the listener is registered),
   kept only for the counterexample. *)
From Coq Require Import List NArith Bool.
Import ListNotations.
Open Scope N_scope.

Record ev := { ev_key : N; ev_ver : N }.

Inductive wphase :=
| WReg                      (* registered; replay snapshot not yet taken *)
| WReplay (pending : list ev)
| WMain                     (* in the select *)
| WHold (e : ev)            (* took e from eventCh, sending it on ch *)
| WDrained                  (* ch closed, a drainer swallows eventCh for ever *)
| WStuck                    (* ch closed, goroutine gone, nobody reads eventCh *)
| WUnreg (replay : bool).   (* swapped order only: goroutine started, listener not yet registered *)

Record watcher := {
  w_id : N;
  w_filter : option N;      (* Some k = WithXxxID(k) *)
  w_replay : bool;
  w_phase : wphase;
  w_cancelled : bool;       (* ctx cancelled *)
  w_registered : bool;      (* present in the listener maps *)
  w_delivered : list ev;    (* what the consumer has received, oldest first *)
  w_since : list N          (* ghost: records written since Watch returned *)
}.

Inductive loopst := LIdle | LSend (e : ev) (targets : list N).

Record world := {
  g_store : list (N * N);   (* record -> current version *)
  g_clock : N;
  g_queue : list ev;        (* Atomix event stream towards the event loop *)
  g_loop : loopst;
  g_ws : list watcher
}.

Definition w0 : world := {| g_store := []; g_clock := 0; g_queue := []; g_loop := LIdle; g_ws := [] |}.

Inductive label :=
| SWrite (k : N)                                   (* an accepted create / update / update-status *)
| SOpen (id : N) (filter : option N) (replay : bool)
| SSnap (id : N)                                   (* the replay Get / List *)
| SReplay (id : N)                                 (* next replayed event (or end of replay) *)
| STake                                            (* loop: next event + listener snapshot *)
| SSend                                            (* loop: hand the event to the head listener *)
| SFwd (id : N)                                    (* watcher: ch <- event *)
| SCancel (id : N)                                 (* ctx cancel *)
| SClose (id : N)                                  (* watcher: <-ctx.Done() branch *)
| SRegister (id : N).                              (* swapped order only *)

Fixpoint lookup (k : N) (s : list (N * N)) : option N :=
  match s with [] => None | (a, v) :: r => if N.eqb a k then Some v else lookup k r end.

Fixpoint set_store (k v : N) (s : list (N * N)) : list (N * N) :=
  match s with
  | [] => [(k, v)]
  | (a, x) :: r => if N.eqb a k then (a, v) :: r else (a, x) :: set_store k v r
  end.

Definition matches (f : option N) (k : N) : bool :=
  match f with None => true | Some x => N.eqb x k end.

Fixpoint find_w (id : N) (ws : list watcher) : option watcher :=
  match ws with [] => None | w :: r => if N.eqb (w_id w) id then Some w else find_w id r end.

Fixpoint upd_w (id : N) (f : watcher -> watcher) (ws : list watcher) : list watcher :=
  match ws with [] => [] | w :: r => if N.eqb (w_id w) id then f w :: r else w :: upd_w id f r end.

Definition set_phase (p : wphase) (w : watcher) : watcher :=
  {| w_id := w_id w; w_filter := w_filter w; w_replay := w_replay w; w_phase := p; w_cancelled := w_cancelled w;
     w_registered := w_registered w; w_delivered := w_delivered w; w_since := w_since w |}.
Definition deliver (e : ev) (p : wphase) (w : watcher) : watcher :=
  {| w_id := w_id w; w_filter := w_filter w; w_replay := w_replay w; w_phase := p; w_cancelled := w_cancelled w;
     w_registered := w_registered w; w_delivered := w_delivered w ++ [e]; w_since := w_since w |}.
Definition set_cancelled (w : watcher) : watcher :=
  {| w_id := w_id w; w_filter := w_filter w; w_replay := w_replay w; w_phase := w_phase w; w_cancelled := true;
     w_registered := w_registered w; w_delivered := w_delivered w; w_since := w_since w |}.
(* the goroutine ends: close(ch), deferred removal from the listener maps *)
Definition finish (p : wphase) (w : watcher) : watcher :=
  {| w_id := w_id w; w_filter := w_filter w; w_replay := w_replay w; w_phase := p; w_cancelled := w_cancelled w;
     w_registered := false; w_delivered := w_delivered w; w_since := w_since w |}.
Definition register (p : wphase) (w : watcher) : watcher :=
  {| w_id := w_id w; w_filter := w_filter w; w_replay := w_replay w; w_phase := p; w_cancelled := w_cancelled w;
     w_registered := true; w_delivered := w_delivered w; w_since := w_since w |}.
Definition note_write (k : N) (w : watcher) : watcher :=
  {| w_id := w_id w; w_filter := w_filter w; w_replay := w_replay w; w_phase := w_phase w; w_cancelled := w_cancelled w;
     w_registered := w_registered w; w_delivered := w_delivered w; w_since := k :: w_since w |}.

Definition with_ws (g : world) (ws : list watcher) : world :=
  {| g_store := g_store g; g_clock := g_clock g; g_queue := g_queue g; g_loop := g_loop g; g_ws := ws |}.
Definition with_loop (g : world) (q : list ev) (l : loopst) (ws : list watcher) : world :=
  {| g_store := g_store g; g_clock := g_clock g; g_queue := q; g_loop := l; g_ws := ws |}.

Definition snapshot (f : option N) (s : list (N * N)) : list ev :=
  map (fun kv => {| ev_key := fst kv; ev_ver := snd kv |}) (filter (fun kv => matches f (fst kv)) s).

Definition listeners (k : N) (ws : list watcher) : list N :=
  map w_id (filter (fun w => w_registered w && matches (w_filter w) k) ws).

Definition after_targets (e : ev) (rest : list N) : loopst :=
  match rest with [] => LIdle | _ => LSend e rest end.

Section Flags.
Context (fixed : bool) (swapped : bool).

Definition cancelled_in_replay : wphase := if fixed then WDrained else WStuck.

(* a label that is not enabled leaves the world unchanged *)
Definition wstep (g : world) (l : label) : world :=
  match l with
  | SWrite k =>
    let v := g_clock g + 1 in
    {| g_store := set_store k v (g_store g); g_clock := v; g_queue := g_queue g ++ [{| ev_key := k; ev_ver := v |}];
       g_loop := g_loop g; g_ws := map (note_write k) (g_ws g) |}
  | SOpen id f rp =>
    match find_w id (g_ws g) with
    | Some _ => g
    | None =>
      let w := {| w_id := id; w_filter := f; w_replay := rp;
                  w_phase := if swapped then WUnreg rp else if rp then WReg else WMain;
                  w_cancelled := false; w_registered := negb swapped; w_delivered := []; w_since := [] |} in
      with_ws g (g_ws g ++ [w])
    end
  | SSnap id =>
    match find_w id (g_ws g) with
    | Some w =>
      match w_phase w with
      | WReg =>
        if w_cancelled w then
          (* Get with a dead context fails and falls through to the select; List fails: close(ch), return *)
          match w_filter w with
          | Some _ => with_ws g (upd_w id (set_phase WMain) (g_ws g))
          | None => with_ws g (upd_w id (finish cancelled_in_replay) (g_ws g))
          end
        else with_ws g (upd_w id (set_phase (WReplay (snapshot (w_filter w) (g_store g)))) (g_ws g))
      | WUnreg true =>
        with_ws g (upd_w id (set_phase (WReplay (snapshot (w_filter w) (g_store g)))) (g_ws g))
      | _ => g
      end
    | None => g
    end
  | SReplay id =>
    match find_w id (g_ws g) with
    | Some w =>
      match w_phase w with
      | WReplay [] => if w_registered w then with_ws g (upd_w id (set_phase WMain) (g_ws g)) else g
      | WReplay (e :: r) =>
        if w_cancelled w then with_ws g (upd_w id (finish cancelled_in_replay) (g_ws g))
        else with_ws g (upd_w id (deliver e (WReplay r)) (g_ws g))
      | _ => g
      end
    | None => g
    end
  | SRegister id =>
    match find_w id (g_ws g) with
    | Some w =>
      match w_phase w with
      | WUnreg false => with_ws g (upd_w id (register WMain) (g_ws g))
      | WReplay r => if w_registered w then g else with_ws g (upd_w id (register (WReplay r)) (g_ws g))
      | _ => g
      end
    | None => g
    end
  | STake =>
    match g_loop g, g_queue g with
    | LIdle, e :: q => with_loop g q (after_targets e (listeners (ev_key e) (g_ws g))) (g_ws g)
    | _, _ => g
    end
  | SSend =>
    match g_loop g with
    | LSend e (id :: rest) =>
      match find_w id (g_ws g) with
      | Some w =>
        match w_phase w with
        | WMain => with_loop g (g_queue g) (after_targets e rest) (upd_w id (set_phase (WHold e)) (g_ws g))
        | WDrained => with_loop g (g_queue g) (after_targets e rest) (g_ws g)
        | _ => g                                   (* the loop stays blocked on this listener *)
        end
      | None => g
      end
    | _ => g
    end
  | SFwd id =>
    match find_w id (g_ws g) with
    | Some w =>
      match w_phase w with
      | WHold e => with_ws g (upd_w id (deliver e WMain) (g_ws g))
      | _ => g
      end
    | None => g
    end
  | SCancel id => with_ws g (upd_w id set_cancelled (g_ws g))
  | SClose id =>
    match find_w id (g_ws g) with
    | Some w =>
      match w_phase w with
      | WMain => if w_cancelled w then with_ws g (upd_w id (finish WDrained) (g_ws g)) else g
      | _ => g
      end
    | None => g
    end
  end.

Definition wrun (g : world) (ls : list label) : world := fold_left wstep ls g.

End Flags.

(* last version shown for a record *)
Fixpoint last_for (k : N) (l : list ev) : option N :=
  match l with
  | [] => None
  | e :: r => match last_for k r with Some v => Some v | None => if N.eqb (ev_key e) k then Some (ev_ver e) else None end
  end.

Definition idle_phase (p : wphase) : bool := match p with WMain => true | _ => false end.

Definition quiescent (g : world) : bool :=
  match g_queue g, g_loop g with
  | [], LIdle => forallb (fun w => w_cancelled w || idle_phase (w_phase w)) (g_ws g)
  | _, _ => false
  end.

(* the property on one watcher at quiescence: every record it is entitled to (all matching records with
   replay; the matching records written since it subscribed without) was last shown at its current version *)
Definition entitled (w : watcher) (g : world) (k : N) : bool :=
  matches (w_filter w) k &&
  (w_replay w || existsb (N.eqb k) (w_since w)) &&
  match lookup k (g_store g) with Some _ => true | None => false end.

Definition shown_latest (w : watcher) (g : world) : bool :=
  forallb (fun kv => negb (entitled w g (fst kv)) ||
                     match last_for (fst kv) (w_delivered w) with Some v => N.eqb v (snd kv) | None => false end)
          (g_store g).

Definition watch_ok (g : world) : bool :=
  negb (quiescent g) || forallb (fun w => w_cancelled w || shown_latest w g) (g_ws g).

(* deterministic scheduler used by the driver: run the internal steps round-robin until nothing moves *)
Definition internal_labels (g : world) : list label :=
  STake :: SSend :: flat_map (fun w => [SSnap (w_id w); SReplay (w_id w); SFwd (w_id w); SClose (w_id w)]) (g_ws g).

Fixpoint settle (fixed : bool) (fuel : nat) (g : world) : world :=
  match fuel with
  | O => g
  | S n => settle fixed n (wrun fixed false g (internal_labels g))
  end.

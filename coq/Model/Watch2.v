(* Event delivery of transaction.Store.Watch(ctx, ch, WithReplay(), WithTransactionID(id))
   (pkg/store/v2/transaction/store.go), as seen by ONE watcher.  No proofs here.

   What the code does:
     Watch   - under the store mutex, registers a fresh channel in idWatchers[id]   (registration)
             - starts a goroutine which
                 * reads the entry with transactions.Get(id) and, if found, sends it as a
                   REPLAYED event                                                    (replay snapshot)
                 * then forwards everything the store's event loop puts into the registered channel.
     open()  - ONE event loop per store: takes the next indexed-map event, builds the
               TransactionEvent, collects the channels registered for "all" and for that
               transaction id AT THAT MOMENT, and sends the event to each of them (blocking sends,
               so nothing is dropped and the order of the log is kept).

   The log of the store is the sequence of successful writes (Create / Update / UpdateStatus), each of
   which becomes exactly one indexed-map event.  Two positions of that log determine what a watcher sees:
     j = number of log entries the event loop had already dispatched when the watcher's channel was
         registered (those are never sent to it);
     k = number of log entries applied when the replay Get was served.
   The event loop only dispatches entries that exist and the Get comes after the registration, hence
   j <= k.  k = 0 (or an id the first k entries do not mention) means the Get found nothing: no replay
   event.  Events j+1 .. k are delivered AFTER the replayed snapshot although they are older than it. *)
From Coq Require Import List Arith Bool.
Import ListNotations.

Section PerTransaction.
  Context {A : Type}.

  (* h: the successive records of one transaction, h[0] = the record as created.
     j, k count entries of h (see above). *)
  Definition delivered (h : list A) (j k : nat) : list A :=
    match k with
    | O => skipn j h
    | S k' =>
      match nth_error h k' with
      | Some x => x :: skipn j h
      | None => skipn j h
      end
    end.

  (* a placement the code can produce for a watch opened after a successful Create *)
  Definition placement_ok (h : list A) (j k : nat) : bool :=
    (1 <=? k) && (k <=? length h) && (j <=? k).
End PerTransaction.

Section WholeLog.
  (* the log of the whole store: (transaction id, record) per write; the id filter of the event loop
     (idWatchers[transactionEvent.Transaction.ID]) and of the replay (Get by id) *)
  Context {I A : Type} (id_eqb : I -> I -> bool).

  Definition mine (tid : I) (e : I * A) : bool := id_eqb (fst e) tid.

  Definition project (tid : I) (log : list (I * A)) : list A :=
    map snd (filter (mine tid) log).

  Definition last_opt {X} (l : list X) : option X :=
    match rev l with [] => None | x :: _ => Some x end.

  Definition log_delivered (log : list (I * A)) (tid : I) (j k : nat) : list A :=
    let live := project tid (skipn j log) in
    match last_opt (project tid (firstn k log)) with
    | Some x => x :: live
    | None => live
    end.
End WholeLog.

Section Registry.
  (* idWatchers : map[TransactionID]map[uuid]chan of the store: which watchers the event loop sends an
     event of transaction t to.  register = the locked block at the top of Watch, unregister = its deferred
     clean-up (remove the watcher; drop the inner map only when it became empty). *)
  Context {I W : Type} (id_eqb : I -> I -> bool) (w_eqb : W -> W -> bool).

  Definition registry := list (I * list W).

  Fixpoint reg_get (r : registry) (t : I) : option (list W) :=
    match r with
    | [] => None
    | (k, ws) :: r' => if id_eqb k t then Some ws else reg_get r' t
    end.

  Fixpoint reg_set (r : registry) (t : I) (ws : list W) : registry :=
    match r with
    | [] => [(t, ws)]
    | (k, v) :: r' => if id_eqb k t then (k, ws) :: r' else (k, v) :: reg_set r' t ws
    end.

  Fixpoint reg_del (r : registry) (t : I) : registry :=
    match r with
    | [] => []
    | (k, v) :: r' => if id_eqb k t then reg_del r' t else (k, v) :: reg_del r' t
    end.

  Definition watchers_of (r : registry) (t : I) : list W :=
    match reg_get r t with Some ws => ws | None => [] end.

  Definition register (r : registry) (t : I) (w : W) : registry :=
    reg_set r t (w :: watchers_of r t).

  Definition remove_watcher (w : W) (ws : list W) : list W :=
    filter (fun x => negb (w_eqb x w)) ws.

  Definition unregister (r : registry) (t : I) (w : W) : registry :=
    match reg_get r t with
    | None => r
    | Some ws =>
      match remove_watcher w ws with
      | [] => reg_del r t
      | ws' => reg_set r t ws'
      end
    end.
End Registry.

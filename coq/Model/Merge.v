(* Pure merge layer of the v2 configuration pipeline (property C03).  Transcription of
     pkg/utils/gnmiPathUtils.go                IsPathBelow
     pkg/utils/path/path.go                    GetParentPath (no longer used by the merge since 3126412)
     pkg/northbound/gnmi/v2/set_utils.go       computeChange
     pkg/controller/utils/utils.go             AddDeleteChildren (mutates the stored values it cascades to)
     pkg/controller/v2/proposal/controller.go  applyChangeToConfig, reconcileValidate's candidate / rollback
                                               values, reconcileCommit's merge, reconcileApply's updated values
     pkg/utils/v2/tree/tree.go                 PrunePathValues / isBelowDeletedPath / PrunePathMap
   Go maps are association lists; list order = one possible iteration order (theorems quantify over it).
   Values are opaque byte strings (the value codec is property C17's business).  No proofs here. *)
From Coq Require Import List NArith Bool.
From OC Require Import Base.Bytes.
Import ListNotations.
Open Scope N_scope.

Record path_value := mkPV { pv_path : str; pv_val : str; pv_deleted : bool; pv_index : N }.

(* map[string]*PathValue *)
Definition cfgmap := list (str * path_value).

Fixpoint map_get (k : str) (m : cfgmap) : option path_value :=
  match m with
  | [] => None
  | (k', v) :: m' => if eqb_str k k' then Some v else map_get k m'
  end.

(* m[k] = v : replaces in place, or appends a new key *)
Fixpoint map_set (k : str) (v : path_value) (m : cfgmap) : cfgmap :=
  match m with
  | [] => [(k, v)]
  | (k', v') :: m' => if eqb_str k k' then (k', v) :: m' else (k', v') :: map_set k v m'
  end.

(* delete(m, k) *)
Fixpoint map_del (k : str) (m : cfgmap) : cfgmap :=
  match m with
  | [] => []
  | (k', v') :: m' => if eqb_str k k' then map_del k m' else (k', v') :: map_del k m'
  end.

Definition map_has (k : str) (m : cfgmap) : bool :=
  match map_get k m with Some _ => true | None => false end.

(* strings.HasPrefix + the remainder *)
Fixpoint strip_prefix (p s : str) : option str :=
  match p, s with
  | [], _ => Some s
  | x :: p', y :: s' => if x =? y then strip_prefix p' s' else None
  | _ :: _, [] => None
  end.

Definition is_boundary (c : N) : bool := (c =? c_slash) || (c =? c_lbr).

(* utils.IsPathBelow(path, ancestor):
     if ancestor == "" || ancestor == "/" { return path != ancestor && path != "" && path != "/" }
     if len(path) <= len(ancestor) || !strings.HasPrefix(path, ancestor) { return false }
     return path[len(ancestor)] == '/' || path[len(ancestor)] == '['                                   *)
Definition is_path_below (path ancestor : str) : bool :=
  if eqb_str ancestor [] || eqb_str ancestor [c_slash] then
    negb (eqb_str path ancestor) && negb (eqb_str path []) && negb (eqb_str path [c_slash])
  else
    match strip_prefix ancestor path with
    | Some (c :: _) => is_boundary c
    | _ => false
    end.

(* pathutils.GetParentPath: i := strings.LastIndex(path, "/"); if i <= 0 { return "" }; return path[0:i] *)
Definition get_parent_path (path : str) : str :=
  match last_index_byte c_slash path with
  | Some (S i) => firstn (S i) path
  | _ => []
  end.

(* path[:i] for every i in 1..len-1 with path[i] == '/' or '[' (shortest first): the proper ancestors of a
   path at path element boundaries, as isBelowDeletedPath, applyChangeToConfig and clearDeletedAncestors scan them *)
Fixpoint bprefixes (acc rest : str) : list str :=
  match rest with
  | [] => []
  | c :: rest' => (if is_boundary c then [acc] else []) ++ bprefixes (acc ++ [c]) rest'
  end.

(* nearest ancestor first (the loops run for i := len(path)-1; i > 0; i--) *)
Definition boundary_ancestors (path : str) : list str :=
  match path with
  | [] => []
  | c0 :: rest => rev (bprefixes [c0] rest)
  end.

(* applyChangeToConfig(values, path, value) (repaired, 3126412 and 13d170a): values[path] = value; for a live value
   every ancestor at a path element boundary that is marked deleted in the map is removed from it and the outermost
   one is returned; a deleted value leaves its ancestors alone *)
Definition drop_deleted_ancestor (acc : cfgmap * option (str * path_value)) (parent : str)
  : cfgmap * option (str * path_value) :=
  match map_get parent (fst acc) with
  | Some v => if pv_deleted v then (map_del parent (fst acc), Some (parent, v)) else acc
  | None => acc
  end.

Definition apply_change_to_config (values : cfgmap) (path : str) (value : path_value)
  : cfgmap * option (str * path_value) :=
  if pv_deleted value then (map_set path value values, None)
  else fold_left drop_deleted_ancestor (boundary_ancestors path) (map_set path value values, None).

(* the in-place mutation AddDeleteChildren performs on a stored object *)
Definition mark_deleted (index : N) (v : path_value) : path_value :=
  mkPV (pv_path v) (pv_val v) true index.

(* inner loop of AddDeleteChildren for one deleted change value: every stored value below it is entered in
   the result under ITS path and mutated in place (Index, Deleted) - so the store changes as well *)
Definition cascade (index : N) (dpath : str) (store upd : cfgmap) : cfgmap * cfgmap :=
  (fold_left (fun u kv => if is_path_below (pv_path (snd kv)) dpath
                          then map_set (pv_path (snd kv)) (mark_deleted index (snd kv)) u else u) store upd,
   map (fun kv => if is_path_below (pv_path (snd kv)) dpath then (fst kv, mark_deleted index (snd kv)) else kv) store).

(* controllerutils.AddDeleteChildren(index, changeValues, configStore) -> (updChangeValues, configStore after) *)
Definition add_delete_children (index : N) (change store : cfgmap) : cfgmap * cfgmap :=
  fold_left (fun acc kv =>
               let cv := snd kv in
               if pv_deleted cv then
                 let r := cascade index (pv_path cv) (snd acc) (fst acc) in
                 (map_set (pv_path cv) cv (fst r), snd r)
               else (map_set (pv_path cv) cv (fst acc), snd acc))
            change ([], store).

(* reconcileCommit: updated := AddDeleteChildren(index, change, config.Values);
                    for path, v := range updated { applyChangeToConfig(config.Values, path, v) } *)
Definition apply_all (values upd : cfgmap) : cfgmap :=
  fold_left (fun vals kv => fst (apply_change_to_config vals (fst kv) (snd kv))) upd values.

Definition commit_merge (index : N) (change values : cfgmap) : cfgmap :=
  let r := add_delete_children index change values in
  apply_all (snd r) (fst r).

(* reconcileValidate, change case: candidate values (fed to BuildTree) and rollback values (585a403: a delete's
   rollback also restores every live stored value beneath the deleted path; no tombstone rollback value for a
   delete of something that was not stored) *)
Definition validate_change (values change : cfgmap) : cfgmap * cfgmap :=
  fold_left (fun acc kv =>
               let path := fst kv in
               let cv := snd kv in
               let r := apply_change_to_config (fst acc) path cv in
               let rb1 := match snd r with Some (dp, dv) => map_set dp dv (snd acc) | None => snd acc end in
               let rb2 := match map_get path values with
                          | Some c => map_set path c rb1
                          | None => if pv_deleted cv then rb1 else map_set path (mkPV path [] true 0) rb1
                          end in
               let rb3 := if pv_deleted cv then
                            fold_left (fun rb ckv => if negb (pv_deleted (snd ckv)) && is_path_below (fst ckv) path
                                                     then map_set (fst ckv) (snd ckv) rb else rb) values rb2
                          else rb2 in
               (fst r, rb3))
            change (values, []).

Definition candidate (values change : cfgmap) : cfgmap := fst (validate_change values change).
Definition rollback_of (values change : cfgmap) : cfgmap := snd (validate_change values change).

(* tree.isBelowDeletedPath *)
Definition mem_str (s : str) (l : list str) : bool := existsb (eqb_str s) l.

Definition is_below_deleted (path : str) (deleted : list str) : bool :=
  match deleted with
  | [] => false
  | _ =>
    (negb (eqb_str path [c_slash]) && (mem_str [c_slash] deleted || mem_str [] deleted))
    || match path with
       | [] => false
       | c0 :: rest => existsb (fun a => mem_str a deleted) (bprefixes [c0] rest)
       end
  end.

(* tree.PrunePathValues *)
Definition pv_leb (a b : path_value) : bool := leb_str (pv_path a) (pv_path b).

Definition prune_path_values (paths : list path_value) (leave_top : bool) : list path_value :=
  let sorted := isort pv_leb paths in
  let deleted := map pv_path (filter pv_deleted sorted) in
  filter (fun pv => negb (is_below_deleted (pv_path pv) deleted) && (negb (pv_deleted pv) || leave_top)) sorted.

(* tree.PrunePathMap *)
Definition prune_path_map (m : cfgmap) (leave_top : bool) : cfgmap :=
  fold_left (fun acc pv => map_set (pv_path pv) pv acc) (prune_path_values (map snd m) leave_top) [].

(* set_utils.computeChange: updates first, then the removes overwrite (a path both updated and deleted in
   one request ends up deleted) *)
Definition compute_change (updates : list (str * str)) (removes : list str) : cfgmap :=
  let c1 := fold_left (fun acc u => map_set (fst u) (mkPV (fst u) (snd u) false 0) acc) updates [] in
  fold_left (fun acc p => map_set p (mkPV p [] true 0) acc) removes c1.

(* transaction controller: every change value gets the transaction index *)
Definition with_index (index : N) (change : cfgmap) : cfgmap :=
  map (fun kv => (fst kv, mkPV (pv_path (snd kv)) (pv_val (snd kv)) (pv_deleted (snd kv)) index)) change.

(* reconcileApply: values sent to the device and recorded as applied *)
Definition apply_values (index : N) (change values : cfgmap) : cfgmap :=
  fst (add_delete_children index change values).
Definition device_request (index : N) (change values : cfgmap) : list path_value :=
  prune_path_values (map snd (apply_values index change values)) true.

(* SetReq: executable transcription of the request-resolution part of gNMI Set
   (pkg/northbound/gnmi/v2/set.go: Set up to transactions.Create, getTargetInfo, getTargetConfigurable,
   doUpdateOrReplace, doDelete, jsonBasePath; set_utils.go: computeChange(s), newTransaction;
   extensions.go: extractExtension, getTargetVersionOverrides, getTransactionStrategy;
   service.go: parsing of GNMI_SET_SIZE_LIMIT; pluginregistry.GetPlugin).
   External calls are inputs: the topology entities, the registered plugins with their read-write
   paths, the plugin's GetPathValues answer (an oracle function), whether an extension's bytes decode.
   The RBAC gate at the top of Set is property C14's (Model/Rbac.v) and is not repeated here.
   No proofs here. *)
From Coq Require Import List NArith ZArith Bool.
From OC Require Import Base.Bytes Model.PathModel.
Import ListNotations.
Open Scope N_scope.

(* ---------------------------------------------------------------- outcomes *)

Inductive code := CInvalid | CNotFound | CInternal.     (* gRPC InvalidArgument / NotFound / Internal *)

Inductive outcome (A : Type) :=
| Ok (a : A)
| Err (c : code)
| Panic.
Arguments Ok {A} a.
Arguments Err {A} c.
Arguments Panic {A}.

Definition bind {A B} (x : outcome A) (f : A -> outcome B) : outcome B :=
  match x with Ok a => f a | Err c => Err c | Panic => Panic end.

(* ---------------------------------------------------------------- association-list maps *)

Fixpoint aget {V} (m : list (str * V)) (k : str) : option V :=
  match m with
  | [] => None
  | (k', v) :: m' => if eqb_str k' k then Some v else aget m' k
  end.

(* m[k] = v : overwrite in place, else a new entry (the position is immaterial: Go map) *)
Fixpoint aset {V} (m : list (str * V)) (k : str) (v : V) : list (str * V) :=
  match m with
  | [] => [(k, v)]
  | (k', v') :: m' => if eqb_str k' k then (k', v) :: m' else (k', v') :: aset m' k v
  end.

(* ---------------------------------------------------------------- values *)

(* what a transaction carries for an updated path, canonically: onos-api value type and ValueToString *)
Record tval := mkTv { tv_type : N; tv_str : str }.

Inductive gval :=
| VStr (s : str)                    (* string_val / ascii_val *)
| VInt (z : Z)                      (* int_val, within int64 *)
| VUint (n : N)                     (* uint_val, within uint64 *)
| VBool (b : bool)
| VOther (ty : N) (rendered : str)  (* bytes / decimal / float (not NaN) / non-empty leaf-list: converts; its
                                       ValueToString is an input (value codec = property C17) *)
| VJson (doc : str)                 (* json_val *)
| VBad.                             (* nil value, any_val, json_ietf_val, proto_bytes, NaN, empty leaf-list:
                                       GnmiTypedValueToNativeType returns a plain error *)

Fixpoint dec_fuel (fuel : nat) (n : N) (acc : str) : str :=
  match fuel with
  | O => acc
  | S f => let d := 48 + n mod 10 in
           let q := n / 10 in
           if q =? 0 then d :: acc else dec_fuel f q (d :: acc)
  end.
Definition dec_n (n : N) : str := dec_fuel (S (N.size_nat n)) n [].
Definition dec_z (z : Z) : str :=
  if (z <? 0)%Z then 45 :: dec_n (Z.abs_N z) else dec_n (Z.to_N z).

(* GnmiTypedValueToNativeType, observed through (Type, ValueToString) *)
Definition to_native (v : gval) : option tval :=
  match v with
  | VStr s => Some (mkTv 1 s)
  | VInt z => Some (mkTv 2 (dec_z z))
  | VUint n => Some (mkTv 3 (dec_n n))
  | VBool b => Some (mkTv 4 (if b then B "true" else B "false"))
  | VOther ty r => Some (mkTv ty r)
  | VJson _ => None
  | VBad => None
  end.

(* ---------------------------------------------------------------- server configuration *)

Record plugin := mkPlugin { pl_name : str; pl_version : str; pl_rw : list rw_entry }.

(* topo entity; te_cfg = the Configurable aspect's (Type, Version) when the aspect is present *)
Record topo_ent := mkEnt { te_id : str; te_cfg : option (str * str) }.

Record server_cfg := mkCfg {
  sc_topo : list topo_ent;
  sc_plugins : list plugin;
  sc_limit : Z                 (* Server.gnmiSetSizeLimit *)
}.

(* strings.ToLower on ASCII (the registry lower-cases "<type>-<version>") *)
Definition lower_byte (c : N) : N := if (65 <=? c) && (c <=? 90) then c + 32 else c.
Definition to_lower (s : str) : str := map lower_byte s.

Definition plugin_id (ty ver : str) : str := to_lower (ty ++ [45] ++ ver).

(* pluginRegistry.GetPlugin: plugins are indexed by lower(name-version); a later registration with the
   same id replaces an earlier one *)
Fixpoint get_plugin (ps : list plugin) (ty ver : str) : option plugin :=
  match ps with
  | [] => None
  | p :: ps' => match get_plugin ps' ty ver with
                | Some q => Some q
                | None => if eqb_str (plugin_id (pl_name p) (pl_version p)) (plugin_id ty ver) then Some p else None
                end
  end.

Fixpoint topo_get (tp : list topo_ent) (id : str) : option topo_ent :=
  match tp with
  | [] => None
  | e :: tp' => if eqb_str (te_id e) id then Some e else topo_get tp' id
  end.

(* service.go: setSizeLimit, err = strconv.Atoi(os.Getenv("GNMI_SET_SIZE_LIMIT")); the error is only
   logged, so the value Atoi returns next to the error is what is used: 0 on a syntax error, the
   clamped int64 bound on a range error.  strconv.ParseUint reads left to right and reports the range
   error at the digit that overflows 64 bits - characters after it are never looked at. *)
Definition is_digit (c : N) : bool := (48 <=? c) && (c <=? 57).
Definition digits_val (s : str) : Z := fold_left (fun acc c => (acc * 10 + Z.of_N (c - 48))%Z) s 0%Z.
Definition max_int64 : Z := 9223372036854775807%Z.
Definition min_int64 : Z := (-9223372036854775808)%Z.
Definition max_uint64 : Z := 18446744073709551615%Z.

(* ParseUint(s, 10, 64) on a non-empty string: None = syntax error *)
Fixpoint parse_uint (s : str) (acc : Z) : option Z :=
  match s with
  | [] => Some acc
  | c :: s' =>
    if is_digit c then
      let n1 := (acc * 10 + Z.of_N (c - 48))%Z in
      if (max_uint64 <? n1)%Z then Some max_uint64 else parse_uint s' n1
    else None
  end.

Definition parse_limit (s : str) : Z :=
  let '(neg, ds) := match s with
                    | c :: s' => if c =? 45 then (true, s') else if c =? 43 then (false, s') else (false, s)
                    | [] => (false, s)
                    end in
  match ds with
  | [] => 0%Z
  | _ => match parse_uint ds 0%Z with
         | None => 0%Z
         | Some v =>
           if neg then (if (v <=? 9223372036854775808)%Z then (- v)%Z else min_int64)
           else (if (v <=? max_int64)%Z then v else max_int64)
         end
  end.

(* ---------------------------------------------------------------- requests *)

Record update := mkUpd { u_path : gpath; u_val : gval }.   (* a nil Path behaves as the empty path *)

Inductive ext :=
| ExtOverrides (decodes : bool) (ov : list (str * (str * str)))   (* registered_ext id 112 *)
| ExtStrategy (decodes : bool)                                    (* registered_ext id 111 *)
| ExtOther.                                                       (* anything else *)

Record request := mkReq {
  r_prefix : gpath;               (* a nil prefix behaves as the empty path without target *)
  r_delete : list gpath;
  r_replace : list update;
  r_update : list update;
  r_ext : list ext
}.

(* GetPathValues of the model plugin (external): base path, document -> path values, or an error *)
Definition pv_oracle := plugin -> str -> str -> option (list (str * tval)).

(* ---------------------------------------------------------------- extensions *)

(* extractExtension: the FIRST registered extension with the id decides *)
Fixpoint first_overrides (es : list ext) : option (bool * list (str * (str * str))) :=
  match es with
  | [] => None
  | ExtOverrides d ov :: _ => Some (d, ov)
  | _ :: es' => first_overrides es'
  end.

Fixpoint first_strategy (es : list ext) : option bool :=
  match es with
  | [] => None
  | ExtStrategy d :: _ => Some d
  | _ :: es' => first_strategy es'
  end.

(* map semantics of the decoded overrides: a later wire entry with the same key wins *)
Definition overrides_map (ov : list (str * (str * str))) : list (str * (str * str)) :=
  fold_left (fun m kv => aset m (fst kv) (snd kv)) ov [].

(* getTargetVersionOverrides *)
Definition get_overrides (es : list ext) : outcome (list (str * (str * str))) :=
  match first_overrides es with
  | None => Ok []
  | Some (true, ov) => Ok (overrides_map ov)
  | Some (false, _) => Err CInvalid
  end.

(* getTransactionStrategy (the strategy itself does not influence resolution) *)
Definition get_strategy (es : list ext) : outcome unit :=
  match first_strategy es with
  | Some false => Err CInvalid
  | _ => Ok tt
  end.

(* ---------------------------------------------------------------- per-request state *)

Record tinfo := mkTi {
  ti_plugin : plugin;
  ti_updates : list (str * tval);     (* configapi.TypedValueMap *)
  ti_removes : list str
}.

Record rstate := mkSt {
  s_targets : list (str * tinfo);             (* map[TargetID]*targetInfo *)
  s_over : list (str * (str * str))           (* overrides.Overrides (mutated by getTargetInfo) *)
}.

(* getTargetInfo(ctx, targets, overrides, idPrefix = the operation's own target, id = the prefix target):
   returns the effective target id; the target is registered in the state afterwards *)
Definition effective_target (op_target prefix_target : str) : str :=
  match prefix_target with [] => op_target | _ => prefix_target end.

Definition get_target_info (cfg : server_cfg) (s : rstate) (op_target prefix_target : str) : outcome (str * rstate) :=
  let id := effective_target op_target prefix_target in
  match aget (s_targets s) id with
  | Some _ => Ok (id, s)
  | None =>
    match topo_get (sc_topo cfg) id with
    | None => Err CNotFound                           (* topo.Get: NotFound *)
    | Some e =>
      match te_cfg e with
      | None => Err CInternal                         (* GetAspect: plain error *)
      | Some (cty, cver) =>
        let '(ty, ver, over') :=
          match aget (s_over s) id with
          | Some (oty, over) => (oty, over, s_over s)
          | None => (cty, cver, aset (s_over s) id (cty, cver))
          end in
        match get_plugin (sc_plugins cfg) ty ver with
        | None => Err CNotFound                       (* "model plugin not found" *)
        | Some pl => Ok (id, mkSt (aset (s_targets s) id (mkTi pl [] [])) over')
        end
      end
    end
  end.

(* prefix + path as doUpdateOrReplace / doDelete build it *)
Definition effective_path (prefix p : gpath) : str :=
  let pp := str_path prefix in
  if eqb_str pp [c_slash] then str_path p else pp ++ str_path p.

(* jsonBasePath *)
Definition json_base_path (path : str) : str :=
  if (1 <? N.of_nat (List.length path)) && suffixb [c_slash] path then removelast path else path.

(* doUpdateOrReplace on the target's info *)
Definition do_update (oracle : pv_oracle) (prefix : gpath) (u : update) (ti : tinfo) : outcome tinfo :=
  let path := effective_path prefix (u_path u) in
  match u_val u with
  | VJson doc =>
    match oracle (ti_plugin ti) (json_base_path path) doc with
    | None => Err CInternal
    | Some pvs => Ok (mkTi (ti_plugin ti) (fold_left (fun m pv => aset m (fst pv) (snd pv)) pvs (ti_updates ti)) (ti_removes ti))
    end
  | v =>
    match find_path_from_model path (pl_rw (ti_plugin ti)) true with
    | FoundExact e =>
      match to_native v with
      | None => Err CInternal
      | Some tv =>
        if check_key_value path e (tv_str tv)
        then Ok (mkTi (ti_plugin ti) (aset (ti_updates ti) path tv) (ti_removes ti))
        else Err CInvalid
      end
    | NotInModel => Err CInvalid
    | _ => Err CInternal
    end
  end.

(* path[:strings.LastIndex(path, "/")] - a negative bound panics *)
Definition cut_last_slash (path : str) : outcome str :=
  match last_index_byte c_slash path with
  | Some i => Ok (firstn i path)
  | None => Panic
  end.

(* doDelete: where the delete lands.  The effective path; the enclosing list entry when an exact key leaf
   is named ("in case an index attribute is given - take it off"); then every index value of that path must
   obey IndexAllowedChars (fix a2a122e) *)
Definition delete_landing (rw : list rw_entry) (prefix p : gpath) : outcome str :=
  let path := effective_path prefix p in
  bind (match find_path_from_model path rw false with
        | FoundExact e => if rw_is_key e && negb (suffixb [c_rbr] path) then cut_last_slash path else Ok path
        | FoundPrefix => Ok path
        | NotInModel => Err CInvalid
        | NotExact => Err CInternal     (* unreachable with exact = false *)
        end)
       (fun path' => if forallb (fun nv => index_value_ok (snd nv)) (extract_index_names path')
                     then Ok path' else Err CInvalid).

Definition do_delete (prefix p : gpath) (ti : tinfo) : outcome tinfo :=
  bind (delete_landing (pl_rw (ti_plugin ti)) prefix p)
       (fun path' => Ok (mkTi (ti_plugin ti) (ti_updates ti) (ti_removes ti ++ [path']))).

Inductive rop := RDel (p : gpath) | RUpd (u : update).

Definition rop_target (o : rop) : str :=
  match o with RDel p => p_target p | RUpd u => p_target (u_path u) end.

(* one iteration of the Delete / Replace / Update loops of Set *)
Definition step_op (cfg : server_cfg) (oracle : pv_oracle) (prefix : gpath) (s : rstate) (o : rop) : outcome rstate :=
  bind (get_target_info cfg s (rop_target o) (p_target prefix)) (fun '(id, s1) =>
    match aget (s_targets s1) id with
    | None => Panic       (* cannot happen: getTargetInfo registers the target *)
    | Some ti =>
      bind (match o with RDel p => do_delete prefix p ti | RUpd u => do_update oracle prefix u ti end)
           (fun ti' => Ok (mkSt (aset (s_targets s1) id ti') (s_over s1)))
    end).

Fixpoint run_ops (cfg : server_cfg) (oracle : pv_oracle) (prefix : gpath) (s : rstate) (l : list rop) : outcome rstate :=
  match l with
  | [] => Ok s
  | o :: l' => bind (step_op cfg oracle prefix s o) (fun s' => run_ops cfg oracle prefix s' l')
  end.

(* ---------------------------------------------------------------- size limit *)

Definition limit_ok (limit : Z) (targets : list (str * tinfo)) : bool :=
  if (0 <? limit)%Z then
    match targets with
    | [(_, ti)] => (Z.of_nat (List.length (ti_updates ti) + List.length (ti_removes ti)) <=? limit)%Z
    | _ => false
    end
  else true.

(* ---------------------------------------------------------------- newTransaction *)

Inductive change :=
| CUpd (v : tval)
| CDel
| CNil.     (* computeChange ignores NewChangeValue's error for removes: an invalid delete path puts a nil
               *PathValue into the change map *)

(* computeChange.  strict = false is the code as it is: the error NewChangeValue returns for a remove
   whose path is not a valid path is dropped and the nil *PathValue goes into the change map.
   strict = true is the repaired code (fixes/C13-1.patch): the error is returned as it is for updates. *)
Definition compute_change (strict : bool) (ti : tinfo) : outcome (list (str * change)) :=
  if forallb (fun pv => is_path_valid (fst pv)) (ti_updates ti) then
    if strict && negb (forallb is_path_valid (ti_removes ti)) then Err CInvalid
    else
    Ok (fold_left (fun m p => aset m p (if is_path_valid p then CDel else CNil)) (ti_removes ti)
                  (map (fun pv => (fst pv, CUpd (snd pv))) (ti_updates ti)))
  else Err CInvalid.

(* computeChanges *)
Fixpoint compute_changes (strict : bool) (ts : list (str * tinfo)) : outcome (list (str * list (str * change))) :=
  match ts with
  | [] => Ok []
  | (id, ti) :: ts' =>
    bind (compute_change strict ti) (fun ch =>
    bind (compute_changes strict ts') (fun rest => Ok ((id, ch) :: rest)))
  end.

Record tx := mkTx {
  tx_changes : list (str * list (str * change));    (* Transaction.Change.Values *)
  tx_over : list (str * (str * str))                (* Transaction.TargetVersionOverrides *)
}.

(* ---------------------------------------------------------------- Set, up to transactions.Create *)

Definition set_resolve (strict : bool) (cfg : server_cfg) (oracle : pv_oracle) (req : request) : outcome tx :=
  bind (get_overrides (r_ext req)) (fun over =>
  bind (get_strategy (r_ext req)) (fun _ =>
  if Nat.ltb (List.length (r_update req) + List.length (r_replace req) + List.length (r_delete req)) 1 then Err CInvalid
  else
  bind (run_ops cfg oracle (r_prefix req) (mkSt [] over) (map RDel (r_delete req))) (fun s1 =>
  bind (run_ops cfg oracle (r_prefix req) s1 (map RUpd (r_replace req))) (fun s2 =>
  bind (run_ops cfg oracle (r_prefix req) s2 (map RUpd (r_update req))) (fun s3 =>
  if limit_ok (sc_limit cfg) (s_targets s3) then
    bind (compute_changes strict (s_targets s3)) (fun chs => Ok (mkTx chs (s_over s3)))
  else Err CInvalid))))).

(* the store effects of Set up to the point where it starts waiting: exactly one Create when the
   request resolves, none otherwise (every `return nil, err` above precedes s.transactions.Create) *)
Inductive effect := Create (t : tx).

Definition set_effects (strict : bool) (cfg : server_cfg) (oracle : pv_oracle) (req : request) : list effect :=
  match set_resolve strict cfg oracle req with
  | Ok t => [Create t]
  | _ => []
  end.

(* after the transaction is committed the handler builds the response from its own transaction
   object: `valueUpdate.Deleted` on a nil *PathValue is a nil dereference *)
Definition response_panics (t : tx) : bool :=
  existsb (fun tc => existsb (fun pc => match snd pc with CNil => true | _ => false end) (snd tc)) (tx_changes t).

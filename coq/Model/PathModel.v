(* PathModel: executable transcription of pkg/utils/path/path.go (the functions used by gNMI Set)
   and of utils.StrPath (pkg/utils/gnmiPathUtils.go).  Strings are byte lists (Base/Bytes.v).
   The three regular expressions are modelled at token level:
     rOnIndex           = (\[.*?]).*?             -> idx_scan
     IndexAllowedChars  = ^([a-zA-Z0-9\*\-\._])+$ -> index_value_ok
     validPathRegexp    = (/[a-zA-Z0-9:=\-\._[\]]+)+   (FindString(path) == path) -> is_path_valid
   No proofs here. *)
From Coq Require Import List NArith Bool.
From OC Require Import Base.Bytes.
Import ListNotations.
Open Scope N_scope.

(* ---------------------------------------------------------------- gNMI paths and StrPath *)

Record elem := mkElem { e_name : str; e_keys : list (str * str) }.   (* Key is a Go map: distinct keys *)

Record gpath := mkPath {
  p_target : str;
  p_elems : list elem;       (* Path.Elem    (gNMI >= 0.4) *)
  p_element : list str       (* Path.Element (gNMI 0.3, deprecated; used by StrPath when Elem is empty) *)
}.

Definition c_nl : N := 10.

(* writeSafeString(b, s, esc): a backslash before esc and before backslash *)
Fixpoint safe_string (esc : N) (s : str) : str :=
  match s with
  | [] => []
  | c :: s' => if (c =? esc) || (c =? c_bslash) then c_bslash :: c :: safe_string esc s'
               else c :: safe_string esc s'
  end.

Definition leb_key (a b : str * str) : bool := leb_str (fst a) (fst b).

Fixpoint str_keys (ks : list (str * str)) : str :=
  match ks with
  | [] => []
  | (k, v) :: ks' => [c_lbr] ++ k ++ [c_eq] ++ safe_string c_rbr v ++ [c_rbr] ++ str_keys ks'
  end.

(* StrPathElem: keys are printed in sorted order (sort.Strings over the map's keys) *)
Fixpoint str_path_elems (es : list elem) : str :=
  match es with
  | [] => []
  | e :: es' => [c_slash] ++ safe_string c_slash (e_name e) ++ str_keys (isort leb_key (e_keys e)) ++ str_path_elems es'
  end.

(* utils.StrPath (a nil path and an empty path both give "/") *)
Definition str_path (p : gpath) : str :=
  match p_elems p with
  | _ :: _ => str_path_elems (p_elems p)
  | [] => match p_element p with
          | _ :: _ => [c_slash] ++ join [c_slash] (p_element p)
          | [] => [c_slash]
          end
  end.

(* ---------------------------------------------------------------- rOnIndex *)

(* FindAllStringSubmatch(path, -1) of (\[.*?]).*? : leftmost '[', nearest following ']' with no
   newline in between ('.' does not match \n: a newline makes every pending candidate fail);
   matches do not overlap; the trailing .*? matches the empty string, so m[0] = m[1]. *)
Fixpoint idx_scan (s : str) (cur : option str) : list str :=
  match s with
  | [] => []
  | c :: s' =>
    match cur with
    | None => if c =? c_lbr then idx_scan s' (Some [c]) else idx_scan s' None
    | Some acc =>
      if c =? c_rbr then rev (c :: acc) :: idx_scan s' None
      else if c =? c_nl then idx_scan s' None
      else idx_scan s' (Some (c :: acc))
    end
  end.

Definition index_matches (path : str) : list str := idx_scan path None.

(* strings.Replace(s, old, new, 1) *)
Fixpoint replace_first (s old new : str) : str :=
  if prefixb old s then new ++ skipn (List.length old) s
  else match s with
       | [] => []
       | c :: s' => c :: replace_first s' old new
       end.

(* RemovePathIndices *)
Definition remove_path_indices (path : str) : str :=
  fold_left (fun p m => replace_first p m []) (index_matches path) path.

(* idxParts := strings.Split(m, "="); idxParts[len-1] = "*]"; strings.Join(idxParts, "=") *)
Definition anonymize_match (m : str) : str :=
  join [c_eq] (removelast (split_on c_eq m) ++ [[c_star; c_rbr]]).

(* AnonymizePathIndices *)
Definition anonymize_path_indices (path : str) : str :=
  fold_left (fun p m => replace_first p m (anonymize_match m)) (index_matches path) path.

(* ExtractIndexNames: for a match m = "[" ... "]":  with '=' at LastIndex i -> (m[1:i], m[i+1:len-1]);
   without '=' -> (m[1:len-1], "")  (fix 7b08917's companion: no slice out of range) *)
Definition extract_one (m : str) : str * str :=
  match last_index_byte c_eq m with
  | Some i => (skipn 1 (firstn i m), removelast (skipn (S i) m))
  | None => (removelast (skipn 1 m), [])
  end.

Definition extract_index_names (path : str) : list (str * str) :=
  map extract_one (index_matches path).

(* ---------------------------------------------------------------- character classes *)

Definition is_alnum (c : N) : bool :=
  ((48 <=? c) && (c <=? 57)) || ((65 <=? c) && (c <=? 90)) || ((97 <=? c) && (c <=? 122)).

(* [a-zA-Z0-9\*\-\._] *)
Definition index_char_ok (c : N) : bool :=
  is_alnum c || (c =? c_star) || (c =? 45) || (c =? c_dot) || (c =? 95).

(* CheckPathIndexIsValid: ^(class)+$ *)
Definition index_value_ok (v : str) : bool :=
  match v with [] => false | _ => forallb index_char_ok v end.

(* [a-zA-Z0-9:=\-\._[\]] *)
Definition path_char_ok (c : N) : bool :=
  is_alnum c || (c =? c_colon) || (c =? c_eq) || (c =? 45) || (c =? c_dot) || (c =? 95) || (c =? c_lbr) || (c =? c_rbr).

(* IsPathValid: FindString of (/C+)+ equals the whole path.  The leftmost match is the maximal run of
   segments "/" C+ starting at the first position where one starts; it is the whole string iff the
   string is a non-empty sequence of such segments - or the string is empty (no match: FindString
   returns "" which equals the path). *)
Inductive pv_state := PvStart | PvAfterSlash | PvInSeg.

Fixpoint pv_run (st : pv_state) (s : str) : bool :=
  match s with
  | [] => match st with PvInSeg => true | _ => false end
  | c :: s' =>
    match st with
    | PvStart => if c =? c_slash then pv_run PvAfterSlash s' else false
    | PvAfterSlash => if path_char_ok c then pv_run PvInSeg s' else false
    | PvInSeg => if c =? c_slash then pv_run PvAfterSlash s'
                 else if path_char_ok c then pv_run PvInSeg s' else false
    end
  end.

Definition is_path_valid (path : str) : bool :=
  match path with [] => true | _ => pv_run PvStart path end.

(* GetParentPath *)
Definition get_parent_path (path : str) : str :=
  match last_index_byte c_slash path with
  | Some (S i) => firstn (S i) path
  | _ => []
  end.

(* s[strings.LastIndex(s, "/")+1:] *)
Definition after_last_slash (s : str) : str :=
  match last_index_byte c_slash s with
  | Some i => skipn (S i) s
  | None => s
  end.

(* ---------------------------------------------------------------- the read-write model paths *)

Record rw_entry := mkRw {
  rw_path : str;        (* model path, list keys anonymised: /cont/list[k=*]/leaf *)
  rw_vtype : N;
  rw_is_key : bool;
  rw_attr : str
}.

(* ReadWritePathMap (a Go map built by getRWPathMap: a later duplicate overwrites an earlier one).
   The model keeps the list and looks the LAST entry with the key up. *)
Fixpoint rw_lookup (rw : list rw_entry) (k : str) : option rw_entry :=
  match rw with
  | [] => None
  | e :: rw' => match rw_lookup rw' k with
                | Some e' => Some e'
                | None => if eqb_str (rw_path e) k then Some e else None
                end
  end.

Inductive find_result :=
| FoundExact (e : rw_entry)
| FoundPrefix            (* non-exact search hit; the element returned by the Go code (first in Go map
                            order) is not used by the callers of the non-exact form *)
| NotExact               (* exact = true and no exact hit: a status.Errorf(codes.InvalidArgument) that
                            errors.Status maps to Internal *)
| NotInModel.            (* errors.NewInvalid *)

(* strings.TrimSuffix(s, "/") *)
Definition trim_slash (s : str) : str := if suffixb [c_slash] s then removelast s else s.

(* the text the non-exact search of FindPathFromModel compares with the index-free model paths: the index-free
   path, plus "/<name of the last index>" when the path ends in an index *)
Definition delete_search_key (path : str) : str :=
  let base := remove_path_indices path in
  if suffixb [c_rbr] path then
    match rev (extract_index_names path) with
    | (lastname, _) :: _ => base ++ [c_slash] ++ lastname
    | [] => base
    end
  else base.

(* the searched text is the index-free model path m or an ancestor of it by whole elements
   (pathNoIndices == search || HasPrefix(pathNoIndices, TrimSuffix(search, "/") + "/"); fix 2e764cc) *)
Definition ancestor_or_self (search m : str) : bool :=
  eqb_str m search || prefixb (trim_slash search ++ [c_slash]) m.

(* FindPathFromModel(path, rwPaths, exact).  With exact = true the loop over the map is never reached
   (the function has returned before). *)
Definition find_path_from_model (path : str) (rw : list rw_entry) (exact : bool) : find_result :=
  match rw_lookup rw (anonymize_path_indices path) with
  | Some e => FoundExact e
  | None =>
    if exact then NotExact
    else if existsb (fun e => ancestor_or_self (delete_search_key path) (remove_path_indices (rw_path e))) rw
         then FoundPrefix else NotInModel
  end.

(* CheckKeyValue(path, rwPath, val) with val.ValueToString() = vstr *)
Definition check_key_value (path : str) (e : rw_entry) (vstr : str) : bool :=
  let idx := extract_index_names path in
  match idx with
  | [] => true
  | _ =>
    if negb (forallb (fun nv => index_value_ok (snd nv)) idx) then false
    else if negb (rw_is_key e) then true
    else
      let parent := get_parent_path path in
      existsb (fun nv => eqb_str (rw_attr e) (fst nv) && eqb_str (snd nv) vstr)
              (extract_index_names (after_last_slash parent))
  end.

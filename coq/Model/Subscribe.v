(* Subscribe.v - executable transcription of pkg/northbound/gnmi/v2/subscribe.go
   (Subscribe loop, processSubscribeRequest, splitSubscribeRequest, copyPrefix,
   sendSubscriptionRequest incl. the ProtoHandler relay, sendPollRequest).
   No proofs here (Proofs/SubscribeProofs.v).

   Data abstraction.  Targets are byte strings.  Everything the code only copies is an
   opaque byte string (the harness puts the deterministic protobuf encoding there):
     entry   = one gnmi.Subscription: the target of its path (sub.GetPath().GetTarget())
               and the whole entry as opaque body (path incl. target, mode, intervals ...)
     prefix  = gnmi.Path of the list: target, origin, elem (opaque), element (the deprecated
               repeated string field, opaque) - copyPrefix copies origin and elem only
     opts    = qos (pointer, may be nil), mode, allow_aggregation, use_models, encoding,
               updates_only - copied one by one by splitSubscribeRequest
     subreq  = SubscribeRequest carrying a SubscriptionList + the extension list (opaque)
   Messages are what a gRPC server hands to the handler, i.e. wire-decoded: a request whose
   oneof is `subscribe` always carries a non-nil SubscriptionList, entries are never nil.
   Go map sctx.treqs = association list in first-insertion order; the code ranges over the
   map when forwarding, so the order ACROSS targets is unspecified (the driver compares per
   target); everything per target is ordered. *)
From Coq Require Import List NArith Bool.
From OC Require Import Base.Bytes.
Import ListNotations.
Open Scope N_scope.

Definition is_empty (s : str) : bool := match s with [] => true | _ => false end.

Fixpoint mem_str (t : str) (l : list str) : bool :=
  match l with
  | [] => false
  | x :: l' => eqb_str x t || mem_str t l'
  end.

Record prefix := { p_target : str; p_origin : str; p_elems : str; p_element : str }.

Record opts := { o_qos : option str; o_mode : N; o_allow : bool; o_models : str; o_enc : N; o_upd : bool }.

Record entry := { e_target : str; e_body : str }.

Record sublist := { l_prefix : option prefix; l_subs : list entry; l_opts : opts }.

Record subreq := { r_list : sublist; r_ext : str }.

(* one message on the northbound stream: Subscribe / Poll / neither (request oneof not set) *)
Inductive msg := MSub (r : subreq) | MPoll | MNone.

(* subs.GetPrefix().GetTarget() - nil-safe getters *)
Definition prefix_target (l : sublist) : str :=
  match l_prefix l with Some p => p_target p | None => [] end.

(* copyPrefix(prefix, target): Origin: prefix.GetOrigin(), Elem: prefix.GetElem(), Target: target.
   The result is never nil; the deprecated Element field is not copied. *)
Definition copy_prefix (p : option prefix) (t : str) : prefix :=
  {| p_target := t;
     p_origin := match p with Some q => p_origin q | None => [] end;
     p_elems := match p with Some q => p_elems q | None => [] end;
     p_element := [] |}.

(* the template request created the first time a target is met *)
Definition new_treq (r : subreq) (t : str) : subreq :=
  {| r_list := {| l_prefix := Some (copy_prefix (l_prefix (r_list r)) t);
                  l_subs := [];
                  l_opts := {| o_qos := o_qos (l_opts (r_list r));
                               o_mode := o_mode (l_opts (r_list r));
                               o_allow := o_allow (l_opts (r_list r));
                               o_models := o_models (l_opts (r_list r));
                               o_enc := o_enc (l_opts (r_list r));
                               o_upd := o_upd (l_opts (r_list r)) |} |};
     r_ext := r_ext r |}.

(* tr.GetSubscribe().Subscription = append(tr.GetSubscribe().Subscription, sub) *)
Definition append_entry (q : subreq) (e : entry) : subreq :=
  {| r_list := {| l_prefix := l_prefix (r_list q);
                  l_subs := l_subs (r_list q) ++ [e];
                  l_opts := l_opts (r_list q) |};
     r_ext := r_ext q |}.

Definition treqs := list (str * subreq).

(* if tr, ok = sctx.treqs[target]; !ok { tr = template; sctx.treqs[target] = tr }; append *)
Fixpoint add_entry (tr : treqs) (r : subreq) (t : str) (e : entry) : treqs :=
  match tr with
  | [] => [(t, append_entry (new_treq r t) e)]
  | (k, q) :: rest =>
      if eqb_str k t then (k, append_entry q e) :: rest
      else (k, q) :: add_entry rest r t e
  end.

(* for _, sub := range subs.Subscription { target := sub.GetPath().GetTarget(); if target != "" {...} } *)
Definition split_step (r : subreq) (acc : treqs) (e : entry) : treqs :=
  if is_empty (e_target e) then acc else add_entry acc r (e_target e) e.

Definition split_loop (r : subreq) : treqs :=
  fold_left (split_step r) (l_subs (r_list r)) [].

(* splitSubscribeRequest: None = errors.NewInvalid(...) (both error returns are Invalid; the
   second one, "Prefix not supported for multi-target request", is unreachable - kept) *)
Definition split (r : subreq) : option treqs :=
  let pt := prefix_target (r_list r) in
  if negb (is_empty pt) then Some [(pt, r)]
  else
    let tr := split_loop r in
    match tr with
    | [] => None
    | _ => if negb (is_empty pt) then None else Some tr
    end.

(* subContext (the stream itself is the environment) *)
Record sctx := { c_req : option subreq; c_treqs : treqs }.

Definition sctx_init : sctx := {| c_req := None; c_treqs := [] |}.

(* calls made by processSubscribeRequest: sendSubscriptionRequest(target, req) / sendPollRequest(target) *)
Inductive effect := ESub (t : str) (r : subreq) | EPoll (t : str).

(* processSubscribeRequest: (new context, calls in map-range order, false = errors.NewInvalid returned) *)
Definition process (c : sctx) (m : msg) : sctx * list effect * bool :=
  match m with
  | MSub r =>
      match c_req c with
      | Some _ => (c, [], false)                       (* duplicate subscription message detected *)
      | None =>
          match split r with
          | None => ({| c_req := Some r; c_treqs := [] |}, [], false)  (* sctx.req = req; treqs = make(map); Invalid *)
          | Some tr => ({| c_req := Some r; c_treqs := tr |},
                        map (fun kq => ESub (fst kq) (snd kq)) tr, true)
          end
      end
  | MPoll =>
      match c_req c with
      | None => (c, [], false)                          (* subscription request not received yet *)
      | Some _ => (c, map (fun kq => EPoll (fst kq)) (c_treqs c), true)
      end
  | MNone => (c, [], false)                             (* unknown subscription message type *)
  end.

(* ---------------------------------------------------------------------------------------
   The whole stream.  Steps are northbound messages and southbound device messages arriving
   on the ProtoHandler of a target.  `known` = targets for which conns.GetByTarget succeeds;
   for the others sendSubscriptionRequest / sendPollRequest return the error, which the
   caller discards (`_ =`): nothing is forwarded and the subscriber is not told. *)
Inductive devmsg := DResp (payload : str) | DOther.

Inductive step := SMsg (m : msg) | SDev (t : str) (d : devmsg).

(* observations: query handed to the client of t (its SubReq, its Target field), Poll() on the
   client of t, SubscribeResponse sent on the northbound stream (tagged with the target whose
   handler sent it), handler returning Invalid for a message of another type (nothing sent) *)
Inductive obs :=
  | OSub (t : str) (qtarget : str) (r : subreq)
  | OPoll (t : str)
  | OSend (t : str) (payload : str)
  | ORelayErr (t : str).

Record rstate := { rs_ctx : sctx; rs_handlers : list str }.

Definition rstate_init : rstate := {| rs_ctx := sctx_init; rs_handlers := [] |}.

(* baseClient.NewQuery(req): q.Target = req.Subscribe.Prefix.Target; fails (error discarded, nothing
   forwarded) only when the prefix is nil - impossible for split results, kept for faithfulness *)
Definition new_query_target (r : subreq) : option str :=
  match l_prefix (r_list r) with Some p => Some (p_target p) | None => None end.

Definition deliver (known : list str) (e : effect) : list obs :=
  match e with
  | ESub t r =>
      if mem_str t known then
        match new_query_target r with Some qt => [OSub t qt r] | None => [] end
      else []
  | EPoll t => if mem_str t known then [OPoll t] else []
  end.

Definition installs (known : list str) (e : effect) : list str :=
  match e with
  | ESub t r => if mem_str t known then
                  match new_query_target r with Some _ => [t] | None => [] end
                else []
  | EPoll _ => []
  end.

(* the ProtoHandler closure: SubscribeResponse -> stream.Send(resp) unchanged; other -> Invalid *)
Definition relay (t : str) (d : devmsg) : obs :=
  match d with DResp p => OSend t p | DOther => ORelayErr t end.

Definition do_step (known : list str) (st : rstate) (s : step) : list obs * rstate * bool :=
  match s with
  | SMsg m =>
      let '(c', effs, ok) := process (rs_ctx st) m in
      (flat_map (deliver known) effs,
       {| rs_ctx := c'; rs_handlers := rs_handlers st ++ flat_map (installs known) effs |},
       ok)
  | SDev t d =>
      (if mem_str t (rs_handlers st) then [relay t d] else [], st, true)
  end.

(* the Subscribe loop: process until a message is refused (return err) or the stream ends;
   returns observations, final state, whether it stopped on a refusal, steps consumed *)
Fixpoint run_steps (known : list str) (st : rstate) (steps : list step) : list obs * rstate * bool * nat :=
  match steps with
  | [] => ([], st, false, O)
  | s :: rest =>
      let '(o, st', ok) := do_step known st s in
      if ok then
        let '(o2, st2, stopped, n) := run_steps known st' rest in (o ++ o2, st2, stopped, S n)
      else (o, st', true, S O)
  end.

(* how stream.Recv() ends after the scripted messages: io.EOF or another error *)
Inductive endkind := EndEOF | EndErr.

(* what Subscribe returns: the Invalid error of processSubscribeRequest; io.EOF when Recv returned
   io.EOF; nil when Recv returned any other error (as coded: `if err != io.EOF { return nil }`) *)
Inductive result := RInvalid | REof | RNil.

Definition run (known : list str) (steps : list step) (e : endkind) : list obs * result :=
  let '(o, _, stopped, _) := run_steps known rstate_init steps in
  (o, if stopped then RInvalid else match e with EndEOF => REof | EndErr => RNil end).

(* ------------------------------------------------------------------ projections used by
   the driver, by the in-kernel cross-check and by the theorems *)
Definition obs_target (o : obs) : str :=
  match o with OSub t _ _ => t | OPoll t => t | OSend t _ => t | ORelayErr t => t end.

Definition is_fwd (o : obs) : bool := match o with OSub _ _ _ | OPoll _ => true | _ => false end.
Definition is_relay (o : obs) : bool := negb (is_fwd o).

(* what the client of t saw, in order *)
Definition fwd_to (t : str) (os : list obs) : list obs :=
  filter (fun o => is_fwd o && eqb_str (obs_target o) t) os.

(* what reached the subscriber's stream (and the handler refusals), in order *)
Definition relayed (os : list obs) : list obs := filter is_relay os.

Definition keys (tr : treqs) : list str := map fst tr.

Fixpoint lookup (t : str) (tr : treqs) : option subreq :=
  match tr with
  | [] => None
  | (k, q) :: rest => if eqb_str k t then Some q else lookup t rest
  end.

Definition entries_for (tr : treqs) (t : str) : list entry :=
  match lookup t tr with Some q => l_subs (r_list q) | None => [] end.

(* the property's notion "entry e names target t" in request r: by the prefix target for all
   entries when there is one, else by the entry's own path *)
Definition names (r : subreq) (t : str) (e : entry) : bool :=
  let pt := prefix_target (r_list r) in
  if is_empty pt then eqb_str (e_target e) t && negb (is_empty t) else eqb_str pt t.

(* ------------------------------------------------------------------ decidable equalities
   (computation only; used by the in-kernel cross-check) *)
Definition eqb_ostr (a b : option str) : bool :=
  match a, b with Some x, Some y => eqb_str x y | None, None => true | _, _ => false end.

Definition eqb_prefix (a b : prefix) : bool :=
  eqb_str (p_target a) (p_target b) && eqb_str (p_origin a) (p_origin b) &&
  eqb_str (p_elems a) (p_elems b) && eqb_str (p_element a) (p_element b).

Definition eqb_oprefix (a b : option prefix) : bool :=
  match a, b with Some x, Some y => eqb_prefix x y | None, None => true | _, _ => false end.

Definition eqb_opts (a b : opts) : bool :=
  eqb_ostr (o_qos a) (o_qos b) && (o_mode a =? o_mode b) && Bool.eqb (o_allow a) (o_allow b) &&
  eqb_str (o_models a) (o_models b) && (o_enc a =? o_enc b) && Bool.eqb (o_upd a) (o_upd b).

Definition eqb_entry (a b : entry) : bool :=
  eqb_str (e_target a) (e_target b) && eqb_str (e_body a) (e_body b).

Fixpoint eqb_list {A} (f : A -> A -> bool) (a b : list A) : bool :=
  match a, b with
  | [], [] => true
  | x :: a', y :: b' => f x y && eqb_list f a' b'
  | _, _ => false
  end.

Definition eqb_subreq (a b : subreq) : bool :=
  eqb_oprefix (l_prefix (r_list a)) (l_prefix (r_list b)) &&
  eqb_list eqb_entry (l_subs (r_list a)) (l_subs (r_list b)) &&
  eqb_opts (l_opts (r_list a)) (l_opts (r_list b)) && eqb_str (r_ext a) (r_ext b).

Definition eqb_obs (a b : obs) : bool :=
  match a, b with
  | OSub t q r, OSub t' q' r' => eqb_str t t' && eqb_str q q' && eqb_subreq r r'
  | OPoll t, OPoll t' => eqb_str t t'
  | OSend t p, OSend t' p' => eqb_str t t' && eqb_str p p'
  | ORelayErr t, ORelayErr t' => eqb_str t t'
  | _, _ => false
  end.

Definition eqb_result (a b : result) : bool :=
  match a, b with RInvalid, RInvalid | REof, REof | RNil, RNil => true | _, _ => false end.

(* one harness observation re-evaluated in the kernel: result, relayed sequence, and the per
   target forwarded sequence for every listed target (all known targets are listed) *)
Definition check_case (known : list str) (steps : list step) (e : endkind)
           (res : result) (per_target : list (str * list obs)) (rel : list obs) : bool :=
  let '(o, r) := run known steps e in
  eqb_result r res &&
  eqb_list eqb_obs (relayed o) rel &&
  forallb (fun tl => eqb_list eqb_obs (fwd_to (fst tl) o) (snd tl)) per_target &&
  forallb (fun x => negb (is_fwd x) || mem_str (obs_target x) (map fst per_target)) o.

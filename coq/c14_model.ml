
(** val negb : bool -> bool **)

let negb = function
| true -> false
| false -> true



(** val existsb : ('a1 -> bool) -> 'a1 list -> bool **)

let rec existsb f = function
| [] -> false
| a :: l0 -> (||) (f a) (existsb f l0)

(** val filter : ('a1 -> bool) -> 'a1 list -> 'a1 list **)

let rec filter f = function
| [] -> []
| x :: l0 -> if f x then x :: (filter f l0) else filter f l0

type positive =
| XI of positive
| XO of positive
| XH

type n =
| N0
| Npos of positive

module Pos =
 struct
  (** val succ : positive -> positive **)

  let rec succ = function
  | XI p -> XO (succ p)
  | XO p -> XI p
  | XH -> XO XH

  (** val add : positive -> positive -> positive **)

  let rec add x y =
    match x with
    | XI p ->
      (match y with
       | XI q -> XO (add_carry p q)
       | XO q -> XI (add p q)
       | XH -> XO (succ p))
    | XO p ->
      (match y with
       | XI q -> XI (add p q)
       | XO q -> XO (add p q)
       | XH -> XI p)
    | XH -> (match y with
             | XI q -> XO (succ q)
             | XO q -> XI q
             | XH -> XO XH)

  (** val add_carry : positive -> positive -> positive **)

  and add_carry x y =
    match x with
    | XI p ->
      (match y with
       | XI q -> XI (add_carry p q)
       | XO q -> XO (add_carry p q)
       | XH -> XI (succ p))
    | XO p ->
      (match y with
       | XI q -> XO (add_carry p q)
       | XO q -> XI (add p q)
       | XH -> XO (succ p))
    | XH ->
      (match y with
       | XI q -> XI (succ q)
       | XO q -> XO (succ q)
       | XH -> XI XH)

  (** val mul : positive -> positive -> positive **)

  let rec mul x y =
    match x with
    | XI p -> add y (XO (mul p y))
    | XO p -> XO (mul p y)
    | XH -> y

  (** val eqb : positive -> positive -> bool **)

  let rec eqb p q =
    match p with
    | XI p0 -> (match q with
                | XI q0 -> eqb p0 q0
                | _ -> false)
    | XO p0 -> (match q with
                | XO q0 -> eqb p0 q0
                | _ -> false)
    | XH -> (match q with
             | XH -> true
             | _ -> false)
 end

module N =
 struct
  (** val add : n -> n -> n **)

  let add n0 m =
    match n0 with
    | N0 -> m
    | Npos p -> (match m with
                 | N0 -> n0
                 | Npos q -> Npos (Pos.add p q))

  (** val mul : n -> n -> n **)

  let mul n0 m =
    match n0 with
    | N0 -> N0
    | Npos p -> (match m with
                 | N0 -> N0
                 | Npos q -> Npos (Pos.mul p q))

  (** val eqb : n -> n -> bool **)

  let eqb n0 m =
    match n0 with
    | N0 -> (match m with
             | N0 -> true
             | Npos _ -> false)
    | Npos p -> (match m with
                 | N0 -> false
                 | Npos q -> Pos.eqb p q)
 end

type ascii =
| Ascii of bool * bool * bool * bool * bool * bool * bool * bool

(** val n_of_digits : bool list -> n **)

let rec n_of_digits = function
| [] -> N0
| b0 :: l' ->
  N.add (if b0 then Npos XH else N0) (N.mul (Npos (XO XH)) (n_of_digits l'))

(** val n_of_ascii : ascii -> n **)

let n_of_ascii = function
| Ascii (a0, a1, a2, a3, a4, a5, a6, a7) ->
  n_of_digits
    (a0 :: (a1 :: (a2 :: (a3 :: (a4 :: (a5 :: (a6 :: (a7 :: []))))))))

type string =
| EmptyString
| String of ascii * string

type str = n list

(** val b : string -> str **)

let rec b = function
| EmptyString -> []
| String (c, s') -> (n_of_ascii c) :: (b s')

(** val eqb_str : str -> str -> bool **)

let rec eqb_str a b0 =
  match a with
  | [] -> (match b0 with
           | [] -> true
           | _ :: _ -> false)
  | x :: a' ->
    (match b0 with
     | [] -> false
     | y :: b' -> (&&) (N.eqb x y) (eqb_str a' b'))

(** val split_on : n -> str -> str list **)

let rec split_on sep = function
| [] -> [] :: []
| c :: s' ->
  if N.eqb c sep
  then [] :: (split_on sep s')
  else (match split_on sep s' with
        | [] -> (c :: []) :: []
        | w :: ws -> (c :: w) :: ws)

(** val c_semi : n **)

let c_semi =
  Npos (XI (XI (XO (XI (XI XH)))))

(** val c_comma : n **)

let c_comma =
  Npos (XO (XO (XI (XI (XO XH)))))

type md = { md_name : str; md_pref : str; md_groups : str }

(** val nonempty : str -> bool **)

let nonempty s =
  negb (eqb_str s [])

(** val has_identity : md -> bool **)

let has_identity m =
  (||) ((||) (nonempty m.md_name) (nonempty m.md_pref)) (nonempty m.md_groups)

(** val temporary_evaluate : str -> str -> bool **)

let temporary_evaluate admin groups =
  existsb (fun g ->
    (&&) (nonempty g)
      (existsb (fun ag -> eqb_str g ag) (split_on c_comma admin)))
    (split_on c_semi groups)

(** val set_gate : str -> md -> bool **)

let set_gate admin m =
  if has_identity m then temporary_evaluate admin m.md_groups else true

(** val get_groups : md -> str list **)

let get_groups m =
  if nonempty m.md_name then split_on c_semi m.md_groups else []

(** val default_roc : str **)

let default_roc =
  b (String ((Ascii (true, false, false, false, false, false, true, false)),
    (String ((Ascii (true, false, true, false, false, true, true, false)),
    (String ((Ascii (false, false, true, false, true, true, true, false)),
    (String ((Ascii (false, false, false, true, false, true, true, false)),
    (String ((Ascii (true, false, true, false, false, true, true, false)),
    (String ((Ascii (false, true, false, false, true, true, true, false)),
    (String ((Ascii (false, true, false, false, true, false, true, false)),
    (String ((Ascii (true, true, true, true, false, false, true, false)),
    (String ((Ascii (true, true, false, false, false, false, true, false)),
    (String ((Ascii (true, false, false, false, false, false, true, false)),
    (String ((Ascii (false, false, true, false, false, true, true, false)),
    (String ((Ascii (true, false, true, true, false, true, true, false)),
    (String ((Ascii (true, false, false, true, false, true, true, false)),
    (String ((Ascii (false, true, true, true, false, true, true, false)),
    EmptyString))))))))))))))))))))))))))))

(** val roc_group : str -> str **)

let roc_group override =
  if nonempty override then override else default_roc

(** val report_targets : bool -> str -> str list -> str list -> str list **)

let report_targets oidc override groups targets =
  if oidc
  then filter (fun t ->
         existsb (fun g ->
           (||) (eqb_str t g) (eqb_str g (roc_group override))) groups)
         targets
  else targets

(** val get_all_targets : bool -> str -> md -> str list -> str list **)

let get_all_targets oidc override m targets =
  report_targets oidc override (get_groups m) targets

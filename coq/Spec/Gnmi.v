(* Reference semantics of gNMI Set / Get for property C03, independent of the implementation's text
   representation and of the merge model.

   A path is a list of STEPS: an element name, followed by that element's key selectors (in the canonical
   order in which onos-config prints them, i.e. sorted by key name).  /a/l[k=1]/v is
   [SName a; SName l; SKey k 1; SName v].  A configuration is a finite map from paths to leaf values.
     update p v : p carries v afterwards; nothing else changes
     delete d   : every leaf whose path has d as a prefix AT STEP BOUNDARIES disappears (d itself, everything
                  beneath it, for a key-less list name every entry, for a leading subset of the keys every
                  entry having them); nothing else changes
   One SetRequest = its deletes, then its updates (gNMI 3.4.3: delete, replace, update).
   Get q returns exactly the leaves whose path matches q on a prefix of its steps.  Wildcards: "*" as an
   element name stands for any one element name, [k=*] for any value of key k, "..." as an element stands
   for one or more whole elements (names with their keys). *)
From Coq Require Import List NArith Bool.
From OC Require Import Base.Bytes.
Import ListNotations.
Open Scope N_scope.

Inductive step := SName (n : str) | SKey (k v : str).
Definition spath := list step.

Definition eqb_step (a b : step) : bool :=
  match a, b with
  | SName x, SName y => eqb_str x y
  | SKey k v, SKey k' v' => eqb_str k k' && eqb_str v v'
  | _, _ => false
  end.

Fixpoint eqb_spath (a b : spath) : bool :=
  match a, b with
  | [], [] => true
  | x :: a', y :: b' => eqb_step x y && eqb_spath a' b'
  | _, _ => false
  end.

(* d is a prefix of p (d = p included) *)
Fixpoint sprefix (d p : spath) : bool :=
  match d, p with
  | [], _ => true
  | x :: d', y :: p' => eqb_step x y && sprefix d' p'
  | _ :: _, [] => false
  end.

Definition gcfg := list (spath * str).

Fixpoint glookup (g : gcfg) (p : spath) : option str :=
  match g with
  | [] => None
  | (p', v) :: g' => if eqb_spath p p' then Some v else glookup g' p
  end.

Definition gnmi_delete (g : gcfg) (d : spath) : gcfg :=
  filter (fun e => negb (sprefix d (fst e))) g.

Definition gnmi_update (g : gcfg) (u : spath * str) : gcfg :=
  u :: filter (fun e => negb (eqb_spath (fst u) (fst e))) g.

Record greq := mkReq { g_deletes : list spath; g_updates : list (spath * str) }.

Definition gnmi_apply (g : gcfg) (r : greq) : gcfg :=
  fold_left gnmi_update (g_updates r) (fold_left gnmi_delete (g_deletes r) g).

Definition gnmi_history (g : gcfg) (h : list greq) : gcfg := fold_left gnmi_apply h g.

(* Get queries *)
Inductive qstep := QName (n : str) | QKey (k v : str) | QAnyName | QAnyKey (k : str) | QDeep.

Definition is_name (s : step) : bool := match s with SName _ => true | SKey _ _ => false end.
Definition starts_with_name (p : spath) : bool := match p with s :: _ => is_name s | [] => false end.

Fixpoint qmatch (q : list qstep) (p : spath) : bool :=
  match q with
  | [] => true
  | QName n :: q' => match p with SName n' :: p' => eqb_str n n' && qmatch q' p' | _ => false end
  | QKey k v :: q' => match p with SKey k' v' :: p' => eqb_str k k' && eqb_str v v' && qmatch q' p' | _ => false end
  | QAnyName :: q' => match p with SName _ :: p' => qmatch q' p' | _ => false end
  | QAnyKey k :: q' => match p with SKey k' _ :: p' => eqb_str k k' && qmatch q' p' | _ => false end
  | QDeep :: q' =>
    starts_with_name p &&
    match q' with
    | [] => true
    | _ => (fix deep (p : spath) : bool :=
              match p with
              | [] => false
              | _ :: p' => (starts_with_name p' && qmatch q' p') || deep p'
              end) p
    end
  end.

Definition gnmi_get (g : gcfg) (q : list qstep) : gcfg := filter (fun e => qmatch q (fst e)) g.

(* a query without wildcards *)
Definition qlit (d : spath) : list qstep :=
  map (fun s => match s with SName n => QName n | SKey k v => QKey k v end) d.

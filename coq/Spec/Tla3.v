(* Order and Consistency of spec/Config.tla as computable predicates over the ghost history and the records,
   plus the sentence of the property about failed / aborted applies.  No proofs here. *)
From Coq Require Import List NArith Bool Arith.
From OC Require Import Model.Proto3.
Import ListNotations.
Open Scope N_scope.

Definition phase_eqb (a b : phase) : bool := match a, b with PhChange, PhChange | PhRollback, PhRollback => true | _, _ => false end.
Definition stage_eqb (a b : stage) : bool := match a, b with StCommit, StCommit | StApply, StApply => true | _, _ => false end.
Definition is_complete (e : event) : bool := st_eqb (e_status e) Complete.

(* IsOrderedChange(p, i): before = history[1..i-1] *)
Definition ordered_change (p : stage) (before : list event) (e : event) : bool :=
  phase_eqb (e_phase e) PhChange && stage_eqb (e_stage e) p && is_complete e &&
  negb (existsb (fun x => phase_eqb (e_phase x) PhChange && stage_eqb (e_stage x) p && is_complete x && (e_index e <=? e_index x)) before).

(* in `l`, is there a later-index completed change of stage p that no rollback event of stage p for the same index follows? *)
Fixpoint unrolled_later (p : stage) (idx : N) (l : list event) : bool :=
  match l with
  | [] => false
  | x :: r =>
      (phase_eqb (e_phase x) PhChange && stage_eqb (e_stage x) p && is_complete x && (idx <? e_index x) &&
       negb (existsb (fun k => phase_eqb (e_phase k) PhRollback && stage_eqb (e_stage k) p && (e_index k =? e_index x)) r))
      || unrolled_later p idx r
  end.

(* IsOrderedRollback(p, i) *)
Definition ordered_rollback (p : stage) (before : list event) (e : event) : bool :=
  phase_eqb (e_phase e) PhRollback && stage_eqb (e_stage e) p && is_complete e &&
  existsb (fun x => phase_eqb (e_phase x) PhChange && is_complete x && (e_index x =? e_index e)) before &&
  negb (unrolled_later p (e_index e) before).

Definition event_ordered (before : list event) (e : event) : bool :=
  negb (is_complete e) ||
  ordered_change StCommit before e || ordered_change StApply before e ||
  ordered_rollback StCommit before e || ordered_rollback StApply before e.

Fixpoint order_from (before rest : list event) : bool :=
  match rest with
  | [] => true
  | e :: r => event_ordered before e && order_from (before ++ [e]) r
  end.

(* first conjunct of Order *)
Definition order_ok (h : list event) : bool := order_from [] h.

(* each phase is committed before it is applied *)
Definition commit_before_apply_ok (h : list event) : bool :=
  (fix go (before rest : list event) : bool :=
     match rest with
     | [] => true
     | e :: r =>
         (negb (stage_eqb (e_stage e) StApply) || negb (is_complete e) ||
          existsb (fun x => phase_eqb (e_phase x) (e_phase e) && stage_eqb (e_stage x) StCommit && is_complete x &&
                            (e_index x =? e_index e)) before)
         && go (before ++ [e]) r
     end) [] h.

(* the sentence "a change whose apply failed or was aborted keeps later changes from being applied until it is
   rolled back" (the second conjunct of Order in Config.tla, with the index it means): *)
Definition st_in (s : st) (l : list st) : bool := existsb (st_eqb s) l.
Definition rolled_back (t : txn) : bool :=
  match t_ra t with Some s => st_in s [Complete; Failed] | None => false end.
Fixpoint blocks_from (l : list txn) : bool :=
  match l with
  | [] => true
  | t :: r =>
      (negb (st_in (t_ca t) [Failed; Aborted]) || rolled_back t ||
       negb (existsb (fun u => st_in (t_ca u) [InProgress; Complete]) r))
      && blocks_from r
  end.
Definition failed_blocks_later_ok (w : world) : bool := blocks_from (w_txs w).

(* Consistency, committed part: the change the committed revision names is in the committed values (as read) *)
(* the map holds the change's value for a path: the same entry; for a delete also any tomb-stone at the path or a
   tomb-stone of an ancestor that absorbed it (the store prunes entries below a tomb-stone) *)
Definition holds_val (m : vals) (kv : path * pval) : bool :=
  match vget (fst kv) m with
  | Some v => pval_eqb v (snd kv) || (pv_del v && pv_del (snd kv))
  | None => pv_del (snd kv) && existsb (fun e => pv_del (snd e) && is_below (fst kv) (fst e)) m
  end.
Definition sub_vals (tv m : vals) : bool := forallb (holds_val m) tv.

Definition consistency_committed_ok (w : world) : bool :=
  match w_cfg w with
  | None => true
  | Some c => match get_tx w (k_revision (c_cm c)) with
              | None => true
              | Some t => sub_vals (t_values t) (cview w c)
              end
  end.

(* the device is expected to hold the applied configuration when the configuration is synchronized in the current
   term over a live master connection *)
Definition in_sync (w : world) (c : config) : bool :=
  (c_state c =? 2) && (c_apterm c =? c_mterm c) &&
  match c_master c with
  | Some m => existsb (fun r => (fst r =? m) && snd r) (w_rels w) && existsb (N.eqb m) (w_conns w)
  | None => false
  end.

Definition dev_holds (d : list (path * N)) (kv : path * pval) : bool :=
  let p := fst kv in
  if pv_del (snd kv)
  then negb (existsb (fun x => path_eqb (fst x) p || is_below (fst x) p) d)
  else existsb (fun x => path_eqb (fst x) p && (snd x =? pv_val (snd kv))) d.

(* an apply whose device request may already have been answered while its configuration write is still to come (the
   two are one atomic action in the TLA+ specification, two separate ones in the code) *)
Definition apply_in_flight (w : world) : bool :=
  existsb (fun t =>
     let rolled := match t_ra t with Some s => st_eqb s Complete | None => false end in
     (* the change's request may or may not have reached the device (in progress, or recorded FAILED after an earlier
        attempt whose record write was lost) and no completed rollback has overwritten it since *)
     ((st_eqb (t_ca t) InProgress || st_eqb (t_ca t) Failed) && negb rolled) ||
     match t_ra t with Some s => st_eqb s InProgress || st_eqb s Failed | None => false end) (w_txs w).

Definition consistency_applied_ok (w : world) : bool :=
  match w_cfg w with
  | None => true
  | Some c => match get_tx w (k_revision (c_ap c)) with
              | None => true
              | Some t => sub_vals (t_values t) (aview w) &&
                          (negb (in_sync w c) || apply_in_flight w || forallb (dev_holds (w_dev w)) (t_values t))
              end
  end.

Definition consistency_ok (w : world) : bool := consistency_committed_ok w && consistency_applied_ok w.

Definition safety_ok (w : world) : bool :=
  order_ok (w_hist w) && commit_before_apply_ok (w_hist w) && consistency_ok w.

(* every transaction is terminal: IsChanged / IsRolledBack of Config.tla *)
Definition tx_terminal (t : txn) : bool :=
  if t_rb t then
    match t_rc t, t_ra t with
    | Some rc, Some ra => st_in rc [Complete; Failed] && st_in ra [Complete; Aborted; Failed]
    | _, _ => false
    end
  else st_in (t_cc t) [Complete; Failed] && st_in (t_ca t) [Complete; Aborted; Failed; Canceled].
Definition all_terminal (w : world) : bool := forallb tx_terminal (w_txs w).

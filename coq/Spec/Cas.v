(* The specification the stores are measured against: one compare-and-set register per record.
   A register holds (version, content); versions come from one strictly increasing counter.
     create k c        : refused (Exists) when k has a register, otherwise a new register with a fresh version
     cas k expected c  : refused (NotFound) without a register, refused (Conflict) when the register's version
                         is not `expected`, otherwise content := c with a fresh version
   A refused operation changes nothing. *)
From Coq Require Import List NArith Bool.
From OC Require Import Base.Bytes.
Import ListNotations.
Open Scope N_scope.

Inductive cas_code := SOk | SNotFound | SExists | SConflict.

Record reg := { r_version : N; r_content : N }.

Record cas_state := { cs_regs : list (str * reg); cs_counter : N }.

Definition cas_init : cas_state := {| cs_regs := []; cs_counter := 0 |}.

Fixpoint reg_get (k : str) (l : list (str * reg)) : option reg :=
  match l with [] => None | (n, r) :: t => if eqb_str n k then Some r else reg_get k t end.

Fixpoint reg_set (k : str) (r : reg) (l : list (str * reg)) : list (str * reg) :=
  match l with
  | [] => [(k, r)]
  | (n, x) :: t => if eqb_str n k then (n, r) :: t else (n, x) :: reg_set k r t
  end.

Definition cas_create (k : str) (c : N) (s : cas_state) : cas_state * cas_code :=
  match reg_get k (cs_regs s) with
  | Some _ => (s, SExists)
  | None => let v := cs_counter s + 1 in
            ({| cs_regs := reg_set k {| r_version := v; r_content := c |} (cs_regs s); cs_counter := v |}, SOk)
  end.

Definition cas_update (k : str) (expected c : N) (s : cas_state) : cas_state * cas_code :=
  match reg_get k (cs_regs s) with
  | None => (s, SNotFound)
  | Some r =>
    if N.eqb (r_version r) expected then
      let v := cs_counter s + 1 in
      ({| cs_regs := reg_set k {| r_version := v; r_content := c |} (cs_regs s); cs_counter := v |}, SOk)
    else (s, SConflict)
  end.

(* the same two operations on ONE register (what a single record is measured against); [fresh] is the
   version the counter hands out *)
Definition reg1_create (r : option reg) (c fresh : N) : option reg * cas_code :=
  match r with
  | Some _ => (r, SExists)
  | None => (Some {| r_version := fresh; r_content := c |}, SOk)
  end.

Definition reg1_update (r : option reg) (expected c fresh : N) : option reg * cas_code :=
  match r with
  | None => (r, SNotFound)
  | Some x => if N.eqb (r_version x) expected then (Some {| r_version := fresh; r_content := c |}, SOk) else (r, SConflict)
  end.

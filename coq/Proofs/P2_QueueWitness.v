(* C09 on the executable queued model (Model/Proto2Queue.v over Model/P2Inst.v), by evaluation of the concrete
   delivery orders of Proofs/P2_QueueWitnessData.v:
     - regression examples: the scenarios of the repaired lost wake-ups (F-02a dead_prev, F-02b initfail_successor,
       F-02e sync_wakeup, F-02d serializable_gate, F-C09-23 sync_serializable, commit_hidden_by_apply) and of the
       repaired wedged target (F-21 = F-C09-21) end idle, at a fixed point, every target connected, every transaction
       final,
     - the busy wait that is left (F-C09-22): while a device is away, behind a SERIALIZABLE transaction, everything that is
       pending is a pair of proposals that re-queue each other: the work set never becomes empty,
     - the hypotheses of the fixed-point theorem are satisfiable on a non-trivial reachable world. *)
From stdpp Require Import gmap.
From Coq Require Import NArith String.
From OC Require Import Base.Bytes Model.P2Pure Model.Proto2 Model.P2Inst Model.Proto2Queue Model.P2QInst Proofs.P2_QueueWitnessData.
From OC Require Import Proofs.P2Base Proofs.P2Phases Proofs.P2_Queue.
Open Scope N_scope.

Definition phis (o : option ph) (p : ph) : bool := bool_decide (o = Some p).

(* reachability in the executable queued model *)
Definition q_reach (s : QWd) : Prop := exists ls, s = q_run ls.

Definition tx_finalb (T : Txn) : bool :=
  match t_state T with
  | TApplied => true
  | TFailed => phis (t_apply T) Failed || phis (t_abort T) Done
  | _ => false
  end.
(* every configured target is connected: live connection, master relation of this node, synchronised in the current term *)
Definition connectedb (w : Wd) : bool :=
  forallb (fun tc => match c_master (snd tc) with
                     | Some m => bool_decide (conns w !! m = Some (fst tc)) && bool_decide (rels w !! m = Some (fst tc, true))
                     | None => false end
                     && negb (c_aterm (snd tc) <? c_term (snd tc)) && negb (bool_decide (c_state (snd tc) = CSynchronizing))
                     && negb (is_none (targets w !! (fst tc)))) (map_to_list (cfgs w)).
Definition some_tx_not_final (w : Wd) : bool := existsb (fun it => negb (tx_finalb (snd it))) (map_to_list (txs w)).
Definition all_tx_final (w : Wd) : bool := forallb (fun it => tx_finalb (snd it)) (map_to_list (txs w)).
(* no stored id has anything to do under oracle [o] *)
Definition quiescentb (o : oracle) (w : Wd) : bool :=
  forallb (fun c => match fst (p2_reconcile o w c) with [] => true | _ => false end) (q_all_ctrls w).

(** * The work set need not become empty: a busy wait while a device is away (F-C09-22) *)
(* a reachable world (the device of the target has never connected: the first, SERIALIZABLE transaction waits in APPLYING,
   the second at the apply gate, the third in APPLYING) in which everything that is pending is a pair of proposals whose
   reconciles - whatever the oracle - do nothing but re-queue each other: whatever is delivered from here on, the world
   stays as it is and the work set stays non-empty, until the environment moves *)
Definition is_prop_id (k : N * N) (c : ctrl) : bool :=
  match c with CtlProp (t, i) => (t =? fst k) && (i =? snd k) | _ => false end.
Definition busy_wait : Prop :=
  exists (s : QWd) (k1 k2 : N * N),
    q_reach s /\ connectedb (qw s) = false /\ some_tx_not_final (qw s) = true /\ queue s <> [] /\
    forallb (fun c => is_prop_id k1 c || is_prop_id k2 c) (queue s) = true /\ forall o,
      p2_reconcile o (qw s) (CtlProp k1) = ([], RRequeueProp k2) /\ p2_reconcile o (qw s) (CtlProp k2) = ([], RRequeueProp k1).

Lemma quiescent_all (w : Wd) : (forall o, quiescentb o w = true) -> forall o c, fst (p2_reconcile o w c) = [].
Proof.
  intros Hall o c. destruct (fst (p2_reconcile o w c)) as [|e r] eqn:E; [reflexivity|exfalso].
  assert (He : fst (p2_reconcile o w c) <> []) by (rewrite E; discriminate).
  pose proof (enabled_stored candidate candidate_rb rollback_of overlay commit_merge payload record_applied touched restore
                             resync_payload doc_ok stamp nil nil nil o w c He) as Hin.
  specialize (Hall o). unfold quiescentb in Hall. rewrite forallb_forall in Hall. specialize (Hall c Hin).
  rewrite E in Hall. discriminate.
Qed.

Theorem busy_wait_device_away : busy_wait.
Proof.
  exists (q_run wit_busy_wait), (1, 3), (1, 2). split; [exists wit_busy_wait; reflexivity|].
  split; [vm_compute; reflexivity|]. split; [vm_compute; reflexivity|]. split; [vm_compute; discriminate|].
  split; [vm_compute; reflexivity|]. intros [pl v a ch ord]. vm_compute. split; reflexivity.
Qed.

(** * Regression examples: the repaired scenarios come to rest with every transaction final *)
Definition ends_well (ls : list QLabel) : bool :=
  let s := q_run ls in idle s && quiescentb o_quiet (qw s) && all_tx_final (qw s) && connectedb (qw s).
(* Set rejected by the plugin, then a Set on the same target (F-02a) *)
Example regression_dead_prev : ends_well reg_dead_prev = true.
Proof. vm_compute. reflexivity. Qed.
(* Set refused by the device, then a Set on the same target (F-02a, apply-FAILED predecessor) *)
Example regression_apply_failed : ends_well reg_apply_failed = true.
Proof. vm_compute. reflexivity. Qed.
(* rollback of a missing index, then a Set (F-02b) *)
Example regression_initfail_successor : ends_well reg_initfail_successor = true.
Proof. vm_compute. reflexivity. Qed.
(* SERIALIZABLE Set, then a Set on the same target (F-02d) *)
Example regression_serializable_gate : ends_well reg_serializable_gate = true.
Proof. vm_compute. reflexivity. Qed.
(* SERIALIZABLE Set, then two Sets on the same target (F-02d, F-C09-22) *)
Example regression_serializable_three : ends_well reg_serializable_three = true.
Proof. vm_compute. reflexivity. Qed.
(* SERIALIZABLE Set and a Set before the device ever connects, then it connects (F-C09-23) *)
Example regression_sync_serializable : ends_well reg_sync_serializable = true.
Proof. vm_compute. reflexivity. Qed.
(* SERIALIZABLE Set on {t1, t2}, a follower on t1 only and one on t2 only, devices connect afterwards (both followers
   must be woken by the transaction event: seeded change C09-m4) *)
Example regression_serializable_two_followers : ends_well reg_serializable_two_followers = true.
Proof. vm_compute. reflexivity. Qed.
(* SERIALIZABLE Set and its rollback before the device ever connects, then it connects (the rollback waits at the apply
   gate and has lowered Configuration.Index: the walk to the first unapplied proposal starts at Proposed.Index; seeded
   change C09-m5) *)
Example regression_sync_serializable_rollback : ends_well reg_sync_serializable_rollback = true.
Proof. vm_compute. reflexivity. Qed.
(* Set and its rollback before the device ever connects, then it connects (F-02e) *)
Example regression_sync_wakeup : ends_well reg_sync_wakeup = true.
Proof. vm_compute. reflexivity. Qed.
(* Set on {t1 refuses, t2 fine}, then a Set on t2 (F-21: the target used to be wedged) *)
Example regression_partial_apply_failure : ends_well reg_partial_apply_failure = true.
Proof. vm_compute. reflexivity. Qed.
(* two Sets committed while the device is away, then it connects (commit_hidden_by_apply) *)
Example regression_two_changes_offline : ends_well reg_two_changes_offline = true.
Proof. vm_compute. reflexivity. Qed.

(** * The hypotheses of the fixed-point theorem are satisfiable on a non-trivial reachable world *)
Definition inst_tokens (s : QWd) : Prop :=
  tokens candidate candidate_rb rollback_of overlay commit_merge payload record_applied touched restore resync_payload doc_ok
         stamp nil nil nil s.
Lemma tokens_by_check (s : QWd) : (forall o, quiescentb o (qw s) = true) -> inst_tokens s.
Proof.
  intros Hall c o He. exfalso. apply He. exact (quiescent_all (qw s) Hall o c).
Qed.

Example tokens_satisfiable :
  exists s : QWd, q_reach s /\ inst_tokens s /\ idle s = true /\ all_tx_final (qw s) = true /\ connectedb (qw s) = true.
Proof.
  exists (q_run reg_sync_wakeup). split; [exists reg_sync_wakeup; reflexivity|]. split; [|repeat split; vm_compute; reflexivity].
  apply tokens_by_check. intros [pl v a ch ord]. vm_compute. reflexivity.
Qed.

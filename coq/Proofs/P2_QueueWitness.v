(* C09 on the executable queued model (Model/Proto2Queue.v over Model/P2Inst.v), by evaluation of the concrete
   delivery orders of Proofs/P2_QueueWitnessData.v:
     - the lost wake-up that is still open (F-C09-23: a proposal in APPLYING is not woken when its configuration becomes
       synchronised, the proposals behind it being COMMITTED without apply phase behind its SERIALIZABLE transaction),
     - a livelock in that situation (F-C09-22): everything pending is a pair of proposals that re-queue each other for ever,
     - regression examples: the scenarios of the repaired lost wake-ups (F-02a dead_prev, F-02b initfail_successor,
       F-02e sync_wakeup, F-02d serializable_gate, commit_hidden_by_apply) and of the repaired wedged target (F-21 = F-C09-21) now end idle, at a fixed
       point, with every transaction final,
     - the hypotheses of the fixed-point theorem are satisfiable on a non-trivial reachable world. *)
From stdpp Require Import gmap.
From Coq Require Import NArith String.
From OC Require Import Base.Bytes Model.P2Pure Model.Proto2 Model.P2Inst Model.Proto2Queue Model.P2QInst Proofs.P2_QueueWitnessData.
From OC Require Import Proofs.P2Base Proofs.P2Phases Proofs.P2_Queue.
Open Scope N_scope.

Definition phis (o : option ph) (p : ph) : bool := bool_decide (o = Some p).

(** * Signature of the open lost wake-up (F-C09-23): a proposal in APPLYING whose turn it is (the applied index is its
      predecessor) on a target that is mastered and synchronised *)
Definition sig_apply_ready (w : Wd) (c : ctrl) : bool :=
  match c with
  | CtlProp (t, i) =>
    match props w !! (t, i), cfgs w !! t with
    | Some P, Some C =>
      phis (p_apply P) Doing && (c_applied C <? i) && ((p_prev P =? 0) || (c_applied C =? p_prev P))
      && negb (bool_decide (c_state C = CSynchronizing)) && negb (c_aterm C <? c_term C)
      && match c_master C with Some m => negb (is_none (conns w !! m)) | None => false end
    | _, _ => false end
  | _ => false end.

(* reachability in the executable queued model *)
Definition q_reach (s : QWd) : Prop := exists ls, s = q_run ls.

Definition tx_finalb (T : Txn) : bool :=
  match t_state T with
  | TApplied => true
  | TFailed => phis (t_apply T) Failed || phis (t_abort T) Done
  | _ => false
  end.
(* every configured target is connected: live connection, master relation of this node, synchronised in the current term *)
Definition connectedb (w : Wd) : bool :=
  forallb (fun tc => match c_master (snd tc) with
                     | Some m => bool_decide (conns w !! m = Some (fst tc)) && bool_decide (rels w !! m = Some (fst tc, true))
                     | None => false end
                     && negb (c_aterm (snd tc) <? c_term (snd tc)) && negb (bool_decide (c_state (snd tc) = CSynchronizing))
                     && negb (is_none (targets w !! (fst tc)))) (map_to_list (cfgs w)).
Definition some_tx_not_final (w : Wd) : bool := existsb (fun it => negb (tx_finalb (snd it))) (map_to_list (txs w)).
Definition all_tx_final (w : Wd) : bool := forallb (fun it => tx_finalb (snd it)) (map_to_list (txs w)).
(* no stored id has anything to do under oracle [o] *)
Definition quiescentb (o : oracle) (w : Wd) : bool :=
  forallb (fun c => match fst (p2_reconcile o w c) with [] => true | _ => false end) (q_all_ctrls w).

(* an idle world, every target connected, in which the id [c], of the given shape, still has something to do *)
Definition lost_wakeup (shape : Wd -> ctrl -> bool) : Prop :=
  exists (s : QWd) (c : ctrl), q_reach s /\ idle s = true /\ connectedb (qw s) = true /\ shape (qw s) c = true /\
                               fst (p2_reconcile o_quiet (qw s) c) <> [].

Lemma lost_wakeup_by (shape : Wd -> ctrl -> bool) (ls : list QLabel) (c : ctrl) :
  (let s := q_run ls in idle s && connectedb (qw s) && shape (qw s) c &&
                        negb (match fst (p2_reconcile o_quiet (qw s) c) with [] => true | _ => false end))%bool = true ->
  lost_wakeup shape.
Proof.
  cbv zeta. intros H. apply andb_prop in H. destruct H as [H H4]. apply andb_prop in H. destruct H as [H H3].
  apply andb_prop in H. destruct H as [H1 H2].
  exists (q_run ls), c. split; [exists ls; reflexivity|]. split; [exact H1|]. split; [exact H2|]. split; [exact H3|].
  intros E. rewrite E in H4. discriminate.
Qed.

(* a SERIALIZABLE change and a plain change committed before the device connects; then it connects: the first proposal
   is never woken (the configuration event names the newest proposal, which is COMMITTED without apply phase - its
   transaction waits at the apply gate for the first one - and hands over to its successor, not to its predecessor) *)
Theorem lost_wakeup_sync_serializable : lost_wakeup sig_apply_ready.
Proof. apply (lost_wakeup_by _ wit_sync_serializable (CtlProp (1, 1))). vm_compute. reflexivity. Qed.

(** * The work queue need not drain: a livelock behind a SERIALIZABLE transaction that is not woken (F-C09-23 + F-C09-22) *)
(* a reachable world, every target connected, a transaction not final, in which everything that is pending is a pair of
   proposals whose reconciles - whatever the oracle - do nothing but re-queue each other: whatever is delivered from here
   on, the world stays as it is and the queue never becomes empty *)
Definition is_prop_id (k : N * N) (c : ctrl) : bool :=
  match c with CtlProp (t, i) => (t =? fst k) && (i =? snd k) | _ => false end.
Definition livelock : Prop :=
  exists (s : QWd) (k1 k2 : N * N),
    q_reach s /\ connectedb (qw s) = true /\ some_tx_not_final (qw s) = true /\ queue s <> [] /\
    forallb (fun c => is_prop_id k1 c || is_prop_id k2 c) (queue s) = true /\ forall o,
      p2_reconcile o (qw s) (CtlProp k1) = ([], RRequeueProp k2) /\ p2_reconcile o (qw s) (CtlProp k2) = ([], RRequeueProp k1).

Lemma quiescent_all (w : Wd) : (forall o, quiescentb o w = true) -> forall o c, fst (p2_reconcile o w c) = [].
Proof.
  intros Hall o c. destruct (fst (p2_reconcile o w c)) as [|e r] eqn:E; [reflexivity|exfalso].
  assert (He : fst (p2_reconcile o w c) <> []) by (rewrite E; discriminate).
  pose proof (enabled_stored candidate candidate_rb rollback_of overlay commit_merge payload record_applied touched restore
                             resync_payload doc_ok stamp nil nil nil o w c He) as Hin.
  specialize (Hall o). unfold quiescentb in Hall. rewrite forallb_forall in Hall. specialize (Hall c Hin).
  rewrite E in Hall. discriminate.
Qed.

Theorem livelock_behind_gate : livelock.
Proof.
  exists (q_run wit_livelock), (1, 3), (1, 2). split; [exists wit_livelock; reflexivity|].
  split; [vm_compute; reflexivity|]. split; [vm_compute; reflexivity|]. split; [vm_compute; discriminate|].
  split; [vm_compute; reflexivity|]. intros [pl v a ch ord]. vm_compute. split; reflexivity.
Qed.

(** * Regression examples: the repaired scenarios come to rest with every transaction final *)
Definition ends_well (ls : list QLabel) : bool :=
  let s := q_run ls in idle s && quiescentb o_quiet (qw s) && all_tx_final (qw s) && connectedb (qw s).
(* Set rejected by the plugin, then a Set on the same target (F-02a) *)
Example regression_dead_prev : ends_well reg_dead_prev = true.
Proof. vm_compute. reflexivity. Qed.
(* Set refused by the device, then a Set on the same target (F-02a, apply-FAILED predecessor) *)
Example regression_apply_failed : ends_well reg_apply_failed = true.
Proof. vm_compute. reflexivity. Qed.
(* rollback of a missing index, then a Set (F-02b) *)
Example regression_initfail_successor : ends_well reg_initfail_successor = true.
Proof. vm_compute. reflexivity. Qed.
(* SERIALIZABLE Set, then a Set on the same target (F-02d) *)
Example regression_serializable_gate : ends_well reg_serializable_gate = true.
Proof. vm_compute. reflexivity. Qed.
(* SERIALIZABLE Set, then two Sets on the same target (F-02d, F-C09-22) *)
Example regression_serializable_three : ends_well reg_serializable_three = true.
Proof. vm_compute. reflexivity. Qed.
(* Set and its rollback before the device ever connects, then it connects (F-02e) *)
Example regression_sync_wakeup : ends_well reg_sync_wakeup = true.
Proof. vm_compute. reflexivity. Qed.
(* Set on {t1 refuses, t2 fine}, then a Set on t2 (F-21: the target used to be wedged) *)
Example regression_partial_apply_failure : ends_well reg_partial_apply_failure = true.
Proof. vm_compute. reflexivity. Qed.
(* two Sets committed while the device is away, then it connects (commit_hidden_by_apply) *)
Example regression_two_changes_offline : ends_well reg_two_changes_offline = true.
Proof. vm_compute. reflexivity. Qed.

(** * The hypotheses of the fixed-point theorem are satisfiable on a non-trivial reachable world *)
Definition inst_tokens (s : QWd) : Prop :=
  tokens candidate candidate_rb rollback_of overlay commit_merge payload record_applied touched restore resync_payload doc_ok
         stamp nil nil nil s.
Lemma tokens_by_check (s : QWd) : (forall o, quiescentb o (qw s) = true) -> inst_tokens s.
Proof.
  intros Hall c o He. exfalso. apply He. exact (quiescent_all (qw s) Hall o c).
Qed.

Example tokens_satisfiable :
  exists s : QWd, q_reach s /\ inst_tokens s /\ idle s = true /\ all_tx_final (qw s) = true /\ connectedb (qw s) = true.
Proof.
  exists (q_run reg_sync_wakeup). split; [exists reg_sync_wakeup; reflexivity|]. split; [|repeat split; vm_compute; reflexivity].
  apply tokens_by_check. intros [pl v a ch ord]. vm_compute. reflexivity.
Qed.

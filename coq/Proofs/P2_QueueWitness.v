(* C09: the lost wake-ups, the wedged target and the re-queue cycle of the code as it is, as theorems about the
   executable queued model (Model/Proto2Queue.v over Model/P2Inst.v), by evaluation of the concrete delivery orders of
   Proofs/P2_QueueWitnessData.v. *)
From stdpp Require Import gmap.
From Coq Require Import NArith String.
From OC Require Import Base.Bytes Model.P2Pure Model.Proto2 Model.P2Inst Model.Proto2Queue Model.P2QInst Proofs.P2_QueueWitnessData.
Open Scope N_scope.

(** * Signatures of the lost wake-ups (the shape of an enabled id in an idle world) *)
Definition phis (o : option ph) (p : ph) : bool := bool_decide (o = Some p).
(* a transaction waiting in INITIALIZING behind a transaction whose initialisation FAILED *)
Definition sig_initfail_successor (w : Wd) (c : ctrl) : bool :=
  match c with
  | CtlTx i => match txs w !! i, txs w !! (i - 1) with
               | Some T, Some T0 => phis (t_init T) Doing && is_none (t_validate T) && phis (t_init T0) Failed
               | _, _ => false end
  | _ => false end.
(* a proposal that waits (validate, abort or apply gate) *)
Definition p_waiting (P : Prop2) : bool :=
  phis (p_apply P) Doing || (is_none (p_apply P) && phis (p_abort P) Doing)
  || (is_none (p_apply P) && is_none (p_abort P) && is_none (p_commit P) && phis (p_validate P) Doing).
(* ... behind a proposal that ended ABORTED or apply-FAILED *)
Definition sig_dead_prev (w : Wd) (c : ctrl) : bool :=
  match c with
  | CtlProp (t, i) => match props w !! (t, i) with
                      | Some P => p_waiting P && match props w !! (t, p_prev P) with
                                                 | Some Q => dead_end Q
                                                 | None => false end
                      | None => false end
  | _ => false end.
(* a transaction parked at one of the three SERIALIZABLE gates *)
Definition sig_serializable_gate (w : Wd) (c : ctrl) : bool :=
  match c with
  | CtlTx i => match txs w !! i with
               | Some T => is_none (t_abort T) && is_none (t_apply T) &&
                           ((phis (t_init T) Done && is_none (t_validate T)) || (phis (t_validate T) Done && is_none (t_commit T))
                            || phis (t_commit T) Done)
               | None => false end
  | _ => false end.
(* a proposal in APPLYING whose predecessor is not a dead end: it waited for mastership / synchronisation *)
Definition sig_sync_wakeup (w : Wd) (c : ctrl) : bool :=
  match c with
  | CtlProp (t, i) => match props w !! (t, i) with
                      | Some P => phis (p_apply P) Doing && negb (sig_dead_prev w c)
                      | None => false end
  | _ => false end.
(* a proposal in VALIDATING behind a committed proposal whose apply phase has been started *)
Definition sig_commit_hidden_by_apply (w : Wd) (c : ctrl) : bool :=
  match c with
  | CtlProp (t, i) => match props w !! (t, i) with
                      | Some P => is_none (p_apply P) && is_none (p_abort P) && is_none (p_commit P) && phis (p_validate P) Doing &&
                                  match props w !! (t, p_prev P) with
                                  | Some Q => phis (p_commit Q) Done && phis (p_apply Q) Doing
                                  | None => false end
                      | None => false end
  | _ => false end.

(* reachability in the executable queued model *)
Definition q_reach (fx : fixes) (s : QWd) : Prop := exists ls, s = fold_left (q_step_fx fx) ls q_init.
(* an idle world in which the id [c], of the given shape, still has something to do *)
Definition lost_wakeup (fx : fixes) (shape : Wd -> ctrl -> bool) : Prop :=
  exists (s : QWd) (c : ctrl), q_reach fx s /\ idle s = true /\ shape (qw s) c = true /\ fst (p2_reconcile o_quiet (qw s) c) <> [].

Lemma lost_wakeup_by (shape : Wd -> ctrl -> bool) (ls : list QLabel) (c : ctrl) :
  (let s := q_run ls in idle s && shape (qw s) c && negb (match fst (p2_reconcile o_quiet (qw s) c) with [] => true | _ => false end))%bool = true ->
  lost_wakeup no_fixes shape.
Proof.
  cbv zeta. intros H. apply andb_prop in H. destruct H as [H H3]. apply andb_prop in H. destruct H as [H1 H2].
  exists (q_run ls), c. split; [exists ls; reflexivity|]. split; [exact H1|]. split; [exact H2|].
  intros E. rewrite E in H3. discriminate.
Qed.

Theorem lost_wakeup_initfail_successor : lost_wakeup no_fixes sig_initfail_successor.
Proof. apply (lost_wakeup_by _ wit_initfail_successor (CtlTx 2)). vm_compute. reflexivity. Qed.
Theorem lost_wakeup_dead_prev : lost_wakeup no_fixes sig_dead_prev.
Proof. apply (lost_wakeup_by _ wit_dead_prev (CtlProp (1, 2))). vm_compute. reflexivity. Qed.
Theorem lost_wakeup_serializable_gate : lost_wakeup no_fixes sig_serializable_gate.
Proof. apply (lost_wakeup_by _ wit_serializable_gate (CtlTx 2)). vm_compute. reflexivity. Qed.
Theorem lost_wakeup_sync_wakeup : lost_wakeup no_fixes sig_sync_wakeup.
Proof. apply (lost_wakeup_by _ wit_sync_wakeup (CtlProp (1, 1))). vm_compute. reflexivity. Qed.
Theorem lost_wakeup_commit_hidden_by_apply : lost_wakeup no_fixes sig_commit_hidden_by_apply.
Proof. apply (lost_wakeup_by _ wit_commit_hidden_by_apply (CtlProp (1, 2))). vm_compute. reflexivity. Qed.

(** * Progress fails: the wedged target *)
Definition tx_finalb (T : Txn) : bool :=
  match t_state T with
  | TApplied => true
  | TFailed => phis (t_apply T) Failed || phis (t_abort T) Done
  | _ => false
  end.
(* every configured target is connected: live connection, master relation of this node, synchronised in the current term *)
Definition connectedb (w : Wd) : bool :=
  forallb (fun tc => match c_master (snd tc) with
                     | Some m => bool_decide (conns w !! m = Some (fst tc)) && bool_decide (rels w !! m = Some (fst tc, true))
                     | None => false end
                     && negb (c_aterm (snd tc) <? c_term (snd tc)) && negb (bool_decide (c_state (snd tc) = CSynchronizing))
                     && negb (is_none (targets w !! (fst tc)))) (map_to_list (cfgs w)).
Definition some_tx_not_final (w : Wd) : bool := existsb (fun it => negb (tx_finalb (snd it))) (map_to_list (txs w)).

(* an idle fixed point with every target connected and a transaction that is not final - and will never be *)
Definition deadlock (fx : fixes) : Prop :=
  exists s : QWd, q_reach fx s /\ idle s = true /\ connectedb (qw s) = true /\ some_tx_not_final (qw s) = true /\ q_enabled o_quiet (qw s) = [].
Theorem deadlock_wedged_target : deadlock no_fixes.
Proof. exists (q_run wit_wedged_target). split; [exists wit_wedged_target; reflexivity|]. vm_compute. repeat split. Qed.

(* two proposals that re-queue each other for ever (whatever the oracle), the first one's transaction having failed its apply *)
Definition requeue_cycle (fx : fixes) : Prop :=
  exists (s : QWd) (k1 k2 : N * N) (T : Txn),
    q_reach fx s /\ txs (qw s) !! (snd k2) = Some T /\ t_apply T = Some Failed /\ connectedb (qw s) = true /\ forall o, p2_reconcile o (qw s) (CtlProp k1) = ([], RRequeueProp k2) /\ p2_reconcile o (qw s) (CtlProp k2) = ([], RRequeueProp k1).
Theorem requeue_cycle_wedged_target : requeue_cycle no_fixes.
Proof.
  exists (q_run wit_requeue_cycle), (2, 2), (2, 1).
  destruct (txs (qw (q_run wit_requeue_cycle)) !! 1) as [T|] eqn:E; [|vm_compute in E; discriminate].
  exists T. split; [exists wit_requeue_cycle; reflexivity|]. split; [exact E|].
  split; [vm_compute in E; injection E as <-; reflexivity|]. split; [vm_compute; reflexivity|].
  intros [pl v a ch ord]. vm_compute. split; reflexivity.
Qed.

(** * The hypotheses of the fixed-point theorem are satisfiable on a non-trivial reachable world:
      the final world of [wit_wedged_target] (three transactions, two targets) is idle and the token invariant holds in it *)
From OC Require Import Proofs.P2Base Proofs.P2Phases Proofs.P2_Queue.
Definition inst_tokens (fx : fixes) (s : QWd) : Prop :=
  tokens candidate candidate_rb rollback_of overlay commit_merge payload record_applied touched restore resync_payload doc_ok
         stamp nil nil nil fx s.
Lemma tokens_by_check (fx : fixes) (s : QWd) :
  (forall o, forallb (fun c => match fst (p2_reconcile o (qw s) c) with [] => true | _ => false end) (q_all_ctrls (qw s)) = true) ->
  inst_tokens fx s.
Proof.
  intros Hall c o He. exfalso. apply He.
  pose proof (enabled_stored candidate candidate_rb rollback_of overlay commit_merge payload record_applied touched restore
                             resync_payload doc_ok stamp nil nil nil o (qw s) c He) as Hin.
  specialize (Hall o). rewrite forallb_forall in Hall. specialize (Hall c Hin).
  unfold p2_reconcile in Hall. destruct (fst _); [reflexivity|discriminate].
Qed.

Example tokens_satisfiable :
  exists s : QWd, q_reach no_fixes s /\ inst_tokens no_fixes s /\ idle s = true /\ some_tx_not_final (qw s) = true.
Proof.
  exists (q_run wit_wedged_target). split; [exists wit_wedged_target; reflexivity|]. split; [|split; vm_compute; reflexivity].
  apply tokens_by_check. intros [pl v a ch ord]. vm_compute. reflexivity.
Qed.

(* C15_cancel_isolated for the repaired Watch (fixed = true): whatever happened before - any number of watchers
   cancelled at any point of their replay / select / send - the event loop is never parked for good: from EVERY
   reachable world the internal steps alone (loop, goroutines; no further write, open or cancel) reach quiescence.
   Proof: a measure that every enabled internal step of a well-chosen component decreases.
   Contrast: Proofs/WatchProofs.cancel_isolated_refuted (fixed = false: quiescence is never reached again). *)
From Coq Require Import List NArith Bool Lia PeanoNat.
From OC Require Import Model.Watch Proofs.WatchProofs Proofs.WatchInv.
Import ListNotations.
Open Scope N_scope.

(* steps of the event loop and of the watcher goroutines only *)
Definition internal (l : label) : bool :=
  match l with STake | SSend | SSnap _ | SReplay _ | SFwd _ | SClose _ => true | _ => false end.

(* goroutine steps a watcher still owes before it is back in its select (or drained) *)
Definition cost (n : nat) (w : watcher) : nat :=
  match w_phase w with WReg => S (S n) | WReplay l => S (length l) | WHold _ => 1%nat | _ => 0%nat end.

Fixpoint wsum (n : nat) (ws : list watcher) : nat :=
  match ws with [] => 0%nat | w :: r => (cost n w + wsum n r)%nat end.

Definition tlen (lp : loopst) : nat := match lp with LIdle => 0%nat | LSend _ ts => length ts end.

Definition mu (g : world) : nat :=
  (wsum (length (g_store g)) (g_ws g) + 2 * tlen (g_loop g) + length (g_queue g) * (2 * length (g_ws g) + 1))%nat.

Definition stable (p : wphase) : bool := match p with WMain | WDrained => true | _ => false end.

Lemma wsum_upd n id f ws w : find_w id ws = Some w ->
  (wsum n (upd_w id f ws) + cost n w = wsum n ws + cost n (f w))%nat.
Proof.
  induction ws as [|x r IH]; simpl; [discriminate|].
  destruct (N.eqb (w_id x) id).
  - intro H. inversion H; subst. simpl. lia.
  - intro H. specialize (IH H). simpl. lia.
Qed.

Lemma tlen_after e ts : tlen (after_targets e ts) = length ts.
Proof. destruct ts; reflexivity. Qed.

Lemma listeners_length k ws : (length (listeners k ws) <= length ws)%nat.
Proof.
  unfold listeners. rewrite map_length. induction ws as [|x r IH]; simpl; [lia|].
  destruct (w_registered x && matches (w_filter x) k); simpl; lia.
Qed.

(* the measure after a goroutine step of the watcher found under id *)
Lemma mu_local g id f w : find_w id (g_ws g) = Some w ->
  (cost (length (g_store g)) (f w) < cost (length (g_store g)) w)%nat ->
  (mu (with_ws g (upd_w id f (g_ws g))) < mu g)%nat.
Proof.
  intros Hf Hc. unfold mu. simpl. rewrite upd_length.
  pose proof (wsum_upd (length (g_store g)) id f _ _ Hf) as HS. lia.
Qed.

(* either the world is quiescent or some internal step is enabled and decreases the measure *)
Lemma progress g : Inv true g ->
  quiescent g = true \/ exists l, internal l = true /\ (mu (wstep true false g l) < mu g)%nat.
Proof.
  intros [Hk Hi Hl Hfl Hw]. rewrite Forall_forall in Hw.
  destruct (find (fun w => negb (stable (w_phase w))) (g_ws g)) as [w|] eqn:F.
  - (* a goroutine is out of its select: let it run *)
    right. apply find_some in F. destruct F as [Hin Hst].
    pose proof (find_nodup _ _ Hi Hin) as Hf. destruct (Hw w Hin) as [Hwf _]. unfold wf_wb in Hwf.
    destruct (w_phase w) as [ |pl| |e| | |rp] eqn:Ep; try discriminate.
    + exists (SSnap (w_id w)). split; [reflexivity|]. simpl. rewrite Hf, Ep.
      destruct (w_cancelled w); [destruct (w_filter w)|]; apply (mu_local _ _ _ _ Hf); unfold cost; simpl; rewrite Ep;
        try lia.
      pose proof (snapshot_length (w_filter w) (g_store g)). lia.
    + destruct pl as [|e r].
      * exists (SReplay (w_id w)). split; [reflexivity|]. simpl. rewrite Hf, Ep, Hwf.
        apply (mu_local _ _ _ _ Hf). unfold cost. simpl. rewrite Ep. simpl. lia.
      * exists (SReplay (w_id w)). split; [reflexivity|]. simpl. rewrite Hf, Ep.
        destruct (w_cancelled w); apply (mu_local _ _ _ _ Hf); unfold cost; simpl; rewrite Ep; simpl; lia.
    + exists (SFwd (w_id w)). split; [reflexivity|]. simpl. rewrite Hf, Ep.
      apply (mu_local _ _ _ _ Hf). unfold cost. simpl. rewrite Ep. lia.
    + (* WStuck does not exist in the repaired model *)
      rewrite andb_false_r in Hwf. discriminate.
  - (* every goroutine is in its select or drained: the loop can move *)
    assert (Hst : forall w, In w (g_ws g) -> stable (w_phase w) = true).
    { intros w Hin. pose proof (find_none _ _ F w Hin) as H. simpl in H. destruct (stable (w_phase w)); [reflexivity | discriminate]. }
    destruct (g_loop g) as [|e ts] eqn:El.
    + destruct (g_queue g) as [|e q] eqn:Eq.
      * left. unfold quiescent. rewrite Eq, El. apply forallb_forall. intros w Hin.
        specialize (Hst w Hin). destruct (Hw w Hin) as [Hwf _]. unfold wf_wb in Hwf.
        destruct (w_phase w); try discriminate; simpl.
        -- apply orb_true_r.
        -- rewrite Hwf. reflexivity.
      * right. exists STake. split; [reflexivity|]. simpl. rewrite El, Eq. unfold mu. simpl.
        rewrite El, Eq, tlen_after. simpl.
        pose proof (listeners_length (ev_key e) (g_ws g)) as Hlen.
        generalize dependent (length (listeners (ev_key e) (g_ws g))). intros n Hlen.
        generalize (length q * (length (g_ws g) + (length (g_ws g) + 0) + 1))%nat. intro m. lia.
    + right. simpl in Hl. destruct Hl as [Hne [Hnd Hex]]. destruct ts as [|id rest]; [contradiction|].
      destruct (find_w id (g_ws g)) as [w|] eqn:Hf; [|exfalso; apply (Hex id); [left; reflexivity | exact Hf]].
      destruct (find_in _ _ _ Hf) as [Hin _]. specialize (Hst w Hin).
      exists SSend. split; [reflexivity|]. simpl. rewrite El, Hf.
      destruct (w_phase w) eqn:Ep; try discriminate.
      * unfold mu. simpl. rewrite El, upd_length, tlen_after. simpl.
        pose proof (wsum_upd (length (g_store g)) id (set_phase (WHold e)) _ _ Hf) as HS.
        unfold cost in HS. simpl in HS. rewrite Ep in HS. lia.
      * unfold mu. simpl. rewrite El, tlen_after. simpl. lia.
Qed.

Lemma reach_quiescent : forall n g, Inv true g -> (mu g < n)%nat ->
  exists ls, forallb internal ls = true /\ quiescent (wrun true false g ls) = true.
Proof.
  induction n as [|n IH]; intros g HI Hmu; [lia|].
  destruct (progress g HI) as [Hq | [l [Hint Hdec]]].
  - exists []. split; [reflexivity | exact Hq].
  - destruct (IH (wstep true false g l) (inv_step true g l HI)) as [ls [Hall Hq]]; [lia|].
    exists (l :: ls). split; [simpl; rewrite Hint; exact Hall | exact Hq].
Qed.

(* internal steps write nothing *)
Lemma internal_store fixed g l : internal l = true ->
  g_store (wstep fixed false g l) = g_store g /\ g_clock (wstep fixed false g l) = g_clock g.
Proof.
  destruct l; try discriminate; intros _; simpl;
    repeat match goal with |- context[match ?x with _ => _ end] => destruct x end; split; reflexivity.
Qed.

Lemma internal_run_store fixed ls : forall g, forallb internal ls = true ->
  g_store (wrun fixed false g ls) = g_store g /\ g_clock (wrun fixed false g ls) = g_clock g.
Proof.
  induction ls as [|l ls IH]; intros g H; simpl; [split; reflexivity|].
  simpl in H. apply andb_true_iff in H. destruct H as [Hl Hls].
  destruct (IH (wstep fixed false g l) Hls) as [H1 H2].
  destruct (internal_store fixed g l Hl) as [H3 H4]. split; congruence.
Qed.

(* C15_cancel_isolated: in the repaired model, from every reachable world - however many watchers were
   cancelled, wherever they were - the loop and the goroutines on their own reach a quiescent world with the
   same store, in which (by watch_latest) every watcher that is not cancelled has been shown the latest
   version of every record it is entitled to *)
Theorem cancel_isolated : forall ls,
  let g := wrun true false w0 ls in
  exists ls', forallb internal ls' = true /\
    let g' := wrun true false g ls' in
    quiescent g' = true /\ g_store g' = g_store g /\ g_clock g' = g_clock g /\
    forall w, In w (g_ws g') -> w_cancelled w = false ->
    forall k v, In (k, v) (g_store g') -> entitled w g' k = true -> last_for k (w_delivered w) = Some v.
Proof.
  intros ls. cbv zeta.
  destruct (reach_quiescent (S (mu (wrun true false w0 ls))) _ (inv_reachable true ls)) as [ls' [Hall Hq]]; [lia|].
  exists ls'. split; [exact Hall|].
  destruct (internal_run_store true ls' (wrun true false w0 ls) Hall) as [Hs Hc].
  split; [exact Hq|]. split; [exact Hs|]. split; [exact Hc|].
  apply (inv_latest true); [|exact Hq]. apply inv_run. apply inv_reachable.
Qed.

(* safety form: in the repaired model no goroutine ever ends without a drainer, and the listener the loop is
   waiting for always exists and is either ready to take the event (select / drainer) or has a step of its own *)
Theorem no_dead_listener : forall ls,
  let g := wrun true false w0 ls in
  (forall w, In w (g_ws g) -> w_phase w <> WStuck) /\
  (forall e id rest, g_loop g = LSend e (id :: rest) ->
     exists w, find_w id (g_ws g) = Some w /\ w_phase w <> WStuck /\
       (stable (w_phase w) = true -> g_loop (wstep true false g SSend) = after_targets e rest)).
Proof.
  intros ls. cbv zeta. destruct (inv_reachable true ls) as [Hk Hi Hl Hfl Hw]. rewrite Forall_forall in Hw.
  assert (Hns : forall w, In w (g_ws (wrun true false w0 ls)) -> w_phase w <> WStuck).
  { intros w Hin Ep. destruct (Hw w Hin) as [Hwf _]. unfold wf_wb in Hwf. rewrite Ep, andb_false_r in Hwf. discriminate. }
  split; [exact Hns|].
  intros e id rest El. rewrite El in Hl. destruct Hl as [_ [_ Hex]].
  destruct (find_w id (g_ws (wrun true false w0 ls))) as [w|] eqn:Hf; [|exfalso; apply (Hex id); [left; reflexivity | exact Hf]].
  exists w. destruct (find_in _ _ _ Hf) as [Hin _]. split; [reflexivity|]. split; [exact (Hns w Hin)|].
  intro Hst. simpl. rewrite El, Hf. destruct (w_phase w); try discriminate; reflexivity.
Qed.
